"""C03 - variables: (compound) assignment, type stability, storer is source of truth."""
import json

import core_common as cc
import vlib

PROPERTY = "C03"
LEVEL = "model_checking"

PROPS = ["TypeStable", "FailedStepFrozen", "WritesExplainStore"]
INV = ["ReadsSeeHostWrites", "FlowRefinesSem"]


def scope(field, exp, got, info):
    """C03 owns the storer write log, the variable contents after every Next, the error-ness of
    set/declare statements and the {$var} texts of the vars family (which consists of
    assignments, lines showing the variables and host writes only)."""
    if info["after_end"]:
        return False
    return field in ("writes", "vars", "out", "load")


def storer_part(ctx, thorough):
    r = ctx.tlc("Storer", cfg="Storer_thorough.cfg" if thorough else "Storer.cfg", workers=8,
                label="Storer: three maps refine one map (all histories)")
    behs = r.printed("BEH")
    b = ctx.tlc("Storer", cfg="Storer_bug.cfg", workers=2, must_pass=False, label="Storer KeepsOldType (must fail)")
    if not b.violated:
        raise vlib.MachineryError("non-vacuity: Storer_bug.cfg found no counterexample")
    bp = ctx.path("storer_beh.ndjson")
    vlib.write_ndjson(bp, behs)
    p = ctx.harness(["storer", "replay", "--in", bp, "--out", ctx.path("storer_diffs.ndjson")])
    stats = json.loads(p.stdout.strip().splitlines()[-1])
    for d in vlib.read_ndjson(ctx.path("storer_diffs.ndjson")):
        ctx.violation({"kind": "storer-history", "hist": d["hist"], "name": d["name"], "exp": d["exp"], "got": d["got"]},
                      "variable.InMemoryStorer after %s: name %r: abstract store says %s, the storer reports %s"
                      % (cc.short(d["hist"], 200), d["name"], cc.short(d["exp"]), cc.short(d["got"])),
                      signature="storer:two-types")
    ctx.cover(storer_histories_replayed=stats["histories"], storer_nonvacuity=True)
    return stats["histories"], behs


SPEC = dict(
    sig="vars", scope=scope,
    sc_list=[
        dict(family="vars", n=(60, 110), mc=dict(max_calls=10, after_end=0, host_writes=True, max_host_sets=1),
             mc_thorough=dict(max_host_sets=2, max_calls=6),
             invariants=["ReadsSeeHostWrites", "NextStatementFrozen"], properties=PROPS, bugs=[("failedSetWrites", ["NextStatementFrozen"], ["FailedStepFrozen"])]),
        dict(family="vars", storer="map", n=(150, 3000), mc=dict(max_calls=10, after_end=0),
             invariants=INV, properties=PROPS),
        # the same lines and assignments reached again (the node runs three times) with host writes in between
        dict(family="varsloop", n=(30, 300), mc=dict(max_calls=9, after_end=0, host_writes=True, max_host_sets=1),
             invariants=["ReadsSeeHostWrites"], properties=[]),
    ],
    cs=[dict(family="vars", n=(120, 2500), paths=(3, 5), calls=14, hostsets=True, layouts=True,
             label="YarnTrace: longer assignment histories with host writes (recording storer), declare with and without `as <type>`"),
        # expressions whose variable reads sit under unary operators, evaluated again after the variables changed
        dict(family="expr", n=(50, 500), paths=(3, 5), calls=40, hostsets=True,
             label="YarnTrace: assignments of rich expressions reached again after the variables changed"),
        dict(family="varsloop", n=(60, 600), paths=(3, 5), calls=30, hostsets=True,
             label="YarnTrace: lines and assignments reached again after host writes"),
        # variables that did not exist at the restored node entry do not exist after RestoreAt (unknown again, no type)
        dict(family="varsloop", n=(30, 300), paths=(3, 5), calls=40, mode="snap",
             label="YarnTrace: assignment histories with Snapshot / RestoreAt interleaved (three runners)"),
        dict(family="vars", storer="inmemory", n=(60, 300), paths=(3, 5), calls=14, hostsets=True,
             label="YarnTrace: host writes through a host-supplied variable.InMemoryStorer")],
    nontrivial=lambda c: sum(1 for b in c["bodies"] for s in b if s["k"] == "set" and s["op"] != "=") >= 2,
    scripts=dict(paths=(6, 30), calls=80, hostsets=True),
    rule="assignment histories over {=,+=,-=,*=,/=,%=} x {number, boolean, string, unset} current x assigned types with declare, "
         "interleaved with host writes of every type between Next calls (TLC enumerates every position and value of the host write); "
         "replayed on a recording storer wrapping variable.InMemoryStorer and on the harness's own one-map Storer; "
         "non-trivial = at least two compound assignments",
    assumptions=["reads are not compared call by call (how often the runner reads is not part of the property); that they go through "
                 "the storer is decided by effect: a host write between two steps is what the next statement sees"],
)


def string_literals(ctx):
    """set / declare / += with string literals that contain escaped quotes and backslashes: what is stored is the literal's content
    as written or with the escapes resolved (no property says which); every character of the literal counts under both readings."""
    tp = ctx.path("strlits.ndjson")
    ctx.harness(["core", "widearith", "--strings", "1", "--out", tp])
    t = ctx.tlc("WideArithTrace", files=[("trace.ndjson", tp)], workers=1, timeout=600, label="WideArithTrace (values of string literals with escapes)")
    res = t.printed("RESULT")
    events = vlib.read_ndjson(tp)
    if not res or res[-1]["lines"] != len(events):
        raise vlib.MachineryError("string literal trace not consumed:\n" + t.tail())
    if any(b["what"] == "malformed-event" for b in res[-1]["bad"]):
        raise vlib.MachineryError("the harness wrote a malformed string literal event: %s" % res[-1]["bad"][0])

    def show(tok):
        return repr(bytes.fromhex(tok[1:]).decode("utf-8", "replace")) if tok.startswith("s") else tok
    for b in res[-1]["bad"][:3]:
        e = events[b["line"] - 1]
        stmt = {"strset": "<<set $r = %s>>", "strdecl": "<<declare $r = %s>>", "strapp": "<<set $r = \"x\">> <<set $r += %s>>"}[e["op"]] % e["src"]
        ctx.violation({"kind": "strlit", "event": e},
                      "%s stored %s; the literal's value is %s (as written) or %s (escapes resolved)" % (stmt, show(e["got"]), show(e["exp"]), show(e["alt"])),
                      signature="vars:string-literal-" + b["what"])
    ctx.cover(string_literal_assignments=len(events))


def run(ctx):
    thorough = ctx.tier == "thorough"
    if ctx.replay:
        rp = json.load(open(ctx.replay))["payload"]
        if rp.get("kind") == "strlit":
            ctx.build()
            return string_literals(ctx)
        if rp.get("kind") == "storer-history":
            ctx.build()
            bp = ctx.path("storer_beh.ndjson")
            exp = {rp["name"]: rp["exp"]}
            vlib.write_ndjson(bp, [{"hist": rp["hist"], "exp": exp}])
            ctx.harness(["storer", "replay", "--in", bp, "--out", ctx.path("storer_diffs.ndjson")])
            for d in vlib.read_ndjson(ctx.path("storer_diffs.ndjson")):
                ctx.violation(rp, "replay: storer reports %s, abstract store says %s" % (cc.short(d["got"]), cc.short(d["exp"])),
                              signature="storer:two-types")
            return
        return cc.run_core_check(ctx, SPEC)
    cc.run_core_check(ctx, SPEC)
    n, behs = storer_part(ctx, thorough)
    string_literals(ctx)
    ctx.cover(traces_validated_against_impl=n, evaluations=n)
    ctx.coverage["samples"] = (ctx.coverage.get("samples") or []) + [{"storer_history": behs[len(behs) // 3]}]
