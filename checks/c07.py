"""C07 - snapshots are self-contained checkpoints; restore resumes from node entry."""
import core_common as cc

PROPERTY = "C07"
LEVEL = "model_checking"

INV = ["UnknownNodeChangesNothing", "SnapshotAtEntryIsIdentity", "StackDiscipline"]
PROPS = ["RestoreResumes", "ResnapshotEqual", "SnapshotsImmutable"]


def scope(field, exp, got, info):
    """C07 owns the snapshot families entirely: snapshot contents over time, success/failure of
    RestoreAt and every element, log and variable after a restore."""
    return True


SPEC = dict(
    sig="snap", scope=scope,
    sc=dict(family="snap", n=(16, 70), mc=dict(max_calls=7, max_polls=1, after_end=1, max_snaps=2, max_restores=1),
            mc_thorough=dict(max_calls=7, max_restores=1),
            invariants=INV, properties=PROPS, bugs=[("restoreKeepsWaiting", [], ["RestoreResumes"])]),
    cs=[dict(family="snap", n=(80, 400), paths=(3, 5), calls=45, mode="snap",
             label="YarnTrace: Next / Snapshot / RestoreAt interleaved over three runners of one script")],
    nontrivial=lambda c: any(s["k"] == "jump" for b in c["bodies"] for s in b),
    rule="snap-family programs (2-3 nodes, assignments, options, pending commands, jumps): TLC enumerates every run x every point of it "
         "as the save point (<=2 snapshots) x every later state of the runner as the restore target (mid-node, waiting for a choice, "
         "waiting for a command, ended) and the continuation after the restore; replayed with every snapshot handle re-read after "
         "every later step; three runners of one script with random interleavings of Next/Snapshot/RestoreAt across runners "
         "(also RestoreAt of a snapshot naming an unknown node) trace-validated; non-trivial = program jumps",
    assumptions=["Snapshot().Variables nil and an empty map are the same observation",
                 "scripts do not use random functions (the property excludes them)",
                 "runners are created with an empty storer, so the variables as of the first node entry are none"],
)


def run(ctx):
    cc.run_core_check(ctx, SPEC)
