"""C07 - snapshots are self-contained checkpoints; restore resumes from node entry."""
import json

import core_common as cc
import vlib

PROPERTY = "C07"
LEVEL = "model_checking"

INV = ["UnknownNodeChangesNothing", "SnapshotAtEntryIsIdentity", "StackDiscipline"]
PROPS = ["RestoreResumes", "ResnapshotEqual", "SnapshotsImmutable"]


def scope(field, exp, got, info):
    """C07 owns the snapshot families entirely: snapshot contents over time, success/failure of
    RestoreAt and every element, log and variable after a restore."""
    return True


SPEC = dict(
    sig="snap", scope=scope,
    sc=dict(family="snap", n=(16, 70), mc=dict(max_calls=7, max_polls=1, after_end=1, max_snaps=2, max_restores=1),
            mc_thorough=dict(max_calls=7, max_restores=1),
            invariants=INV, properties=PROPS, bugs=[("restoreKeepsWaiting", [], ["RestoreResumes"])]),
    cs=[dict(family="snap", n=(80, 400), paths=(3, 5), calls=45, mode="snap",
             label="YarnTrace: Next / Snapshot / RestoreAt interleaved over three runners of one script")],
    nontrivial=lambda c: any(s["k"] == "jump" for b in c["bodies"] for s in b),
    scripts=dict(paths=(3, 12), calls=60, modes=["snap"]),
    rule="snap-family programs (2-3 nodes, assignments, options, pending commands, jumps): TLC enumerates every run x every point of it "
         "as the save point (<=2 snapshots) x every later state of the runner as the restore target (mid-node, waiting for a choice, "
         "waiting for a command, ended) and the continuation after the restore; replayed with every snapshot handle re-read after "
         "every later step; three runners of one script with random interleavings of Next/Snapshot/RestoreAt across runners "
         "(also RestoreAt of a snapshot naming an unknown node) trace-validated; non-trivial = program jumps",
    assumptions=["Snapshot().Variables nil and an empty map are the same observation",
                 "scripts do not use random functions (the property excludes them)",
                 "runners are created with an empty storer, so the variables as of the first node entry are none"],
)


def abandoned_commands(ctx):
    """RestoreAt while a converted host command is still running in its goroutine: the abandoned call finishes later, and the
    restored run - which resumes from node entry like any other - calls the same command again (real goroutines, gates)."""
    thorough = ctx.tier == "thorough"
    cases_path, trace_path = ctx.path("cases_gate.ndjson"), ctx.path("trace_gate.ndjson")
    p = ctx.harness(["core", "cmdrace", "--n", 200 if thorough else 30, "--paths", 3 if thorough else 2, "--cases", cases_path, "--out", trace_path],
                    check=False, timeout=1500)
    if p.returncode != 0:
        raise vlib.MachineryError("cmdrace driver failed rc=%d: %s" % (p.returncode, p.stderr[-2000:]))
    stats = json.loads(p.stdout.strip().splitlines()[-1])
    cases, _ = cc.load_cases(cases_path)
    res = cc.validate(ctx, cases_path, trace_path, label="YarnTrace: RestoreAt while converted commands run (real goroutines)")
    tix = None
    for b in res["bad"]:
        if b["field"] == "wait-too-early":
            continue        # the timing of <<wait n>> is property C10's
        tix = tix or cc.TraceIndex(trace_path)
        ctx.violation(cc.trace_payload(cases, tix, b),
                      "run with RestoreAt during running commands rejected by the specification (case %d, trace line %d): %s"
                      % (b["id"], b["line"], cc.describe_diff(b["field"], b["exp"], b["got"])), signature="snap-gate:" + b["field"])
    ctx.cover(goroutine_runs_with_restores=stats["paths"],
              restores_while_a_command_was_running=sum(1 for e in vlib.read_ndjson(trace_path) if e["ev"] == "restore"))


def run(ctx):
    if ctx.replay:
        rp = json.load(open(ctx.replay))["payload"]
        if str(rp.get("case", {}).get("family", "")).startswith("cmdrace"):
            ctx.build()
            return abandoned_commands(ctx)      # goroutine cases cannot be re-driven event by event: re-run the stage
        return cc.run_core_check(ctx, SPEC)
    cc.run_core_check(ctx, SPEC)
    abandoned_commands(ctx)
