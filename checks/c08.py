"""C08 - layout never changes meaning (indent width, blank lines, comments, spellings)."""
import json
import os

import core_common as cc
import vlib

PROPERTY = "C08"
LEVEL = "model_checking"


def ast_part(ctx, family, n, layouts):
    cases_path = cc.gen_cases(ctx, family, n, "cases_ast_%s.ndjson" % family)
    cases, by_id = cc.load_cases(cases_path)
    out = ctx.path("astdiffs_%s.ndjson" % family)
    lexin = ctx.path("lexin_%s.ndjson" % family)
    p = ctx.harness(["core", "ast", "--cases", cases_path, "--out", out, "--layouts", layouts, "--dumplex", lexin], timeout=1500)
    stats = json.loads(p.stdout.strip().splitlines()[-1])
    for d in vlib.read_ndjson(out):
        ctx.violation({"kind": "ast", "case": by_id[d["case"]], "layout": d["layout"], "texts": d["texts"], "base": d.get("base"), "what": d["what"]},
                      "rendering of case %d (family %s) under layout %s: %s %s" % (d["case"], family, cc.short(d["layout"], 200), d["what"], d.get("detail", "")[:600]),
                      signature="layout:" + d["what"])
    # token level: the real lexer's INDENT/DEDENT tokens for every rendering == IndentLexer
    trace = ctx.path("lextrace_%s.ndjson" % family)
    ctx.harness(["lex", "record", "--in", lexin, "--out", trace])
    recs = vlib.read_ndjson(trace)
    lt = ctx.tlc("LexTrace", files=[("trace.ndjson", trace)], workers=1, timeout=1500, label="LexTrace: token streams of the renderings (%s)" % family)
    res = lt.printed("RESULT")
    if not res or res[-1]["inputs"] != len(recs):
        raise vlib.MachineryError("LexTrace did not consume the trace:\n" + lt.tail())
    res = res[-1]
    inputs = None
    for b in res["mis"] + res["bad"]:
        inputs = inputs or {i["id"]: i for i in vlib.read_ndjson(lexin)}
        ctx.violation({"kind": "lex", "input_hex": inputs[b["id"]]["hex"], "origin": inputs[b["id"]]["kind"], "diff": b},
                      "token stream of a rendering (%s) differs from the indentation model at token %d: %s %s"
                      % (inputs[b["id"]]["kind"], b["tok"], b["what"], cc.short(b["t"], 200)), signature="layout:lex-" + b["what"])
    panics = sum(1 for r in recs if r["outcome"] != "ok")
    if panics:
        raise vlib.MachineryError("%d renderings could not be lexed at all (harness renders invalid text?)" % panics)
    return stats, len(recs), res["tokens"], cases


def scope(field, exp, got, info):
    return True


SPEC = dict(
    sig="layout", scope=scope,
    cs=[dict(family="flow", n=(80, 500), paths=(4, 6), calls=30, layouts=True,
             label="YarnTrace: the same program under random layouts presents the same trace")],
    rule="for each generated program k+1 renderings (indent unit 1-8 spaces or tabs, blank / whitespace-only / comment-only lines of arbitrary "
         "indentation between any two lines at any depth, trailing comments, CRLF, redundant parentheses, operator spellings, extra blanks "
         "inside commands, if-bodies indented or not, reader splits): parsed dialogue == the generator's AST and reflect.DeepEqual to the "
         "canonical rendering's dialogue; token streams validated against IndentLexer; runs under random layouts validated against the "
         "same case; non-trivial = program nests at depth >= 2 or jumps",
    assumptions=["a trailing comment after literal text is attached without a blank: a blank before it is trailing whitespace of the text, which the lexer keeps in the TEXT token",
                 "exactly one blank follows `jump` (the lexer mode entered there has no whitespace rule: more is a syntax error of the grammar, not layout)",
                 "two option groups are never placed back to back (DESIGN.md appendix D)"],
)


def run(ctx):
    thorough = ctx.tier == "thorough"
    if ctx.replay:
        rp = json.load(open(ctx.replay))["payload"]
        if rp.get("kind") in ("ast", "lex"):
            return replay_ast(ctx, rp)
        return cc.run_core_check(ctx, SPEC)
    ctx.build()
    mi = ctx.tlc("MC_Indent", cfg="MC_Indent_thorough.cfg" if thorough else "MC_Indent.cfg", workers=8, label="MC_Indent: LayoutInvariant over all profiles x layouts")
    mb = ctx.tlc("MC_Indent", cfg="MC_Indent_bug.cfg", workers=4, must_pass=False, label="MC_Indent BlankCounts (must fail)")
    if not mb.violated:
        raise vlib.MachineryError("non-vacuity: BlankCounts did not violate LayoutInvariant")
    total_r, total_lex, total_tok = 0, 0, 0
    for family, n, k in (("flow", 800 if thorough else 60, 8 if thorough else 4), ("flowbig", 400 if thorough else 40, 8 if thorough else 4),
                         ("expr", 500 if thorough else 40, 6 if thorough else 4), ("tiny", 1500 if thorough else 60, 4),
                         ("huge", 60 if thorough else 6, 4)):
        stats, nlex, ntok, cases = ast_part(ctx, family, n, k)
        total_r += stats["renderings"]
        total_lex += nlex
        total_tok += ntok
        ctx.cover(distinct_layouts=stats["distinctLayouts"])
    cc.run_core_check(ctx, SPEC)
    ctx.cover(renderings_parsed=total_r, renderings_lexed=total_lex, lexer_tokens_validated=total_tok,
              traces_validated_against_impl=total_r, evaluations=total_r, nonvacuity={"BlankCounts": True})


def replay_ast(ctx, rp):
    ctx.build()
    if rp["kind"] == "lex":
        lexin = ctx.path("lexin.ndjson")
        vlib.write_ndjson(lexin, [{"id": 1, "kind": rp.get("origin", "replay"), "hex": rp["input_hex"]}])
        trace = ctx.path("lextrace.ndjson")
        ctx.harness(["lex", "record", "--in", lexin, "--out", trace])
        lt = ctx.tlc("LexTrace", files=[("trace.ndjson", trace)], workers=1, label="LexTrace: replay")
        res = lt.printed("RESULT")[-1]
        for b in res["mis"] + res["bad"]:
            ctx.violation(rp, "replay: token stream differs from the indentation model: %s" % b["what"], signature="layout:lex-" + b["what"])
        return
    p = ctx.path("texts.json")
    json.dump({"texts": rp["texts"], "base": rp.get("base"), "case": rp["case"]}, open(p, "w"))
    r = ctx.harness(["core", "astone", "--in", p])
    out = json.loads(r.stdout.strip().splitlines()[-1])
    if out["what"]:
        ctx.violation(rp, "replay: " + out["what"], signature="layout:" + out["what"])
