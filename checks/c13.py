"""C13 - markup parsing recovers the plain text and exactly the enclosed ranges.

Model (TLC):   MC_Markup.tla: over ALL item sequences up to a length, the position
               arithmetic shaped like parseMarkup/buildAttributesFromMarkers equals the
               provenance-based meaning of "the text a marker enclosed"; text = items without
               markers; ranges inside the text; Bug_* switches must each be caught.
Spec -> code:  every line of the C13 region enumerated by TLC is printed with the results a
               correct parser may return; the harness concretises it (class-preserving renaming
               of the characters incl. 2/3/4-byte ones, layout inside brackets) and compares
               Text, every attribute (multiset; typed properties as maps) and TextForAttribute.
Code -> spec:  random long lines of the same grammar through LineParser.ParseMarkup and through
               a dialogue runner (Line.Attributes); MarkupTrace.tla recomputes every result.
"""
import os

import vlib
import markup_common as mc

PROPERTY = "C13"
LEVEL = "model_checking"


def run(ctx):
    thorough = ctx.tier == "thorough"
    ctx.build()
    if ctx.replay:
        return mc.replay_c13(ctx)
    samples = []

    # ------------------------------------------------------------------ model + S->C
    alpha, maxlen = ("t", 4) if thorough else ("q", 4)
    cfg = mc.write_cfg(ctx, "MC_Markup_run.cfg", MaxLen=maxlen, Alpha='"%s"' % alpha, EmitBeh="TRUE")
    r = ctx.tlc("MC_Markup", cfg="MC_Markup_run.cfg", files=[("MC_Markup_run.cfg", cfg)], workers=8, timeout=1500,
                label="MC_Markup (A = B, text, ranges; alphabet %s, <= %d items)" % (alpha, maxlen))
    if not r.printed_to_file("BEH", ctx.path("beh.ndjson")):
        raise vlib.MachineryError("MC_Markup printed no line to replay")
    # markers directly after markers / replacements / swallowed blanks (alphabet "n") and a
    # name opened while it is open, under a third marker (alphabet "m")
    extra = {}
    for a, ml in (("n", 7 if thorough else 6), ("m", 8 if thorough else 7)):
        name = "MC_Markup_%s.cfg" % a
        c = mc.write_cfg(ctx, name, MaxLen=ml, Alpha='"%s"' % a, EmitBeh="TRUE")
        ra = ctx.tlc("MC_Markup", cfg=name, files=[(name, c)], workers=8, timeout=2400,
                     label="MC_Markup (alphabet %s, <= %d items)" % (a, ml))
        nb = ra.printed_to_file("BEH", ctx.path("beh2.ndjson"), mode="a")
        if not nb:
            raise vlib.MachineryError("MC_Markup (alphabet %s) printed no line to replay" % a)
        extra[a] = {"max_items": ml, "states": ra.distinct, "lines": nb}
    nonvac = mc.nonvacuity(ctx, ["Bug_BytePositions", "Bug_NoTrimAdjust", "Bug_CloseAllClosesLast", "Bug_NoSwallow"])

    p = ctx.harness(["markup", "replay", "--in", ctx.path("beh.ndjson"), "--out", ctx.path("diffs.ndjson"),
                     "--variants", 3 if thorough else 2], timeout=1500)
    rstats = mc.last_json(p.stdout)
    p2 = ctx.harness(["markup", "replay", "--in", ctx.path("beh2.ndjson"), "--out", ctx.path("diffs2.ndjson"),
                      "--variants", 2 if thorough else 1], timeout=1500)
    r2 = mc.last_json(p2.stdout)
    for k in ("cases", "runs", "diffs", "multibyte_runs", "edge_whitespace_cases", "same_name_nesting_cases",
              "pairing_first_only", "pairing_last_only"):
        rstats[k] += r2[k]
    ctx.log("spec->code: %d lines, %d parses, %d differ; %d lines with a name nested in itself: %d only explained by pairing "
            "with the first open marker, %d only by the last" % (rstats["cases"], rstats["runs"], rstats["diffs"],
            rstats["same_name_nesting_cases"], rstats["pairing_first_only"], rstats["pairing_last_only"]))
    mc.report_diffs(ctx, vlib.read_ndjson(ctx.path("diffs.ndjson")) + vlib.read_ndjson(ctx.path("diffs2.ndjson")), "replay")
    samples.append({"replayed_line": mc.cps_to_str(rstats["sample"])})

    # ------------------------------------------------------------------ C->S
    n = 6000 if thorough else 1200
    ctx.harness(["markup", "gen", "--n", n, "--max", 48 if thorough else 36, "--out", ctx.path("cases.ndjson")])
    tstats = mc.record_and_validate(ctx, ctx.path("cases.ndjson"), "trace.ndjson")
    samples.append({"random_line": tstats["sample"]})

    selftest = mc.binding_selftest(ctx, ctx.path("trace.ndjson")) if thorough else None

    ctx.cover(
        traces_validated_against_impl=rstats["runs"] + tstats["events"],
        lines_enumerated_by_tlc=r.distinct, lines_in_c13_region_replayed=rstats["cases"],
        replay_parses=rstats["runs"], replay_parses_with_multibyte=rstats["multibyte_runs"],
        replayed_lines_with_edge_whitespace=rstats["edge_whitespace_cases"],
        random_lines=tstats["cases"], trace_events=tstats["events"], trace_events_via_runner=tstats["runner_events"],
        trace_events_checked=tstats["checked"], runner_lines_skipped=tstats["runner_skipped"],
        random_lines_nontrivial=tstats["nontrivial"], random_lines_same_name_nesting=tstats["same_name_nesting"],
        adjacency_and_nesting_alphabets=extra, replayed_lines_same_name_nesting=rstats["same_name_nesting_cases"],
        pairing_of_same_name_nesting={"replay_first_only": rstats["pairing_first_only"], "replay_last_only": rstats["pairing_last_only"],
                                      "trace": tstats["pairing"]},
        evaluations=rstats["runs"] + tstats["events"], distinct_nontrivial=tstats["nontrivial"],
        rule="spec->code: every item sequence of the C13 region with <= %d items over the %d-item alphabet '%s', after each of 4 starts (no prefix or one of 3 `Name:` prefixes); "
             "code->spec: random lines, non-trivial = at least two markers open at once (nesting/overlap) and a multi-byte character" % (
                 maxlen, 24 if thorough else 15, alpha),
        exhaustive=True, nonvacuity=nonvac, samples=samples,
    )
    if selftest is not None:
        ctx.cover(binding_selftest=selftest)
    ctx.assumptions += mc.ASSUMPTIONS_C13
