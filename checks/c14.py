"""C14 - markup parsing is a pure function of the line.

Model (TLC):   MC_MarkupHistory.tla: the parser value's persistent fields across calls; every
               history of <= 3 calls over all lines of <= 2 (thorough: 3) items incl. failing
               lines; invariant HistoryIndependent; Bug_NoResetSourcePosition must be caught.
Code -> spec:  histories on one reused markup.LineParser vs a fresh parser per call (valid,
               failing and arbitrary lines; lines repeat within a history), and dialogue runs
               in which the same marked-up lines are reached after different prefixes (loop,
               different option bodies, failing lines in between); MarkupHistoryTrace.tla
               requires every result for a line to equal the one first seen on a fresh parser.
"""
import json

import vlib
import markup_common as mc

PROPERTY = "C14"
LEVEL = "model_checking"


def run(ctx):
    thorough = ctx.tier == "thorough"
    ctx.build()
    if ctx.replay:
        payload = json.load(open(ctx.replay))["payload"]
        vlib.write_ndjson(ctx.path("rcases.ndjson"), [payload["case"]])
        st = mc.run_history(ctx, cases=ctx.path("rcases.ndjson"), label="MarkupHistoryTrace (replay of one stored history)")
        ctx.cover(traces_validated_against_impl=1, evaluations=st["events"], distinct_nontrivial=0,
                  rule="replay of one stored history", samples=[{"line": mc.cps_to_str(payload["line"])}])
        return

    # ------------------------------------------------------------------ model
    cfg = "MC_MarkupHistory_thorough.cfg" if thorough else "MC_MarkupHistory.cfg"
    r = ctx.tlc("MC_MarkupHistory", cfg=cfg, workers=8, timeout=1500, label="MC_MarkupHistory (HistoryIndependent)")
    nonvac = {}
    b = ctx.tlc("MC_MarkupHistory", cfg="MC_MarkupHistory_bug.cfg", workers=4, must_pass=False, timeout=600,
                label="MC_MarkupHistory with Bug_NoResetSourcePosition (must fail)")
    nonvac["Bug_NoResetSourcePosition"] = sorted(set(b.violated))
    if "HistoryIndependent" not in b.violated:
        raise vlib.MachineryError("non-vacuity: Bug_NoResetSourcePosition produced no counterexample:\n" + b.tail())
    rc = ctx.tlc("MC_MarkupHistory", cfg="MC_MarkupHistory_reach.cfg", workers=4, must_pass=False, timeout=600,
                 label="MC_MarkupHistory reachability: a failing line followed by a line with attributes (must fail)")
    nonvac["failing_then_attributed_line_reachable"] = bool(rc.violated)
    if not rc.violated:
        raise vlib.MachineryError("MC_MarkupHistory: histories with a failing line are not reachable")

    # ------------------------------------------------------------------ C->S
    n = 8000 if thorough else 300
    st = mc.run_history(ctx, n=n)
    events = st.pop("events_list")
    ctx.log("histories: %d direct, %d dialogue runs (%d skipped), %d events, %d distinct lines, %d compared, %d differ" % (
        st["histories"], st["runner_runs"], st["runner_skipped"], st["events"], st["distinct_lines"], st["checked"], st["bad"]))
    if st["runner_runs"] == 0:
        raise vlib.MachineryError("no dialogue run could be judged")
    selftest = mc.history_selftest(ctx, events) if thorough else None

    # distinct (line, depth in history) pairs with depth >= 2 on a reused parser / runner
    seen, depth = set(), {}
    for e in events:
        if e.get("ev") != "parse" or e["p"] == "fresh":
            continue
        depth[e["h"]] = depth.get(e["h"], 0) + 1
        if depth[e["h"]] >= 2:
            seen.add((e["line"], depth[e["h"]], e["p"]))
    ctx.cover(
        traces_validated_against_impl=st["histories"] + st["runner_runs"],
        histories_on_reused_parser=st["histories"], dialogue_runs=st["runner_runs"], dialogue_runs_skipped=st["runner_skipped"],
        trace_events=st["events"], results_compared_with_fresh=st["checked"], distinct_lines=st["distinct_lines"],
        failing_line_parses=st["failing_line_parses"],
        evaluations=st["checked"], distinct_nontrivial=len(seen),
        rule="non-trivial = distinct (line, position >= 2 in its history or dialogue run, reused parser | runner) triples",
        exhaustive=True, nonvacuity=nonvac, samples=[{"line": st["sample"]}],
        model_lines=72 if not thorough else 136, model_calls=3,
    )
    if selftest is not None:
        ctx.cover(binding_selftest=selftest)
    ctx.assumptions += mc.ASSUMPTIONS_C14
