"""C05 - loading any input yields a runner or an error; bad syntax is an error.

Model (TLC):   Loader.tla = the load protocol (readers parsed one by one, nodes
               collected, first node taken, RNG created from the seed) and the
               declarative statement of the property, Allowed(readers, whole, seed);
               MC_Loader checks over every vector of <= 3 readers x whole-input class x
               seed class that the protocol is total, terminates, never panics and is
               deterministic wherever the property prescribes the outcome; three Bug_*
               switches (syntax errors ignored, no-node check missing, mixed indentation
               panics = the three mechanisms of the pinned tree) must be caught.
Spec -> code:  every (readers, seed) row of that decision table is concretised into real
               reader contents and loaded with the real library.
Code -> spec:  seeded inputs (fixtures, generated valid scripts, token/line/byte mutations,
               random bytes, blank / node-less texts, mixed tabs+spaces, junk before/after)
               split over 0-4 readers at node boundaries and arbitrary byte offsets, seeds
               of every class; NewDialogueRunner runs under recover + watchdog; one `load`
               event per input carries the facts of an independent ANTLR error listener
               (per reader and for the concatenation); LoaderTrace.tla decides.
"""
import collections
import hashlib
import json
import os
import threading

import vlib

PROPERTY = "C05"
LEVEL = "exploration"

TLA_FIELDS = ("id", "readers", "whole", "blank", "seedclass", "outcome", "startok")
FACT_FIELDS = ("errs", "mixed", "nodes", "consumed", "opanic", "blank")
MAX_REPLAYS_PER_SIGNATURE = 3


def slim(ev):
    """The part of an event the trace specification reads (small, ASCII, ints/bools only)."""
    out = {k: ev[k] for k in TLA_FIELDS}
    out["readers"] = [{f: r[f] for f in FACT_FIELDS} for r in ev["readers"]]
    out["whole"] = {f: ev["whole"][f] for f in FACT_FIELDS}
    return out


def signature(b):
    what, why = b["what"], b["why"]
    if what == "accepted":
        return "load:%s-accepted" % why
    if what in ("panic", "timeout"):
        return "load:%s-%s" % (what, why)  # why: empty, syntax-error, mixed-indent, trailing-input, no-node, open, valid
    if what == "rejected":
        return "load:valid-rejected"
    return "load:" + what  # wrong-start-node, unknown-outcome


def describe(inp, ev, b):
    def txt(h):
        s = bytes.fromhex(h)
        return repr(s[:120].decode("utf-8", "replace")) + ("..." if len(s) > 120 else "")
    readers = ", ".join(txt(h) for h in inp["readers"]) or "(no reader)"
    facts = "; ".join("reader %d: errs=%d mixed=%d nodes=%d consumed=%s%s" % (
        i + 1, r["errs"], r["mixed"], r["nodes"], r["consumed"],
        (" [" + r["odetail"] + "]") if r.get("odetail") else "") for i, r in enumerate(ev["readers"]))
    return ("NewDialogueRunner(seed=%s, readers=[%s]) -> %s%s; the property allows %s (input class: %s; oracle: %s)"
            % (txt(inp["seed"]), readers, ev["outcome"], (" (" + ev["detail"] + ")") if ev.get("detail") else "",
               "/".join(sorted(b["allowed"])), b["why"], facts or "-"))


def run_trace(ctx, events, label, cfg="LoaderTrace.cfg"):
    p = ctx.path("ltrace-%d.ndjson" % (ctx.n_tlc + 1))
    vlib.write_ndjson(p, [slim(e) for e in events])
    t = ctx.tlc("LoaderTrace", cfg=cfg, files=[("trace.ndjson", p)], workers=1, label=label, timeout=1500, heap="8g")
    res = t.printed("RESULT")
    if not res:
        raise vlib.MachineryError("LoaderTrace printed no RESULT:\n" + t.tail())
    res = res[-1]
    if res["events"] != len(events):
        raise vlib.MachineryError("load trace not consumed completely: %d of %d" % (res["events"], len(events)))
    return res


def record(ctx, inputs_path, n_inputs, parts):
    """Run `loader record` over the inputs in `parts` sequential harness processes side by side."""
    if parts <= 1 or n_inputs < 200:
        out = ctx.path("ltrace.ndjson")
        ctx.harness(["loader", "record", "--in", inputs_path, "--out", out], timeout=3000)
        return vlib.read_ndjson(out)
    lines = open(inputs_path).read().splitlines()
    errs, outs = [], []

    def work(k):
        try:
            pin, pout = ctx.path("lin-%d.ndjson" % k), ctx.path("lout-%d.ndjson" % k)
            with open(pin, "w") as f:
                f.write("\n".join(lines[k::parts]) + "\n")
            ctx.harness(["loader", "record", "--in", pin, "--out", pout], timeout=3000)
            outs.append(vlib.read_ndjson(pout))
        except Exception as e:  # noqa: BLE001 - re-raised below
            errs.append(e)

    ths = [threading.Thread(target=work, args=(k,)) for k in range(parts)]
    for t in ths:
        t.start()
    for t in ths:
        t.join()
    if errs:
        raise errs[0]
    evs = [e for part in outs for e in part]
    evs.sort(key=lambda e: e["id"])
    return evs


def report(ctx, res, inputs, events, per_sig=None):
    evs = {e["id"]: e for e in events}
    per_sig = per_sig if per_sig is not None else collections.Counter()
    for b in sorted(res["bad"], key=lambda b: b["id"]):
        sig = signature(b)
        per_sig[sig] += 1
        if per_sig[sig] > MAX_REPLAYS_PER_SIGNATURE:
            continue
        inp, ev = inputs[b["id"]], evs[b["id"]]
        if b["what"] == "timeout" and not getattr(ctx, "_c05_rechecking", False):
            # a watchdog timeout is only a verdict on the code if it is reproducible: re-run that one
            # input alone in a fresh process (a loaded machine must not produce a violation)
            ctx._c05_rechecking = True
            try:
                one = dict(inp, id=1)
                rp = ctx.path("timeout-recheck-%d.ndjson" % b["id"])
                vlib.write_ndjson(rp, [one])
                again = record(ctx, rp, 1, 1)
            finally:
                ctx._c05_rechecking = False
            if again and again[0]["outcome"] != "timeout":
                ctx.cover(transient_timeouts_not_reproduced=1)
                ctx.notes.append("input %d timed out once under load and loaded normally when re-run alone (%s)" % (b["id"], again[0]["outcome"]))
                continue
        ctx.violation({"kind": "load", "input": inp, "event": ev, "verdict": b}, describe(inp, ev, b), signature=sig)
    return per_sig


def replay(ctx):
    payload = json.load(open(ctx.replay))["payload"]
    inp = dict(payload["input"], id=1)
    vlib.write_ndjson(ctx.path("rin.ndjson"), [inp])
    events = record(ctx, ctx.path("rin.ndjson"), 1, 1)
    res = run_trace(ctx, events, "LoaderTrace (replay)")
    report(ctx, res, {1: inp}, events)
    ctx.cover(evaluations=1, distinct_nontrivial=0, rule="replay of one stored case", samples=[slim(events[0])])


def run(ctx):
    thorough = ctx.tier == "thorough"
    ctx.build()
    if ctx.replay:
        return replay(ctx)

    # ------------------------------------------------------------------ model
    mc = ctx.tlc("MC_Loader", cfg="MC_Loader.cfg", workers=4, label="MC_Loader (protocol total, terminating, within Allowed)")
    rows = mc.printed("BEH")
    if len(rows) < 1000:
        raise vlib.MachineryError("MC_Loader printed only %d decision-table rows" % len(rows))
    ctx.tlc("MC_Loader", cfg="MC_Loader_strict.cfg", workers=4, label="MC_Loader (per-reader-only reading)")
    nonvac = {}
    for cfg in ("MC_Loader_bug1.cfg", "MC_Loader_bug2.cfg", "MC_Loader_bug3.cfg"):
        rr = ctx.tlc("MC_Loader", cfg=cfg, workers=2, must_pass=False, timeout=300, label=cfg + " (must fail)")
        nonvac[cfg] = bool(rr.violated)
        if not rr.violated:
            raise vlib.MachineryError("non-vacuity config %s did not produce a counterexample" % cfg)

    # ---- the oracle's indentation layer (harness reflexer.go) is the specification's: its token
    # streams on the lexer corpus must be exactly what IndentLexer prescribes (else: machinery)
    ctx.harness(["lex", "corpus", "--n", 1500 if thorough else 300, "--out", ctx.path("lexin.ndjson")])
    ctx.harness(["lex", "record", "--in", ctx.path("lexin.ndjson"), "--out", ctx.path("lexref.ndjson"), "--ref", "only"])
    lt = ctx.tlc("LexTrace", files=[("trace.ndjson", ctx.path("lexref.ndjson"))], workers=1, timeout=1500,
                 label="LexTrace: the oracle's indentation layer == IndentLexer")
    lres = lt.printed("RESULT")
    if not lres or lres[-1]["mis"] or lres[-1]["bad"]:
        raise vlib.MachineryError("the oracle's reference indentation layer disagrees with IndentLexer: %s"
                                  % (lres[-1] if lres else lt.tail()))
    ctx.cover(oracle_indentation_layer_inputs_validated=lres[-1]["inputs"], oracle_indentation_layer_tokens=lres[-1]["tokens"])

    # ------------------------------------------------- corpus + real loads
    vlib.write_ndjson(ctx.path("table.ndjson"), rows)
    n = 100000 if thorough else 6000
    repo = ctx.copy_repo()
    ctx.harness(["loader", "corpus", "--n", n, "--out", ctx.path("lin.ndjson"), "--table", ctx.path("table.ndjson"),
                 "--testdata", os.path.join(repo, "testdata") + "," + os.path.join(repo, "internal", "tree", "testdata")])
    inputs = {i["id"]: i for i in vlib.read_ndjson(ctx.path("lin.ndjson"))}
    events = record(ctx, ctx.path("lin.ndjson"), len(inputs), 8 if thorough else 4)
    if len(events) != len(inputs):
        raise vlib.MachineryError("recorded %d events for %d inputs" % (len(events), len(inputs)))
    ctx.log("recorded %d load events" % len(events))

    # ------------------------------------------------------ the spec decides
    res = run_trace(ctx, events, "LoaderTrace (real loads)")
    per_sig = report(ctx, res, inputs, events)
    if res["nbad"] > len(res["bad"]):
        ctx.notes.append("%d rejected events, only the first %d were classified" % (res["nbad"], len(res["bad"])))
    if per_sig:
        ctx.notes.append("rejected events per signature: %s (at most %d replay files each)"
                         % (dict(per_sig), MAX_REPLAYS_PER_SIGNATURE))

    # informational: the stricter per-reader-only reading of DESIGN.md (never a verdict)
    if thorough:
        strict = run_trace(ctx, events, "LoaderTrace (per-reader-only reading, informational)", cfg="LoaderTrace_strict.cfg")
        ctx.cover(strict_reading_rejected_events=strict["nbad"], strict_reading_prescribed=strict["mustError"] + strict["mustRunner"])

    # --------------------------------- binding self-test: corrupted outcomes
    def cls(r):
        if r["mixed"] == 2:
            return "invalid"
        if r["opanic"]:
            return "open"
        if r["errs"] > 0 or not r["consumed"] or r["nodes"] == 0:
            return "invalid"
        return "open" if r["mixed"] == 1 else "valid"

    bad_ids = {b["id"] for b in res["bad"]}
    selftest = "skipped"
    if res["nbad"] == len(res["bad"]):
        one = [e for e in events if len(e["readers"]) == 1 and e["id"] not in bad_ids]
        me = next((e for e in one if cls(e["whole"]) == "invalid" and e["outcome"] == "error"), None)
        mr = next((e for e in one if cls(e["whole"]) == "valid" and e["seedclass"] != "invalid" and e["outcome"] == "runner"), None)
        op = next((e for e in one if cls(e["whole"]) == "valid" and e["seedclass"] == "invalid"), None)
        if me and mr and op:
            sample = [dict(me, id=1), dict(mr, id=2), dict(op, id=3),                 # untouched: accepted
                      dict(me, id=4, outcome="runner"), dict(mr, id=5, outcome="error"),  # flipped: rejected
                      dict(mr, id=6, outcome="panic"), dict(mr, id=7, startok=False),
                      dict(op, id=8, outcome="runner"), dict(op, id=9, outcome="error")]  # open: both accepted
            st = run_trace(ctx, sample, "LoaderTrace (self-test: corrupted outcomes)")
            got = sorted((b["id"], b["what"]) for b in st["bad"])
            want = [(4, "accepted"), (5, "rejected"), (6, "panic"), (7, "wrong-start-node")]
            if got != want:
                raise vlib.MachineryError("binding self-test failed: trace spec rejected %s, expected %s" % (got, want))
            selftest = "rejected exactly the 4 corrupted events out of 9"

    # ---------------------------------------------------------------- evidence
    kinds = collections.Counter(e["kind"].split("/")[0] for e in events)
    outcomes = collections.Counter(e["outcome"] for e in events)
    splits = collections.Counter(len(e["readers"]) for e in events)
    seeds = collections.Counter(e["seedclass"] for e in events)
    reader_classes = collections.Counter(cls(r) for e in events for r in e["readers"])
    reasons = collections.Counter()
    for e in events:
        for r in e["readers"]:
            if cls(r) == "invalid":
                reasons["mixed-indent" if r["mixed"] == 2 else "syntax-error" if r["errs"] > 0 else
                        "no-node" if r["nodes"] == 0 else "trailing-input"] += 1
    gen_valid = [e for e in events if e["kind"] == "gen-valid/one"]
    gen_valid_ok = sum(1 for e in gen_valid if cls(e["whole"]) == "valid")
    nontrivial = len({hashlib.sha1(json.dumps(inputs[e["id"]]["readers"]).encode()).hexdigest()
                      for e in events if any(r["nodes"] > 0 for r in e["readers"])})
    table = [e for e in events if e["kind"] == "table"]
    kind_class = {"V1": "valid", "V2": "valid", "SE": "invalid", "MX": "invalid", "EM": "invalid", "TR": "invalid", "MS": "open"}
    mismatch = 0
    for e in table:
        intent = inputs[e["id"]]["intent"].split("|")[0]
        want = [kind_class[k] for k in intent.split(",")] if intent else []
        got = [cls(r) for r in e["readers"]]
        # tabs+spaces in front of a blank line: "open", or "invalid" when this tree's lexer reports it itself
        if any(w != g and not (w == "open" and g == "invalid") for w, g in zip(want, got)):
            mismatch += 1
    if mismatch:
        ctx.notes.append("%d decision-table rows whose concrete readers the oracle classifies differently from the intended kind "
                         "(judged by the oracle's facts)" % mismatch)
    usable = collections.Counter(e["usable"] for e in events)

    def sample(e, width=80):
        i = inputs[e["id"]]
        return {"kind": e["kind"], "readers": [bytes.fromhex(h)[:width].decode("utf-8", "replace") for h in i["readers"]],
                "seed": bytes.fromhex(i["seed"])[:20].decode("utf-8", "replace"),
                "oracle": [{f: r[f] for f in FACT_FIELDS} for r in e["readers"]], "outcome": e["outcome"]}
    picks = []
    for want in ("degenerate", "gen-mixed", "gen-mutated", "table"):
        ev = next((e for e in events if e["kind"].split("/")[0] == want and sum(r["len"] for r in e["readers"]) < 160
                   and len(e["readers"]) >= 1), None)
        if ev:
            picks.append(sample(ev))

    probe_panics = [sample(e, 400) for e in events if e["usable"] in ("panic", "timeout")][:3]
    if probe_panics:
        ctx.notes.append("Next(0) panicked or hung on %d loaded valid scripts (recorded only; running a script is property C06's): "
                         "see runner_next_probe_failures" % sum(1 for e in events if e["usable"] in ("panic", "timeout")))
        ctx.cover(runner_next_probe_failures=[dict(p, readers=[r[:400] for r in p["readers"]]) for p in probe_panics])

    ctx.cover(
        evaluations=len(events),
        distinct_nontrivial=nontrivial,
        rule="one evaluation = one NewDialogueRunner call on a seeded input judged by LoaderTrace against the facts of an independent "
             "ANTLR error listener; non-trivial = distinct reader-content vectors in which the oracle recognises at least one node "
             "(i.e. not blank input or noise)",
        traces_validated_against_impl=len(events),
        decision_table_rows=len(rows), decision_table_rows_loaded=len(table), decision_table_class_mismatch=mismatch,
        events_where_error_is_prescribed=res["mustError"], events_where_runner_is_prescribed=res["mustRunner"],
        events_where_both_are_allowed=res["open"],
        input_kinds=dict(kinds), outcomes=dict(outcomes), readers_per_load={str(k): v for k, v in sorted(splits.items())},
        seed_classes=dict(seeds), reader_classes_by_oracle=dict(reader_classes), invalid_reader_reasons=dict(reasons),
        generated_scripts=len(gen_valid), generated_scripts_valid_by_oracle=gen_valid_ok,
        runner_next_probe=dict(usable),
        rejected_events=res["nbad"], rejected_by_signature=dict(per_sig),
        nonvacuity=nonvac, binding_selftest=selftest,
        samples=picks,
    )
    ctx.assumptions += [
        "'syntactically valid' is what ANTLR reports for the repository's own generated grammar (lexer + parser with a counting error "
        "listener, parse must reach the end of the input); the grammar is not re-implemented in TLA+",
        "tabs+spaces indentation is detected on the raw NEWLINE tokens below the indentation layer; in front of a blank or comment-only "
        "line the property is read as leaving the outcome open (runner or error, never a panic)",
        "each reader is parsed on its own by FromReaders: an outcome is prescribed only where the per-reader reading and the "
        "whole-input reading agree (always the case with one reader); elsewhere runner or error are both accepted, a panic never",
        "a valid script with a seed outside [0-9a-z]* may load or be refused (the property says 'runner or error')",
        "the usability probe (Next(0) x3 on scripts known to yield) is recorded, not judged: running a loaded script is C06's",
        "inputs are bounded: fixtures <= 2 kB, generated scripts <= ~4 kB, random bytes <= 160 B, seeds <= 3.2 kB",
    ]
