"""C11 - visited / visited_count count completed visits of tracked nodes only."""
import core_common as cc

PROPERTY = "C11"
LEVEL = "model_checking"

INV = ["CountIsJumpsOut", "VisitedIffPositive", "UnknownIsZero"]
PROPS = ["VisitsMonotone", "OnlyJumpsChangeVisits"]


def scope(field, exp, got, info):
    """C11 owns Snapshot().VisitedNodes after every step and the line at the head of every
    node body, which renders visited()/visited_count() for every node and for a name that is
    not a node."""
    if info["after_end"] and info["ev"] == "next" and info["family"] != "visits":
        return False
    if field in ("visits", "snapshot", "snapshot-changed"):
        return True
    if field == "out" and isinstance(exp, dict) and isinstance(got, dict):
        return (exp.get("k") == "line" and got.get("k") == "line" and exp.get("node") == got.get("node")
                and str(exp.get("text", "")).startswith("Node ") and str(got.get("text", "")).startswith("Node "))
    return False


def has_cycle_or_never(c):
    jumps = sum(1 for b in c["bodies"] for s in b if s["k"] == "jump")
    return jumps >= 2 or any(n["tracking"] == "never" for n in c["nodes"])


SPEC = dict(
    sig="visits", scope=scope, nontrivial=has_cycle_or_never,
    sc=dict(family="visits", n=(220, 1500), mc=dict(max_calls=12, after_end=1), mc_thorough=dict(max_calls=16),
            invariants=INV, properties=PROPS, bugs=[("visitOnEntry", INV, [])]),
    cs=[dict(family="visits", n=(80, 500), paths=(4, 6), calls=50, layouts=True,
             label="YarnTrace: random walks through jump graphs"),
        dict(family="visits", n=(10, 80), paths=(2, 3), calls=400,
             label="YarnTrace: long walks (hundreds of jumps, counts in the hundreds)"),
        # counts are "unaffected by anything but jumps and restores": restores between nodes of different tracking modes
        dict(family="visits", n=(60, 300), paths=(3, 5), calls=45, mode="snap",
             label="YarnTrace: jump graphs with Snapshot / RestoreAt interleaved (three runners)")],
    scripts=dict(paths=(4, 20), calls=90, modes=[None, "snap"], mc=dict(invariants=INV, properties=PROPS, max_calls=9, after_end=1)),
    rule="jump graphs on <=3 nodes (self-loops, cycles, jumps out of nested option/if bodies, jumps by expression and through a probe), "
         "tracking in {none, always, never} per node: all paths up to 12/16 calls enumerated by TLC and replayed; random longer walks "
         "trace-validated; visited/visited_count rendered at every node entry for every node and a non-node, Snapshot().VisitedNodes "
         "read after every step; non-trivial = at least two jump statements or a node with tracking: never",
    assumptions=["an absent entry and an entry equal to 0 in Snapshot().VisitedNodes are the same observation"],
)


def run(ctx):
    cc.run_core_check(ctx, SPEC)
