"""Shared pipeline of the checks that are decided on the runner specification
(spec/YarnRunner.tla): C01, C02, C03, C06, C07, C08, C10, C11, C12, C18.

  model      MC_Runner.tla over generated programs: the property's invariants on every
             path / completion schedule / host write, non-vacuity via Bug switches
  spec->code every maximal behaviour TLC enumerated is replayed on the real runner
  code->spec random walks of the real runner (random layouts, host actions) are
             validated event by event by YarnTrace.tla

Each property supplies a *scope rule*: which divergences count for it (DESIGN.md section 4).
"""
import json
import os

import vlib

import re

_CASE_RE = re.compile(r'^\{"case":(\d+),')

ALL_INVARIANTS = ["FlowRefinesSem", "NextArgIgnored", "StackDiscipline", "EndAbsorbing", "EndReportedOnlyWhenEnded",
                  "PendingNextIsNoOp", "DoneNeverWaits", "WaitingOnlyWhilePending", "CountIsJumpsOut",
                  "VisitedIffPositive", "UnknownIsZero", "NextStatementFrozen"]
ALL_PROPERTIES = ["TypeStable", "FailedStepFrozen", "WritesExplainStore", "VisitsMonotone", "OnlyJumpsChangeVisits"]

BUGS = ["stopKeepsStack", "staleChoiceAfterEnd", "restoreKeepsWaiting", "visitOnEntry", "secondClauseAlsoRuns",
        "jumpKeepsStack", "pendingPollReruns", "failedSetWrites"]


def mc_cfg(ctx, name, *, max_calls=12, max_polls=1, after_end=2, host_writes=False, max_host_sets=0, emit=True,
           invariants=None, properties=None, bug=None, max_snaps=0, max_restores=0, max_rebinds=0):
    """Writes a config for MC_Runner.tla into the scratch dir; returns (cfg name, path)."""
    inv = list(invariants if invariants is not None else ALL_INVARIANTS)
    props = list(properties if properties is not None else ALL_PROPERTIES)
    if emit:
        inv.append("Emit")
    lines = ["SPECIFICATION Spec", "CONSTANTS",
             "  MaxCalls = %d" % max_calls, "  MaxPolls = %d" % max_polls, "  AfterEnd = %d" % after_end,
             "  HostWrites = %s" % ("TRUE" if host_writes else "FALSE"), "  MaxHostSets = %d" % max_host_sets,
             "  EmitBeh = %s" % ("TRUE" if emit else "FALSE"),
             "  MaxSnaps = %d" % max_snaps, "  MaxRestores = %d" % max_restores, "  MaxRebinds = %d" % max_rebinds]
    if bug:
        lines.append("  Bug <- Bug_%s" % bug)
    else:
        lines.append("  Bug <- NoBugs")
    lines.append("INVARIANTS " + " ".join(inv))
    if props:
        lines.append("PROPERTIES " + " ".join(props))
    lines.append("CHECK_DEADLOCK FALSE")
    path = ctx.path(name)
    with open(path, "w") as f:
        f.write("\n".join(lines) + "\n")
    return name, path


def gen_cases(ctx, family, n, out, storer=None):
    args = ["core", "gen", "--family", family, "--n", n, "--out", ctx.path(out)]
    if storer:
        args += ["--storer", storer]
    ctx.harness(args)
    return ctx.path(out)


def model_check(ctx, cases_path, cfgname, cfgpath, workers=8, timeout=1500, label=None):
    return ctx.tlc("MC_Runner", cfg=cfgname, files=[("cases.ndjson", cases_path), (cfgname, cfgpath)],
                   workers=workers, timeout=timeout, label=label)


def nonvacuity(ctx, cases_path, bug, invariants, properties=(), expect=None, **kw):
    """The Bug switch must make TLC find a counterexample to one of the given properties."""
    name, path = mc_cfg(ctx, "MC_bug_%s.cfg" % bug, emit=False, invariants=invariants, properties=list(properties), bug=bug, **kw)
    r = ctx.tlc("MC_Runner", cfg=name, files=[("cases.ndjson", cases_path), (name, path)], workers=4, timeout=600,
                must_pass=False, label="non-vacuity Bug_%s (must fail)" % bug)
    found = bool(r.violated)
    if not found:
        raise vlib.MachineryError("non-vacuity: Bug_%s did not violate %s on this case family:\n%s"
                                  % (bug, invariants or properties, r.tail(15)))
    return r.violated[0] if r.violated and isinstance(r.violated[0], str) else True


def replay(ctx, cases_path, behs, layouts=None, bystander=None, texts=None):
    """spec -> code.  behs: list of behaviours, or the path of an ndjson file.  Returns (stats, diffs)."""
    if isinstance(behs, str):
        bp = behs
    else:
        bp = ctx.path("beh%d.ndjson" % ctx.n_tlc)
        vlib.write_ndjson(bp, behs)
    out = ctx.path("diffs%d_%d.ndjson" % (ctx.n_tlc, len(os.listdir(ctx.dir))))
    args = ["core", "replay", "--cases", cases_path, "--beh", bp, "--out", out]
    if layouts:
        args += ["--layouts", layouts]
    if bystander:
        args += ["--bystander", bystander]
    if texts:
        args += ["--texts", texts]
    p = ctx.harness(args, timeout=1200)
    stats = json.loads(p.stdout.strip().splitlines()[-1])
    return stats, vlib.read_ndjson(out)


def record(ctx, cases_path, out, paths=3, calls=30, mode=None, hostsets=False, layouts=None, race=False, rebinds=False):
    args = ["core", "record", "--cases", cases_path, "--out", ctx.path(out), "--paths", paths, "--calls", calls]
    if mode:
        args += ["--mode", mode]
    if hostsets:
        args += ["--hostsets", "1"]
    if rebinds:
        args += ["--rebinds", "1"]
    if layouts:
        args += ["--layouts", layouts]
    p = ctx.harness(args, timeout=1200, race=race)
    stats = json.loads(p.stdout.strip().splitlines()[-1])
    return stats, ctx.path(out)


def validate(ctx, cases_path, trace_path, label=None, timeout=1800):
    """code -> spec.  Returns (result dict from YarnTrace, trace events list loader)."""
    t = ctx.tlc("YarnTrace", files=[("cases.ndjson", cases_path), ("trace.ndjson", trace_path)], workers=1,
                timeout=timeout, label=label or "YarnTrace")
    res = t.printed("RESULT")
    if not res:
        raise vlib.MachineryError("YarnTrace printed no RESULT:\n" + t.tail())
    res = res[-1]
    n = sum(1 for _ in open(trace_path))
    if res["lines"] != n:
        raise vlib.MachineryError("trace not consumed completely: %d of %d lines" % (res["lines"], n))
    return res


class TraceIndex:
    """Random access to a recorded trace and its side file (renderings)."""

    def __init__(self, trace_path):
        self.events = vlib.read_ndjson(trace_path)
        self.meta = {}
        mp = trace_path + ".meta"
        if os.path.exists(mp):
            for m in vlib.read_ndjson(mp):
                self.meta[m["line"]] = m

    def case_prefix(self, line):
        """Events of the case containing 1-based `line`, up to and including it, plus its rendering."""
        i = line - 1
        start = i
        while start > 0 and self.events[start]["ev"] != "reset":
            start -= 1
        return self.events[start:i + 1], self.meta.get(start + 1, {})


def beh_payload(cases_by_id, behs, d):
    b = behs[d["beh"]]      # behs: list, or {index: behaviour}
    return {"kind": "replay", "case": cases_by_id[d["case"]], "steps": b["steps"][: d["step"] + 1] if d["step"] >= 0 else [],
            "layout": d.get("layout"), "texts": d.get("texts"),
            "diff": {k: d[k] for k in ("step", "field", "exp", "got", "panic") if k in d}}


def trace_payload(cases, tix, b):
    evs, meta = tix.case_prefix(b["line"])
    reset = dict(evs[0])
    reset["texts"] = meta.get("texts")       # so that a replay uses the very same rendering
    evs = [reset] + evs[1:]
    return {"kind": "trace", "case": cases[reset["case"] - 1], "events": evs, "layout": meta.get("layout"), "texts": meta.get("texts"),
            "diff": {k: b[k] for k in ("field", "fields", "exp", "got", "ended", "pend", "waitc", "ev")}}


def short(x, n=300):
    s = json.dumps(x, sort_keys=True)
    return s if len(s) <= n else s[:n] + "..."


def describe_diff(field, exp, got):
    return "%s: specification prescribes %s, the library did %s" % (field, short(exp), short(got))


def load_cases(path):
    cs = vlib.read_ndjson(path)
    return cs, {c["id"]: c for c in cs}


def nontrivial_case(c):
    """A program is non-trivial if it nests (option/if bodies) at depth >= 2 or jumps."""
    bodies = c["bodies"]
    depth = {}

    def d(b):
        if b == 0:
            return 0
        if b in depth:
            return depth[b]
        m = 0
        for s in bodies[b - 1]:
            if s["k"] == "opts":
                m = max([m] + [1 + d(o["body"]) for o in s["opts"]])
            elif s["k"] == "if":
                m = max([m] + [1 + d(cl["body"]) for cl in s["clauses"]])
        depth[b] = m
        return m
    nest = max(d(n["body"]) for n in c["nodes"])
    jumps = any(s["k"] == "jump" for b in bodies for s in b)
    return nest >= 2 or jumps


# ------------------------------------------------------------------------------
# generic driver
def run_core_check(ctx, spec):
    """spec keys:
      sig            signature prefix of violations
      scope(field, exp, got, ctxinfo) -> bool   ctxinfo = dict(after_end, pend, waitc, ev, family)
      sc             dict(family, n=(quick, thorough), mc=dict(kwargs of mc_cfg), invariants, properties,
                          bugs=[(bug, invariants, properties)], layouts(bool), storer)
      cs             list of dict(family, n=(q, t), paths=(q, t), calls, mode, hostsets, layouts, storer, label)
      rule, assumptions, nontrivial(case) -> bool
    """
    thorough = ctx.tier == "thorough"
    ctx.build()
    if ctx.replay:
        return replay_core(ctx, spec)
    t = 1 if thorough else 0
    samples, nonvac = [], {}
    oos = 0
    evaluations = 0
    nontrivial = 0
    nontriv_fn = spec.get("nontrivial", nontrivial_case)

    for sc in spec.get("sc_list", [spec["sc"]] if "sc" in spec else []):
        cases_path = gen_cases(ctx, sc["family"], sc["n"][t], "cases_sc_%s.ndjson" % sc["family"], storer=sc.get("storer"))
        cases, by_id = load_cases(cases_path)
        mc = dict(sc.get("mc", {}))
        if thorough:
            mc.update(sc.get("mc_thorough", {}))
        cfgname, cfgpath = mc_cfg(ctx, "MC_%s_%s.cfg" % (ctx.prop, sc["family"]), invariants=sc["invariants"],
                                  properties=sc.get("properties", []), **mc)
        r = model_check(ctx, cases_path, cfgname, cfgpath, label="MC_Runner[%s]: %s" % (sc["family"], ",".join(sc["invariants"] + sc.get("properties", []))))
        beh_path = ctx.path("beh_%s_%d.ndjson" % (sc["family"], ctx.n_tlc))
        nbeh = r.printed_to_file("BEH", beh_path)
        if not nbeh:
            raise vlib.MachineryError("MC_Runner emitted no behaviour")
        for bug, inv, props in sc.get("bugs", []):
            kw = {k: v for k, v in mc.items() if k in ("max_calls", "max_polls", "after_end", "host_writes", "max_host_sets",
                                                       "max_snaps", "max_restores")}
            nonvac[bug] = nonvacuity(ctx, cases_path, bug, inv, props, **kw)
        layouts = "random" if sc.get("layouts") else None
        stats, diffs = replay(ctx, cases_path, beh_path, layouts=layouts)
        behs = vlib.read_ndjson_lines(beh_path, [d["beh"] for d in diffs[:200]] + [nbeh // 2])
        for d in diffs[:200]:
            steps = behs[d["beh"]]["steps"]
            prior = []
            for s in steps[: max(d["step"], 0)]:
                if s.get("ev") == "restore":
                    prior = []          # a restore starts a new life of the runner
                elif s.get("ev") == "next":
                    prior.append(s)
            info = {"after_end": any(s["out"]["k"] == "end" for s in prior),
                    "after_error": any(s["out"]["k"] == "error" for s in prior),
                    "pend": bool(d["step"] >= 0 and steps[d["step"]].get("pend")), "ev": "next", "family": sc["family"], "panic": d.get("panic")}
            if spec["scope"](d["field"], d.get("exp"), d.get("got"), info):
                ctx.violation(beh_payload(by_id, behs, d),
                              "replayed model behaviour (case %d of family %s, step %d): %s%s"
                              % (d["case"], sc["family"], d["step"], describe_diff(d["field"], d.get("exp"), d.get("got")),
                                 (" [panic: %s]" % d["panic"]) if d.get("panic") else ""),
                              signature=spec["sig"] + ":" + d["field"])
            else:
                oos += 1
        nt_ids = {c["id"] for c in cases if nontriv_fn(c)}
        nt = 0
        with open(beh_path) as f:
            for line in f:
                m = _CASE_RE.match(line)
                if m and int(m.group(1)) in nt_ids:
                    nt += 1
        nontrivial += nt
        evaluations += stats["behaviours"]
        ctx.cover(**{"programs_%s" % sc["family"]: len(cases), "behaviours_replayed": stats["behaviours"], "replay_steps": stats["steps"]})
        mid = behs[nbeh // 2]
        idx = next((i for i, c in enumerate(cases) if c["id"] == mid["case"]), 0)
        rendered = ctx.harness(["core", "render", "--cases", cases_path, "--index", idx + 1]).stdout
        samples.append({"family": sc["family"], "case_id": mid["case"], "script": rendered[:1800],
                        "behaviour": [{"in": s.get("in"), "out": s.get("out")} for s in mid["steps"][:6]]})

    for family, nq, nt_ in spec.get("ast", []):
        # the parsed dialogue of the canonical rendering == the generator's AST (binds the listener's
        # callback stacks and the INDENT/DEDENT nesting), deterministic, no run needed
        apath = gen_cases(ctx, family, (nq, nt_)[t], "cases_ast_%s.ndjson" % family)
        acases, aby = load_cases(apath)
        aout = ctx.path("astdiffs_%s.ndjson" % family)
        p = ctx.harness(["core", "ast", "--cases", apath, "--out", aout, "--layouts", 0], timeout=1500)
        for d in vlib.read_ndjson(aout):
            ctx.violation({"kind": "ast", "case": aby[d["case"]], "layout": d["layout"], "texts": d["texts"], "what": d["what"]},
                          "canonical rendering of case %d (family %s): %s %s" % (d["case"], family, d["what"], d.get("detail", "")[:600]),
                          signature=spec["sig"] + ":" + d["what"])
        ctx.cover(**{"programs_parsed_%s" % family: len(acases)})
        evaluations += len(acases)

    for cs in spec.get("cs", []):
        path = gen_cases(ctx, cs["family"], cs["n"][t], "cases_cs_%s.ndjson" % cs["family"], storer=cs.get("storer"))
        cases, _ = load_cases(path)
        rstats, trace_path = record(ctx, path, "trace_%s.ndjson" % cs["family"], paths=cs["paths"][t], calls=cs.get("calls", 35),
                                    mode=cs.get("mode"), hostsets=cs.get("hostsets", False), rebinds=cs.get("rebinds", False),
                                    layouts="random" if cs.get("layouts") else None)
        res = validate(ctx, path, trace_path, label=cs.get("label", "YarnTrace[%s]" % cs["family"]))
        tix = None
        for b in res["bad"]:
            info = {"after_end": b["ended"], "pend": b["pend"], "waitc": b["waitc"], "ev": b["ev"], "family": cs["family"],
                    "after_error": False, "panic": None}
            if spec["scope"](b["field"], b["exp"], b["got"], info):
                tix = tix or TraceIndex(trace_path)
                ctx.violation(trace_payload(cases, tix, b),
                              "recorded run rejected by the specification (case %d of family %s, trace line %d, event %s): %s"
                              % (b["id"], cs["family"], b["line"], b["ev"], describe_diff(b["field"], b["exp"], b["got"])),
                              signature=spec["sig"] + ":" + b["field"])
            else:
                oos += 1
        evaluations += rstats["paths"]
        nt_ids = {c["id"] for c in cases if nontriv_fn(c)}
        nontrivial += len(nt_ids) * cs["paths"][t]
        ctx.cover(**{"programs_%s" % cs["family"]: len(cases), "recorded_paths": rstats["paths"], "recorded_events": rstats["events"],
                     "trace_events_checked": res["stats"]["checked"], "trace_out_of_window": res["stats"]["oos"],
                     "trace_events_skipped_after_mismatch": res["stats"]["skipped"]})
        if res["stats"]["checked"] == 0:
            raise vlib.MachineryError("trace validation checked no event")
        samples.append({"family": cs["family"], "first_events": [
            {k: e.get(k) for k in ("ev", "r", "in", "h") if k in e} for e in vlib.read_ndjson(trace_path)[:6]]})

    sp = spec.get("scripts")
    if sp:
        # hand-written scripts (the repository's own fixtures, the idiom corpus /verif/scripts) run exactly as written:
        # the program the specification judges is the dialogue the library parsed (core fromscripts), the
        # text the runner gets is the original file
        dirs = [os.path.join(vlib.VERIF, "scripts"), os.path.join(ctx.copy_repo(), "testdata")]
        path, tpath = ctx.path("cases_scripts.ndjson"), ctx.path("texts_scripts.ndjson")
        p = ctx.harness(["core", "fromscripts", "--dirs", ",".join(dirs), "--out", path, "--texts", tpath])
        conv = json.loads(p.stdout.strip().splitlines()[-1])
        cases, _ = load_cases(path)
        if len(cases) < 30:
            raise vlib.MachineryError("only %d of %d hand-written scripts were converted: %s" % (len(cases), conv["scripts"], conv["skipped"]))
        if sp.get("mc"):
            # every choice path / completion schedule of every hand-written script up to the bound, enumerated by TLC
            # on the parsed program and replayed on the original text
            mc = sp["mc"]
            kw = {k: v for k, v in mc.items() if k not in ("invariants", "properties")}
            cfgname, cfgpath = mc_cfg(ctx, "MC_%s_scripts.cfg" % ctx.prop, invariants=mc["invariants"], properties=mc.get("properties", []), **kw)
            r = model_check(ctx, path, cfgname, cfgpath, label="MC_Runner[hand-written scripts]: %s" % ",".join(mc["invariants"]))
            beh_path = ctx.path("beh_scripts_%d.ndjson" % ctx.n_tlc)
            nbeh = r.printed_to_file("BEH", beh_path)
            if not nbeh:
                raise vlib.MachineryError("MC_Runner emitted no behaviour for the hand-written scripts")
            by_id = {c["id"]: c for c in cases}
            stats, diffs = replay(ctx, path, beh_path, texts=tpath)
            behs = vlib.read_ndjson_lines(beh_path, [d["beh"] for d in diffs[:200]])
            for d in diffs[:200]:
                steps = behs[d["beh"]]["steps"]
                prior = [s_ for s_ in steps[: max(d["step"], 0)] if s_.get("ev") == "next"]
                info = {"after_end": any(s_["out"]["k"] == "end" for s_ in prior), "after_error": any(s_["out"]["k"] == "error" for s_ in prior),
                        "pend": bool(d["step"] >= 0 and steps[d["step"]].get("pend")), "ev": "next", "family": "scripts", "panic": d.get("panic")}
                if spec["scope"](d["field"], d.get("exp"), d.get("got"), info):
                    ctx.violation(beh_payload(by_id, behs, d),
                                  "replayed model behaviour of a hand-written script (script %s, step %d): %s%s"
                                  % (conv["accepted"][d["case"] - 1], d["step"], describe_diff(d["field"], d.get("exp"), d.get("got")),
                                     (" [panic: %s]" % d["panic"]) if d.get("panic") else ""),
                                  signature=spec["sig"] + ":scripts:" + d["field"])
                else:
                    oos += 1
            evaluations += stats["behaviours"]
            nontrivial += stats["behaviours"]
            ctx.cover(scripts_behaviours_replayed=stats["behaviours"], scripts_replay_steps=stats["steps"])
        for mode in sp.get("modes", [None]):
            args = ["core", "record", "--cases", path, "--texts", tpath, "--out", ctx.path("trace_scripts_%s.ndjson" % (mode or "walk")),
                    "--paths", sp["paths"][t], "--calls", sp.get("calls", 80)]
            if mode:
                args += ["--mode", mode]
            elif sp.get("hostsets"):
                args += ["--hostsets", "1"]
            rp = ctx.harness(args, timeout=1200)
            rstats = json.loads(rp.stdout.strip().splitlines()[-1])
            trace_path = ctx.path("trace_scripts_%s.ndjson" % (mode or "walk"))
            res = validate(ctx, path, trace_path, label="YarnTrace: hand-written scripts as written (%s)" % (mode or "random walks"))
            tix = None
            for b in res["bad"]:
                info = {"after_end": b["ended"], "pend": b["pend"], "waitc": b["waitc"], "ev": b["ev"], "family": "scripts",
                        "after_error": False, "panic": None}
                if spec["scope"](b["field"], b["exp"], b["got"], info):
                    tix = tix or TraceIndex(trace_path)
                    ctx.violation(trace_payload(cases, tix, b),
                                  "recorded run of a hand-written script rejected by the specification (script %s, trace line %d, event %s): %s"
                                  % (conv["accepted"][b["id"] - 1], b["line"], b["ev"], describe_diff(b["field"], b["exp"], b["got"])),
                                  signature=spec["sig"] + ":scripts:" + b["field"])
                else:
                    oos += 1
            evaluations += rstats["paths"]
            nontrivial += rstats["paths"]
            ctx.cover(scripts_converted=len(cases), scripts_skipped=conv["skipped"], scripts_recorded_paths=rstats["paths"],
                      scripts_recorded_events=rstats["events"], scripts_trace_events_checked=res["stats"]["checked"])
            if res["stats"]["checked"] == 0:
                raise vlib.MachineryError("trace validation of the hand-written scripts checked no event")

    if spec.get("merge"):
        # an additional stage of a check that has its own main pipeline: counts accumulate, the
        # stage's rule is kept under its own key
        ctx.cover(traces_validated_against_impl=evaluations, evaluations=evaluations, distinct_nontrivial=nontrivial,
                  out_of_scope_divergence=oos, samples=samples, **{"rule_" + spec["sig"]: spec["rule"], "nonvacuity_" + spec["sig"]: nonvac})
    else:
        ctx.cover(traces_validated_against_impl=evaluations, evaluations=evaluations, distinct_nontrivial=nontrivial,
                  out_of_scope_divergence=oos, nonvacuity=nonvac, rule=spec["rule"], samples=samples, exhaustive=False)
    ctx.assumptions += spec.get("assumptions", []) + [
        "programs are generated (seeded) from the supported core language; literal text is plain ASCII without markup or escapes (C04/C13 own those)",
        "numbers stay in the window where double arithmetic is exact (dyadic, |n| <= 2^15, denominators <= 2^8); a case leaving it is counted (trace_out_of_window) and skipped",
    ]


def replay_core(ctx, spec):
    rp = json.load(open(ctx.replay))["payload"]
    case = rp["case"]
    cpath = ctx.path("cases_replay.ndjson")
    vlib.write_ndjson(cpath, [case])
    if rp["kind"] == "replay":
        behs = [{"case": case["id"], "steps": rp["steps"]}]
        stats, diffs = replay(ctx, cpath, behs, bystander="all")
        for d in diffs[:1]:
            ctx.violation(beh_payload({case["id"]: case}, behs, d), "replay: " + describe_diff(d["field"], d.get("exp"), d.get("got")),
                          signature=spec["sig"] + ":" + d["field"])
    elif rp["kind"] == "ast":
        p = ctx.path("texts.json")
        json.dump({"texts": rp["texts"], "base": rp.get("base"), "case": rp["case"]}, open(p, "w"))
        r = ctx.harness(["core", "astone", "--in", p])
        out = json.loads(r.stdout.strip().splitlines()[-1])
        if out["what"]:
            ctx.violation(rp, "replay: " + out["what"], signature=spec["sig"] + ":" + out["what"])
    elif rp["kind"] == "trace":
        inp = ctx.path("rerun_in.ndjson")
        vlib.write_ndjson(inp, rp["events"])
        out = ctx.path("rerun_trace.ndjson")
        ctx.harness(["core", "rerun", "--cases", cpath, "--events", inp, "--out", out])
        res = validate(ctx, cpath, out, label="YarnTrace: replay")
        tix = TraceIndex(out)
        for b in res["bad"]:
            ctx.violation(trace_payload([case], tix, b), "replay: " + describe_diff(b["field"], b["exp"], b["got"]),
                          signature=spec["sig"] + ":" + b["field"])
    else:
        raise vlib.MachineryError("unknown replay kind %r" % rp.get("kind"))
