"""C01 - dialogue flow follows Yarn's sequential semantics for every script and path."""
import core_common as cc

PROPERTY = "C01"
LEVEL = "model_checking"

FLOW = ["FlowRefinesSem", "NextArgIgnored", "StackDiscipline", "EndReportedOnlyWhenEnded"]


def scope(field, exp, got, info):
    """C01 owns what Next presents (kind, node, line identity, option list) on fault-free
    programs, before the end, and that generated scripts load; logs / variables / visit counts
    belong to C03/C10/C11, events after the first end to C12, pending commands to C10."""
    if info["after_end"] or info["pend"]:
        return False
    return field in ("out", "load")


SPEC = dict(
    sig="flow", scope=scope,
    sc=dict(family="flow", n=(220, 1500), mc=dict(max_calls=12, after_end=1), mc_thorough=dict(max_calls=14),
            invariants=FLOW, bugs=[("secondClauseAlsoRuns", FLOW, []), ("jumpKeepsStack", FLOW, [])]),
    cs=[dict(family="flowbig", n=(60, 400), paths=(4, 6), calls=45, layouts=True,
             label="YarnTrace: random walks of big programs under random layouts")],
    rule="seeded random programs of the flow family (<=3 nodes, nesting <=3): ALL choice paths enumerated by TLC (MC_Runner) and replayed; "
         "bigger programs (<=5 nodes, nesting <=4) on random paths under random layouts and reader splits, trace-validated; "
         "non-trivial = program nests option/if bodies at depth >= 2 or jumps",
    assumptions=["choices are in range whenever an option group is pending (precondition of the property); "
                 "when no group is pending the harness passes arbitrary arguments (0, negative, huge)"],
)


def run(ctx):
    cc.run_core_check(ctx, SPEC)
