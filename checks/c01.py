"""C01 - dialogue flow follows Yarn's sequential semantics for every script and path."""
import core_common as cc

PROPERTY = "C01"
LEVEL = "model_checking"

FLOW = ["FlowRefinesSem", "NextArgIgnored", "StackDiscipline", "EndReportedOnlyWhenEnded"]


def scope(field, exp, got, info):
    """C01 owns what Next presents (kind, node, line identity, option list) on fault-free
    programs, before the end, and that generated scripts load; logs / variables / visit counts
    belong to C03/C10/C11, events after the first end to C12, pending commands to C10."""
    if info["after_end"] or info["pend"]:
        return False
    return field in ("out", "load")


SPEC = dict(
    sig="flow", scope=scope,
    sc_list=[
        dict(family="flow", n=(200, 1500), mc=dict(max_calls=12, after_end=1), mc_thorough=dict(max_calls=14),
             invariants=FLOW, bugs=[("secondClauseAlsoRuns", FLOW, []), ("jumpKeepsStack", FLOW, [])]),
        # systematic family: all programs "S1; S2" over a statement alphabet of 376 (141,752 programs), strided sample
        dict(family="tiny", n=(400, 30000), mc=dict(max_calls=10, after_end=1), invariants=FLOW),
    ],
    ast=[("flowbig", 120, 2500), ("flow", 150, 2000), ("huge", 12, 150)],
    cs=[dict(family="flowbig", n=(60, 400), paths=(4, 6), calls=45, layouts=True,
             label="YarnTrace: random walks of big programs under random layouts"),
        # jumps by expression whose destination changes from one execution of the statement to the next
        dict(family="visits", n=(40, 300), paths=(3, 5), calls=50,
             label="YarnTrace: jump graphs with computed destinations"),
        # scale: 12-24 nodes, 7 levels of nesting, groups of up to 13 options, lines of hundreds of characters, walks of 250 calls
        dict(family="huge", n=(10, 80), paths=(2, 3), calls=250, layouts=True,
             label="YarnTrace: long walks of very big programs under random layouts")],
    # hand-written scripts run as written: the repository's fixtures and the idiom corpus /verif/scripts
    scripts=dict(paths=(6, 30), calls=80, mc=dict(invariants=FLOW, max_calls=9, after_end=1)),
    rule="systematic family `tiny` (every program S1;S2 over an alphabet of 376 statements built from 6 leaf statements, if / if-else with 3 "
         "condition kinds and option groups of 1-2 options over 10 small bodies: 141,752 programs; a strided sample per run, seed-dependent offset) "
         "and seeded random programs of the flow family (<=3 nodes, nesting <=3): ALL choice paths enumerated by TLC (MC_Runner) and replayed; "
         "bigger programs (<=5 nodes, nesting <=4) on random paths under random layouts and reader splits, trace-validated; "
         "non-trivial = program nests option/if bodies at depth >= 2 or jumps",
    assumptions=["choices are in range whenever an option group is pending (precondition of the property); "
                 "when no group is pending the harness passes arbitrary arguments (0, negative, huge)"],
)


def run(ctx):
    cc.run_core_check(ctx, SPEC)
