"""C17 - custom commands receive exactly the arguments written in the script.

Model (TLC):   CommandArgsMC.tla: for every command of a bounded family (every name
               class x every word class x spacings) the implementation-shaped pipeline
               (CommandMode/CommandTextMode lexing, rearrange/split, dispatch) yields the
               declarative meaning the property states (HandlerOnceWithArgs,
               StopNeverDispatched, UnknownIsError, NamesAreGeneric); two bug switches
               must produce counterexamples.
Spec -> code:  every enumerated command, with the result the specification prescribes, is
               rendered into a script and run with recording raw handlers (AddCommand)
               that keep the type of each argument (verifh cmdargs replay).
Code -> spec:  seeded random commands (up to 12 items, multi-byte names and words, random
               blanks, expressions of each type) are executed and what the handlers
               received is validated by CommandArgsTrace.tla.
"""
import json
import os

import vlib

PROPERTY = "C17"
LEVEL = "model_checking"


def _cfg_with_seed(ctx, name, out):
    txt = open(os.path.join(vlib.SPEC, name)).read().replace("Seed = 1", "Seed = %d" % (ctx.seed % 100000))
    p = ctx.path(out)
    open(p, "w").write(txt)
    return p


def _s(cps):
    return "".join(chr(c) for c in cps)


def _val(v):
    t = v.get("t")
    if t == "n":
        return "number %s" % (v["n"] if v["d"] == 1 else "%s/%s" % (v["n"], v["d"]))
    if t == "b":
        return "boolean %s" % str(v["b"]).lower()
    if t == "s":
        return "string %r" % _s(v["s"])
    return "unrepresentable(%s)" % v.get("why")


def _calls(calls):
    return "[" + "; ".join("%s(%s)" % (_s(c["name"]), ", ".join(_val(a) for a in c["args"])) for c in calls) + "]"


def _trace_class(exp_outcome, exp_calls, ev):
    """class of a rejected trace event (stable signature)"""
    got = ev["calls"]
    exp_strings = [x["s"] for ec in exp_calls for x in ec["args"] if x.get("t") == "s"]
    # a tab that ended up inside a name or an argument: one class, whatever the consequence
    for c in got:
        for a in c["args"]:
            if a.get("t") == "s" and 9 in a["s"] and a["s"] not in exp_strings:
                return "tab-not-a-separator"
    if not got and ev["outcome"] == "error" and exp_outcome != "error" and 9 in ev["units"]:
        return "tab-not-a-separator"
    if ev["outcome"] == "panic":
        return "panic"
    if exp_outcome == "stop":
        return "stop-dispatched" if got else "stop-outcome-" + ev["outcome"]
    if exp_outcome == "error":
        return "unknown-name-dispatched" if got else "unknown-name-no-error"
    if ev["outcome"] != "call":
        return "registered-name-" + ev["outcome"]
    if len(got) != 1:
        return "handler-calls-%d" % len(got)
    ea, ga = exp_calls[0]["args"], got[0]["args"]
    if len(ea) != len(ga):
        return "argument-count"
    for e, g in zip(ea, ga):
        if e != g:
            if e["t"] == "s" and g["t"] in ("n", "x"):
                return "word-as-number"
            if e["t"] == "s" and g["t"] == "b":
                return "word-as-boolean"
            if e["t"] == "b":
                return "boolean-as-" + g["t"]
            if e["t"] == "n" and g["t"] == "s":
                return "number-as-string"
            return "argument-value"
    return "other"


def _validate_trace(ctx, trace_path, label):
    t = ctx.tlc("CommandArgsTrace", files=[("trace.ndjson", trace_path)], workers=1, label=label, timeout=1200)
    res = t.printed("RESULT")
    if not res:
        raise vlib.MachineryError("CommandArgsTrace printed no RESULT:\n" + t.tail())
    res = res[-1]
    n = sum(1 for _ in open(trace_path))
    if res["events"] != n:
        raise vlib.MachineryError("command trace not consumed completely: %d of %d" % (res["events"], n))
    if res["modelbad"]:
        raise vlib.MachineryError("CommandArgs.tla: pipeline and declarative meaning disagree on a recorded command "
                                  "(model-level failure): %s" % json.dumps(res["modelbad"][0])[:1500])
    return res


MAX_PER_CLASS = 2   # replay files written per violation class (all are counted)


def _limited(ctx, cls):
    """True if a replay file should still be written for this class."""
    seen = ctx.__dict__.setdefault("_c17_seen", {})
    seen[cls] = seen.get(cls, 0) + 1
    return seen[cls] <= MAX_PER_CLASS


def _report_trace_bad(ctx, res, events):
    byid = {e["id"]: e for e in events}
    for b in res["bad"]:
        ev = byid[b["id"]]
        cls = _trace_class(b["expOutcome"], b["expCalls"], ev)
        if not _limited(ctx, "trace:" + cls):
            continue
        ctx.violation({"kind": "cmd-trace", "event": ev},
                      "command %r (handler %sregistered): the property prescribes outcome %s with handler calls %s; "
                      "the library's Next gave outcome %s and the handlers recorded %s"
                      % (_s(ev["text"]), "" if ev["reg"] else "NOT ", b["expOutcome"], _calls(b["expCalls"]),
                         ev["outcome"], _calls(ev["calls"])),
                      signature="cmdargs:" + cls)


def _replay_rows(ctx, rows, batch=200):
    vlib.write_ndjson(ctx.path("beh.ndjson"), rows)
    p = ctx.harness(["cmdargs", "replay", "--in", ctx.path("beh.ndjson"), "--out", ctx.path("diffs.ndjson"),
                     "--batch", batch], timeout=1800)
    stats = json.loads(p.stdout.strip().splitlines()[-1])
    diffs = vlib.read_ndjson(ctx.path("diffs.ndjson"))
    for d in diffs:
        if not _limited(ctx, "replay:" + d["what"]):
            continue
        ctx.violation({"kind": "cmd-replay", "case": d["case"], "text": d["text"]},
                      "command %r: the specification prescribes outcome %s with handler calls %s; the library gave "
                      "outcome %s and the handlers recorded %s %s"
                      % (d["text"], d["expOutcome"], d["expCalls"], d["gotOutcome"], d["gotCalls"], d.get("detail") or ""),
                      signature="cmdargs:" + d["what"])
    return stats, diffs


def _run_replay(ctx):
    payload = json.load(open(ctx.replay))["payload"]
    ctx.build()
    if payload["kind"] == "cmd-replay":
        _replay_rows(ctx, [payload["case"]], batch=1)
    elif payload["kind"] == "cmd-trace":
        vlib.write_ndjson(ctx.path("ev.ndjson"), [payload["event"]])
        ctx.harness(["cmdargs", "rerun", "--in", ctx.path("ev.ndjson"), "--out", ctx.path("trace.ndjson")])
        res = _validate_trace(ctx, ctx.path("trace.ndjson"), "CommandArgsTrace (replayed event)")
        _report_trace_bad(ctx, res, vlib.read_ndjson(ctx.path("trace.ndjson")))
    elif payload["kind"] == "longrun":
        return long_silent_run(ctx)
    elif payload["kind"] in ("replay", "trace"):
        import core_common as cc
        return cc.replay_core(ctx, DISPATCH)
    else:
        raise vlib.MachineryError("unknown replay payload kind %r" % payload.get("kind"))
    ctx.cover(replayed=1, states=sum(x["distinct"] for x in ctx.tlc_runs), transitions=sum(x["generated"] for x in ctx.tlc_runs),
              traces_validated_against_impl=1, samples=[payload.get("text") or _s(payload["event"]["text"])])


def long_silent_run(ctx):
    """12,000 consecutive commands in one node, and 3,000 (thorough: 20,000) passes through a loop, without any line in between."""
    tp = ctx.path("longrun.ndjson")
    ctx.harness(["cmdargs", "longrun", "--out", tp, "--n", 12000, "--loops", 20000 if ctx.tier == "thorough" else 3000], timeout=900)
    t = ctx.tlc("LongRunTrace", files=[("trace.ndjson", tp)], workers=1, timeout=300, label="LongRunTrace (tens of thousands of statements in one call)")
    res = t.printed("RESULT")
    events = vlib.read_ndjson(tp)
    if not res or res[-1]["lines"] != len(events):
        raise vlib.MachineryError("long run trace not consumed:\n" + t.tail())
    for b in res[-1]["bad"]:
        e = events[b["line"] - 1]
        ctx.violation({"kind": "longrun", "event": e},
                      "%s run of %d commands without a line in between: %s (handler invocations %d, first wrong invocation %d, the call returned: %s)"
                      % (e["kind"], e["n"], b["what"], e["calls"], e["firstbad"], e["outcome"]), signature="cmdargs:long-run-" + b["what"])
    ctx.cover(long_silent_runs=len(events), commands_in_long_silent_runs=sum(e["n"] for e in events))


def _dispatch_scope(field, exp, got, info):
    """This stage owns the handler invocation log (which handler, how often, with which arguments)
    and the result of the calls that dispatch a command or poll a pending one."""
    if info["after_end"]:
        return False
    kinds = {x.get("k") for x in (exp, got) if isinstance(x, dict)}
    return field == "ccalls" or (field == "out" and (info.get("pend") or bool(kinds & {"waiting", "error"})))


# "reaches the handler registered under `name`, ONCE, with its arguments" over histories: the same
# command statement dispatched again and again while state changes, commands that stay pending at
# the head of an option body, a host handler under the name of the built-in - decided on the runner
# specification with the shared pipeline of checks/core_common.py
DISPATCH = dict(
    sig="dispatch", scope=_dispatch_scope, merge=True,
    sc=dict(family="dispatch", n=(50, 200), mc=dict(max_calls=11, max_polls=2, after_end=0, max_rebinds=1), mc_thorough=dict(max_calls=12),
            invariants=["FlowRefinesSem", "PendingNextIsNoOp"]),
    cs=[dict(family="dispatch", n=(40, 500), paths=(3, 5), calls=40, rebinds=True,
             label="YarnTrace: command statements dispatched repeatedly, pending at the head of option bodies")],
    nontrivial=lambda c: sum(1 for b in c["bodies"] for s in b if s["k"] == "cmd" and len(s["elems"]) > 1) >= 2,
    rule="programs of the dispatch family (the start node runs three times; most statements are commands, also first in option bodies; "
         "elements that read no variable but change between dispatches: visited / visited_count / a host function that writes a "
         "variable; in half of the programs the host registers a handler under `wait`; between two calls the host may register a "
         "command that was unknown or replace a registered one): every completion schedule, choice path and registration point "
         "enumerated by TLC and replayed, random walks trace-validated; judged: the handler invocation log of every call and the "
         "results around pending commands; non-trivial = at least two commands with arguments",
)


def run(ctx):
    if ctx.replay:
        return _run_replay(ctx)
    thorough = ctx.tier == "thorough"
    ctx.build()
    samples = []

    # ------------------------------------------------------------------ model
    cfg_name = "CommandArgsMC_thorough.cfg" if thorough else "CommandArgsMC.cfg"
    cfg = _cfg_with_seed(ctx, cfg_name, "CommandArgsMC_run.cfg")
    mc = ctx.tlc("CommandArgsMC", cfg="CommandArgsMC_run.cfg", files=[("CommandArgsMC_run.cfg", cfg)], workers=8,
                 label="CommandArgsMC (%s: pipeline meets the declarative meaning)" % cfg_name, timeout=1500)
    rows = mc.printed("BEH")
    if not rows:
        raise vlib.MachineryError("CommandArgsMC printed no behaviour")
    nonvac = {}
    for bug in ("CommandArgsMC_bug1.cfg", "CommandArgsMC_bug2.cfg"):
        rr = ctx.tlc("CommandArgsMC", cfg=bug, workers=4, must_pass=False, timeout=600, label=bug + " (must fail)")
        nonvac[bug] = bool(rr.violated)
        if not rr.violated:
            raise vlib.MachineryError("non-vacuity config %s did not produce a counterexample" % bug)

    # ----------------------------------------------------------- spec -> code
    stats, diffs = _replay_rows(ctx, rows)
    ctx.log("replayed %d enumerated commands in %d scripts (%d handler calls): %d differ"
            % (stats["rows"], stats["batches"], stats["handler_calls"], stats["diffs"]))
    by_outcome = {}
    for r in rows:
        by_outcome[r["exp"]["outcome"]] = by_outcome.get(r["exp"]["outcome"], 0) + 1
    mid = rows[len(rows) // 2]
    samples.append({"enumerated_command": "<<" + "".join(chr(u) if u >= 0 else "{slot%d}" % -u for u in mid["units"]) + ">>",
                    "prescribed": mid["exp"]["outcome"] + " " + _calls(mid["exp"]["calls"])})

    # ----------------------------------------------------------- code -> spec
    nev = 40000 if thorough else 5000
    p = ctx.harness(["cmdargs", "record", "--n", nev, "--out", ctx.path("trace.ndjson")], timeout=1800)
    rstats = json.loads(p.stdout.strip().splitlines()[-1])
    res = _validate_trace(ctx, ctx.path("trace.ndjson"), "CommandArgsTrace (random commands)")
    events = None
    if res["bad"]:
        events = vlib.read_ndjson(ctx.path("trace.ndjson"))
        _report_trace_bad(ctx, res, events)
    with open(ctx.path("trace.ndjson")) as f:
        first = json.loads(f.readline())
    samples.append({"random_command": _s(first["text"]), "handlers_recorded": _calls(first["calls"])})

    # -------------------------------------- binding self-test (never a verdict)
    selftest = "skipped: the recorded trace is already rejected"
    if not res["bad"]:
        evs = vlib.read_ndjson(ctx.path("trace.ndjson"))[:300]
        victim = next((e for e in evs if e["outcome"] == "call" and len(e["calls"]) == 1 and e["calls"][0]["args"]), None)
        if victim is not None:
            sub = [json.loads(json.dumps(e)) for e in evs]
            for e in sub:
                if e["id"] == victim["id"]:
                    a = e["calls"][0]["args"][0]
                    # corrupt the TYPE of the first received argument
                    e["calls"][0]["args"][0] = {"t": "s", "s": [63]} if a["t"] != "s" else {"t": "n", "n": 1, "d": 1}
            vlib.write_ndjson(ctx.path("selftest.ndjson"), sub)
            sres = _validate_trace(ctx, ctx.path("selftest.ndjson"), "CommandArgsTrace (self-test: one corrupted argument type)")
            rejected = [b["id"] for b in sres["bad"]]
            selftest = {"corrupted_event": victim["id"], "rejected": rejected, "ok": rejected == [victim["id"]]}
            if not selftest["ok"]:
                raise vlib.MachineryError("binding self-test failed: corrupted event %s, trace specification rejected %s"
                                          % (victim["id"], rejected))

    n_multi = sum(1 for r in rows if any(u > 127 for u in r["units"]))
    n_tabs = sum(1 for r in rows if 9 in r["units"])
    n_slots = sum(1 for r in rows if r["slots"])
    ctx.cover(
        states=sum(x["distinct"] for x in ctx.tlc_runs),
        transitions=sum(x["generated"] for x in ctx.tlc_runs),
        traces_validated_against_impl=stats["rows"] + res["events"],
        enumerated_commands=len(rows), enumerated_by_prescribed_outcome=by_outcome,
        enumerated_commands_replayed_on_impl=stats["rows"], scripts_run=stats["batches"] + rstats["batches"],
        replay_differences=stats["diffs"],
        enumerated_with_multibyte=n_multi, enumerated_with_tabs=n_tabs, enumerated_with_expression_slots=n_slots,
        handler_calls_observed=stats["handler_calls"] + rstats["handler_calls"],
        random_commands=res["events"], random_items=res["args"], random_multibyte_names=rstats["multibyte_names"],
        random_rejected=len(res["bad"]), violation_classes=dict(ctx.__dict__.get("_c17_seen", {})),
        max_args_enumerated=3 if thorough else 2,
        evaluations=stats["rows"] + res["events"],
        distinct_nontrivial=n_slots + n_tabs,
        rule="every (name class x word-class tuple x spacing) row of CommandArgsMC; non-trivial = row with an expression slot or a tab",
        exhaustive=True,
        nonvacuity=nonvac,
        binding_selftest=selftest,
        samples=samples,
    )
    long_silent_run(ctx)
    import core_common as cc
    cc.run_core_check(ctx, DISPATCH)
    ctx.assumptions += [
        "text glued to an {expression} without a blank is not generated (the property speaks of whitespace-separated words)",
        "names beginning with else/endif/endenum are not generated (those keyword tokens need no trailing blank in the grammar); "
        "names equal to a keyword, `wait` (built-in) and expressions in name position are not generated",
        "<<stop>> is exercised without arguments only",
        "number words are decimal literals with at most 9 integer digits, or up to 4+4 digits with a dyadic fraction, so that the "
        "value is exactly representable both as a double and in TLC's 32-bit integers",
        "words contain no '>', '{', '}', '\"', '#' or blanks; blanks are spaces and tabs (the grammar's WS)",
        "handlers return an already completed channel (pending commands are property C10)",
    ]
