"""C09 - same script, seed and choices give the same run; random built-ins stay in range.

Model (TLC):   Rng.tla / MC_Rng: the random built-ins of a runner read a stream that is a function of
               that runner's seed only; two runners with the same seed and script under every interleaving
               with a third, unrelated runner, clock ticks and uses of the process-wide source consume
               equal streams (SameSeedSameRun, NonInterference).  Bug_SharedSource / Bug_TimeSeed must each
               yield a counterexample.
Code -> spec:  every case (a generated script drawing in sets, lines, if conditions and option conditions,
               a seed over [0-9a-z]{1,16}, a choice path) is executed twice in process, once after and
               interleaved with unrelated runners while the global math/rand is re-seeded and used, and
               once in a fresh child process; RngTrace.tla learns the stream from the first run, requires
               every other run to present the same elements, errors, variable contents and drawn values,
               and evaluates the range contract of every drawn value.
"""
import json

import vlib

PROPERTY = "C09"
LEVEL = "exploration"

PER_SIGNATURE = 3


def run_trace(ctx, path, label):
    t = ctx.tlc("RngTrace", files=[("trace.ndjson", path)], workers=1, label=label, timeout=1500, heap="12g")
    res = t.printed("RESULT")
    if not res:
        raise vlib.MachineryError("RngTrace printed no RESULT:\n" + t.tail())
    res = res[-1]
    nlines = sum(1 for _ in open(path))
    if res["lines"] != nlines:
        raise vlib.MachineryError("rng trace not consumed completely: %d of %d" % (res["lines"], nlines))
    return res


class Reporter:
    def __init__(self, ctx):
        self.ctx, self.per, self.suppressed = ctx, {}, 0

    def report(self, case, b, events):
        sig = "rng:%s:%s" % (b["what"], b["mode"] if b["what"].startswith("differs") else "any")
        n = self.per.get(sig, 0)
        self.per[sig] = n + 1
        if n >= PER_SIGNATURE:
            self.suppressed += 1
            return
        ev = events[b["line"] - 1]
        first = [e for e in events if e["case"] == b["case"] and e["run"] == 1 and e["ev"] == "next" and e["i"] == ev.get("i")]
        if b["what"].startswith("differs"):
            what = ("seed %r: run %d (%s) differs from the first run of the same script, seed and choices at Next call %s (%s): "
                    "first run %s, this run %s" % (case["seed"], b["run"], b["mode"], ev.get("i"), b["what"],
                                                   json.dumps({k: first[0][k] for k in ("res", "draws")}) if first else "-",
                                                   json.dumps({k: ev[k] for k in ("res", "draws")})))
        else:
            what = "seed %r: %s in run %d (%s) at Next call %s: %s" % (case["seed"], b["what"], b["run"], b["mode"], ev.get("i"),
                                                                     json.dumps({k: ev[k] for k in ("res", "draws")}))
        self.ctx.violation({"kind": "rng-case", "case": case, "diff": b}, what, signature=sig)


def judge(ctx, rep, trace_path, cases_path, label):
    res = run_trace(ctx, trace_path, label)
    if res["bad"]:
        events = vlib.read_ndjson(trace_path)
        cases = {c["id"]: c for c in vlib.read_ndjson(cases_path)}
        for b in res["bad"]:
            rep.report(cases[b["case"]], b, events)
    return res


def run(ctx):
    thorough = ctx.tier == "thorough"
    ctx.build()
    rep = Reporter(ctx)
    if ctx.replay:
        case = json.load(open(ctx.replay))["payload"]["case"]
        vlib.write_ndjson(ctx.path("one.ndjson"), [case])
        ctx.harness(["rng", "record", "--in", ctx.path("one.ndjson"), "--out", ctx.path("onetrace.ndjson"), "--cases", ctx.path("onecases.ndjson")])
        judge(ctx, rep, ctx.path("onetrace.ndjson"), ctx.path("onecases.ndjson"), "RngTrace (replay)")
        ctx.cover(evaluations=1, distinct_nontrivial=1, rule="replay of one stored case", samples=[{"seed": case["seed"]}])
        return

    # ------------------------------------------------------------------ model
    ctx.tlc("MC_Rng", cfg="MC_Rng_thorough.cfg" if thorough else "MC_Rng.cfg", workers=8, timeout=900,
            label="MC_Rng (SameSeedSameRun, NonInterference under every interleaving)")
    nonvac = {}
    for c in ("MC_Rng_bug_shared.cfg", "MC_Rng_bug_time.cfg"):
        rr = ctx.tlc("MC_Rng", cfg=c, workers=2, must_pass=False, timeout=300, label=c + " (must fail)")
        nonvac[c] = bool(rr.violated)
        if not rr.violated:
            raise vlib.MachineryError("non-vacuity config %s did not produce a counterexample:\n%s" % (c, rr.tail(20)))

    # ------------------------------------------------------- code -> spec
    n = 30000 if thorough else 2000
    p = ctx.harness(["rng", "record", "--n", n, "--out", ctx.path("trace.ndjson"), "--cases", ctx.path("cases.ndjson"),
                     "--batch", 40 if thorough else 20, "--shards", 12,
                     "--extreme-seeds", 100000 if thorough else 20000, "--extreme-depth", 10000], timeout=1500)
    stats = json.loads(p.stdout.strip().splitlines()[-1])
    n_gen, n = n, stats["cases"]
    res = judge(ctx, rep, ctx.path("trace.ndjson"), ctx.path("cases.ndjson"), "RngTrace (%d cases x 4 runs)" % n)
    if res["runs"] != 4 * n:
        raise vlib.MachineryError("expected %d runs in the trace, found %d" % (4 * n, res["runs"]))

    # ---------------------------- binding self-test (never a verdict on the code)
    selftest = {"skipped": "the recorded trace itself was rejected; the self-test needs conforming events"}
    cases = vlib.read_ndjson(ctx.path("cases.ndjson"))
    if not res["bad"]:
        events = []
        with open(ctx.path("trace.ndjson")) as f:
            for line in f:
                events.append(json.loads(line))
                if len(events) >= 4000:
                    break
        last_case = events[-1]["case"]
        events = [e for e in events if e["case"] < last_case]      # whole cases only
        k1 = next(i for i, e in enumerate(events) if e["ev"] == "next" and e["run"] == 4 and any(d["kind"] == "dice" and d["b"] > 1 for d in e["draws"]))
        # the three corruptions go into three different cases (a run is reported once, at its first difference)
        k2 = next(i for i, e in enumerate(events) if e["ev"] == "next" and e["run"] == 1 and any(d["kind"] == "range" for d in e["draws"])
                  and e["case"] > events[k1]["case"])
        k3 = next(i for i, e in enumerate(events) if e["ev"] == "next" and e["run"] == 3 and e["res"]["k"] == "line"
                  and e["case"] > events[k2]["case"])
        mut = [json.loads(json.dumps(e)) for e in events]
        d = next(d for d in mut[k1]["draws"] if d["kind"] == "dice" and d["b"] > 1)
        d["v"] = d["v"] + 1 if d["v"] < d["b"] else d["v"] - 1        # another legal value: only the comparison can notice
        d = next(d for d in mut[k2]["draws"] if d["kind"] == "range")
        d["v"] = d["b"] + 1                                          # out of range in the learning run
        mut[k3]["res"]["text"] += "!"
        vlib.write_ndjson(ctx.path("selftest.ndjson"), mut)
        sres = run_trace(ctx, ctx.path("selftest.ndjson"), "RngTrace (self-test: three corrupted observations)")
        got = {(b["line"], b["what"]) for b in sres["bad"]}
        want = {(k1 + 1, "differs-drawn-value"), (k2 + 1, "range-range"), (k3 + 1, "differs-element")}
        # corrupting the learning run makes the later runs of that case differ from it: expected as well
        extra = {g for g in got - want if not (g[1].startswith("differs") and events[g[0] - 1]["case"] == events[k2]["case"])}
        selftest = {"corrupted": 3, "rejected": len(got & want)}
        if not want <= got or extra:
            raise vlib.MachineryError("binding self-test failed: expected %s, got %s" % (sorted(want), sorted(got)))

    nontrivial = sum(1 for c in cases if len(c["contracts"]) >= 2 and ("->" in c["script"] or "<<if" in c["script"]))
    ctx.cover(
        evaluations=n, runs=res["runs"], next_calls_compared_with_first_run=res["compared"], drawn_values_range_checked=res["draws"],
        trace_events=res["lines"], child_processes=stats["children"],
        generated_cases=n_gen, edge_of_interval_cases=n - n_gen,
        cases_with_a_run_time_fault=sum(1 for c in cases if c.get("faulty")),
        seeds_longer_than_12=sum(1 for c in cases if len(c["seed"]) > 12),
        distinct_nontrivial=nontrivial,
        rule="one evaluation = one (script, seed, choice path) executed four times (first, again, disturbed, child process); "
             "non-trivial = at least two observable draws and control flow (if / options) that depends on drawn values",
        traces_validated_against_impl=res["runs"],
        violations_by_class=dict(rep.per), suppressed_duplicates=rep.suppressed,
        nonvacuity=nonvac, binding_selftest=selftest,
        samples=[{"seed": c["seed"], "script": c["script"][:300], "choices": c["choices"]} for c in cases[:2]],
    )
    ctx.assumptions += [
        "generators stay inside the domain of the built-ins (dice(n) with 1 <= n <= 2^31-1, random_range(a,b) with a <= b, |a|,|b| < 2^31); "
        "out-of-domain arguments belong to property C06",
        "seeds are non-empty strings over [0-9a-z] of length 1..16 (lengths above 12 overflow the int64 the library derives)",
        "random() is compared between runs by its exact bit pattern and range-checked through floor(v * 2^30)",
        "draws inside if / option conditions are not observable as values; they are covered through the control flow they decide",
        "different processes = child processes of the same binary on the same machine (no cross-architecture / cross-version comparison)",
    ]
