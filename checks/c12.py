"""C12 - end of dialogue is absorbing."""
import core_common as cc

PROPERTY = "C12"
LEVEL = "model_checking"

END = ["EndAbsorbing", "EndReportedOnlyWhenEnded"]


def scope(field, exp, got, info):
    """C12 owns every observation made after the first reported end (elements, handler and
    probe logs, storer writes and contents), and an end reported where none is due."""
    if info["after_end"]:
        return True
    return field == "out" and isinstance(got, dict) and got.get("k") == "end" and exp.get("k") not in ("end", "error")


SPEC = dict(
    sig="end", scope=scope,
    sc=dict(family="flow", n=(220, 1500), mc=dict(max_calls=12, after_end=3), mc_thorough=dict(max_calls=14),
            invariants=END, bugs=[("stopKeepsStack", END, []), ("staleChoiceAfterEnd", END, [])]),
    cs=[dict(family="flowbig", n=(60, 400), paths=(4, 6), calls=45,
             label="YarnTrace: random walks continued after the end"),
        # <<stop>> nine and more bodies deep, with statements remaining at every level
        dict(family="huge", n=(12, 80), paths=(2, 3), calls=120,
             label="YarnTrace: very big programs (stops deep inside) continued after the end"),
        # ends reached next to commands (pending ones, handlers the host registered under `stop`)
        dict(family="cmds", n=(40, 300), paths=(3, 5), calls=40,
             label="YarnTrace: dialogues with commands continued after the end")],
    scripts=dict(paths=(5, 25), calls=80, mc=dict(invariants=END, max_calls=8, after_end=3)),
    rule="flow-family programs (stop at any nesting depth with statements remaining, option groups as last statement with empty and "
         "non-empty bodies): every path to an end enumerated by TLC, then 3 further Next calls with arbitrary arguments (0, in-range "
         "indices of the last group, negative, huge) replayed; random walks of bigger programs continued 2-4 calls past the end; "
         "non-trivial = program nests at depth >= 2 or jumps",
    assumptions=["no snapshot is restored after the end (that is C07's)"],
)


def run(ctx):
    cc.run_core_check(ctx, SPEC)
