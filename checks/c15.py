"""C15 - markup parsing is total and its results are safe to use.

Model (TLC):   MC_Markup.tla with the alphabet "s" (whitespace of every kind at the edges and
               inside markers, unclosed / stray markers, failing replacement, malformed
               fragments): RangesInsideText (0 <= pos, 0 <= len, pos + len <= Len(text)) for
               every item sequence up to a length; Bug_NoTrimAdjust must be caught.
Spec -> code:  every enumerated line is rendered and parsed by the real parser.
Code -> spec:  token-level assemblies of marker fragments, mutated valid lines and arbitrary bytes
               (invalid UTF-8 included) up to 64 bytes; every call under recover with a watchdog,
               TextForAttribute for every returned attribute; MarkupSafetyTrace.tla evaluates the
               range invariants and forbids panics / non-termination on every recorded event.
"""
import json

import vlib
import markup_common as mc

PROPERTY = "C15"
LEVEL = "model_checking"


def run(ctx):
    thorough = ctx.tier == "thorough"
    ctx.build()
    if ctx.replay:
        payload = json.load(open(ctx.replay))["payload"]
        vlib.write_ndjson(ctx.path("rin.ndjson"), [payload])
        mc.run_safety(ctx, inputs=ctx.path("rin.ndjson"), label="MarkupSafetyTrace (replay of one stored input)")
        ctx.cover(traces_validated_against_impl=1, evaluations=1, distinct_nontrivial=0, rule="replay of one stored input",
                  samples=[{"input_hex": payload["hex"]}])
        return

    # ------------------------------------------------------------------ model
    maxlen = 4 if thorough else 3
    cfg = mc.write_cfg(ctx, "MC_Markup_safety.cfg", MaxLen=maxlen, Alpha='"s"', EmitBeh="TRUE")
    r = ctx.tlc("MC_Markup", cfg="MC_Markup_safety.cfg", files=[("MC_Markup_safety.cfg", cfg)], workers=8, timeout=1800,
                label="MC_Markup (RangesInsideText; alphabet s, <= %d items)" % maxlen)
    behs = r.printed("BEH")
    if not behs:
        raise vlib.MachineryError("MC_Markup printed no line")
    vlib.write_ndjson(ctx.path("beh.ndjson"), behs)
    nonvac = mc.nonvacuity(ctx, ["Bug_NoTrimAdjust", "Bug_BytePositions"], alpha="s", maxlen=2, invariants="RangesInsideText")

    # ------------------------------------------------------ S->C and C->S in one trace
    n = 500000 if thorough else 25000
    st = mc.run_safety(ctx, n=n, beh=ctx.path("beh.ndjson"))
    events = st.pop("events_list")
    outcomes = {}
    nontrivial = set()
    for e in events:
        k = e["kind"] + ":" + e["outcome"]
        outcomes[k] = outcomes.get(k, 0) + 1
        if e["outcome"] == "result" and e["attrs"]:
            nontrivial.add(e["hex"])
    ctx.log("%d inputs (%s), %d results, %d unsafe" % (st["inputs"], st["kinds"], st["results"], st["bad"]))
    selftest = mc.safety_selftest(ctx, events) if thorough and st["bad"] == 0 else None
    mid = events[len(events) // 2]
    ctx.cover(
        traces_validated_against_impl=len(events),
        model_lines_replayed=st["kinds"].get("model", 0), inputs=st["inputs"], input_kinds=st["kinds"], outcomes=outcomes,
        results_with_attributes=len(nontrivial),
        evaluations=len(events), distinct_nontrivial=len(nontrivial),
        rule="non-trivial = distinct input strings for which the parser returned a result with at least one attribute "
             "(their ranges and TextForAttribute are judged); every input is judged for panic / non-termination",
        exhaustive=True, nonvacuity=nonvac,
        samples=[{"input": bytes.fromhex(mid["hex"]).decode("utf-8", "backslashreplace"), "kind": mid["kind"], "outcome": mid["outcome"]}],
    )
    if selftest is not None:
        ctx.cover(binding_selftest=selftest)
    ctx.assumptions += mc.ASSUMPTIONS_C15
