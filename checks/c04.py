"""C04 - line/option rendering: literal text, escapes, interpolation, tags, Disabled.

Model (TLC):   LineLexerMC.tla: the ANTLR mode automaton of BodyMode / TextMode /
               TextEscapedMode / TextCommandOrHashtagMode / HashtagMode (transcribed from
               YarnSpinnerLexer.g4) over every class sequence up to a length, at the line
               start and after an option arrow: mode stack back to BodyMode after every
               valid line, tags/comments/conditions never contribute to text, contributions
               in source order, and the automaton's result equals the position-independent
               declarative meaning; every option group of <= 3 (4) options with every
               assignment of {no condition, true, false}.  Two bug switches must fail.
Spec -> code:  every enumerated line the automaton classifies as a judged valid line and
               every option group is rendered (characters drawn per class by seed), batched
               into scripts and run through NewDialogueRunner + Next (verifh lines replay);
               Line.Text, Tags, option order and Disabled are compared.  The automaton's
               valid/invalid verdict on EVERY enumerated line is compared with the
               grammar's own (independent ANTLR error listener).
Code -> spec:  seeded random long lines and option groups with inline expressions of every
               type are run and validated by LineLexerTrace.tla.
"""
import json
import os

import vlib

PROPERTY = "C04"
LEVEL = "model_checking"

MAX_PER_CLASS = 2   # replay files written per violation class (all are counted)


def _cfg_with_seed(ctx, name, out):
    txt = open(os.path.join(vlib.SPEC, name)).read().replace("Seed = 1", "Seed = %d" % (ctx.seed % 100000))
    p = ctx.path(out)
    open(p, "w").write(txt)
    return p


def _s(cps):
    return "".join(chr(c) for c in cps)


def _limited(ctx, cls):
    seen = ctx.__dict__.setdefault("_c04_seen", {})
    seen[cls] = seen.get(cls, 0) + 1
    return seen[cls] <= MAX_PER_CLASS


def _fmt_elems(kind, elems):
    parts = []
    for e in elems:
        s = "text %r tags %r" % (_s(e["text"]), [_s(t) for t in e["tags"]])
        if kind == "opts":
            s += " disabled=%s" % e["dis"]
        parts.append(s)
    return kind + " [" + "; ".join(parts) + "]"


def _trace_class(exp_kind, exp, obs):
    if obs["k"] != exp_kind:
        return "kind-%s-instead-of-%s" % (obs["k"], exp_kind)
    if len(obs["elems"]) != len(exp):
        return "option-count"
    for w, g in zip(exp, obs["elems"]):
        if w["text"] != g["text"]:
            return "text"
        if w["tags"] != g["tags"]:
            return "tags"
        if exp_kind == "opts" and w["dis"] != g["dis"]:
            return "disabled"
    if not obs["marker"]:
        return "following-line-corrupted"
    return "other"


def _validate_trace(ctx, trace_path, label):
    t = ctx.tlc("LineLexerTrace", files=[("trace.ndjson", trace_path)], workers=1, label=label, timeout=1800)
    res = t.printed("RESULT")
    if not res:
        raise vlib.MachineryError("LineLexerTrace printed no RESULT:\n" + t.tail())
    res = res[-1]
    n = sum(1 for _ in open(trace_path))
    if res["events"] != n:
        raise vlib.MachineryError("line trace not consumed completely: %d of %d" % (res["events"], n))
    return res


def _check_modelbad(res, events):
    if res["modelbad"]:
        byid = {e["id"]: e for e in events}
        b = res["modelbad"][0]
        raise vlib.MachineryError("LineLexer.tla disagrees with the grammar (independent ANTLR error listener) on %d recorded "
                                  "element(s), e.g. %r: automaton says %s, ANTLR counted %d syntax error(s) - the transcription "
                                  "of YarnSpinnerLexer.g4 needs attention (model-level failure, not a verdict on the code)"
                                  % (len(res["modelbad"]), _s(byid[b["id"]]["source"]), b["status"], b["errs"]))


def _report_trace_bad(ctx, res, events):
    byid = {e["id"]: e for e in events}
    for b in res["bad"]:
        ev = byid[b["id"]]
        cls = _trace_class(b["kind"], b["exp"], ev["obs"])
        if not _limited(ctx, "trace:" + cls):
            continue
        payload_ev = {k: ev[k] for k in ("id", "kind", "arrow", "items", "opts", "formbase")}
        ctx.violation({"kind": "line-trace", "event": payload_ev, "source": _s(ev["source"])},
                      "script element %r: the specification prescribes %s; Next returned %s%s"
                      % (_s(ev["source"]), _fmt_elems(b["kind"], b["exp"]), _fmt_elems(ev["obs"]["k"], ev["obs"]["elems"]),
                         (" (" + ev["obs"]["detail"] + ")") if ev["obs"].get("detail") else ""),
                      signature="lines:" + cls)


def _replay_rows(ctx, rows, batch=100, classes=True):
    vlib.write_ndjson(ctx.path("beh.ndjson"), rows)
    args = ["lines", "replay", "--in", ctx.path("beh.ndjson"), "--out", ctx.path("diffs.ndjson"), "--batch", batch]
    if classes:
        args += ["--classes", ctx.path("classes.ndjson")]
    p = ctx.harness(args, timeout=2400)
    stats = json.loads(p.stdout.strip().splitlines()[-1])
    diffs = vlib.read_ndjson(ctx.path("diffs.ndjson"))
    for d in diffs:
        if not _limited(ctx, "replay:" + d["what"]):
            continue
        ctx.violation({"kind": "line-replay", "case": d["case"], "source": d["source"]},
                      "script element %r: the specification prescribes %s; the library returned %s"
                      % (d["source"], d["exp"], d["got"]), signature="lines:" + d["what"])
    return stats, diffs


def _run_replay(ctx):
    payload = json.load(open(ctx.replay))["payload"]
    ctx.build()
    if payload["kind"] == "line-replay":
        _replay_rows(ctx, [payload["case"]], batch=1, classes=False)
    elif payload["kind"] == "line-trace":
        vlib.write_ndjson(ctx.path("ev.ndjson"), [payload["event"]])
        ctx.harness(["lines", "rerun", "--in", ctx.path("ev.ndjson"), "--out", ctx.path("trace.ndjson")])
        res = _validate_trace(ctx, ctx.path("trace.ndjson"), "LineLexerTrace (replayed element)")
        events = vlib.read_ndjson(ctx.path("trace.ndjson"))
        _check_modelbad(res, events)
        _report_trace_bad(ctx, res, events)
    elif payload["kind"] == "widedisp":
        return wide_display(ctx)
    elif payload["kind"] in ("replay", "trace"):
        import core_common as cc
        return cc.replay_core(ctx, OPTCOND)
    else:
        raise vlib.MachineryError("unknown replay payload kind %r" % payload.get("kind"))
    ctx.cover(replayed=1, states=sum(x["distinct"] for x in ctx.tlc_runs), transitions=sum(x["generated"] for x in ctx.tlc_runs),
              traces_validated_against_impl=1, samples=[payload.get("source")])


def wide_display(ctx):
    """Display of doubles outside the exact window (huge integral values, full mantissas, infinities): what a line shows, read back
    as a decimal, is the number again; an integral number is shown without a decimal point (doubles as bit patterns, WideArithTrace)."""
    import struct
    tp = ctx.path("widedisp.ndjson")
    ctx.harness(["core", "widearith", "--display", "1", "--n", 20000 if ctx.tier == "thorough" else 2000, "--out", tp])
    t = ctx.tlc("WideArithTrace", files=[("trace.ndjson", tp)], workers=1, timeout=900, label="WideArithTrace (display of doubles)")
    res = t.printed("RESULT")
    events = vlib.read_ndjson(tp)
    if not res or res[-1]["lines"] != len(events):
        raise vlib.MachineryError("display trace not consumed:\n" + t.tail())
    if any(b["what"] == "malformed-event" for b in res[-1]["bad"]):
        raise vlib.MachineryError("the harness wrote a malformed display event: %s" % res[-1]["bad"][0])

    def show(tok):
        return repr(struct.unpack(">d", bytes.fromhex(tok[1:]))[0]) if tok.startswith("f") and len(tok) == 17 else tok
    for b in res[-1]["bad"][:3]:
        e = events[b["line"] - 1]
        ctx.violation({"kind": "widedisp", "event": e},
                      "a line showing the number %s: the shown text reads back as %s" % (show(e["a"]), show(e["got"])),
                      signature="lines:wide-display-" + b["what"])
    ctx.cover(wide_double_displays=len(events))


def _optcond_scope(field, exp, got, info):
    """This stage owns the option lists (texts, order, Disabled flags) presented by hub nodes that are
    reached again and again while visit counts and variables change."""
    return field == "out" and isinstance(exp, dict) and isinstance(got, dict) and "opts" in (exp.get("k"), got.get("k"))


# Disabled must be computed from the condition's value AT EVERY PRESENTATION of the group (history):
# decided on the runner specification, with the shared pipeline of checks/core_common.py
OPTCOND = dict(
    sig="optcond", scope=_optcond_scope, merge=True,
    sc=dict(family="optcond", n=(120, 1200), mc=dict(max_calls=12, after_end=0), mc_thorough=dict(max_calls=14),
            invariants=["FlowRefinesSem"]),
    cs=[dict(family="optcond", n=(40, 400), paths=(3, 5), calls=40,
             label="YarnTrace: option groups of hub nodes presented repeatedly")],
    nontrivial=lambda c: sum(1 for b in c["bodies"] for s in b if s["k"] == "opts" for o in s["opts"] if o["cond"]["k"] != "none") >= 2,
    rule="programs of the optcond family (hub nodes reached again through jumps; most options conditional, many conditions reading no "
         "variable: visited / visited_count / host functions): all choice paths enumerated by TLC and replayed, random walks "
         "trace-validated; judged: option texts, order and Disabled at every presentation; non-trivial = at least two conditional options",
)


def _render_scope(field, exp, got, info):
    """This stage owns WHAT an element shows when the specification and the library agree that a line / an option group
    is due: text, tags, order and Disabled flags - after failed lines, after restores, in hand-written scripts."""
    return (field == "out" and isinstance(exp, dict) and isinstance(got, dict) and exp.get("k") == got.get("k")
            and exp.get("k") in ("line", "opts"))


# what a line shows depends on that line only: not on the line that failed before it (text already rendered when an inline
# expression fails), not on the state the runner was restored from
RENDERHIST = dict(
    sig="renderhist", scope=_render_scope, merge=True,
    cs=[dict(family="faults", n=(80, 800), paths=(3, 5), calls=45,
             label="YarnTrace: lines and options shown after lines whose inline expressions failed"),
        dict(family="optcond", n=(40, 300), paths=(3, 5), calls=40, mode="snap",
             label="YarnTrace: conditional option groups shown after Snapshot / RestoreAt (three runners)")],
    scripts=dict(paths=(4, 20), calls=80),
    rule="faulty programs (a line or option whose inline expression fails after some of its text was rendered, then further lines), "
         "hub nodes with conditional options presented after RestoreAt, hand-written scripts as written: random walks trace-validated; "
         "judged: text, tags, order and Disabled of every line / option group the specification and the library both present",
)


def run(ctx):
    if ctx.replay:
        return _run_replay(ctx)
    thorough = ctx.tier == "thorough"
    ctx.build()
    samples = []

    # ------------------------------------------------------------------ model
    cfg_name = "LineLexerMC_thorough.cfg" if thorough else "LineLexerMC.cfg"
    cfg = _cfg_with_seed(ctx, cfg_name, "LineLexerMC_run.cfg")
    mc = ctx.tlc("LineLexerMC", cfg="LineLexerMC_run.cfg", files=[("LineLexerMC_run.cfg", cfg)], workers=8,
                 label="LineLexerMC (%s: automaton = declarative meaning, mode stack)" % cfg_name, timeout=1800)
    rows = mc.printed("BEH")
    if not rows:
        raise vlib.MachineryError("LineLexerMC printed no behaviour")
    nonvac = {}
    for bug in ("LineLexerMC_bug1.cfg", "LineLexerMC_bug2.cfg"):
        rr = ctx.tlc("LineLexerMC", cfg=bug, workers=4, must_pass=False, timeout=600, label=bug + " (must fail)")
        nonvac[bug] = bool(rr.violated)
        if not rr.violated:
            raise vlib.MachineryError("non-vacuity config %s did not produce a counterexample" % bug)

    # ----------------------------------------------------------- spec -> code
    stats, diffs = _replay_rows(ctx, rows)
    classes = stats.get("classes", {})
    ctx.log("replayed %d judged lines/groups of %d enumerated in %d scripts: %d differ; automaton vs ANTLR: %s"
            % (stats["judged"], stats["rows"], stats["batches"], stats["diffs"], classes))
    wrong = [c for c in vlib.read_ndjson(ctx.path("classes.ndjson")) if c["unsound"] or (c["status"] == "invalid" and c["antlr"] == "clean")]
    if wrong:
        raise vlib.MachineryError("LineLexer.tla disagrees with the grammar (independent ANTLR error listener) on %d enumerated line(s), "
                                  "e.g. %r: automaton says %s, ANTLR says %s (%s) - the transcription of YarnSpinnerLexer.g4 needs "
                                  "attention (model-level failure, not a verdict on the code)"
                                  % (len(wrong), wrong[0]["source"], wrong[0]["status"], wrong[0]["antlr"], wrong[0].get("first")))
    status_counts = {}
    for r in rows:
        if r["kind"] == "line":
            k = r["res"]["status"] + ("/judged" if r["res"]["judged"] else "")
            status_counts[k] = status_counts.get(k, 0) + 1
    judged_lines = [r for r in rows if r["kind"] == "line" and r["res"]["judged"]]
    groups = [r for r in rows if r["kind"] == "group"]
    if judged_lines:
        mid = judged_lines[len(judged_lines) // 2]
        samples.append({"enumerated_line_classes": [it["c"] for it in mid["items"]], "after_arrow": mid["arrow"],
                        "prescribed_text": _s(mid["res"]["text"]), "prescribed_tags": [_s(t) for t in mid["res"]["tags"]]})
    if groups:
        g = groups[-1]
        samples.append({"enumerated_group_conditions": [o["res"]["cond"] for o in g["opts"]],
                        "prescribed_disabled": [o["res"]["dis"] for o in g["opts"]]})

    # ----------------------------------------------------------- code -> spec
    nev = 30000 if thorough else 3000
    p = ctx.harness(["lines", "record", "--n", nev, "--out", ctx.path("trace.ndjson")], timeout=2400)
    rstats = json.loads(p.stdout.strip().splitlines()[-1])
    res = _validate_trace(ctx, ctx.path("trace.ndjson"), "LineLexerTrace (random lines and option groups)")
    events = vlib.read_ndjson(ctx.path("trace.ndjson"))
    _check_modelbad(res, events)
    if res["judged"] * 2 < res["events"]:
        raise vlib.MachineryError("fewer than half of the random elements are judged (%d of %d): the generator drifted"
                                  % (res["judged"], res["events"]))
    _report_trace_bad(ctx, res, events)
    ev0 = next((e for e in events if e["obs"]["k"] == "line" and len(e["items"]) > 10), events[0])
    samples.append({"random_element": _s(ev0["source"]), "next_returned": _fmt_elems(ev0["obs"]["k"], ev0["obs"]["elems"])})

    # -------------------------------------- binding self-test (never a verdict)
    selftest = "skipped: the recorded trace is already rejected"
    if not res["bad"]:
        sub = [json.loads(json.dumps(e)) for e in events[:400]]
        skip_ids = set()
        victim = next((e for e in sub if e["obs"]["k"] == "opts" and e["obs"]["marker"] and e["errs"] == 0
                       and any(it["c"] == "cd" for o in (e["opts"] or [{"items": e["items"]}]) for it in o["items"])), None)
        victim2 = next((e for e in sub if e["obs"]["k"] == "line" and e["obs"]["marker"] and e["errs"] == 0
                        and e["obs"]["elems"][0]["tags"] and e is not victim), None)
        if victim is not None and victim2 is not None:
            victim["obs"]["elems"][-1]["dis"] = not victim["obs"]["elems"][-1]["dis"]      # an option's Disabled flag
            victim2["obs"]["elems"][0]["tags"][0] = [35] + victim2["obs"]["elems"][0]["tags"][0]   # a tag keeps its '#'
            vlib.write_ndjson(ctx.path("selftest.ndjson"), sub)
            sres = _validate_trace(ctx, ctx.path("selftest.ndjson"), "LineLexerTrace (self-test: two corrupted observations)")
            rejected = sorted(b["id"] for b in sres["bad"])
            want = sorted([victim["id"], victim2["id"]])
            # a corrupted element is only rejected if the automaton judges it
            selftest = {"corrupted_events": want, "rejected": rejected, "ok": rejected == want}
            if not selftest["ok"]:
                raise vlib.MachineryError("binding self-test failed: corrupted events %s, trace specification rejected %s" % (want, rejected))
        else:
            selftest = "skipped: no suitable event among the first 400"

    ctx.cover(
        states=sum(x["distinct"] for x in ctx.tlc_runs),
        transitions=sum(x["generated"] for x in ctx.tlc_runs),
        traces_validated_against_impl=stats["judged"] + res["judged"],
        enumerated_elements=len(rows), enumerated_line_status=status_counts, enumerated_option_groups=len(groups),
        enumerated_judged_replayed_on_impl=stats["judged"], enumerated_options_replayed=stats["options"],
        enumerated_items_with_expression=stats["slots"], enumerated_multibyte_items=stats["multibyte_items"],
        replay_differences=stats["diffs"], scripts_run=stats["batches"] + rstats["batches"],
        automaton_vs_antlr=classes,
        random_elements=res["events"], random_judged=res["judged"], random_skipped_not_judged=res["skipped"],
        random_options_judged=res["options"], random_items=rstats["items"], random_observed_kinds=rstats["observed"],
        random_rejected=len(res["bad"]), violation_classes=dict(ctx.__dict__.get("_c04_seen", {})),
        max_len_enumerated=4 if thorough else 3,
        evaluations=stats["judged"] + res["judged"],
        distinct_nontrivial=stats["slots"] + stats["options"],
        rule="every class sequence up to the length bound x {line start, after arrow}; non-trivial = judged element with an inline "
             "expression, or an option",
        exhaustive=True,
        nonvacuity=nonvac,
        binding_selftest=selftest,
        samples=samples,
    )
    wide_display(ctx)
    import core_common as cc
    cc.run_core_check(ctx, OPTCOND)
    cc.run_core_check(ctx, RENDERHIST)
    ctx.assumptions += [
        "the .g4 grammars define 'syntactically valid'; lines the automaton classifies invalid/notline/open are not judged "
        "(syntax errors belong to C05; 'open' = text glued to a #tag, blanks at the very start of a line (indentation), "
        "'<<' formed inside text, a bare arrow, a plain line that carries a condition)",
        "no unescaped '[' or ']' in text or in string values (markup is another layer); '\\[' and '\\]' are generated (not as the "
        "first character of a line, which the grammar rejects)",
        "numbers are dyadic fractions n/d with |n| < 2^15 and d <= 256 (exact in binary floating point and in TLC's integers); "
        "display of larger or non-dyadic numbers (exponent notation, shortest round-trip digits) is not decided here",
        "blanks are spaces and tabs; multi-byte characters are drawn from letters, CJK, emoji and punctuation that Unicode does not "
        "class as white space; string values contain no double quote when written as literals (then a variable is used)",
        "conditions are boolean-valued expressions (literal, variable, comparison, negation); a non-boolean condition is an error (C06)",
        "line breaks are LF or CRLF",
    ]
