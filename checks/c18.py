"""C18 - independent runners can be created and driven concurrently."""
import json
import re

import core_common as cc
import vlib

PROPERTY = "C18"
LEVEL = "exploration"


def run(ctx):
    thorough = ctx.tier == "thorough"
    ctx.build(race=True)
    total_runs, total_events, races_total, samples = 0, 0, 0, []
    distinct = set()
    # seeded runners full of random draws (outside the runner specification: judged by alone == concurrent only)
    for g in ((2, 4, 8, 16) if thorough else (4, 16)):
        dpath = ctx.path("rngdiffs_%d.ndjson" % g)
        p = ctx.harness(["rng", "concurrent", "--g", g, "--rounds", 30 if thorough else 4, "--out", dpath], race=True, check=False, timeout=1500,
                        env={"GORACE": "halt_on_error=0 exitcode=0", "VERIF_SEED": str(ctx.seed * 100 + g)})
        if p.returncode != 0 and "fatal error: concurrent map" not in p.stderr:
            raise vlib.MachineryError("rng concurrent driver failed rc=%d: %s" % (p.returncode, p.stderr[-1500:]))
        races = len(re.findall(r"WARNING: DATA RACE|fatal error: concurrent map", p.stderr))
        races_total += races
        if races:
            first = p.stderr[min(i for i in (p.stderr.find("WARNING: DATA RACE"), p.stderr.find("fatal error: concurrent map")) if i >= 0):][:3000]
            ctx.violation({"kind": "race", "family": "rng", "goroutines": g, "report": first},
                          "the race detector / Go runtime reported %d data race(s) with %d goroutines creating and driving their own seeded runners:\n%s"
                          % (races, g, first[:1500]), signature="concurrent:data-race")
        if p.returncode == 0:
            rs = json.loads(p.stdout.strip().splitlines()[-1])
            total_runs += rs["runs"]
            for d in vlib.read_ndjson(dpath)[:3]:
                ctx.violation({"kind": "rng-solo-diff", "diff": d},
                              "seeded runner %d of %d concurrent ones (seed %r) differs from the same runner driven alone"
                              % (d["goroutine"], d["goroutines"], d["case"]["seed"]), signature="concurrent:seeded-differs-from-alone")
            ctx.cover(seeded_runs_with_draws=rs["runs"])
    for family, n in (("markupy", 50), ("mathy", 40), ("flow", 60), ("cmds", 40), ("expr", 30), ("flowbig", 30)):
        cases_path = cc.gen_cases(ctx, family, n, "cases_%s.ndjson" % family)
        cases, _ = cc.load_cases(cases_path)
        for g in ((2, 4, 8, 16) if thorough else (4, 16)):
            trace = ctx.path("trace_%s_%d.ndjson" % (family, g))
            diffs = ctx.path("diffs_%s_%d.ndjson" % (family, g))
            all_cases = ctx.path("cases_all_%s_%d.ndjson" % (family, g))     # + sibling programs made by the driver
            p = ctx.harness(["core", "concurrent", "--cases", cases_path, "--cases-out", all_cases, "--out", trace, "--diffs", diffs, "--g", g,
                             "--rounds", 40 if thorough else 4], race=True, check=False, timeout=1500,
                            env={"GORACE": "halt_on_error=0 exitcode=0", "VERIF_SEED": str(ctx.seed * 100 + g)})
            fatal = "fatal error: concurrent map" in p.stderr
            if p.returncode != 0 and not fatal:
                raise vlib.MachineryError("concurrent driver failed rc=%d: %s" % (p.returncode, p.stderr[-1500:]))
            races = len(re.findall(r"WARNING: DATA RACE|fatal error: concurrent map", p.stderr))
            races_total += races
            if races:
                first = p.stderr[min(i for i in (p.stderr.find("WARNING: DATA RACE"), p.stderr.find("fatal error: concurrent map")) if i >= 0):][:3000]
                ctx.violation({"kind": "race", "family": family, "goroutines": g, "report": first},
                              "the race detector reported %d data race(s) with %d goroutines creating and driving their own runners:\n%s"
                              % (races, g, first[:1500]), signature="concurrent:data-race")
            if fatal:
                continue        # the Go runtime killed the driver (reported above): nothing else to read from this run
            stats = json.loads(p.stdout.strip().splitlines()[-1])
            for d in vlib.read_ndjson(diffs):
                ctx.violation({"kind": "solo-diff", "diff": d},
                              "runner %d of %d concurrent ones (family %s) differs from the same runner driven alone at event %d: concurrently %s, alone %s"
                              % (d["goroutine"], d["goroutines"], family, d["event"], cc.short(d["concurrent"]), cc.short(d["alone"])),
                              signature="concurrent:differs-from-alone")
            cases, _ = cc.load_cases(all_cases)
            res = cc.validate(ctx, all_cases, trace, label="YarnTrace: %s, %d goroutines" % (family, g))
            tix = None
            for b in res["bad"]:
                tix = tix or cc.TraceIndex(trace)
                ctx.violation(cc.trace_payload(cases, tix, b),
                              "concurrently driven runner rejected by the specification (case %d, trace line %d): %s"
                              % (b["id"], b["line"], cc.describe_diff(b["field"], b["exp"], b["got"])), signature="concurrent:" + b["field"])
            total_runs += stats["runs"]
            total_events += stats["events"]
            ctx.cover(rounds_sibling_programs=stats["sibling_rounds"], rounds_shared_snapshot=stats["shared_snapshot_rounds"])
            for e in vlib.read_ndjson(trace):
                if e["ev"] == "reset":
                    distinct.add((family, e["id"], g))
            if not samples:
                samples.append({"family": family, "goroutines": g, "rounds": stats["rounds"], "runs": stats["runs"]})
    ctx.cover(evaluations=total_runs, distinct_nontrivial=len(distinct), concurrent_runs=total_runs, events_validated=total_events,
              race_reports=races_total, samples=samples,
              rule="rounds of G in {2,4,8,16} goroutines released together, each parsing and driving its own runner (distinct programs, and rounds "
                   "where all goroutines get the same program, rounds where they get two programs whose first readers are byte-identical while the other "
                   "readers define the same titles differently, rounds where every goroutine restores its own runner from ONE snapshot value "
                   "taken by another runner) under the race detector; every run is repeated alone with the same seed and must "
                   "give the identical event list, and is validated against the runner specification; distinct = (family, program, G) triples")
    ctx.assumptions += ["data-race freedom is observed by Go's race detector on the schedules that occurred; TLC decides the functional half "
                        "(each runner's trace is the behaviour of its own case)",
                        "each runner is used by one goroutine only (the property's precondition)"]
