"""C16 - converted host functions/commands: accepted means callable without panics.

Model (TLC):   HostBridge.tla is the decision table of registration and call over an abstract
               signature algebra (DESIGN.md appendix H) plus an implementation-shaped formulation
               (gate on reflect.TypeOf, converters looked up by Kind, reflect.Call); MC_Bridge checks
               AcceptedIsTotal / TableTotal on every enumerated row; the Bug_* switches (no nil check,
               converters by Kind only, no too-many check) must each produce a counterexample.
Spec -> code:  MC_Bridge prints every row (signature x argument list x probe return) with the
               prescribed outcome; `verifh bridge replay` builds the Go function type with
               reflect.FuncOf, a probe with reflect.MakeFunc, registers it through
               ConvertAndAddFunction / ConvertAndAddCommand and calls it from a script.
Code -> spec:  random signatures / calls over the whole algebra are recorded and judged by
               HostBridgeTrace.tla with the same table.
"""
import json
import os

import vlib

PROPERTY = "C16"
LEVEL = "model_checking"

NAMED = {"MyInt", "MyInt8", "MyFloat", "MyFloat32", "MyBool", "MyString", "MyUint"}
PER_SIGNATURE = 3   # replay files written per class of difference


def feature(sig):
    if sig["shape"] != "fn":
        return sig["shape"]
    if any(p in NAMED for p in sig["params"]):
        return "named-param"
    if sig["variadic"]:
        return "variadic"
    return "plain"


def describe(row, obs, diff):
    s = row["s"]
    if s["shape"] == "nil":
        what = "nil interface"
    elif s["shape"] == "nonfunc":
        what = "non-function value (%s)" % s["nf"]
    else:
        ps = list(s["params"])
        if s["variadic"] and ps:
            ps[-1] = "..." + ps[-1]
        what = "func(%s) (%s)" % (", ".join(ps), ", ".join(s["results"]))
    api = "ConvertAndAddFunction" if s["api"] == "func" else "ConvertAndAddCommand"
    txt = "%s with %s, called with %s (probe returns %s): %s" % (api, what, row.get("vals") or obs.get("vals") or row["a"], row["ret"], diff)
    if obs:
        txt += "; observed registration=%s call=%s invocations=%s received=%s script-side=%s %s" % (
            obs.get("reg"), obs.get("call"), obs.get("ncalls"), obs.get("recv"), obs.get("seen"), (obs.get("detail") or "")[:200])
    if row.get("reg"):
        txt += "; table prescribes registration=%s call=%s received types=%s script-side=%s" % (
            row.get("reg"), row.get("call"), row.get("recv"), row.get("seen"))
    return txt


class Reporter:
    def __init__(self, ctx):
        self.ctx = ctx
        self.per = {}
        self.suppressed = 0

    def report(self, row, obs, diff):
        sig = "bridge:%s:%s" % (diff, feature(row["s"]))
        n = self.per.get(sig, 0)
        self.per[sig] = n + 1
        if n >= PER_SIGNATURE:
            self.suppressed += 1
            return
        r = dict(row)
        if obs:
            r["site"] = obs.get("site") or r.get("site", "")
            if obs.get("vals") is not None:
                r["vals"] = obs["vals"]
        self.ctx.violation({"kind": "bridge-row", "row": r, "obs": obs, "diff": diff}, describe(r, obs or {}, diff), signature=sig)


def run_trace(ctx, trace_path, label):
    t = ctx.tlc("HostBridgeTrace", files=[("trace.ndjson", trace_path)], workers=1, label=label, timeout=900)
    res = t.printed("RESULT")
    if not res:
        raise vlib.MachineryError("HostBridgeTrace printed no RESULT:\n" + t.tail())
    res = res[-1]
    nlines = sum(1 for _ in open(trace_path))
    if res["lines"] != nlines:
        raise vlib.MachineryError("bridge trace not consumed completely: %d of %d" % (res["lines"], nlines))
    return res


def replay_case(ctx):
    case = json.load(open(ctx.replay))["payload"]
    row = dict(case["row"])
    vlib.write_ndjson(ctx.path("one.ndjson"), [row])
    rep = Reporter(ctx)
    # through the trace specification (the table is evaluated by TLC on what the code did)
    ctx.harness(["bridge", "record", "--in", ctx.path("one.ndjson"), "--out", ctx.path("onetrace.ndjson"), "--workers", 1])
    ev = vlib.read_ndjson(ctx.path("onetrace.ndjson"))
    res = run_trace(ctx, ctx.path("onetrace.ndjson"), "HostBridgeTrace (replay)")
    for b in res["bad"]:
        rep.report(row, {k: ev[0].get(k) for k in ("reg", "call", "ncalls", "recvT", "recvV", "seen", "site")}, b["diff"])
    # and, if the case came from the enumerated table, against its prescription
    if not res["bad"] and row.get("reg"):
        ctx.harness(["bridge", "replay", "--in", ctx.path("one.ndjson"), "--out", ctx.path("onediff.ndjson"), "--workers", 1])
        for d in vlib.read_ndjson(ctx.path("onediff.ndjson")):
            rep.report(d["row"], d["obs"], d["diff"])
    ctx.cover(evaluations=1, distinct_nontrivial=1, traces_validated_against_impl=1, rule="replay of one stored row", samples=[row])


def _calls_scope(field, exp, got, info):
    return not info["after_end"]


# every script-side call runs the registered function with ITS arguments: calls nested among the later arguments of other
# calls, host functions with side effects, converted named-type functions, in expressions evaluated again and again
CALLS = dict(
    sig="bridge-calls", scope=_calls_scope, merge=True,
    cs=[dict(family="expr", n=(40, 300), paths=(2, 4), calls=30,
             label="YarnTrace: nested and repeated calls of host functions")],
    nontrivial=lambda c: True,
    rule="programs of the expr family (deep expression trees with probe functions, converted named-type functions, calls nested among "
         "the arguments of other calls, a host function that writes a variable): random walks trace-validated; judged: the invocation log "
         "(which function, which arguments, in which order) and every value that depends on a call's result",
)


def pending_part(ctx, thorough):
    """`converts its result or error back` when the outcome arrives LATER: converted commands of every shape (no result, error,
    chan error - unbuffered and owned by the handler -, <-chan error, variadic) blocked on gates and released by the harness,
    also abandoned by RestoreAt while running and called again afterwards; the runner specification decides each run."""
    import core_common as cc
    n = 200 if thorough else 30
    cases_path, trace_path = ctx.path("cases_gate.ndjson"), ctx.path("trace_gate.ndjson")
    p = ctx.harness(["core", "cmdrace", "--n", n, "--paths", 3 if thorough else 2, "--cases", cases_path, "--out", trace_path],
                    check=False, timeout=1500)
    if p.returncode != 0:
        raise vlib.MachineryError("cmdrace driver failed rc=%d: %s" % (p.returncode, p.stderr[-2000:]))
    stats = json.loads(p.stdout.strip().splitlines()[-1])
    cases, _ = cc.load_cases(cases_path)
    res = cc.validate(ctx, cases_path, trace_path, label="YarnTrace: converted commands whose outcome arrives later (real goroutines)")
    tix = None
    for b in res["bad"]:
        if b["field"] == "wait-too-early":
            continue        # the timing of <<wait n>> is property C10's
        tix = tix or cc.TraceIndex(trace_path)
        ctx.violation(cc.trace_payload(cases, tix, b),
                      "run with converted commands completing later rejected by the specification (case %d, trace line %d): %s"
                      % (b["id"], b["line"], cc.describe_diff(b["field"], b["exp"], b["got"])), signature="bridge-pending:" + b["field"])
    restores = sum(1 for e in vlib.read_ndjson(trace_path) if e["ev"] == "restore")
    ctx.cover(pending_converted_command_runs=stats["paths"], pending_converted_command_events=stats["events"],
              restores_while_a_converted_command_was_running=restores)


def run(ctx):
    thorough = ctx.tier == "thorough"
    ctx.build()
    if ctx.replay:
        rp = json.load(open(ctx.replay))["payload"]
        if str(rp.get("case", {}).get("family", "")).startswith("cmdrace"):
            return pending_part(ctx, False)   # goroutine cases cannot be re-driven event by event: re-run the tier
        if rp.get("kind") in ("replay", "trace") and "row" not in rp.get("case", {}):
            import core_common as cc
            return cc.replay_core(ctx, CALLS)
        return replay_case(ctx)
    rep = Reporter(ctx)
    samples = []

    # ------------------------------------------------------------------ model
    cfg = "MC_Bridge_thorough.cfg" if thorough else "MC_Bridge.cfg"
    g = ctx.tlc("MC_Bridge", cfg=cfg, workers=8, heap="8g", timeout=1500,
                label="MC_Bridge (%s): AcceptedIsTotal, TableTotal, row emission" % ctx.tier)
    rows = g.printed("ROW")
    if len(rows) != g.distinct or not rows:
        raise vlib.MachineryError("MC_Bridge printed %d rows for %d states" % (len(rows), g.distinct))
    au = ctx.tlc("MC_Bridge", cfg="MC_Bridge_acceptU.cfg", workers=8, timeout=600,
                 label="MC_Bridge_acceptU (an implementation that bridges the uint family also satisfies the table)")
    nonvac = {}
    for c in ("MC_Bridge_bug_nil.cfg", "MC_Bridge_bug_kind.cfg", "MC_Bridge_bug_many.cfg"):
        rr = ctx.tlc("MC_Bridge", cfg=c, workers=4, must_pass=False, timeout=300, label=c + " (must fail)")
        nonvac[c] = "AcceptedIsTotal" in rr.violated
        if not nonvac[c]:
            raise vlib.MachineryError("non-vacuity config %s did not produce a counterexample:\n%s" % (c, rr.tail(20)))

    # ----------------------------------------------------- spec -> code: all rows
    rows.sort(key=lambda r: json.dumps(r, sort_keys=True))
    for i, r in enumerate(rows):
        r["id"] = i + 1
    vlib.write_ndjson(ctx.path("rows.ndjson"), rows)
    p = ctx.harness(["bridge", "replay", "--in", ctx.path("rows.ndjson"), "--out", ctx.path("rowdiffs.ndjson"), "--workers", 8],
                    timeout=1500)
    stats = json.loads(p.stdout.strip().splitlines()[-1])
    if stats.get("rows") != len(rows):
        raise vlib.MachineryError("bridge replay ran %s of %d rows" % (stats.get("rows"), len(rows)))
    diffs = vlib.read_ndjson(ctx.path("rowdiffs.ndjson"))
    diffs.sort(key=lambda d: d["row"]["id"])
    for d in diffs:
        rep.report(d["row"], d["obs"], d["diff"])
    ctx.log("spec->code: %d rows replayed (%s), %d differ" % (len(rows), {k: v for k, v in stats.items() if k.startswith(("reg_", "call_"))}, len(diffs)))
    invoked_rows = [r for r in rows if r["call"] == "invoked" and r["a"]]
    samples.append({"row": invoked_rows[len(invoked_rows) // 3] if invoked_rows else rows[0]})
    samples.append({"row": [r for r in rows if r["reg"] == "refused"][7]})

    # ------------------------------------------------ code -> spec: random rows
    n = 200000 if thorough else 6000
    ctx.harness(["bridge", "record", "--n", n, "--out", ctx.path("trace.ndjson"), "--rows", ctx.path("trows.ndjson"), "--workers", 8],
                timeout=1500)
    res = run_trace(ctx, ctx.path("trace.ndjson"), "HostBridgeTrace (random signatures and calls)")
    trows = None
    events = None
    for b in res["bad"]:
        if trows is None:
            trows = vlib.read_ndjson(ctx.path("trows.ndjson"))
            events = vlib.read_ndjson(ctx.path("trace.ndjson"))
        row, ev = trows[b["line"] - 1], events[b["line"] - 1]
        if row["id"] != b["id"]:
            raise vlib.MachineryError("trace/rows files out of step at line %d" % b["line"])
        rep.report(row, {k: ev.get(k) for k in ("reg", "call", "ncalls", "recvT", "recvV", "sentV", "seen", "seenT", "seenV", "retV", "site")}, b["diff"])
    ev0 = vlib.read_ndjson(ctx.path("trace.ndjson"))
    samples.append({"event": next((e for e in ev0 if e["call"] == "invoked" and len(e["a"]) >= 2), ev0[0])})

    # ------------------------------------- binding self-test (never a verdict)
    selftest = {"skipped": "the recorded trace itself was rejected; the self-test needs conforming events"}
    if not res["bad"]:
        k = next((i for i, e in enumerate(ev0) if e["call"] == "invoked" and e["recvV"] and e["seen"] != "error"), None)
        if k is not None:
            mutated = [dict(e) for e in ev0[: k + 1]]
            mutated[k]["recvV"] = list(mutated[k]["recvV"])
            mutated[k]["recvV"][-1] = mutated[k]["recvV"][-1] + "0"
            vlib.write_ndjson(ctx.path("selftest.ndjson"), mutated)
            sres = run_trace(ctx, ctx.path("selftest.ndjson"), "HostBridgeTrace (self-test: one received value corrupted)")
            hit = [b for b in sres["bad"] if b["line"] == k + 1 and b["diff"] == "argument-value-received"]
            extra = [b for b in sres["bad"] if b["line"] == k + 1 and b["diff"] != "argument-value-received"]
            selftest = {"corrupted_event": k + 1, "rejected": bool(hit)}
            if not hit or extra:
                raise vlib.MachineryError("binding self-test failed: corrupted event %d not rejected as expected (%s)" % (k + 1, sres["bad"][-3:]))

    nontrivial = sum(1 for r in rows if r["call"] == "invoked" and len(r["a"]) >= 1 and r["reg"] != "refused")
    ctx.cover(
        traces_validated_against_impl=len(rows) + res["lines"],
        table_rows_replayed=len(rows), table_rows_accepted=stats.get("reg_ok", 0), table_rows_refused=stats.get("reg_refused", 0),
        table_rows_invoked=stats.get("call_invoked", 0), table_rows_call_error=stats.get("call_error", 0),
        table_rows_by_site={k[5:]: v for k, v in stats.items() if k.startswith("site_") and k != "site_"},
        distinct_signatures_replayed=len({json.dumps(r["s"], sort_keys=True) for r in rows}),
        random_rows=res["lines"], random_rows_accepted=res["accepted"], random_rows_invoked=res["invoked"],
        evaluations=len(rows) + res["lines"], distinct_nontrivial=nontrivial,
        rule="row = (signature, argument list, probe return); non-trivial = distinct enumerated table rows on which the probe must be "
             "invoked with at least one converted argument (random rows are counted separately in random_rows_invoked)",
        violations_by_class=dict(rep.per), suppressed_duplicates=rep.suppressed,
        exhaustive=True, nonvacuity=nonvac, binding_selftest=selftest, samples=samples,
    )
    pending_part(ctx, thorough)
    import core_common as cc
    cc.run_core_check(ctx, CALLS)
    ctx.assumptions += [
        "numbers handed to integer kinds are integral and in range, numbers handed to float32 are exactly representable (conversion is then unambiguous)",
        "uint family parameters/results: refused, or accepted and faithful (the property does not settle them)",
        "results of type error are the interface type `error` itself; channels are `chan error` / `<-chan error` (send-only channels, "
        "concrete error types, typed nil function values and complex kinds are outside the generated algebra)",
        "a function without a value is only called through <<call ...>> (its use as a value belongs to property C06)",
        "the enumeration is pruned into families (MC_Bridge.tla header): every parameter type x every result list x both APIs; "
        "every parameter list over the tier's representative types x every argument list; result lists rotate in the second family",
        "a handler panic in a goroutine started by the library kills the process; rows run in worker processes so that this is observed as outcome `crash`",
    ]
