"""C20 - internal queue/stack are exact FIFO/LIFO; indentation tokens are balanced.

Model (TLC):   RingQueue.tla refines the abstract FIFO across two growths for every
               operation sequence (MC_Ring); GenStack.tla: every stack history up to a
               length; MC_Indent.tla: token balance for every input up to a size.
Spec -> code:  an edge cover of RingQueue's complete state graph (every transition of
               the model) and every GenStack history are replayed on the real containers.
Code -> spec:  random long histories of both containers validated by ContainersTrace.tla;
               token streams of the real lexer validated by LexTrace.tla.
"""
import json
import os
import re

import vlib

PROPERTY = "C20"
LEVEL = "model_checking"


def run(ctx):
    thorough = ctx.tier == "thorough"
    ctx.build()
    samples = []

    # ------------------------------------------------------------------ model
    max_enq = 72 if thorough else 24
    # same spec and config for both tiers, only the bound differs
    ring_cfg = ctx.path("MC_Ring_run.cfg")
    cfgtxt = open(os.path.join(vlib.SPEC, "MC_Ring.cfg")).read().replace("MaxEnq = 40", "MaxEnq = %d" % max_enq)
    open(ring_cfg, "w").write(cfgtxt)
    r = ctx.tlc("RingQueue", cfg="MC_Ring_run.cfg", workers=1, label="MC_Ring (refinement, MaxEnq=%d)" % max_enq,
                extra=["-dump", "dot,actionlabels", "ring.dot"],
                files=[("MC_Ring_run.cfg", ring_cfg)], timeout=600)
    ring_states, ring_edges = r.distinct, r.generated
    # non-vacuity: the bug switches must be caught by TLC, and growth must be reachable
    nonvac = {}
    for cfg in ("MC_Ring_bug1.cfg", "MC_Ring_bug2.cfg", "MC_Ring_grow.cfg"):
        rr = ctx.tlc("RingQueue", cfg=cfg, workers=4, must_pass=False, timeout=300, label=cfg + " (must fail)")
        nonvac[cfg] = bool(rr.violated)
        if not rr.violated:
            raise vlib.MachineryError("non-vacuity config %s did not produce a counterexample" % cfg)

    # ------------------------------------------------- spec -> code: queue walks
    inits, nodes, edges = vlib.parse_dot(os.path.join(r.dir, "ring.dot"))
    walks = vlib.edge_cover_walks(inits, edges, max_walk=300)
    wl = []
    for w in walks:
        steps = []
        for e in w:
            dst = nodes[edges[e][1]]
            steps.append({"op": edges[e][2], "lo": int(dst["lo"]), "hi": int(dst["hi"])})
        wl.append(steps)
    vlib.write_ndjson(ctx.path("walks.ndjson"), wl)
    p = ctx.harness(["containers", "walks", "--in", ctx.path("walks.ndjson"), "--out", ctx.path("walkdiffs.ndjson")])
    stats = json.loads(p.stdout.strip().splitlines()[-1])
    ctx.log("queue: %d walks / %d steps cover all %d transitions of the ring model" % (stats["walks"], stats["steps"], len(edges)))
    for d in vlib.read_ndjson(ctx.path("walkdiffs.ndjson")):
        walk = wl[d["walk"]][: d["step"] + 1]
        ctx.violation({"kind": "queue-walk", "walk": walk, "diff": d},
                      "container.Queue differs from RingQueue/FIFO model at step %d of a model walk: %s expected %s got %s"
                      % (d["step"], d["what"], d["exp"], d["got"]), signature="queue:" + d["what"])
    grew = sum(1 for w in wl if any(s["hi"] - s["lo"] > 16 for s in w))
    samples.append({"queue_walk_prefix": wl[-1][:12]})

    # ---------------------------------------------- spec -> code: stack histories
    g = ctx.tlc("GenStack", cfg="GenStack_thorough.cfg" if thorough else "GenStack.cfg", workers=8,
                label="GenStack (all histories)", timeout=900)
    behs = g.printed("BEH")
    vlib.write_ndjson(ctx.path("stackbeh.ndjson"), behs)
    p = ctx.harness(["containers", "stack", "--in", ctx.path("stackbeh.ndjson"), "--out", ctx.path("stackdiffs.ndjson")])
    sstats = json.loads(p.stdout.strip().splitlines()[-1])
    for d in vlib.read_ndjson(ctx.path("stackdiffs.ndjson")):
        ctx.violation({"kind": "stack-history", "history": d["history"][: d["step"] + 1], "diff": {k: d[k] for k in d if k != "history"}},
                      "container.Stack differs from the LIFO model at step %d (%s): expected res=%s size=%s, got res=%s size=%s"
                      % (d["step"], d["op"], d["expRes"], d["expSize"], d["gotRes"], d["gotSize"]), signature="stack:" + d["what"])
    samples.append({"stack_history": behs[len(behs) // 2] if behs else None})

    # ------------------------------------------- code -> spec: random histories
    nh = 1500 if thorough else 120
    ctx.harness(["containers", "record", "--n", nh, "--len", 600 if thorough else 300, "--out", ctx.path("ctrace.ndjson")])
    t = ctx.tlc("ContainersTrace", files=[("trace.ndjson", ctx.path("ctrace.ndjson"))], workers=1,
                label="ContainersTrace (random histories)", timeout=900)
    res = t.printed("RESULT")
    if not res:
        raise vlib.MachineryError("ContainersTrace printed no RESULT:\n" + t.tail())
    res = res[-1]
    nlines = sum(1 for _ in open(ctx.path("ctrace.ndjson")))
    if res["lines"] != nlines:
        raise vlib.MachineryError("trace not consumed completely: %d of %d" % (res["lines"], nlines))
    trace = None
    for b in res["bad"]:
        if trace is None:
            trace = vlib.read_ndjson(ctx.path("ctrace.ndjson"))
        hist = [e for e in trace[: b["line"]] if e["id"] == b["id"]]
        ctx.violation({"kind": "container-history", "history": hist, "diff": b},
                      "recorded %s history rejected by the abstract model at op %s: expected res=%s size=%s, got res=%s size=%s"
                      % (hist[0]["kind"], b["op"], b["expRes"], b["expSize"], b["gotRes"], b["gotSize"]),
                      signature="container-trace:" + b["op"])

    # -------------------------------------------------- indentation: model level
    mi = ctx.tlc("MC_Indent", cfg="MC_Indent_thorough.cfg" if thorough else "MC_Indent.cfg", workers=8,
                 label="MC_Indent (balance, layout)", timeout=900)
    mb = ctx.tlc("MC_Indent", cfg="MC_Indent_bug.cfg", workers=4, must_pass=False, label="MC_Indent_bug (must fail)")
    nonvac["MC_Indent_bug.cfg"] = bool(mb.violated)

    # ------------------------------------ indentation: unbounded lemma (TLAPS)
    if thorough:
        import shutil
        import subprocess
        pd = ctx.path("tlaps")
        os.makedirs(pd)
        shutil.copy(os.path.join(vlib.SPEC, "IndentBalance.tla"), pd)
        try:
            pr = subprocess.run(["tlapm", "--threads", "8", "IndentBalance.tla"], cwd=pd, stdout=subprocess.PIPE, stderr=subprocess.STDOUT,
                                text=True, timeout=600)
            m = re.search(r"All (\d+) obligations? proved", pr.stdout)
            if not m:
                raise vlib.MachineryError("tlapm did not prove IndentBalance.tla:\n" + pr.stdout[-1500:])
            ctx.cover(obligations=int(m.group(1)), discharged=int(m.group(1)),
                      checker_cmd="tlapm --threads 8 spec/IndentBalance.tla")
        except subprocess.TimeoutExpired:
            raise vlib.MachineryError("tlapm timed out on IndentBalance.tla")

    # ------------------------------------------ indentation: real token streams
    ninputs = 25000 if thorough else 1200
    ctx.harness(["lex", "corpus", "--n", ninputs, "--out", ctx.path("lexin.ndjson"),
                 "--testdata", os.path.join(ctx.copy_repo(), "testdata")])
    ctx.harness(["lex", "record", "--in", ctx.path("lexin.ndjson"), "--out", ctx.path("lextrace.ndjson")])
    recs = vlib.read_ndjson(ctx.path("lextrace.ndjson"))
    outcomes = {}
    for rcd in recs:
        outcomes[rcd["outcome"]] = outcomes.get(rcd["outcome"], 0) + 1
    lt = ctx.tlc("LexTrace", files=[("trace.ndjson", ctx.path("lextrace.ndjson"))], workers=1,
                 label="LexTrace (real token streams)", timeout=1200)
    lres = lt.printed("RESULT")
    if not lres:
        raise vlib.MachineryError("LexTrace printed no RESULT:\n" + lt.tail())
    lres = lres[-1]
    if lres["inputs"] != len(recs):
        raise vlib.MachineryError("lexer trace not consumed completely: %d of %d" % (lres["inputs"], len(recs)))
    inputs = None
    nontrivial = sum(1 for rcd in recs if sum(1 for t in rcd["toks"] if t[0] == 2) >= 2)
    # conformance with the layout design (blank/comment lines) is property C08's;
    # C20 owns the balance statements only
    if lres["mis"]:
        ctx.cover(out_of_scope_divergence=len(lres["mis"]))
        ctx.notes.append("token streams of %d%s inputs differ from IndentLexer, e.g. input %d (owned by C08)"
                         % (len(lres["mis"]), "+" if len(lres["mis"]) >= 50 else "", lres["mis"][0]["id"]))
    for b in lres["bad"]:
        if inputs is None:
            inputs = {i["id"]: i for i in vlib.read_ndjson(ctx.path("lexin.ndjson"))}
        what = b["what"]
        ctx.violation({"kind": "lex", "input_hex": inputs[b["id"]]["hex"], "diff": b},
                      "token stream of the real lexer violates %s at token %d (input kind %s)" % (what, b["tok"], inputs[b["id"]]["kind"]),
                      signature="lex:" + what)
    samples.append({"lexer_input_tokens": recs[min(40, len(recs) - 1)]["toks"][:30]})

    ctx.cover(
        states=sum(x["distinct"] for x in ctx.tlc_runs),
        transitions=sum(x["generated"] for x in ctx.tlc_runs),
        traces_validated_against_impl=stats["walks"] + sstats["histories"] + nh + len(recs),
        ring_model_states=ring_states, ring_model_transitions=len(edges),
        ring_transitions_replayed_on_impl=len(edges), queue_walks=stats["walks"], queue_walk_steps=stats["steps"],
        queue_walks_with_more_than_16_elements=grew,
        stack_histories_replayed=sstats["histories"], stack_history_len=8 if thorough else 6,
        random_histories=nh, random_history_ops_checked=res["checked"],
        lexer_inputs=len(recs), lexer_tokens_validated=lres["tokens"], lexer_outcomes=outcomes,
        lexer_inputs_with_nested_indentation=nontrivial,
        evaluations=stats["walks"] + sstats["histories"] + nh + len(recs),
        distinct_nontrivial=grew + nontrivial,
        rule="queue: one walk per uncovered edge of the complete RingQueue state graph (MaxEnq=%d), non-trivial = walk holding >16 elements (two growths); "
             "lexer: generated/mutated/random inputs, non-trivial = at least two INDENT tokens" % max_enq,
        exhaustive=True,
        nonvacuity=nonvac,
        samples=samples,
    )
    ctx.assumptions += [
        "queue elements are distinct integers (the containers are generic; behaviour does not depend on the element type)",
        "Dequeue/Pop/Peek on an empty container are outside the property (they panic by contract) and are never issued",
        "inputs whose indentation mixes tabs and spaces make the lexer panic/refuse (property C05) and yield no token stream to judge",
    ]
