"""Shared helpers of the markup checks (C13, C14, C15).  Not a check itself (bin/check only
registers checks/c*.py modules that define PROPERTY)."""
import json
import os

import vlib

BUGS = ["Bug_BytePositions", "Bug_NoTrimAdjust", "Bug_CloseAllClosesLast", "Bug_NoSwallow", "Bug_NoResetSourcePosition"]
MC_INVARIANTS = ("ArithmeticEqualsProvenance TextIsItemsWithoutMarkers RangesInsideText SortedStable "
                 "RegionNeverFails PairingOnlyMattersWhenNested Emit")

ASSUMPTIONS_C13 = [
    "attribute order is not compared (multiset); properties are compared as maps; SourcePosition is not compared (DESIGN appendix D)",
    "a name opened while it is already open: a close marker pairs with the first open marker of that name (this port) or with the most recent one "
    "(upstream) - whichever of the two explains ALL lines of the run; every marker is closed; no explicit [character] marker; "
    "a colon only occurs in a plain leading `Name:` prefix",
    "a self-closing marker is not generated directly after an escaped bracket (there the code looks at the character before the backslash); everywhere else "
    "it swallows one following whitespace character exactly when it sits at output position 0 or directly after a literal whitespace character",
    "replacement markers in open form ([select ...]contents[/select] or ...[/]): marker and contents are replaced by the selected text",
    "when the text has whitespace at an edge, either the trimmed text with shifted+clipped ranges or the untrimmed text with the "
    "ranges as counted is accepted",
    "decimal property values are compared with a tolerance of 1e-10 relative to 10^-4 units (at most 4 fraction digits, integer part < 10^4); "
    "the display of a decimal inside a replacement text is not exercised",
    "lines fed through the dialogue runner avoid the characters that mean something to the Yarn grammar (# { } < > / \\ other than \\[ \\]); "
    "a batch whose text the Yarn front end does not hand over unchanged is not judged through the runner (counted)",
]


def cps_to_str(cps):
    return "".join(chr(c) if 0 <= c < 0x110000 else "?" for c in cps)


def last_json(stdout):
    lines = [l for l in stdout.strip().splitlines() if l.startswith("{")]
    if not lines:
        raise vlib.MachineryError("harness printed no statistics line")
    return json.loads(lines[-1])


def write_cfg(ctx, name, invariants=MC_INVARIANTS, bug=None, pair_last="FALSE", **consts):
    """An MC_Markup config: constants as given, every Bug_* switch off except `bug`."""
    lines = ["SPECIFICATION Spec", "CONSTANTS"]
    for k, v in consts.items():
        lines.append("  %s = %s" % (k, v))
    for b in BUGS:
        lines.append("  %s = %s" % (b, "TRUE" if b == bug else "FALSE"))
    lines.append("  PairLast = %s" % pair_last)
    lines.append("INVARIANTS " + invariants)
    lines.append("CHECK_DEADLOCK FALSE")
    path = ctx.path(name)
    with open(path, "w") as f:
        f.write("\n".join(lines) + "\n")
    return path


def nonvacuity(ctx, bugs, alpha="q", maxlen=3, invariants=MC_INVARIANTS):
    """Each Bug_* switch must make TLC produce a counterexample on the model."""
    res = {}
    for b in bugs:
        name = "MC_Markup_%s.cfg" % b
        cfg = write_cfg(ctx, name, invariants=invariants, bug=b, MaxLen=maxlen, Alpha='"%s"' % alpha, EmitBeh="FALSE")
        r = ctx.tlc("MC_Markup", cfg=name, files=[(name, cfg)], workers=4, must_pass=False, timeout=600,
                    label="MC_Markup with %s (must fail)" % b)
        res[b] = sorted(set(r.violated))
        if not r.violated:
            raise vlib.MachineryError("non-vacuity: MC_Markup with %s = TRUE produced no counterexample:\n%s" % (b, r.tail()))
    return res


# ------------------------------------------------------------- classification
def _attr_key(a):
    props = sorted((tuple(p["n"]), json.dumps(p["v"], sort_keys=True)) for p in a.get("props", []))
    return (tuple(a["name"]), a["pos"], a["len"], tuple(a.get("tfa", [])), tuple(props))


def _has_item(items, pred):
    return any(pred(it) for it in items)


CHARACTER = [ord(c) for c in "character"]


def classify(items, exp, got):
    """A stable signature naming the class of a C13 divergence."""
    outcome = got.get("outcome", "result" if got.get("ok") else "error")
    if outcome in ("panic", "timeout"):
        return "markup:" + outcome
    if not exp[0]["ok"]:
        return "markup:result-on-invalid-line"
    if not got.get("ok"):
        if _has_item(items, lambda it: it["k"] == "nomarkup" and it.get("close") == "name"):
            return "markup:nomarkup-closed-by-name"
        return "markup:error-on-valid-line"
    edge = len(exp) > 1
    best = None
    for e in exp:
        if e["text"] != got["text"]:
            sig = "markup:text"
            # the close tag of a nomarkup section shows up in the text: it was not recognised
            word = [ord(c) for c in "nomarkup"]
            if any(got["text"][i:i + len(word)] == word for i in range(len(got["text"]))) and \
                    _has_item(items, lambda it: it["k"] == "nomarkup" and it.get("close") == "name"):
                sig = "markup:nomarkup-closed-by-name"
        else:
            ek = sorted(_attr_key(a) for a in e["attrs"])
            gk = sorted(_attr_key(a) for a in got["attrs"])
            emiss = [a for a in ek if a not in gk]
            gextra = [a for a in gk if a not in ek]
            sig = "markup:attributes"
            if len(emiss) != len(gextra):
                sig = "markup:attribute-count"
            elif emiss:
                def pairs(pred):
                    return [(x, y) for x in emiss for y in gextra if x[0] == y[0] and pred(x, y)]
                rng = pairs(lambda x, y: x[4] == y[4] and (x[1], x[2]) != (y[1], y[2]))
                prp = pairs(lambda x, y: (x[1], x[2]) == (y[1], y[2]) and x[4] != y[4])
                tfa = pairs(lambda x, y: (x[1], x[2]) == (y[1], y[2]) and x[4] == y[4] and x[3] != y[3])
                if rng:
                    if list(rng[0][0][0]) == CHARACTER:
                        sig = "markup:character-attribute-range"
                    elif edge:
                        sig = "markup:range-after-trim"
                    else:
                        sig = "markup:attribute-range"
                elif prp:
                    sig = "markup:property-value"
                    for x, y in prp:
                        for (n1, v1), (n2, v2) in zip(x[4], y[4]):
                            if v1 != v2 and '"dec"' in v1:
                                sig = "markup:decimal-property-value"
                elif tfa:
                    sig = "markup:text-for-attribute"
                elif not [1 for x in emiss for y in gextra if x[0] == y[0]]:
                    sig = "markup:attribute-name"
        if best is None or sig != "markup:text":
            best = sig
        if sig != "markup:text":
            break
    if best == "markup:text" and edge:
        best = "markup:text"
    return best


def describe(items_line, exp, got):
    def res(r):
        if not r.get("ok"):
            return r.get("outcome", "error")
        attrs = ["%s@%d+%d%s" % (cps_to_str(a["name"]), a["pos"], a["len"],
                                 "" if not a.get("props") else "{" + ",".join(
                                     "%s=%s" % (cps_to_str(p["n"]), json.dumps(
                                         {k: (cps_to_str(v) if k == "s" else v) for k, v in p["v"].items() if k != "t"},
                                         ensure_ascii=False)) for p in a["props"]) + "}")
                 for a in sorted(got_sorted(r["attrs"]), key=lambda a: (a["pos"], a["len"]))]
        return "text=%r attrs=[%s]" % (cps_to_str(r["text"]), "; ".join(attrs))
    return "line %r: expected %s; got %s" % (items_line, " OR ".join(res(e) for e in exp), res(got))


def got_sorted(attrs):
    return sorted(attrs, key=lambda a: (a["pos"], a["len"], a["name"]))


def report_diffs(ctx, diffs, origin, prop_scope=None):
    """diffs: [{items, input, exp, got, ...}] -> one ctx.violation per signature class (first 3 instances each)."""
    per_sig = {}
    for d in diffs:
        sig = classify(d["items"], d["exp"], d["got"])
        per_sig.setdefault(sig, []).append(d)
    for ds in per_sig.values():
        ds.sort(key=lambda d: len(d["input"]))
    for rank in (0, 1):      # the shortest instance of every class first, then a second instance of each
        for sig, ds in sorted(per_sig.items()):
            if rank < len(ds):
                d = ds[rank]
                line = cps_to_str(d["input"])
                ctx.violation({"kind": origin, "via": d.get("via", "direct"), "items": d["items"], "input": d["input"],
                               "exp": d["exp"], "got": d["got"]},
                              "[%s, %d case(s) of this class] %s" % (origin, len(ds), describe(line, d["exp"], d["got"])),
                              signature=sig)
    return {sig: len(ds) for sig, ds in per_sig.items()}


# ------------------------------------------------------------ trace validation
TRACE_CFG = """SPECIFICATION Spec
CONSTANTS
%s
  PairLast = %s
INVARIANT Done
POSTCONDITION Accepted
CHECK_DEADLOCK FALSE
"""


def same_name_nesting(items):
    open_ = []
    for it in items:
        if it["k"] == "open":
            if it["name"] in open_:
                return True
            open_.append(it["name"])
        elif it["k"] == "close" and it["name"] in open_:
            open_.remove(it["name"])
        elif it["k"] == "closeall" or (it["k"] in ("nomarkup", "ropen") and it["close"] == "all"):
            open_ = []
    return False


def validate_trace(ctx, trace_path, label="MarkupTrace (recorded calls)", pair_last=False):
    name = "MarkupTrace_%s.cfg" % ("last" if pair_last else "first")
    with open(ctx.path(name), "w") as f:
        f.write(TRACE_CFG % ("\n".join("  %s = FALSE" % b for b in BUGS), "TRUE" if pair_last else "FALSE"))
    t = ctx.tlc("MarkupTrace", cfg=name, files=[("trace.ndjson", trace_path), (name, ctx.path(name))], workers=1,
                timeout=2400, label=label + (" [pairing: last open marker]" if pair_last else ""))
    res = t.printed("RESULT")
    if not res:
        raise vlib.MachineryError("MarkupTrace printed no RESULT:\n" + t.tail())
    res = res[-1]
    nlines = sum(1 for _ in open(trace_path))
    if res["lines"] != nlines:
        raise vlib.MachineryError("trace not consumed completely: %d of %d" % (res["lines"], nlines))
    if res["notwf"]:
        raise vlib.MachineryError("generator produced lines outside the C13 region (ids %s)" % res["notwf"])
    return res


def record_and_validate(ctx, cases_path, trace_name):
    p = ctx.harness(["markup", "record", "--cases", cases_path, "--out", ctx.path(trace_name)], timeout=1800)
    st = last_json(p.stdout)
    res = validate_trace(ctx, ctx.path(trace_name))
    events = vlib.read_ndjson(ctx.path(trace_name))
    pairing = "first"
    if res["bad"] and all(same_name_nesting(events[b["line"] - 1]["items"]) for b in res["bad"]):
        # only lines with a name nested in itself diverge: the other consistent pairing
        # (upstream's) may explain ALL lines; a mix of both readings explains nothing
        alt = validate_trace(ctx, ctx.path(trace_name), pair_last=True)
        if not alt["bad"]:
            res, pairing = alt, "last"
    diffs = []
    for b in res["bad"]:
        e = events[b["line"] - 1]
        diffs.append({"items": e["items"], "input": e["input"], "exp": b["exp"], "got": e["got"], "via": e["via"]})
    classes = report_diffs(ctx, diffs, "trace")

    def nontrivial(e):
        depth, mx = 0, 0
        for it in e["items"]:
            if it["k"] == "open":
                depth += 1
                mx = max(mx, depth)
            elif it["k"] == "close":
                depth -= 1
            elif it["k"] == "closeall" or (it["k"] in ("nomarkup", "ropen") and it["close"] == "all"):
                depth = 0
        return mx >= 2 and any(c > 127 for c in e["input"])
    direct = [e for e in events if e["via"] == "direct"]
    sample = cps_to_str(direct[len(direct) // 2]["input"]) if direct else ""
    return {"cases": st["cases"], "events": len(events), "runner_events": st["runner_events"],
            "runner_skipped": st["runner_skipped"], "checked": res["checked"], "classes": classes,
            "nontrivial": sum(1 for e in direct if nontrivial(e)), "sample": sample, "bad": len(res["bad"]),
            "pairing": pairing, "same_name_nesting": sum(1 for e in direct if same_name_nesting(e["items"]))}


def binding_selftest(ctx, trace_path):
    """Corrupt one recorded field of three accepted events; MarkupTrace must reject exactly those."""
    events = vlib.read_ndjson(trace_path)
    picked, out = [], []
    for e in events:
        if len(picked) < 3 and e["outcome"] == "result" and e["got"]["attrs"] and e["got"]["text"]:
            e = json.loads(json.dumps(e))
            k = len(picked)
            if k == 0:
                e["got"]["attrs"][0]["len"] += 1
            elif k == 1:
                e["got"]["text"] = e["got"]["text"][:-1] + [e["got"]["text"][-1] + 1]
            else:
                e["got"]["attrs"][-1]["pos"] += 1
            picked.append(len(out) + 1)
        out.append(e)
        if len(out) >= 400:
            break
    if len(picked) < 3:
        raise vlib.MachineryError("binding self-test: not enough accepted events to corrupt")
    path = ctx.path("selftest.ndjson")
    vlib.write_ndjson(path, out)
    base = validate_trace(ctx, trace_path_first(ctx, events[:len(out)]), label="MarkupTrace (self-test baseline)")
    res = validate_trace(ctx, path, label="MarkupTrace (self-test, 3 corrupted fields)")
    base_bad = {b["line"] for b in base["bad"]}
    new_bad = {b["line"] for b in res["bad"]} - base_bad
    ok = new_bad == set(picked) - base_bad and len(set(picked) - base_bad) >= 1
    if not ok:
        raise vlib.MachineryError("binding self-test failed: corrupted events %s, newly rejected %s" % (picked, sorted(new_bad)))
    return {"corrupted_events": picked, "rejected": sorted(new_bad), "ok": True}


def trace_path_first(ctx, events):
    path = ctx.path("selftest_base.ndjson")
    vlib.write_ndjson(path, events)
    return path


# --------------------------------------------------------------------- replay
def replay_c13(ctx):
    payload = json.load(open(ctx.replay))["payload"]
    case = {"id": 1, "items": payload["items"], "runner": payload.get("via") == "runner"}
    vlib.write_ndjson(ctx.path("cases.ndjson"), [case])
    # the stored concrete line first (exactly the failing input), then fresh layouts
    p = ctx.harness(["markup", "record", "--cases", ctx.path("cases.ndjson"), "--out", ctx.path("trace.ndjson"),
                     "--input", json.dumps(payload["input"])])
    st = last_json(p.stdout)
    res = validate_trace(ctx, ctx.path("trace.ndjson"))
    events = vlib.read_ndjson(ctx.path("trace.ndjson"))
    diffs = []
    for b in res["bad"]:
        e = events[b["line"] - 1]
        diffs.append({"items": e["items"], "input": e["input"], "exp": b["exp"], "got": e["got"], "via": e["via"]})
    report_diffs(ctx, diffs, payload.get("kind", "replay"))
    ctx.cover(traces_validated_against_impl=len(events), evaluations=len(events), distinct_nontrivial=0,
              rule="replay of one stored case", samples=[{"line": cps_to_str(payload["input"])}])


# ------------------------------------------------------------------ C14 helpers
ASSUMPTIONS_C14 = [
    "every result observed for a line is compared with the first result observed for the same string on a fresh LineParser "
    "(outcome, text, attributes as a multiset incl. position, length, SourcePosition, properties, TextForAttribute)",
    "dialogue runs: the compared lines contain no inline expression, so the string handed to the markup parser is the script line; "
    "a scenario whose text the Yarn front end does not hand over unchanged is not judged (counted)",
    "error texts are not compared, only error-ness",
]


def history_diff_signature(ref, got):
    if ref["outcome"] != got["outcome"]:
        return "markup-history:outcome"
    strip = lambda r: (r["got"]["text"], sorted(json.dumps({k: v for k, v in a.items() if k != "src"}, sort_keys=True)
                                                for a in r["got"]["attrs"]))
    if strip(ref) == strip(got):
        return "markup-history:source-position"
    return "markup-history:result"


def describe_history(line, ref, got):
    def res(e):
        if e["outcome"] != "result":
            return e["outcome"]
        return "text=%r attrs=[%s]" % (cps_to_str(e["got"]["text"]), "; ".join(
            "%s@%d+%d src=%d" % (cps_to_str(a["name"]), a["pos"], a["len"], a["src"]) for a in e["got"]["attrs"]))
    return "line %r: on a fresh parser %s; %s (history/run %d) %s" % (line, res(ref), got["p"], got["h"], res(got))


def run_history(ctx, n=None, cases=None, label="MarkupHistoryTrace (reused parser / runner vs fresh)"):
    args = ["markup", "history", "--out", ctx.path("htrace.ndjson"), "--lines", ctx.path("hlines.ndjson"),
            "--cases-out", ctx.path("hcases.ndjson")]
    args += ["--cases", cases] if cases else ["--n", n]
    p = ctx.harness(args, timeout=1800)
    st = last_json(p.stdout)
    t = ctx.tlc("MarkupHistoryTrace", files=[("trace.ndjson", ctx.path("htrace.ndjson"))], workers=1, timeout=2400, label=label)
    res = t.printed("RESULT")
    if not res:
        raise vlib.MachineryError("MarkupHistoryTrace printed no RESULT:\n" + t.tail())
    res = res[-1]
    events = vlib.read_ndjson(ctx.path("htrace.ndjson"))
    if res["lines"] != len(events):
        raise vlib.MachineryError("history trace not consumed completely: %d of %d" % (res["lines"], len(events)))
    lines = {(l["b"], l["id"]): l["cps"] for l in vlib.read_ndjson(ctx.path("hlines.ndjson"))}
    hcases = vlib.read_ndjson(ctx.path("hcases.ndjson"))
    per_sig = {}
    for b in res["bad"]:
        got = events[b["line"] - 1]
        if b["ref"] == 0:
            raise vlib.MachineryError("history trace: line %d first seen on a non-fresh parser" % b["id"])
        ref = events[b["ref"] - 1]
        per_sig.setdefault(history_diff_signature(ref, got), []).append((b, ref, got))
    for sig, lst in sorted(per_sig.items()):
        lst.sort(key=lambda x: len(lines[(x[2]["b"], x[0]["id"])]))
        shown = [next((x for x in lst if x[2]["p"] == kind), None) for kind in ("reused", "runner")]
        for b, ref, got in [x for x in shown if x is not None]:
            line = lines[(got["b"], b["id"])]
            ctx.violation({"kind": "history", "case": hcases[b["h"] - 1], "line": line},
                          "[%d case(s) of this class] %s" % (len(lst), describe_history(cps_to_str(line), ref, got)),
                          signature=sig)
    st["checked"] = res["checked"]
    st["bad"] = len(res["bad"])
    st["events_list"] = events
    st["sample"] = cps_to_str(sorted(lines.items())[len(lines) // 2][1]) if lines else ""
    return st


def history_selftest(ctx, events):
    """Corrupt the SourcePosition of one accepted reused-parser event: the trace spec must reject exactly it."""
    out, picked = [], None
    nb = next((i for i, e in enumerate(events) if i > 0 and e.get("ev") == "header"), len(events))
    events = events[:min(nb, 600)]     # (a prefix of) the first batch
    for i, e in enumerate(events):
        if picked is None and e.get("p") in ("reused", "runner") and e["outcome"] == "result" and e["got"]["attrs"]:
            e = json.loads(json.dumps(e))
            e["got"]["attrs"][0]["src"] += 1
            picked = i + 1
        out.append(e)
    if picked is None:
        raise vlib.MachineryError("history self-test: no event to corrupt")

    def bad_lines(evs, name, label):
        vlib.write_ndjson(ctx.path(name), evs)
        t = ctx.tlc("MarkupHistoryTrace", files=[("trace.ndjson", ctx.path(name))], workers=1, timeout=600, label=label)
        return {b["line"] for b in t.printed("RESULT")[-1]["bad"]}
    base = bad_lines(events, "hself0.ndjson", "MarkupHistoryTrace (self-test baseline)")
    new = bad_lines(out, "hself1.ndjson", "MarkupHistoryTrace (self-test, one corrupted SourcePosition)") - base
    if picked in base or new != {picked}:
        raise vlib.MachineryError("history self-test failed: corrupted event %d, newly rejected %s" % (picked, sorted(new)))
    return {"corrupted_event": picked, "rejected": sorted(new), "ok": True}


# ------------------------------------------------------------------ C15 helpers
ASSUMPTIONS_C15 = [
    "text length and attribute ranges are counted in characters = Go runes of the returned text (an invalid byte counts as one character)",
    "a call that has not returned after 5 s is reported as non-terminating",
    "for arbitrary strings only the safety statements of the property are judged (no functional oracle exists for them)",
]


def run_safety(ctx, n=None, beh=None, inputs=None, label="MarkupSafetyTrace (arbitrary strings)"):
    args = ["markup", "fuzz", "--out", ctx.path("strace.ndjson")]
    if inputs:
        args += ["--inputs", inputs]
    else:
        args += ["--n", n]
        if beh:
            args += ["--beh", beh]
    p = ctx.harness(args, timeout=2400)
    st = last_json(p.stdout)
    t = ctx.tlc("MarkupSafetyTrace", files=[("trace.ndjson", ctx.path("strace.ndjson"))], workers=1, timeout=2400, label=label)
    res = t.printed("RESULT")
    if not res:
        raise vlib.MachineryError("MarkupSafetyTrace printed no RESULT:\n" + t.tail())
    res = res[-1]
    events = vlib.read_ndjson(ctx.path("strace.ndjson"))
    if res["lines"] != len(events):
        raise vlib.MachineryError("safety trace not consumed completely: %d of %d" % (res["lines"], len(events)))
    per = {}
    for b in res["bad"]:
        per.setdefault(b["what"], []).append(events[b["line"] - 1])
    for what, evs in sorted(per.items()):
        evs.sort(key=lambda e: len(e["hex"]))
        # the shortest input, the shortest without a colon (no implicit character attribute), the shortest non-ASCII one
        shown = [evs[0]] + [next((e for e in evs if pred(bytes.fromhex(e["hex"]))), None)
                            for pred in (lambda b: b":" not in b, lambda b: b":" not in b and any(c > 127 for c in b))]
        uniq = []
        for e in shown:
            if e is not None and e not in uniq:
                uniq.append(e)
        for e in uniq:
            raw = bytes.fromhex(e["hex"])
            payload = {"kind": e["kind"], "hex": e["hex"]}
            later = ""
            if e.get("then"):
                payload["then"] = e["then"]
                later = " - looked at again after the same parser had parsed %r" % bytes.fromhex(e["then"]).decode("utf-8", "backslashreplace")
            ctx.violation(payload,
                          "[%d%s input(s) of this class] ParseMarkup(%r)%s: %s (outcome %s, text of %d characters, attribute ranges %s, TextForAttribute panics %s)"
                          % (len(evs), "+" if len(res["bad"]) >= 1000 else "", raw.decode("utf-8", "backslashreplace"), later, what,
                             e["outcome"], e["textLen"], e["attrs"], e["tfa"]),
                          signature="markup-safety:" + what)
    st["results"] = res["results"]
    st["bad"] = len(res["bad"])
    st["events_list"] = events
    return st


def safety_selftest(ctx, events):
    """Corrupt three accepted events (range beyond the text, negative length, a TextForAttribute panic):
    MarkupSafetyTrace must reject exactly those."""
    out, picked = [], {}
    kinds = ["range-outside-text", "negative-range", "text-for-attribute-panics"]
    for e in events[:3000]:
        if len(picked) < 3 and e["outcome"] == "result" and e["attrs"]:
            e = json.loads(json.dumps(e))
            k = kinds[len(picked)]
            if k == "range-outside-text":
                e["attrs"][0][1] = e["textLen"] - e["attrs"][0][0] + 1
            elif k == "negative-range":
                e["attrs"][0][1] = -1
            else:
                e["tfa"][0] = 1
            picked[len(out) + 1] = k
        out.append(e)
    if len(picked) < 3:
        raise vlib.MachineryError("safety self-test: not enough results with attributes")
    path = ctx.path("sself.ndjson")
    vlib.write_ndjson(path, out)
    t = ctx.tlc("MarkupSafetyTrace", files=[("trace.ndjson", path)], workers=1, timeout=600,
                label="MarkupSafetyTrace (self-test, 3 corrupted events)")
    got = {b["line"]: b["what"] for b in t.printed("RESULT")[-1]["bad"]}
    if got != picked:
        raise vlib.MachineryError("safety self-test failed: corrupted %s, rejected %s" % (picked, got))
    return {"corrupted_events": sorted(picked), "rejected_as": [picked[k] for k in sorted(picked)], "ok": True}
