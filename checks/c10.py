"""C10 - pending commands: Next never blocks, resumes once, handlers run exactly once."""
import json
import re

import core_common as cc
import vlib

PROPERTY = "C10"
LEVEL = "model_checking"

INV = ["PendingNextIsNoOp", "DoneNeverWaits", "WaitingOnlyWhilePending", "FlowRefinesSem", "NextArgIgnored"]


def scope(field, exp, got, info):
    """C10 owns everything observed in the command families: results of Next around commands,
    the handler invocation log, side effects of polls, the timing of <<wait n>>."""
    return not info["after_end"]


SPEC = dict(
    sig="cmd", scope=scope,
    sc=dict(family="cmds", n=(120, 2500), mc=dict(max_calls=11, max_polls=2, after_end=1), mc_thorough=dict(max_calls=13),
            invariants=INV, bugs=[("pendingPollReruns", ["PendingNextIsNoOp", "FlowRefinesSem"], [])]),
    cs=[dict(family="cmds", n=(60, 1000), paths=(4, 6), calls=40,
             label="YarnTrace: random completion schedules (raw handlers, channel filled by the harness)"),
        # the same command statements dispatched again and again (the start node runs three times) while what they read changes
        dict(family="dispatch", n=(30, 400), paths=(3, 5), calls=40,
             label="YarnTrace: command statements dispatched repeatedly (pending, at the head of option bodies)")],
    nontrivial=lambda c: sum(1 for b in c["bodies"] for s in b if s["k"] == "cmd" and s["elems"] and s["elems"][0].get("s") in ("cpend", "cfail")) >= 1,
    rule="scripts with up to several commands (top level, in option bodies, before/after lines and jumps; complete on return, failing on "
         "return, or pending): TLC enumerates every completion schedule (0..2 polls answered waiting, then nil or an error) and every "
         "choice path; replayed with raw handlers whose channel the harness fills; then converted handlers of every supported shape "
         "(no result, error, chan error, <-chan error, variadic) blocked on gates with real goroutines under the race detector, and "
         "<<wait n>> for fractional n timed with the monotonic clock; non-trivial = at least one pending or failing command",
    assumptions=["a 'waiting' answer after the handler was released is allowed any number of times (visibility of completion is up to the scheduler); "
                 "Next blocking for more than 5 s, or never resuming within 400 polls after release, is reported",
                 "elapsed time of <<wait n>> is measured from before the dispatching call to after the resuming call (over-estimate only)"],
)


def race_part(ctx, thorough):
    n = 400 if thorough else 30
    cases_path = ctx.path("cases_race.ndjson")
    trace_path = ctx.path("trace_race.ndjson")
    p = ctx.harness(["core", "cmdrace", "--n", n, "--paths", 3 if thorough else 2, "--cases", cases_path, "--out", trace_path],
                    race=True, check=False, timeout=1500, env={"GORACE": "halt_on_error=0 exitcode=0"})
    races = len(re.findall(r"WARNING: DATA RACE", p.stderr))
    if p.returncode != 0:
        raise vlib.MachineryError("cmdrace driver failed rc=%d: %s" % (p.returncode, p.stderr[-2000:]))
    stats = json.loads(p.stdout.strip().splitlines()[-1])
    if races:
        first = p.stderr[p.stderr.index("WARNING: DATA RACE"):][:3000]
        ctx.violation({"kind": "race", "report": first}, "the race detector reported %d data race(s) between the runner and handler goroutines:\n%s"
                      % (races, first[:1200]), signature="cmd:data-race")
    cases, _ = cc.load_cases(cases_path)
    res = cc.validate(ctx, cases_path, trace_path, label="YarnTrace: converted handlers, real goroutines (-race), <<wait n>> timing")
    tix = None
    for b in res["bad"]:
        tix = tix or cc.TraceIndex(trace_path)
        ctx.violation(cc.trace_payload(cases, tix, b),
                      "run with goroutine-run handlers rejected by the specification (case %d, trace line %d): %s"
                      % (b["id"], b["line"], cc.describe_diff(b["field"], b["exp"], b["got"])), signature="cmd:" + b["field"])
    if res["stats"]["waits"] == 0:
        raise vlib.MachineryError("no <<wait n>> completion was observed")
    ctx.cover(traces_validated_against_impl=stats["paths"], evaluations=stats["paths"], distinct_nontrivial=stats["paths"],
              goroutine_runs=stats["paths"], goroutine_events=stats["events"], wait_completions_timed=res["stats"]["waits"],
              race_reports=races)
    return stats


def run(ctx):
    thorough = ctx.tier == "thorough"
    if ctx.replay:
        rp = json.load(open(ctx.replay))["payload"]
        if rp.get("kind") == "race" or str(rp.get("case", {}).get("family", "")).startswith("cmdrace"):
            ctx.build(race=True)
            race_part(ctx, False)   # timing/goroutine cases cannot be re-driven event by event: re-run the tier
            return
        return cc.run_core_check(ctx, SPEC)
    cc.run_core_check(ctx, SPEC)
    ctx.build(race=True)
    race_part(ctx, thorough)
