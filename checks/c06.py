"""C06 - running a valid script never panics: script-level faults surface as errors."""
import json

import core_common as cc
import vlib

PROPERTY = "C06"
LEVEL = "model_checking"

INV = ["FlowRefinesSem", "StackDiscipline", "NextStatementFrozen"]


def kind(x):
    return x.get("k") if isinstance(x, dict) else None


def scope(field, exp, got, info):
    """C06 owns: a panic anywhere; at the call that executes a faulty statement, error-ness
    (fault not surfaced / spurious error); element identity of fault-free steps is C01's."""
    if info.get("panic") or kind(got) == "panic":
        return True
    if field == "out":
        if kind(got) == "waiting" and kind(exp) != "waiting":
            return True      # the runner keeps answering "waiting": it did not remain usable
        return (kind(exp) == "error") != (kind(got) == "error")
    return field == "load"


SPEC = dict(
    sig="fault", scope=scope,
    sc_list=[
        dict(family="faults", n=(200, 5000), mc=dict(max_calls=11, max_polls=1, after_end=1), mc_thorough=dict(max_calls=13), invariants=INV),
        # one call of a random built-in per program: argument classes x statement kinds x nesting positions
        dict(family="domain", n=(900, 100000), mc=dict(max_calls=8, after_end=1), invariants=["StackDiscipline"]),
    ],
    cs=[dict(family="faults", n=(120, 2000), paths=(4, 6), calls=45, layouts=True,
             label="YarnTrace: random walks of bigger faulty programs"),
        # the host API in any order: Snapshot / RestoreAt (also of snapshots written by hand: a node name and nothing else)
        dict(family="faults", n=(40, 400), paths=(3, 5), calls=45, mode="snap",
             label="YarnTrace: faulty programs with Snapshot / RestoreAt interleaved (three runners, hand-written snapshots)")],
    nontrivial=lambda c: True,
    scripts=dict(paths=(5, 25), calls=80, hostsets=True, mc=dict(invariants=INV, max_calls=9, max_polls=1, after_end=1)),
    rule="valid scripts with faults sprinkled over every statement kind and nesting position: ill-typed operations, unknown variables / nodes / "
         "functions / commands, wrong argument counts and types, failing host functions and commands, type changes, compound assignment to an "
         "unknown variable, the null literal, a function returning nothing used as a value; all choice paths enumerated by TLC and replayed, "
         "random walks trace-validated; plus the table of out-of-domain built-in arguments (MC_Faults); every program is non-trivial (contains faults)",
    assumptions=["after an error the failing statement is not executed again (the only reading under which the dialogue can go on)",
                 "choices are in range whenever an option group is pending"],
)


def run(ctx):
    cc.run_core_check(ctx, SPEC)
