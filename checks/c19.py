"""C19 - numeric and conversion built-ins satisfy their contracts.

Model (TLC):   Builtins.tla states each contract of the property as a relation on exact numbers
               (BuiltinsRat.tla: floor-form limbs, all arithmetic below 2^31); MC_Builtins checks on a
               grid (around 0 and around the limb boundaries) that every contract is satisfiable and
               functional (one result; two at a tie of round / round_places) and that closed forms shaped
               like base_functions.go satisfy it; three Bug_* switches must each yield a counterexample.
Code -> spec:  `verifh builtins record` puts the argument into the variable storer, runs
               <<call capture(f($x))>> and logs what the host function received; BuiltinsTrace.tla
               evaluates the contract on every event (numeric built-ins on |x| < 2^52 with <= 28
               fractional bits; round_places on the grid where its own scaling is exact; string/number/
               bool round trips and identities as opaque tokens over arbitrary finite doubles < 2^52;
               conversion errors).
"""
import json

import vlib

PROPERTY = "C19"
LEVEL = "exploration"

PER_SIGNATURE = 3


def run_trace(ctx, path, label):
    t = ctx.tlc("BuiltinsTrace", files=[("trace.ndjson", path)], workers=1, label=label, timeout=1500, heap="12g")
    res = t.printed("RESULT")
    if not res:
        raise vlib.MachineryError("BuiltinsTrace printed no RESULT:\n" + t.tail())
    res = res[-1]
    nlines = sum(1 for _ in open(path))
    if res["lines"] != nlines:
        raise vlib.MachineryError("builtins trace not consumed completely: %d of %d" % (res["lines"], nlines))
    return res


class Reporter:
    def __init__(self, ctx):
        self.ctx, self.per, self.suppressed = ctx, {}, 0

    def report(self, case, ev, what):
        sig = "builtins:%s:%s" % (ev["f"], what)
        n = self.per.get(sig, 0)
        self.per[sig] = n + 1
        if n >= PER_SIGNATURE:
            self.suppressed += 1
            return
        self.ctx.violation({"kind": "builtin-eval", "case": case, "event": ev, "what": what},
                           "%s evaluated through <<call capture(...)>> violates its contract (%s): result %s"
                           % (ev["lit"], what, json.dumps({k: ev[k] for k in ("res", "res2") if k in ev})), signature=sig)


def judge(ctx, rep, trace_path, cases_path, label):
    res = run_trace(ctx, trace_path, label)
    if res["bad"]:
        events = vlib.read_ndjson(trace_path)
        cases = vlib.read_ndjson(cases_path)
        for b in res["bad"]:
            rep.report(cases[b["line"] - 1], events[b["line"] - 1], b["what"])
    return res


def _history_scope(field, exp, got, info):
    return not info["after_end"]


# the contracts hold at EVERY evaluation: the same expressions over the numeric built-ins and the
# conversions (also of literals: number(2) + 1) are evaluated again and again in one dialogue while
# the variables change - decided on the runner specification (shared pipeline of core_common.py)
HISTORY = dict(
    sig="builtins-history", scope=_history_scope, merge=True,
    sc=dict(family="mathy", n=(100, 1000), mc=dict(max_calls=12, after_end=0), mc_thorough=dict(max_calls=14),
            invariants=["FlowRefinesSem"]),
    cs=[dict(family="mathy", n=(40, 400), paths=(3, 5), calls=40,
             label="YarnTrace: numeric built-ins and conversions evaluated repeatedly")],
    nontrivial=lambda c: True,
    rule="programs of the mathy family (the start node runs three times with changed variables; most number expressions go through "
         "floor / ceil / round / inc / dec / integer / decimal / number, conversions of literals included, as left and right operands): "
         "all choice paths enumerated by TLC and replayed, random walks trace-validated; exact rationals with |n| <= 2^15 and a "
         "denominator <= 2^8",
)


def run(ctx):
    thorough = ctx.tier == "thorough"
    ctx.build()
    rep = Reporter(ctx)
    if ctx.replay:
        import core_common as cc
        if json.load(open(ctx.replay))["payload"].get("kind") in ("replay", "trace"):
            return cc.replay_core(ctx, HISTORY)
        case = json.load(open(ctx.replay))["payload"]["case"]
        vlib.write_ndjson(ctx.path("one.ndjson"), [case])
        ctx.harness(["builtins", "record", "--in", ctx.path("one.ndjson"), "--out", ctx.path("onetrace.ndjson"), "--cases", ctx.path("onecases.ndjson")])
        judge(ctx, rep, ctx.path("onetrace.ndjson"), ctx.path("onecases.ndjson"), "BuiltinsTrace (replay)")
        ctx.cover(evaluations=1, distinct_nontrivial=1, rule="replay of one stored evaluation", samples=[case])
        return

    # ------------------------------------------------------------------ model
    ctx.tlc("MC_Builtins", cfg="MC_Builtins_thorough.cfg" if thorough else "MC_Builtins.cfg", workers=8, timeout=900,
            label="MC_Builtins (contracts satisfiable, functional, met by the closed forms)")
    nonvac = {}
    for c in ("MC_Builtins_bug_inc.cfg", "MC_Builtins_bug_integer.cfg", "MC_Builtins_bug_dec.cfg"):
        rr = ctx.tlc("MC_Builtins", cfg=c, workers=2, must_pass=False, timeout=300, label=c + " (must fail)")
        nonvac[c] = bool(rr.violated)
        if not rr.violated:
            raise vlib.MachineryError("non-vacuity config %s did not produce a counterexample:\n%s" % (c, rr.tail(20)))

    # ------------------------------------------------------- code -> spec
    n = 1500000 if thorough else 120000
    p = ctx.harness(["builtins", "record", "--n", n, "--out", ctx.path("trace.ndjson"), "--cases", ctx.path("cases.ndjson")], timeout=1500)
    counts = json.loads(p.stdout.strip().splitlines()[-1])
    res = judge(ctx, rep, ctx.path("trace.ndjson"), ctx.path("cases.ndjson"), "BuiltinsTrace (%d evaluations)" % n)
    if res["undecided"] > res["lines"] // 20:
        raise vlib.MachineryError("%d of %d evaluations could not be decided inside TLC's integer window" % (res["undecided"], res["lines"]))

    # ---------------------------- binding self-test (never a verdict on the code)
    events = []
    with open(ctx.path("trace.ndjson")) as f:
        for line in f:
            events.append(json.loads(line))
            if len(events) >= 12000:
                break
    selftest = {"skipped": "the recorded trace itself was rejected; the self-test needs conforming events"}
    k1 = next((i for i, e in enumerate(events) if e["ev"] == "num" and e["f"] == "inc" and e["res"]["t"] == "n" and e["res"]["v"]["lo"] > 3), None)
    k2 = next((i for i, e in enumerate(events) if e["ev"] == "rp" and e["res"]["t"] == "dec" and e["n"] >= 1 and e["res"]["d"]["p"] == e["n"] and 2 < e["res"]["d"]["g"]), None)
    k3 = next((i for i, e in enumerate(events) if e["ev"] == "conv" and e["f"] == "rt_number" and e["tok"] != "zero" and e["res"]["t"] == "tok"), None)
    if not res["bad"]:
        if None in (k1, k2, k3):
            raise vlib.MachineryError("binding self-test: no suitable events in a conforming trace")
        muts = []
        m1 = json.loads(json.dumps(events[k1])); m1["res"]["v"]["lo"] -= 1; muts.append((k1, m1, "contract"))
        m2 = json.loads(json.dumps(events[k2])); m2["res"]["d"]["g"] -= 2; muts.append((k2, m2, "contract"))  # two units: off even if the original was a tie
        m3 = json.loads(json.dumps(events[k3])); m3["res"]["tok"] = m3["res"]["tok"][:-1] + ("0" if m3["res"]["tok"][-1] != "0" else "1"); muts.append((k3, m3, "not-equal"))
        st = [dict(e) for e in events[:200]]
        base = len(st)
        for _, m, _ in muts:
            st.append(m)
        vlib.write_ndjson(ctx.path("selftest.ndjson"), st)
        sres = run_trace(ctx, ctx.path("selftest.ndjson"), "BuiltinsTrace (self-test: three corrupted results)")
        got = {(b["line"], b["what"]) for b in sres["bad"]}
        want = {(base + 1 + i, w) for i, (_, _, w) in enumerate(muts)}
        selftest = {"corrupted": len(muts), "rejected": len(got & want)}
        if got != want:
            raise vlib.MachineryError("binding self-test failed: expected rejections %s, got %s" % (sorted(want), sorted(got)))

    samples = [events[k]["lit"] + " -> " + json.dumps(events[k]["res"]) for k in (k1, k2, k3) if k is not None]
    samples += [events[k]["lit"] + " -> " + json.dumps(events[k]["res"]) for k in (5, 900, 2500) if k < len(events)]
    ctx.cover(
        evaluations=res["lines"], evaluations_decided=res["checked"], evaluations_undecided=res["undecided"],
        by_kind={k: v for k, v in counts.items() if not k.startswith("res_") and k != "nontrivial"},
        results_by_kind={k[4:]: v for k, v in counts.items() if k.startswith("res_")},
        distinct_nontrivial=counts["nontrivial"],
        rule="one evaluation = one (built-in, argument) pair; non-trivial = distinct pairs of a numeric built-in (floor ceil inc dec integer "
             "decimal round integer+decimal round_places) with a non-integral argument, counted by the recorder",
        traces_validated_against_impl=res["lines"],
        violations_by_class=dict(rep.per), suppressed_duplicates=rep.suppressed,
        nonvacuity=nonvac, binding_selftest=selftest, samples=samples,
    )
    import core_common as cc
    cc.run_core_check(ctx, HISTORY)
    ctx.assumptions += [
        "numeric contracts are decided for |x| < 2^52 with at most 28 fractional bits (TLC integers are 32-bit; numbers cross as 26-bit limbs); "
        "doubles with more fractional bits (|x| < 2^24 with a full mantissa) are not covered by floor/ceil/inc/dec/integer/decimal/round",
        "round_places: x = m/2^k with 2^k*10^n < 2^30 and |m|*10^n < 2^52 (the library's own scaling is then exact), n in 0..8; the result is read as the "
        "decimal it denotes (shortest representation); only the bound of the property is demanded, not that the result has n places",
        "round at a tie: both neighbours are accepted (the property says `within 0.5`)",
        "number(string(x)) = x is checked as equality of doubles (signed zeros are equal) over arbitrary finite doubles below 2^52, subnormals included",
        "strings that are `not a number or boolean` are taken from a list of clearly non-numeric / non-boolean words (no inf, nan, hex floats, 1/0/t/f)",
    ]
