"""C02 - expressions follow Yarn's operator table, precedence and short-circuiting."""
import json

import core_common as cc
import vlib

PROPERTY = "C02"
LEVEL = "model_checking"


def scope(field, exp, got, info):
    """C02 owns everything observed in the expr family (lines, assignments and conditions made
    of rich expression trees with logging probes): values, error-ness, probe call logs."""
    return not info["after_end"]


SPEC = dict(
    sig="expr", scope=scope,
    sc=dict(family="expr", n=(150, 3000), mc=dict(max_calls=16, after_end=0), invariants=["FlowRefinesSem"], layouts=True),
    cs=[dict(family="expr", n=(150, 3000), paths=(2, 4), calls=30, layouts=True,
             label="YarnTrace: random deep expression trees (depth <= 5) in random parenthesisation / spelling"),
        # the same expression nodes evaluated again after the HOST changed a variable (no set / declare in between)
        dict(family="expr", n=(60, 600), paths=(2, 4), calls=40, hostsets=True,
             label="YarnTrace: expressions re-evaluated after host writes to the storer"),
        dict(family="hostloop", n=(60, 600), paths=(3, 5), calls=40, hostsets=True,
             label="YarnTrace: a node run four times while only the host changes variables")],
    nontrivial=lambda c: True,
    rule="(1) ALL expression trees of depth <= 2 over the 14 binary and 2 unary operators with typed probe leaves (MC_Expr: 26,964 trees), each "
         "printed by the specification's precedence model with minimal parentheses, with full parentheses and with word spellings, evaluated "
         "by the real parser + evaluator: parsed tree, value / error and probe call log compared; (2) seeded random programs whose lines, "
         "assignments, conditions and call arguments are trees of depth <= 5 over variables, literals, probes and visit functions, including "
         "ill-typed ones, in random parenthesisation and spelling; every tree is non-trivial (at least one operator)",
    assumptions=["numeric accuracy on non-dyadic doubles is outside TLC (no reals): decided are which operation is applied to which operands in "
                 "which order, and all typing rules; % is exercised with fractional and negative dyadic operands"],
)


def expr_rows(ctx):
    r = ctx.tlc("MC_Expr", cfg="MC_Expr_depth2.cfg", workers=8, timeout=900,
                label="MC_Expr: typing table, short-circuit, evaluation order, precedence printer over all trees of depth <= 2")
    rows = r.printed("ROW")
    if len(rows) < 20000:
        raise vlib.MachineryError("MC_Expr printed only %d rows" % len(rows))
    b = ctx.tlc("MC_Expr", cfg="MC_Expr_bug.cfg", workers=4, must_pass=False, label="MC_Expr Bug_eagerAnd (must fail)")
    if not b.violated:
        raise vlib.MachineryError("non-vacuity: eager `and` not caught by ShortCircuit/IllTypedIsError")
    rp = ctx.path("exprrows.ndjson")
    vlib.write_ndjson(rp, rows)
    p = ctx.harness(["core", "exprrows", "--rows", rp, "--out", ctx.path("exprdiffs.ndjson")], timeout=900)
    stats = json.loads(p.stdout.strip().splitlines()[-1])
    for d in vlib.read_ndjson(ctx.path("exprdiffs.ndjson")):
        ctx.violation({"kind": "exprrow", "row": rows[d["row"]], "style": d["style"], "diff": {k: d[k] for k in ("field", "exp", "got", "src") if k in d}},
                      "expression %r: %s" % (d["src"][:200], cc.describe_diff(d["field"], d.get("exp"), d.get("got"))),
                      signature="expr:" + d["field"])
    ctx.cover(expression_trees=len(rows), expression_evaluations=stats["evaluations"], traces_validated_against_impl=stats["evaluations"],
              evaluations=stats["evaluations"], distinct_nontrivial=len(rows), nonvacuity={"eagerAnd": True}, exhaustive=True)
    return rows


def wide_arith(ctx, events_in=None):
    """IEEE-754 arithmetic and comparisons on doubles outside the exact window (bit patterns as tokens)."""
    thorough = ctx.tier == "thorough"
    tp = ctx.path("widearith.ndjson")
    args = ["core", "widearith", "--out", tp]
    args += ["--in", events_in] if events_in else ["--n", 60000 if thorough else 6000]
    ctx.harness(args, timeout=900)
    t = ctx.tlc("WideArithTrace", files=[("trace.ndjson", tp)], workers=1, timeout=900, label="WideArithTrace (doubles as bit patterns)")
    res = t.printed("RESULT")
    if not res:
        raise vlib.MachineryError("WideArithTrace printed no RESULT:\n" + t.tail())
    res = res[-1]
    events = vlib.read_ndjson(tp)
    if res["lines"] != len(events):
        raise vlib.MachineryError("wide arithmetic trace not consumed completely: %d of %d" % (res["lines"], len(events)))
    if any(b["what"] == "malformed-event" for b in res["bad"]):
        raise vlib.MachineryError("the harness wrote a malformed wide-arithmetic event: %s" % res["bad"][0])
    import struct

    def show(tok):
        if tok.startswith("f") and len(tok) == 17:
            return repr(struct.unpack(">d", bytes.fromhex(tok[1:]))[0])
        return tok
    seen = {}
    for b in res["bad"]:
        e = events[b["line"] - 1]
        sig = "expr:wide-%s-%s" % (e["op"], b["what"])
        seen[sig] = seen.get(sig, 0) + 1
        if seen[sig] > 2:
            continue
        ctx.violation({"kind": "widearith", "event": e},
                      "%s with a = %s, b = %s (%s operands): IEEE-754 prescribes %s, the library stored %s"
                      % (e["src"], show(e["a"]), show(e["b"]), "storer" if e["form"] == "var" else "literal", show(e["exp"]), show(e["got"])),
                      signature=sig)
    ctx.cover(wide_double_evaluations=len(events), wide_double_evaluations_with_literals=sum(1 for e in events if e["form"] == "lit"))
    return len(events)


def run(ctx):
    if ctx.replay:
        rp = json.load(open(ctx.replay))["payload"]
        if rp.get("kind") == "widearith":
            ctx.build()
            vlib.write_ndjson(ctx.path("wide_in.ndjson"), [dict(rp["event"], got="", exp="")])
            wide_arith(ctx, events_in=ctx.path("wide_in.ndjson"))
            return
        if rp.get("kind") == "exprrow":
            ctx.build()
            p = ctx.path("exprrows.ndjson")
            vlib.write_ndjson(p, [rp["row"]])
            ctx.harness(["core", "exprrows", "--rows", p, "--out", ctx.path("exprdiffs.ndjson")])
            for d in vlib.read_ndjson(ctx.path("exprdiffs.ndjson")):
                ctx.violation(rp, "replay: expression %r: %s" % (d["src"][:200], cc.describe_diff(d["field"], d.get("exp"), d.get("got"))),
                              signature="expr:" + d["field"])
            return
        return cc.run_core_check(ctx, SPEC)
    cc.run_core_check(ctx, SPEC)
    rows = expr_rows(ctx)
    wide_arith(ctx)
    ctx.coverage["samples"] = (ctx.coverage.get("samples") or []) + [{"expression_row": rows[len(rows) // 2]}]
