// Command verifh is the Go side of the /verif conformance machinery.  It is
// overlaid into a scratch copy of the repository (so that internal/ packages can
// be imported) and built with -tags verif by /verif/lib/vlib.py.
package main

import (
	"os"

	"github.com/remieven/ysgo/verifharness"
)

func main() {
	os.Exit(verifharness.Main(os.Args[1:]))
}
