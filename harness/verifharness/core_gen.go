package verifharness

import (
	"fmt"
	"math/rand"
)

// Seeded generation of programs ("cases") for the core properties.  A family fixes
// which language features appear; every program is type-aware so that fault-free
// families really are fault-free, and every node body starts with a line, so every
// jump cycle contains a yield (Next always terminates).

type genCfg struct {
	Family     string
	MaxNodes   int
	MaxDepth   int
	MaxStmts   int     // per body
	Opts       float64 // weights of statement kinds
	Ifs        float64
	Sets       float64
	Jumps      float64
	Stops      float64
	Lines      float64
	Cmds       float64
	Calls      float64
	PendCmds   bool // commands that are not complete on return
	FailCmds   bool
	Faults     float64 // probability that a generated expression / statement is faulty
	IllTyped   bool    // assignments over every (current type, assigned type, operator)
	VisitLine  bool    // node bodies start with a line rendering visited()/visited_count()
	RichExpr   bool    // deeper expression trees with probes
	LineConds  float64 // probability that a plain line carries a (fault-free, call-free) line condition
	IntroNode  bool    // sometimes an extra first node that touches no variable and jumps to the real start
	MathHeavy  bool    // most number expressions go through the numeric built-ins
	Reloop     bool    // the start node ends by jumping to itself twice, with the variables changed
	OptConds   bool    // most options carry a condition, many of them reading no variable (visit functions, host functions)
	Markup     float64 // probability that a line carries a literal inside a markup wrapper (text must not change)
	JumpFaults float64 // probability that a jump fails (unknown node, non-string destination, failing expression)
	CountJumps bool    // node titles N0..N2 and jumps whose destination is computed from a visit count
	// command dispatch (C17): option bodies begin with a command, the same command statements are
	// dispatched again and again while visit counts and host state change (elements that read no
	// variable: visit functions, a host function with a side effect), the host registers its own
	// handler under the name of the built-in `wait`
	Dispatch bool
	// scale: 12-24 nodes, nesting up to 7 levels, groups of up to 13 options, lines of dozens of parts
	// (a statement budget per program keeps the size bounded)
	Huge bool
	// Reloop without the assignments at the end of each pass: between two passes only the HOST changes variables
	NoLoopSets bool
	Storer     string
}

var families = map[string]genCfg{
	"flow": {Family: "flow", MaxNodes: 3, MaxDepth: 3, MaxStmts: 4, Opts: 3, Ifs: 2, Sets: 2, Jumps: 1.5, Stops: 0.7, Lines: 3,
		Cmds: 0.7, Calls: 0.5, VisitLine: true, Storer: "recording"},
	"flowbig": {Family: "flowbig", MaxNodes: 5, MaxDepth: 4, MaxStmts: 5, Opts: 3, Ifs: 2.5, Sets: 2, Jumps: 1.5, Stops: 0.5, Lines: 3,
		Cmds: 0.7, Calls: 0.5, VisitLine: true, Markup: 0.25, LineConds: 0.12, Storer: "recording"},
	// lines with markup wrappers in most lines (the markup parser runs for every line of every runner)
	"markupy": {Family: "markupy", MaxNodes: 2, MaxDepth: 2, MaxStmts: 4, Opts: 1.5, Ifs: 1, Sets: 1, Jumps: 0.8, Stops: 0.2, Lines: 5,
		Calls: 0.3, Markup: 0.8, Storer: "recording"},
	"cmds": {Family: "cmds", MaxNodes: 2, MaxDepth: 2, MaxStmts: 4, Opts: 1.5, Ifs: 0.5, Sets: 1, Jumps: 0.7, Stops: 0.3, Lines: 2,
		Cmds: 4, Calls: 0.3, PendCmds: true, FailCmds: true, Storer: "recording"},
	"vars": {Family: "vars", MaxNodes: 1, MaxDepth: 1, MaxStmts: 7, Sets: 6, Lines: 2, Ifs: 0.3, IllTyped: true, Storer: "recording"},
	// (two nodes and jumps: the same expression nodes are evaluated again and again while the variables change)
	"expr": {Family: "expr", MaxNodes: 2, MaxDepth: 1, MaxStmts: 6, Sets: 2.5, Lines: 4, Ifs: 1, Calls: 1, Jumps: 0.3, RichExpr: true, Faults: 0.12,
		Reloop: true, Storer: "recording"},
	"faults": {Family: "faults", MaxNodes: 3, MaxDepth: 3, MaxStmts: 4, Opts: 2, Ifs: 2, Sets: 2, Jumps: 1, Stops: 0.3, Lines: 3,
		Cmds: 1.5, Calls: 1, Faults: 0.2, FailCmds: true, PendCmds: true, Storer: "recording"},
	"visits": {Family: "visits", MaxNodes: 3, MaxDepth: 2, MaxStmts: 3, Opts: 2, Ifs: 1.5, Sets: 0.5, Jumps: 4, Stops: 0.3, Lines: 1.5,
		VisitLine: true, JumpFaults: 0.12, CountJumps: true, Storer: "recording"},
	// hub nodes presented again and again: the same option group's conditions must be evaluated at every presentation
	"optcond": {Family: "optcond", MaxNodes: 3, MaxDepth: 2, MaxStmts: 3, Opts: 5, Ifs: 0.5, Sets: 1, Jumps: 3, Stops: 0.2, Lines: 1.5,
		VisitLine: true, CountJumps: true, OptConds: true, Storer: "recording"},
	// every line computes with floor / ceil / round / inc / dec / integer / decimal (shared-state bugs in the built-ins)
	"mathy": {Family: "mathy", MaxNodes: 2, MaxDepth: 1, MaxStmts: 6, Sets: 2, Lines: 6, Ifs: 1, Jumps: 0.5, RichExpr: true, MathHeavy: true,
		Reloop: true, Storer: "recording"},
	"dispatch": {Family: "dispatch", MaxNodes: 2, MaxDepth: 2, MaxStmts: 3, Opts: 2.5, Ifs: 0.5, Sets: 0.5, Jumps: 1, Stops: 0.2, Lines: 1.5,
		Cmds: 5, PendCmds: true, FailCmds: true, Reloop: true, Dispatch: true, Storer: "recording"},
	// variables shown in lines of a node that runs three times (the host may write in between)
	"varsloop": {Family: "varsloop", MaxNodes: 1, MaxDepth: 1, MaxStmts: 5, Sets: 2, Lines: 5, Ifs: 0.5, Opts: 0.5, Reloop: true, Storer: "recording"},
	"huge": {Family: "huge", MaxNodes: 24, MaxDepth: 10, MaxStmts: 5, Opts: 3, Ifs: 2.5, Sets: 1.5, Jumps: 1.5, Stops: 0.3, Lines: 3,
		Cmds: 0.5, Calls: 0.3, VisitLine: false, Huge: true, Storer: "recording"},
	"hostloop": {Family: "hostloop", MaxNodes: 1, MaxDepth: 1, MaxStmts: 5, Lines: 5, Ifs: 1, Opts: 0.5, Reloop: true, NoLoopSets: true, Storer: "recording"},
	"snap": {Family: "snap", MaxNodes: 3, MaxDepth: 2, MaxStmts: 4, Opts: 2, Ifs: 1, Sets: 3, Jumps: 2.5, Stops: 0.3, Lines: 2,
		Cmds: 1.5, PendCmds: true, VisitLine: true, IntroNode: true, Storer: "recording"},
}

// domainCalls enumerates calls of the random built-ins over argument classes (property C06:
// 0, negatives, non-integers, +-Inf, NaN, magnitudes beyond int64, spans that overflow).
func domainCalls() []*Expr {
	classes := func() []*Expr {
		return []*Expr{eNum(0, 1), eNum(1, 1), eNum(6, 1), eNeg(eNum(1, 1)), eNum(5, 2), eSpecial("inf"), eSpecial("neginf"),
			eSpecial("nan"), eSpecial("huge"), eSpecial("neghuge"), eSpecial("big"), eSpecial("negbig"), eStr("six"), eBool(true)}
	}
	var out []*Expr
	for _, a := range classes() {
		out = append(out, eCall("dice", a))
	}
	out = append(out, eCall("dice"), eCall("dice", eNum(1, 1), eNum(2, 1)))
	as := classes()
	for i := range as {
		for j := range as {
			if i < 12 && j < 12 || (i+j)%5 == 0 {
				out = append(out, eCall("random_range", classes()[i], classes()[j]))
			}
		}
	}
	out = append(out, eCall("random_range", eNum(1, 1)), eCall("random_range", eNum(5, 1), eNum(1, 1)))
	// bounds that are not whole numbers with no integer between them are out of domain as well
	out = append(out, eCall("random_range", eNum(1, 4), eNum(3, 4)), eCall("random_range", eNeg(eNum(3, 4)), eNeg(eNum(1, 4))),
		eCall("random_range", eNum(1, 2), eNum(3, 2)), eCall("random_range", eNeg(eNum(3, 2)), eNeg(eNum(1, 2))),
		eCall("random_range", eNum(5, 2), eNum(11, 4)), eCall("dice", eNum(1, 2)), eCall("dice", eNum(3, 4)), eCall("dice", eNeg(eNum(1, 2))), eCall("dice", eNum(5, 4)))
	// every class of faulty expression, on its own (the statement kinds below place it in a line, an
	// assignment, conditions of if / options, option text, a command argument, a call statement)
	out = append(out,
		eNull(), eNeg(eNull()), eBin("add", eNull(), eNum(1, 1)), eBin("eq", eStr("a"), eNull()),
		eCall("noret"), eCall("p1", eCall("noret")), eBin("add", eCall("noret"), eNum(1, 1)), eNot(eCall("noret")),
		eVar("nosuchvar"), eCall("nosuchfunc", eNum(1, 1)), eCall("boom"),
		eBin("add", eNum(1, 1), eStr("a")), eBin("and", eBool(true), eNum(1, 1)), eBin("lt", eStr("a"), eStr("b")),
		eNeg(eBool(true)), eNot(eNum(1, 1)), eCall("visited", eNum(1, 1)), eCall("visited_count"),
		eCall("cstr", eNum(1, 1)), eCall("cbool", eStr("x"), eBool(true)), eCall("floor", eStr("x")), eCall("round"),
		// results outside the finite numbers (no verdict on the value; nothing may panic)
		eBin("div", eNum(0, 1), eNum(0, 1)), eBin("div", eNum(1, 1), eNum(0, 1)), eBin("mod", eNum(5, 1), eNum(0, 1)),
		eCall("string", eBin("div", eNum(0, 1), eNum(0, 1))), eCall("floor", eBin("div", eNum(1, 1), eNum(0, 1))),
		eBin("sub", eBin("div", eNum(1, 1), eNum(0, 1)), eBin("div", eNum(1, 1), eNum(0, 1))),
		eCall("number", eStr("NaN")), eCall("number", eStr("abc")), eCall("bool", eStr("maybe")),
	)
	return out
}

const domainKinds = 8

// genDomainCase places ONE built-in call in one statement kind at one nesting position.
func genDomainCase(id int) *Case {
	calls := domainCalls()
	k := id - 1
	call := calls[k%len(calls)]
	kind := (k / len(calls)) % domainKinds
	pos := (k / (len(calls) * domainKinds)) % 3
	c := &Case{ID: id, Family: "domain", Funcs: defaultFuncs(), Cmds: defaultCmds(), Storer: "recording", Vars: []string{"n"}}
	c.Nodes = []Node{{Title: "Start"}}
	var st Stmt
	switch kind {
	case 0:
		st = Stmt{K: "line", Text: []Part{{Lit: "roll "}, {E: call}}}
	case 1:
		st = Stmt{K: "set", Var: "n", Op: "=", E: call}
	case 2:
		st = Stmt{K: "if", Clauses: []Clause{{Cond: eBin("gt", call, eNum(0, 1)), Body: c.addBody([]Stmt{{K: "line", Text: []Part{{Lit: "positive"}}}})}}}
	case 3:
		st = Stmt{K: "opts", Opts: []Option{{Text: []Part{{Lit: "Pick"}}, Cond: eBin("ge", call, eNum(1, 1))}}}
	case 4:
		st = Stmt{K: "opts", Opts: []Option{{Text: []Part{{Lit: "Pick "}, {E: call}}}}}
	case 5:
		st = Stmt{K: "cmd", Elems: []*Expr{eStr("cdone"), call}}
	case 6:
		st = Stmt{K: "opts", Opts: []Option{{Text: []Part{{Lit: "Pick"}}, Cond: call}, {Text: []Part{{Lit: "Other"}}}}} // the condition itself
	default:
		if call.K == "call" {
			st = Stmt{K: "call", E: call}
		} else {
			st = Stmt{K: "jump", E: call}
		}
	}
	after := Stmt{K: "line", Text: []Part{{Lit: "after"}}}
	var body []Stmt
	switch pos {
	case 0:
		body = []Stmt{st, after}
	case 1:
		inner := c.addBody([]Stmt{st, {K: "line", Text: []Part{{Lit: "inner after"}}}})
		body = []Stmt{{K: "opts", Opts: []Option{{Text: []Part{{Lit: "Go"}}, Body: inner}}}, after}
	default:
		inner := c.addBody([]Stmt{st})
		body = []Stmt{{K: "if", Clauses: []Clause{{Cond: eBool(false), Body: 0}, {Cond: eBool(true), Body: inner}}}, after}
	}
	body = append([]Stmt{{K: "line", Text: []Part{{Lit: "before"}}}, {K: "set", Var: "n", Op: "=", E: eNum(0, 1)}}, body...)
	c.Nodes[0].Body = c.addBody(body)
	c.Readers = []int{1}
	return c
}

func domainCaseCount() int { return len(domainCalls()) * domainKinds * 3 }

type gen struct {
	rnd      *rand.Rand
	cfg      genCfg
	c        *Case
	lineNo   int
	titles   []string
	vtypes   map[string]string // variable -> "n" | "b" | "s"
	vnames   []string
	hostWait bool
	budget   int // Huge: statements left to generate
}

var nodeTitles = []string{"Start", "Beta", "Gamma", "Delta", "Eps", "Zeta", "Eta", "Theta", "Iota", "Kappa", "Lambda", "Mu1", "Nu1", "Xi1",
	"Omicron", "Pi1", "Rho", "Sigma", "Tau", "Upsilon", "Phi", "Chi", "Psi", "Omega", "Aleph", "Beth"}

func genCase(rnd *rand.Rand, cfg genCfg, id int) *Case {
	g := &gen{rnd: rnd, cfg: cfg, vtypes: map[string]string{}}
	c := &Case{ID: id, Family: cfg.Family, Funcs: defaultFuncs(), Cmds: defaultCmds(), Storer: cfg.Storer}
	g.c = c
	if cfg.Dispatch && rnd.Intn(2) == 0 {
		// a handler registered under the name of the built-in replaces it
		c.Cmds = defaultCmds()
		c.Cmds["wait"] = []string{"done", "done", "pend", "fail"}[rnd.Intn(4)]
		g.hostWait = true
	}
	hostStop := false
	if cfg.PendCmds && rnd.Intn(3) == 0 {
		// the host registers a handler under `stop`: <<stop>> still ends the dialogue and is never dispatched
		c.Cmds["stop"] = []string{"pend", "done", "fail"}[rnd.Intn(3)]
		hostStop = true
	}
	nn := 1 + rnd.Intn(cfg.MaxNodes)
	if cfg.Huge {
		nn = cfg.MaxNodes/2 + rnd.Intn(cfg.MaxNodes/2+1)
		g.budget = 350
	}
	g.titles = nodeTitles[:nn]
	if cfg.CountJumps {
		g.titles = []string{"N0", "N1", "N2"}[:nn]
	}
	// typed variables, initialised at the top of the start node
	g.vnames = []string{"x", "y", "b", "s"}
	g.vtypes = map[string]string{"x": "n", "y": "n", "b": "b", "s": "s"}
	c.Vars = append([]string{}, g.vnames...)
	if cfg.IllTyped {
		c.Vars = append(c.Vars, "u") // never initialised
	}
	for i := 0; i < nn; i++ {
		c.Nodes = append(c.Nodes, Node{Title: g.titles[i], Tracking: []string{"", "", "always", "never"}[rnd.Intn(4)]})
	}
	if cfg.CountJumps && nn >= 2 && rnd.Intn(2) == 0 {
		// both kinds of node in one program: one that is never counted next to one that is
		i := rnd.Intn(nn)
		c.Nodes[i].Tracking = "never"
		c.Nodes[(i+1)%nn].Tracking = []string{"", "always"}[rnd.Intn(2)]
	}
	for i := 0; i < nn; i++ {
		var stmts []Stmt
		if i > 0 && rnd.Intn(8) == 0 {
			// a node that yields nothing: empty, or assignments only; it cannot jump, so it cannot be part
			// of a cycle without a yield (entering it ends the dialogue)
			for k := rnd.Intn(3); k > 0; k-- {
				stmts = append(stmts, g.setStmt())
			}
			c.Nodes[i].Body = c.addBody(stmts)
			continue
		}
		stmts = append(stmts, g.headLine(i))
		if i == 0 && cfg.Reloop {
			// the start node is run three times with changed variables: every expression node of it is
			// evaluated repeatedly (initialisation only on the first entry)
			init := c.addBody(g.initVars())
			stmts = append(stmts, Stmt{K: "if", Clauses: []Clause{{Cond: eBin("eq", eCall("visited_count", eStr(g.titles[0])), eNum(0, 1)), Body: init}}})
			body := g.stmts(1, i)
			for len(body) > 0 && (body[len(body)-1].K == "jump" || body[len(body)-1].K == "cmd" && len(body[len(body)-1].Elems) > 0 && body[len(body)-1].Elems[0].S == "stop") {
				body = body[:len(body)-1]
			}
			stmts = append(stmts, body...)
			again := c.addBody([]Stmt{{K: "jump", E: eStr(g.titles[0])}})
			if cfg.NoLoopSets {
				stmts = append(stmts, Stmt{K: "if", Clauses: []Clause{{Cond: eBin("lt", eCall("visited_count", eStr(g.titles[0])), eNum(3, 1)), Body: again}}})
				c.Nodes[i].Body = c.addBody(stmts)
				continue
			}
			stmts = append(stmts,
				Stmt{K: "set", Var: "x", Op: "+=", E: eNum(1, 1)},
				Stmt{K: "set", Var: "y", Op: "-=", E: eNum(1, 2)},
				Stmt{K: "set", Var: "b", Op: "=", E: eNot(eVar("b"))},
				Stmt{K: "set", Var: "s", Op: "+=", E: eStr("z")},
				Stmt{K: "if", Clauses: []Clause{{Cond: eBin("lt", eCall("visited_count", eStr(g.titles[0])), eNum(2, 1)), Body: again}}})
			c.Nodes[i].Body = c.addBody(stmts)
			continue
		}
		if i == 0 {
			stmts = append(stmts, g.initVars()...)
		}
		stmts = append(stmts, g.stmts(1, i)...)
		if cfg.Huge && i == nn/2 {
			// a shaft: one option leads through 9-13 nested bodies (ifs that are true, option groups of one) to a
			// <<stop>> with statements remaining after it at every level
			levels := 9 + rnd.Intn(5)
			inner := c.addBody([]Stmt{g.lineStmt(), {K: "cmd", Elems: []*Expr{eStr("stop")}}, g.lineStmt()})
			for k := 0; k < levels; k++ {
				var wrap Stmt
				if k%3 == 2 {
					g.lineNo++
					wrap = Stmt{K: "opts", Opts: []Option{{Text: []Part{{Lit: fmt.Sprintf("O%d deeper", g.lineNo)}}, Body: inner}}}
				} else {
					wrap = Stmt{K: "if", Clauses: []Clause{{Cond: eBool(true), Body: inner}}}
				}
				inner = c.addBody([]Stmt{wrap, g.lineStmt()})
			}
			g.lineNo += 2
			stmts = append(stmts, Stmt{K: "opts", Opts: []Option{
				{Text: []Part{{Lit: fmt.Sprintf("O%d down the shaft", g.lineNo-1)}}, Body: inner},
				{Text: []Part{{Lit: fmt.Sprintf("O%d walk on", g.lineNo)}}}}}, g.lineStmt())
		}
		if cfg.Huge && stmts[len(stmts)-1].K != "jump" {
			// the nodes form a ring: a walk goes on for hundreds of calls
			stmts = append(stmts, Stmt{K: "jump", E: eStr(g.titles[(i+1)%nn])})
		}
		c.Nodes[i].Body = c.addBody(stmts)
	}
	if hostStop {
		// ... and the program does stop somewhere: where the start node would run off its end
		b := c.Nodes[0].Body
		c.Bodies[b-1] = append(c.Bodies[b-1], Stmt{K: "cmd", Elems: []*Expr{eStr("stop")}})
	}
	if cfg.IntroNode && rnd.Intn(3) == 0 {
		// a first node without any variable: a snapshot taken there holds no variables, and the
		// dialogue leaves it through a jump without having assigned anything
		intro := []Stmt{{K: "line", Text: []Part{{Lit: "Intro"}}}}
		if rnd.Intn(2) == 0 {
			intro = append(intro, Stmt{K: "opts", Opts: []Option{{Text: []Part{{Lit: "Begin"}}}, {Text: []Part{{Lit: "Begin anyway"}}}}})
		}
		intro = append(intro, Stmt{K: "jump", E: eStr(g.titles[0])})
		c.Nodes = append([]Node{{Title: "Intro", Tracking: []string{"", "never"}[rnd.Intn(2)], Body: c.addBody(intro)}}, c.Nodes...)
		nn++
	}
	if cfg.CountJumps && rnd.Intn(2) == 0 {
		// every visited / visited_count call of the program names its node through a computed argument
		// (no node is named by a literal anywhere): "N" + "1", or a probe handing the name through
		var rewrite func(e *Expr)
		rewrite = func(e *Expr) {
			if e == nil {
				return
			}
			rewrite(e.A)
			rewrite(e.L)
			rewrite(e.R)
			for _, a := range e.Args {
				rewrite(a)
			}
			if e.K == "call" && (e.S == "visited" || e.S == "visited_count") && len(e.Args) == 1 && e.Args[0].K == "str" && len(e.Args[0].S) >= 2 {
				t := e.Args[0].S
				if rnd.Intn(3) == 0 {
					e.Args[0] = eCall("p1", eBin("add", eStr(t[:1]), eStr(t[1:])))
				} else {
					e.Args[0] = eBin("add", eStr(t[:1]), eStr(t[1:]))
				}
			}
		}
		for bi := range c.Bodies {
			for si := range c.Bodies[bi] {
				st := &c.Bodies[bi][si]
				rewrite(st.E)
				rewrite(st.Cond)
				for pi := range st.Text {
					rewrite(st.Text[pi].E)
				}
				for oi := range st.Opts {
					rewrite(st.Opts[oi].Cond)
					for pi := range st.Opts[oi].Text {
						rewrite(st.Opts[oi].Text[pi].E)
					}
				}
				for ci := range st.Clauses {
					rewrite(st.Clauses[ci].Cond)
				}
				for _, e := range st.Elems {
					rewrite(e)
				}
			}
		}
	}
	if cfg.Dispatch {
		// at most two registrations per program, of names its script uses
		used := map[string]bool{}
		for _, b := range c.Bodies {
			for _, st := range b {
				var visit func(e *Expr)
				visit = func(e *Expr) {
					if e == nil {
						return
					}
					if e.K == "call" {
						used["f:"+e.S] = true
					}
					visit(e.A)
					visit(e.L)
					visit(e.R)
					for _, a := range e.Args {
						visit(a)
					}
				}
				visit(st.E)
				for _, pt := range st.Text {
					visit(pt.E)
				}
				for i, e := range st.Elems {
					if i == 0 && e.K == "str" {
						used["c:"+e.S] = true
					}
					visit(e)
				}
			}
		}
		var cands []Rebind
		for _, b := range [][3]string{{"f", "late", "id"}, {"f", "p1", "boom"}, {"c", "clate", "done"}, {"c", "cother", "fail"}, {"c", "cdone", "pend"}} {
			if used[b[0]+":"+b[1]] {
				cands = append(cands, Rebind{b[0], b[1], b[2]})
			}
		}
		rnd.Shuffle(len(cands), func(i, j int) { cands[i], cands[j] = cands[j], cands[i] })
		if len(cands) > 2 {
			cands = cands[:2]
		}
		c.Rebinds = cands
	}
	// reader split
	if nn > 1 && rnd.Intn(2) == 0 {
		k := 1 + rnd.Intn(nn-1)
		c.Readers = []int{k, nn - k}
		if nn-k > 1 && rnd.Intn(2) == 0 {
			c.Readers = []int{k, 1, nn - k - 1}
		}
	} else {
		c.Readers = []int{nn}
	}
	return c
}

func (g *gen) headLine(node int) Stmt {
	parts := []Part{{Lit: fmt.Sprintf("Node %s", g.titles[node])}}
	if g.cfg.VisitLine {
		for _, t := range g.titles {
			parts = append(parts, Part{Lit: " " + t + "="}, Part{E: eCall("visited_count", eStr(t))},
				Part{Lit: "/"}, Part{E: eCall("visited", eStr(t))})
		}
		parts = append(parts, Part{Lit: " none="}, Part{E: eCall("visited_count", eStr("Nowhere"))},
			Part{Lit: "/"}, Part{E: eCall("visited", eStr("Nowhere"))})
	}
	if g.cfg.Markup >= 0.5 {
		// the very first line a runner shows already needs the markers whose contents are read as raw
		// text (whatever the parser sets up for them on first use is set up by all runners at once)
		parts = append(parts, Part{Lit: " "}, Part{Lit: "hm", Wrap: []string{"nomarkup", "selopen", "pluopen", "ordopen"}[g.rnd.Intn(4)]})
	}
	return Stmt{K: "line", Text: parts}
}

func (g *gen) initVars() []Stmt {
	r := g.rnd
	mk := func(v string, e *Expr) Stmt {
		if r.Intn(3) == 0 {
			return Stmt{K: "set", Var: v, Op: "=", Decl: true, E: e}
		}
		return Stmt{K: "set", Var: v, Op: "=", E: e}
	}
	return []Stmt{
		mk("x", eNum(r.Intn(4), 1)),
		mk("y", eNum(1+2*r.Intn(3), []int{1, 2, 4}[r.Intn(3)])),
		mk("b", eBool(r.Intn(2) == 0)),
		mk("s", eStr([]string{"ab", "hello", "Z"}[r.Intn(3)])),
	}
}

// ------------------------------------------------------------ expressions

func (g *gen) varOf(t string) *Expr {
	var cands []string
	for _, v := range g.vnames {
		if g.vtypes[v] == t {
			cands = append(cands, v)
		}
	}
	return eVar(cands[g.rnd.Intn(len(cands))])
}

func (g *gen) numLit() *Expr {
	r := g.rnd
	switch r.Intn(5) {
	case 0:
		return eNum(1+2*r.Intn(4), []int{2, 4, 8}[r.Intn(3)]) // dyadic fraction
	default:
		return eNum(r.Intn(6), 1)
	}
}

// expr generates a well-typed expression of type t ("n", "b", "s").
func (g *gen) expr(t string, depth int) *Expr {
	r := g.rnd
	if g.cfg.Faults > 0 && depth > 0 && r.Float64() < g.cfg.Faults/3 {
		return g.faultyExpr(t, depth)
	}
	if g.cfg.RichExpr && depth > 0 && t != "s" && r.Intn(8) == 0 {
		// binary operations whose only variable reads and function calls sit under a unary minus or
		// a `not` (the operation is not a constant, however constant its operands look one level down)
		title := eStr(g.titles[r.Intn(len(g.titles))])
		if t == "n" {
			return []*Expr{
				eBin("add", g.numLit(), eNeg(g.varOf("n"))),
				eBin("mul", eNeg(g.varOf("n")), eNum(2, 1)),
				eBin("sub", eNum(10, 1), eNeg(eCall("visited_count", title))),
				eBin("add", eNeg(eNeg(g.varOf("n"))), eNum(1, 2)),
				eBin("sub", eNum(100, 1), eNeg(eCall("p1", g.varOf("n")))),
			}[r.Intn(5)]
		}
		return []*Expr{
			eBin("and", eBool(true), eNot(g.varOf("b"))),
			eBin("eq", eNot(g.varOf("b")), eBool(true)),
			eBin("xor", eNot(eCall("visited", title)), eBool(false)),
			eBin("or", eBool(false), eNot(eNot(g.varOf("b")))),
			eBin("lt", eNeg(g.varOf("n")), eNum(0, 1)),
			eBin("ne", eNot(eCall("p2", g.varOf("b"))), eBool(false)),
		}[r.Intn(6)]
	}
	leaf := depth <= 0 || r.Intn(3) == 0
	switch t {
	case "n":
		if g.cfg.MathHeavy && depth > 0 && r.Intn(2) == 0 {
			if r.Intn(4) == 0 {
				// the conversions, also of literals and of each other's results, as left and right operands
				// (number of a number is that number - every time the statement is evaluated)
				conv := func() *Expr {
					switch r.Intn(5) {
					case 0:
						return eCall("number", g.numLit())
					case 1:
						return eCall("number", eCall("number", g.numLit()))
					case 2:
						return eCall("number", eBool(r.Intn(2) == 0))
					case 3:
						return eCall("number", g.varOf("n"))
					}
					return eCall("number", g.expr("n", depth-1))
				}
				switch r.Intn(4) {
				case 0:
					if r.Intn(3) == 0 {
						return eNeg(conv()) // (number of a number hands its argument through: the operator must not touch it)
					}
					return conv()
				case 1:
					return eBin([]string{"add", "sub", "mul", "div", "mod"}[r.Intn(5)], conv(), []*Expr{eNum(1, 1), eNum(2, 1), eNum(1, 2)}[r.Intn(3)])
				case 2:
					return eBin([]string{"add", "sub", "mul"}[r.Intn(3)], g.numLit(), conv())
				}
				return eBin("add", conv(), conv())
			}
			fn := []string{"floor", "ceil", "round", "inc", "dec", "integer", "decimal"}[r.Intn(7)]
			if r.Intn(4) == 0 {
				// a negated literal as the argument (the literal is part of the program: it is the same
				// number every time the statement runs)
				return eCall(fn, eNeg([]*Expr{eNum(5, 2), eNum(2, 1), eNum(7, 4), eNum(1, 2), eNum(3, 1)}[r.Intn(5)]))
			}
			return eCall(fn, g.expr("n", depth-1))
		}
		if leaf {
			switch r.Intn(3) {
			case 0:
				return g.varOf("n")
			default:
				return g.numLit()
			}
		}
		switch r.Intn(9) {
		case 0:
			return eNeg(g.expr("n", depth-1))
		case 1, 2:
			return eBin("add", g.expr("n", depth-1), g.expr("n", depth-1))
		case 3:
			return eBin("sub", g.expr("n", depth-1), g.expr("n", depth-1))
		case 4:
			return eBin("mul", g.expr("n", depth-1), g.numLit())
		case 5:
			return eBin("div", g.expr("n", depth-1), eNum([]int{1, 2, 4}[r.Intn(3)], 1))
		case 6:
			return eBin("mod", g.expr("n", depth-1), []*Expr{eNum(2, 1), eNum(3, 1), eNum(3, 2), eNeg(eNum(2, 1)), eNum(5, 4)}[r.Intn(5)])
		case 7:
			switch r.Intn(5) {
			case 4:
				// a host function writing $x next to reads of $x: operands read before the call keep their value
				switch r.Intn(4) {
				case 0:
					return eBin("add", eVar("x"), eCall("bump"))
				case 1:
					return eBin("sub", eCall("bump"), eVar("x"))
				case 2:
					return eBin("add", eBin("mul", eVar("x"), eNum(2, 1)), eBin("add", eCall("bump"), eVar("x")))
				}
				return eCall("bump")
			case 0:
				switch r.Intn(3) {
				case 0:
					return eCall("cadd", eNum(r.Intn(7), 1), eNum(r.Intn(5), 1))
				case 1:
					args := []*Expr{eNum(r.Intn(7), 1)}
					for i := r.Intn(4); i > 0; i-- {
						if v := r.Intn(9) - 2; v < 0 {
							args = append(args, eNeg(eNum(-v, 1))) // (a negative number is written with a unary minus)
						} else {
							args = append(args, eNum(v, 1))
						}
					}
					return eCall("csum", args...)
				}
				return eCall("cint", eNum(r.Intn(7), 1))
			case 1:
				// the numeric built-ins, on dyadic arguments of both signs (halves included)
				fn := []string{"floor", "ceil", "round", "inc", "dec", "integer", "decimal"}[r.Intn(7)]
				return eCall(fn, g.expr("n", depth-1))
			}
			return eCall("p1", g.expr("n", depth-1))
		default:
			return eCall("visited_count", eStr(g.titles[r.Intn(len(g.titles))]))
		}
	case "b":
		if g.cfg.MathHeavy && depth > 0 && r.Intn(6) == 0 {
			// a unary operator directly on a conversion that hands its argument through (bool of a boolean):
			// the literal is part of the program, the same every time the statement runs
			return eNot(eCall("bool", []*Expr{eBool(false), eBool(true), g.varOf("b")}[r.Intn(3)]))
		}
		if leaf {
			switch r.Intn(3) {
			case 0:
				return g.varOf("b")
			default:
				return eBool(r.Intn(2) == 0)
			}
		}
		switch r.Intn(10) {
		case 0:
			return eNot(g.expr("b", depth-1))
		case 1, 2:
			return eBin([]string{"lt", "le", "gt", "ge"}[r.Intn(4)], g.expr("n", depth-1), g.expr("n", depth-1))
		case 3:
			tt := []string{"n", "b", "s"}[r.Intn(3)]
			return eBin([]string{"eq", "ne"}[r.Intn(2)], g.expr(tt, depth-1), g.expr(tt, depth-1))
		case 4, 5:
			return eBin("and", g.expr("b", depth-1), g.expr("b", depth-1))
		case 6, 7:
			return eBin("or", g.expr("b", depth-1), g.expr("b", depth-1))
		case 8:
			return eBin("xor", g.expr("b", depth-1), g.expr("b", depth-1))
		default:
			switch r.Intn(3) {
			case 0:
				return eCall("p2", g.expr("b", depth-1))
			case 1:
				return eCall("cbool", g.expr("b", depth-1))
			}
			return eCall("visited", eStr(g.titles[r.Intn(len(g.titles))]))
		}
	default:
		if leaf {
			switch r.Intn(3) {
			case 0:
				return g.varOf("s")
			default:
				return eStr([]string{"a", "bc", "Q", "", "x y"}[r.Intn(5)])
			}
		}
		switch r.Intn(4) {
		case 0, 1:
			// the right operand never contains a variable: a string expression then mentions at most one
			// string variable, so strings grow linearly - not exponentially - in loops ($s = $s + $s
			// executed 30 times would be a gigabyte)
			return eBin("add", g.expr("s", depth-1), eStr([]string{"a", "bc", "Q", "", "x y"}[r.Intn(5)]))
		case 2:
			if r.Intn(2) == 0 {
				return eCall("cstr", g.expr("s", depth-1))
			}
			return eCall("p1", g.expr("s", depth-1))
		default:
			return eCall("string", g.expr([]string{"n", "b", "s"}[r.Intn(3)], depth-1))
		}
	}
}

// faultyExpr generates an expression whose evaluation is a script-level fault.
func (g *gen) faultyExpr(t string, depth int) *Expr {
	r := g.rnd
	switch r.Intn(15) {
	case 10:
		return eNull() // the null literal has no value
	case 11:
		return eCall("noret") // a function that returns nothing, used as a value
	case 12:
		return eCall("p1", eCall("noret", g.expr("n", 0))) // ... passed on as an argument
	case 13:
		if t == "n" {
			return eBin("add", eCall("noret"), g.expr("n", 0)) // ... as an operand
		}
		return eBin("eq", g.expr(t, 0), eNull())
	case 14:
		if t == "b" {
			return eNot(eCall("noret"))
		}
		if t == "s" {
			return eCall("cstr", g.expr("n", 0)) // wrong argument type for a converted function
		}
		if t == "n" {
			// ... at a later position, after earlier arguments were converted
			return []*Expr{eCall("cadd", eNum(10, 1), eStr("two")), eCall("csum", eNum(1, 1), eStr("three")),
				eCall("csum", eNum(1, 1), eNum(2, 1), eBool(true)), eCall("cadd", eNum(1, 1)), eCall("cadd", eNum(1, 1), eNum(2, 1), eNum(3, 1))}[r.Intn(5)]
		}
		return eCall("cbool", g.expr("s", 0), g.expr("b", 0)) // wrong count
	case 0:
		return eVar("nosuchvar")
	case 1:
		return eCall("nosuchfunc", g.expr("n", 0))
	case 2:
		return eCall("boom")
	case 3:
		return eBin("add", g.expr("n", 0), g.expr("s", 0)) // ill-typed
	case 4:
		return eBin("and", g.expr("b", 0), g.expr("n", 0))
	case 5:
		return eBin("lt", g.expr("s", 0), g.expr("s", 0))
	case 6:
		return eNeg(g.expr("b", 0))
	case 7:
		return eNot(g.expr("n", 0))
	case 8:
		return eCall("visited", g.expr("n", 0)) // wrong argument type
	default:
		return eCall("visited_count") // wrong argument count
	}
}

func (g *gen) exprDepth() int {
	if g.cfg.RichExpr {
		return 1 + g.rnd.Intn(4)
	}
	return g.rnd.Intn(3)
}

// -------------------------------------------------------------- statements

func (g *gen) lineStmt() Stmt {
	g.lineNo++
	r := g.rnd
	if (g.cfg.Faults > 0 || g.cfg.Markup > 0 || g.cfg.LineConds > 0) && r.Intn(25) == 0 {
		// a line whose text, once its expressions are evaluated, is nothing but whitespace (or nothing at all)
		empty := func() *Expr {
			if r.Intn(2) == 0 {
				return eStr("")
			}
			return eCall("p1", eStr(""))
		}
		return Stmt{K: "line", Text: [][]Part{{{E: empty()}, {Lit: " "}, {E: empty()}}, {{E: empty()}}, {{E: empty()}, {Lit: "  "}, {E: eStr(" ")}}}[r.Intn(3)]}
	}
	if len(g.vnames) > 0 && !g.cfg.Huge && r.Intn(14) == 0 {
		// a line that is nothing but one inline expression: its text is the value of the moment, every time it is shown
		t := []string{"n", "b", "s"}[r.Intn(3)]
		if r.Intn(2) == 0 {
			return Stmt{K: "line", Text: []Part{{E: g.varOf(t)}}}
		}
		return Stmt{K: "line", Text: []Part{{E: g.expr(t, 1)}}}
	}
	parts := []Part{{Lit: fmt.Sprintf("L%d", g.lineNo)}}
	n := r.Intn(3)
	if g.cfg.Huge && r.Intn(10) == 0 {
		n = 20 + r.Intn(20) // a line of hundreds of characters
	}
	for i := 0; i < n; i++ {
		t := []string{"n", "b", "s"}[r.Intn(3)]
		parts = append(parts, Part{Lit: []string{" ", " v=", ", "}[r.Intn(3)]}, Part{E: g.expr(t, g.exprDepth())})
	}
	if r.Intn(4) == 0 {
		parts = append(parts, Part{Lit: " end."})
	}
	if g.cfg.Dispatch && r.Intn(3) == 0 {
		// a host function that may be registered late, or replaced, between two calls
		parts = append(parts, Part{Lit: " late="}, Part{E: eCall([]string{"late", "p1"}[r.Intn(2)], g.expr("n", 0))})
	}
	if g.cfg.Markup > 0 && r.Float64() < g.cfg.Markup {
		wrap := []string{"b", "bp", "nomarkup", "nomarkupall", "sc", "nomarkup", "selopen", "pluopen", "ordopen"}[r.Intn(9)]
		lit := []string{"word", "two words", "x"}[r.Intn(3)]
		if wrap == "nomarkup" || wrap == "nomarkupall" {
			lit = []string{"raw [b] text", "[not a marker]", "plain"}[r.Intn(3)] // kept verbatim, brackets included
		}
		parts = append(parts, Part{Lit: " "}, Part{Lit: lit, Wrap: wrap})
		if r.Intn(2) == 0 {
			parts = append(parts, Part{Lit: " tail"})
		}
	}
	st := Stmt{K: "line", Text: parts}
	if g.cfg.LineConds > 0 && r.Float64() < g.cfg.LineConds {
		st.Cond = []*Expr{eBool(false), eBool(true), g.varOf("b"), eNot(g.varOf("b")), eBin("lt", g.varOf("n"), eNum(2, 1)),
			eBin("and", g.varOf("b"), eBool(false))}[r.Intn(6)]
		g.c.LineCond = true
	}
	for i := r.Intn(3); i > 0 && r.Intn(2) == 0; i-- {
		st.Tags = append(st.Tags, fmt.Sprintf("t%d", r.Intn(5)))
	}
	return st
}

func (g *gen) setStmt() Stmt {
	r := g.rnd
	if g.cfg.IllTyped {
		// every (current type, assigned type, operator) combination, incl. the unset variable
		v := append([]string{"u"}, g.vnames...)[r.Intn(len(g.vnames)+1)]
		op := []string{"=", "+=", "-=", "*=", "/=", "%="}[r.Intn(6)]
		t := []string{"n", "b", "s"}[r.Intn(3)]
		if r.Intn(3) > 0 && v != "u" {
			t = g.vtypes[v] // bias towards well-typed so that values evolve
		}
		var e *Expr
		switch t {
		case "n":
			e = []*Expr{eNum(2, 1), eNum(3, 2), eNeg(eNum(1, 1)), eNum(4, 1), g.varOf("n"), eNum(1, 4)}[r.Intn(6)]
			if (op == "/=" || op == "%=") && e.K == "var" {
				e = eNum(2, 1)
			}
		case "b":
			e = g.expr("b", 1)
		default:
			e = g.expr("s", 1)
		}
		st := Stmt{K: "set", Var: v, Op: op, E: e}
		if op == "=" && r.Intn(4) == 0 && (e.K == "num" || e.K == "str" || e.K == "bool" || e.K == "var") {
			st.Decl = true
		}
		return st
	}
	v := g.vnames[r.Intn(len(g.vnames))]
	t := g.vtypes[v]
	if g.cfg.Faults > 0 && r.Float64() < g.cfg.Faults/2 {
		switch r.Intn(3) {
		case 0: // type change
			other := map[string]string{"n": "s", "b": "n", "s": "b"}[t]
			return Stmt{K: "set", Var: v, Op: "=", E: g.expr(other, 1)}
		case 1: // compound assignment on unknown variable
			return Stmt{K: "set", Var: "unknownvar", Op: "+=", E: eNum(1, 1)}
		default:
			return Stmt{K: "set", Var: v, Op: "=", E: g.faultyExpr(t, 1)}
		}
	}
	switch t {
	case "n":
		op := []string{"=", "=", "+=", "-=", "*=", "/=", "%="}[r.Intn(7)]
		var e *Expr
		switch op {
		case "*=":
			e = []*Expr{eNum(2, 1), eNum(1, 2), eNum(3, 1), eNeg(eNum(1, 1))}[r.Intn(4)]
		case "/=":
			e = []*Expr{eNum(2, 1), eNum(4, 1), eNeg(eNum(2, 1))}[r.Intn(3)]
		case "%=":
			e = []*Expr{eNum(2, 1), eNum(3, 1), eNum(3, 2), eNeg(eNum(2, 1))}[r.Intn(4)]
		default:
			e = g.expr("n", g.exprDepth())
		}
		return Stmt{K: "set", Var: v, Op: op, E: e}
	case "b":
		return Stmt{K: "set", Var: v, Op: "=", E: g.expr("b", g.exprDepth())}
	default:
		if r.Intn(2) == 0 {
			return Stmt{K: "set", Var: v, Op: "+=", E: eStr([]string{"a", "bc", "Q", "", "x y"}[r.Intn(5)])}
		}
		return Stmt{K: "set", Var: v, Op: "=", E: g.expr("s", g.exprDepth())}
	}
}

func (g *gen) cmdStmt() Stmt {
	r := g.rnd
	names := []string{"cdone", "cother"}
	if g.cfg.PendCmds {
		names = append(names, "cpend", "cpend")
	}
	if g.cfg.FailCmds {
		names = append(names, "cfail")
	}
	if g.cfg.Faults > 0 && r.Float64() < g.cfg.Faults {
		names = []string{"nosuchcmd"}
		if r.Intn(4) == 0 {
			// a command without a single word: nothing but blanks the lexer does not know (NBSP, U+3000) between << and >>
			return Stmt{K: "cmd"}
		}
	}
	if g.hostWait {
		names = append(names, "wait", "wait")
	}
	if g.cfg.Dispatch {
		names = append(names, "clate") // registered by the host later, if at all
	}
	elems := []*Expr{eStr(names[r.Intn(len(names))])}
	for i := r.Intn(3); i > 0; i-- {
		if g.cfg.Dispatch && r.Intn(2) == 0 {
			// no variable is read: the value still changes from one dispatch to the next
			t := g.titles[r.Intn(len(g.titles))]
			elems = append(elems, []*Expr{eCall("visited_count", eStr(t)), eCall("visited", eStr(t)), eCall("bump"),
				eBin("add", eCall("visited_count", eStr(t)), eNum(1, 1)), eCall("p1", eCall("visited_count", eStr(g.titles[0]))),
				eCall("late", eCall("visited_count", eStr(t))),
				// a variable under a unary operator and nothing else that varies
				eNeg(g.varOf("n")), eNot(g.varOf("b")), eNeg(eNeg(g.varOf("n")))}[r.Intn(9)])
			continue
		}
		switch r.Intn(5) {
		case 0:
			elems = append(elems, eNum(r.Intn(9)-3, 1))
		case 1:
			elems = append(elems, eBool(r.Intn(2) == 0))
		case 2:
			elems = append(elems, eStr([]string{"word", "north", "A1"}[r.Intn(3)]))
		default:
			t := []string{"n", "b", "s"}[r.Intn(3)]
			e := g.expr(t, 1)
			if e.K == "num" || e.K == "bool" || e.K == "str" { // literals print as bare words: keep the AST unambiguous
				e = eCall("p1", e)
			}
			elems = append(elems, e)
		}
	}
	return Stmt{K: "cmd", Elems: elems}
}

func (g *gen) stmts(depth int, node int) []Stmt {
	r := g.rnd
	cfg := g.cfg
	n := 1 + r.Intn(cfg.MaxStmts)
	if cfg.Huge {
		if g.budget -= n; g.budget < 0 {
			return []Stmt{g.lineStmt()} // budget spent: no further nesting
		}
	}
	var out []Stmt
	if cfg.Huge && depth >= 9 && r.Intn(3) == 0 {
		// a stop deep inside (nine and more bodies are open), with statements remaining after it at every level
		return []Stmt{g.lineStmt(), {K: "cmd", Elems: []*Expr{eStr("stop")}}, g.lineStmt()}
	}
	total := cfg.Opts + cfg.Ifs + cfg.Sets + cfg.Jumps + cfg.Stops + cfg.Lines + cfg.Cmds + cfg.Calls
	lastWasOpts := false
	for i := 0; i < n; i++ {
		x := r.Float64() * total
		pick := func(w float64) bool {
			if x < w {
				return true
			}
			x -= w
			return false
		}
		if cfg.RichExpr && r.Intn(9) == 0 {
			// a call of a converted function that is refused for a LATER argument (earlier ones were already
			// converted), then good calls of the same function: each call gets exactly its own arguments
			fn := []string{"cadd", "csum"}[r.Intn(2)]
			bad := []*Expr{eNum(10, 1), eStr("two")}
			if fn == "csum" && r.Intn(2) == 0 {
				bad = []*Expr{eNum(1, 1), eNum(2, 1), eBool(true)}
			}
			g.lineNo++
			out = append(out, Stmt{K: "set", Var: "y", Op: "=", E: eCall(fn, bad...)},
				Stmt{K: "line", Text: []Part{{Lit: fmt.Sprintf("L%d ", g.lineNo)}, {E: eCall(fn, eNum(3, 1), eNum(4, 1))}, {Lit: " and "},
					{E: eCall(fn, eNum(r.Intn(5), 1), eVar("x"))}}})
			continue
		}
		if cfg.RichExpr && r.Intn(6) == 0 {
			// operands keep the value they had when they were read: $x is read, THEN a host function
			// writes $x through the storer, in the same expression / argument list
			switch r.Intn(4) {
			case 0:
				g.lineNo++
				out = append(out, Stmt{K: "line", Text: []Part{{Lit: fmt.Sprintf("L%d ", g.lineNo)}, {E: eBin("add", eVar("x"), eCall("bump"))},
					{Lit: " then "}, {E: eVar("x")}}})
			case 1:
				out = append(out, Stmt{K: "set", Var: "y", Op: "=", E: eBin("sub", eBin("mul", eVar("x"), eNum(2, 1)), eBin("mul", eVar("x"), eCall("bump")))})
			case 2:
				if r.Intn(2) == 0 {
					// a call among the later arguments of another call: each call has its own arguments
					out = append(out, Stmt{K: "call", E: eCall("noret", eNum(1, 1), eCall("p1", eNum(5, 1)), eStr("k"), eCall("p1", eCall("p2", eNum(7, 2))))})
				} else {
					out = append(out, Stmt{K: "call", E: eCall("noret", eVar("x"), eCall("bump"), eVar("x"))})
				}
			default:
				out = append(out, Stmt{K: "if", Clauses: []Clause{{Cond: eBin("lt", eVar("x"), eCall("bump")), Body: g.c.addBody([]Stmt{g.lineStmt()})}}})
			}
			lastWasOpts = false
			continue
		}
		switch {
		case pick(cfg.Lines):
			out = append(out, g.lineStmt())
			lastWasOpts = false
		case pick(cfg.Opts):
			if lastWasOpts || depth > cfg.MaxDepth {
				out = append(out, g.lineStmt())
				lastWasOpts = false
				continue
			}
			st := Stmt{K: "opts"}
			nopt := 1 + r.Intn(3)
			if cfg.Huge && r.Intn(4) == 0 {
				nopt = 8 + r.Intn(6)
			}
			for k := nopt; k > 0; k-- {
				g.lineNo++
				o := Option{Text: []Part{{Lit: fmt.Sprintf("O%d", g.lineNo)}}}
				if r.Intn(3) == 0 {
					o.Text = append(o.Text, Part{Lit: " "}, Part{E: g.expr([]string{"n", "b", "s"}[r.Intn(3)], 1)})
				}
				if r.Intn(3) == 0 {
					o.Cond = g.expr("b", g.exprDepth())
				}
				if g.cfg.OptConds && r.Intn(4) > 0 {
					t := g.titles[r.Intn(len(g.titles))]
					o.Cond = []*Expr{
						eCall("visited", eStr(t)),
						eNot(eCall("visited", eStr(t))),
						eBin("gt", eCall("visited_count", eStr(t)), eNum(r.Intn(3), 1)),
						eBin("eq", eBin("mod", eCall("visited_count", eStr(t)), eNum(2, 1)), eNum(0, 1)),
						eCall("cbool", eCall("visited", eStr(t))),
						eBin("lt", g.varOf("n"), eNum(2, 1)),
						eBin("and", eCall("visited", eStr(t)), g.varOf("b")),
						eBool(r.Intn(2) == 0),
					}[r.Intn(8)]
				}
				if r.Intn(4) == 0 {
					o.Tags = []string{fmt.Sprintf("o%d", r.Intn(4))}
				}
				if r.Intn(4) > 0 {
					body := g.stmts(depth+1, node)
					if g.cfg.Dispatch && r.Intn(2) == 0 {
						body = append([]Stmt{g.cmdStmt()}, body...) // a command before any line of the body
					}
					o.Body = g.c.addBody(body)
				}
				st.Opts = append(st.Opts, o)
			}
			out = append(out, st)
			lastWasOpts = true
		case pick(cfg.Ifs):
			if depth > cfg.MaxDepth {
				out = append(out, g.lineStmt())
				lastWasOpts = false
				continue
			}
			st := Stmt{K: "if"}
			k := 1 + r.Intn(3)
			for j := 0; j < k; j++ {
				cond := g.expr("b", g.exprDepth())
				if j > 0 && j == k-1 && r.Intn(2) == 0 {
					cond = eBool(true) // else
				}
				body := 0
				if r.Intn(5) > 0 {
					body = g.c.addBody(g.stmts(depth+1, node))
				}
				st.Clauses = append(st.Clauses, Clause{Cond: cond, Body: body})
			}
			out = append(out, st)
			lastWasOpts = false
		case pick(cfg.Sets):
			out = append(out, g.setStmt())
			lastWasOpts = false
		case pick(cfg.Jumps):
			target := g.titles[r.Intn(len(g.titles))]
			var e *Expr
			switch r.Intn(4) {
			case 0:
				e = eBin("add", eStr(target[:2]), eStr(target[2:])) // jump by expression
			case 1:
				e = eCall("p1", eStr(target))
			default:
				e = eStr(target)
			}
			if cfg.CountJumps && r.Intn(4) == 0 {
				// the destination depends on a visit count, e.g. of the node being left: "N" + string(visited_count("N1") % 2)
				of := g.titles[r.Intn(len(g.titles))]
				if r.Intn(2) == 0 {
					of = g.titles[node]
				}
				e = eBin("add", eStr("N"), eCall("string", eBin("mod", eCall("visited_count", eStr(of)), eNum(len(g.titles), 1))))
			}
			if cfg.Faults > 0 && r.Float64() < cfg.Faults || r.Float64() < cfg.JumpFaults {
				// (unknown names that sort before, between and after every node title)
				e = []*Expr{eStr("NoSuchNode"), eNum(3, 1), eBin("add", eStr("No"), eStr("Node")), eCall("boom"), eVar("nosuchvar"),
					eStr("Aaa"), eStr("Zzzz"), eStr("zz_last"), eBin("add", eStr("~"), eStr("tilde")), eStr("A0")}[r.Intn(10)]
			}
			out = append(out, Stmt{K: "jump", E: e})
			lastWasOpts = false
			if r.Intn(3) > 0 {
				return out // usually nothing after a jump
			}
		case pick(cfg.Stops):
			out = append(out, Stmt{K: "cmd", Elems: []*Expr{eStr("stop")}})
			lastWasOpts = false
			if r.Intn(2) == 0 {
				return out
			}
		case pick(cfg.Cmds):
			out = append(out, g.cmdStmt())
			lastWasOpts = false
		default:
			args := []*Expr{}
			for k := r.Intn(3); k > 0; k-- {
				args = append(args, g.expr([]string{"n", "b", "s"}[r.Intn(3)], 1))
			}
			fn := []string{"p1", "p2", "noret", "noret"}[r.Intn(4)]
			if fn != "noret" {
				args = []*Expr{g.expr([]string{"n", "b", "s"}[r.Intn(3)], 1)}
			}
			if cfg.Faults > 0 && r.Float64() < cfg.Faults {
				fn = []string{"boom", "nosuchfunc"}[r.Intn(2)]
			}
			out = append(out, Stmt{K: "call", E: eCall(fn, args...)})
			lastWasOpts = false
		}
	}
	return out
}
