package verifharness

import (
	"github.com/antlr4-go/antlr/v4"

	"github.com/remieven/ysgo/internal/parser"
)

// refIndentLexer is the indentation rule of spec/IndentLexer.tla (NewlineStep, EofStep)
// applied to the token stream of the generated lexer *below* the library's own
// indentation layer (BaseLexer.NextToken): an oracle for "syntactically valid" that does
// not depend on internal/parser/indent_aware_lexer.go.  `lex record --ref only` records its
// token stream so that LexTrace binds this transcription to the specification too.
type refIndentLexer struct {
	*parser.YarnSpinnerLexer
	pending []antlr.Token
	stack   []int
	done    bool
}

func newRefIndentLexer(input string) *refIndentLexer {
	return &refIndentLexer{YarnSpinnerLexer: parser.NewYarnSpinnerLexer(antlr.NewInputStream(input))}
}

func (r *refIndentLexer) top() int {
	if len(r.stack) == 0 {
		return 0
	}
	return r.stack[len(r.stack)-1]
}

func (r *refIndentLexer) synth(tokenType int, text string) {
	start := r.TokenStartCharIndex + len(r.GetText())
	t := antlr.NewCommonToken(r.GetTokenSourceCharStreamPair(), tokenType, antlr.TokenDefaultChannel, start, start-1)
	t.SetText(text)
	r.pending = append(r.pending, t)
}

// NextToken: NewlineStep for a NEWLINE followed by a content line (w > Top: push, one
// INDENT; w < Top: pop every level wider than w, one DEDENT each, push nothing), nothing
// for blank and comment-only lines, EofStep at the end of input.
func (r *refIndentLexer) NextToken() antlr.Token {
	for len(r.pending) == 0 {
		if r.done {
			return nil
		}
		t := r.YarnSpinnerLexer.BaseLexer.NextToken()
		if t == nil {
			return nil
		}
		switch t.GetTokenType() {
		case parser.YarnSpinnerLexerNEWLINE:
			r.pending = append(r.pending, t)
			in := r.GetInputStream()
			la := in.LA(1)
			if la == '\r' || la == '\n' || la == antlr.TokenEOF || (la == '/' && in.LA(2) == '/') {
				break // blank, whitespace-only or comment-only line
			}
			w, _ := newlineWidth(t.GetText())
			switch {
			case w > r.top():
				r.stack = append(r.stack, w)
				r.synth(parser.YarnSpinnerLexerINDENT, "<indent>")
			case w < r.top():
				for len(r.stack) > 0 && r.top() > w {
					r.stack = r.stack[:len(r.stack)-1]
					r.synth(parser.YarnSpinnerLexerDEDENT, "<dedent>")
				}
			}
		case antlr.TokenEOF:
			for range r.stack {
				r.synth(parser.YarnSpinnerLexerDEDENT, "<dedent>")
			}
			r.stack = nil
			r.pending = append(r.pending, t)
			r.done = true
		default:
			r.pending = append(r.pending, t)
		}
	}
	t := r.pending[0]
	r.pending = r.pending[1:]
	return t
}
