package verifharness

import (
	"encoding/hex"
	"encoding/json"
	"fmt"
	"math/rand"
	"strings"

	"github.com/remieven/ysgo/markup"
)

// Property C15: markup parsing is total and its results are safe to use.
// Inputs: token-level assemblies of marker fragments, mutated valid lines, arbitrary
// bytes (invalid UTF-8 included), the lines enumerated by MC_Markup (alphabet "s").
// Only safety facts are recorded; they are judged by spec/MarkupSafetyTrace.tla.

var mkFuzzTokens = []string{
	"[", "]", "/", "=", `"`, `\`, `\[`, `\]`, " ", "\t", " ", "　", ":", ": ", "%", ".", "-",
	"a", "b", "nomarkup", "select", "plural", "ordinal", "character", "value", "one", "two", "few", "other",
	"trimwhitespace", "true", "false", "name", "contents",
	"0", "1", "2", "11", "12", "1.05", "007", "99999999999999999999",
	"2.3333333333333333333", "2.00000000000000000005", "0.000000000000000000000000001", "9223372036854775807", "9223372036854775808",
	"1.9223372036854775807", "[a p=2.3333333333333333333/]", "[a p=1.000000000000000000000001]", "[plural value=2.50000000000000000000001 one=a other=\"%\"/]",
	"é", "中", "😀", "x", "y z", "Name: ",
	"[a]", "[/a]", "[b]", "[/b]", "[/]", "[a/]", "[a /]", "[b x=1/]", "[a=1]", "[a p=", "[a p=\"q", "[a p=1.", "[a p=1.5 ",
	"[nomarkup]", "[/nomarkup]", "[ / nomarkup ]", "[select value=1 1=x /]", "[select value=a /]", "[select",
	"[plural value=1 one=\"%\" other=y/]", "[plural value=x one=a/]", "[ordinal value=2 two=\"%nd\"/]", "[ordinal value=1.5 one=a/]",
	"[a trimwhitespace=false/]", "[a trimwhitespace=3/]", "[a trimwhitespace=true]", "[character name=x]", "[/character]",
	"\xff", "\xc3", "\xe4\xb8", "\xf0\x9f\x98", "\x00", "\x80",
}

func mkFuzzAssembly(rnd *rand.Rand, maxBytes int) string {
	var b strings.Builder
	n := 1 + rnd.Intn(14)
	for i := 0; i < n; i++ {
		t := mkFuzzTokens[rnd.Intn(len(mkFuzzTokens))]
		if b.Len()+len(t) > maxBytes {
			break
		}
		b.WriteString(t)
	}
	return b.String()
}

var (
	mkFuzzNames = []string{"a", "b", "nomarkup", "select", "plural", "ordinal", "character", "é", "x1", "_"}
	mkFuzzProps = []string{"value=1", "value=2", "value=11", "value=a", "value=1.5", "value=true", "value=\"a b\"", "value=", "value",
		"a=b", "a=1", "1=x", "2=\"%\"", "one=x", "one=\"% y\"", "two=z", "few=w", "other=\"%s\"", "other=", "=", "=1",
		"p=\"q", "p=\"q\\\"r\"", "p=1.05", "p=1.", "p=.5", "p=3.1415926535897932384626", "p=0.00000000000000000001", "p=12345678901234567890",
		"value=9223372036854775807", "value=1.0000000000000000000", "name=x", "contents=c", "trimwhitespace=false", "trimwhitespace=true",
		"trimwhitespace=1", "a=b=c", "é=中"}
)

// mkFuzzMarker assembles one marker-shaped fragment: [ name props... /? ] with pieces that
// may be missing or malformed.
func mkFuzzMarker(rnd *rand.Rand) string {
	var b strings.Builder
	sp := func() {
		if rnd.Intn(4) == 0 {
			b.WriteString([]string{" ", "\t", "  ", "\u00a0"}[rnd.Intn(4)])
		}
	}
	b.WriteString("[")
	sp()
	if rnd.Intn(6) == 0 {
		b.WriteString("/")
		sp()
	}
	if rnd.Intn(12) != 0 {
		b.WriteString(mkFuzzNames[rnd.Intn(len(mkFuzzNames))])
	}
	if rnd.Intn(8) == 0 {
		b.WriteString("=" + []string{"1", "x", "\"s\"", "1.5", ""}[rnd.Intn(5)])
	}
	for k := []int{0, 0, 1, 1, 2, 3, 5}[rnd.Intn(7)]; k > 0; k-- {
		b.WriteString(" ")
		b.WriteString(mkFuzzProps[rnd.Intn(len(mkFuzzProps))])
	}
	sp()
	if rnd.Intn(3) == 0 {
		b.WriteString("/")
		sp()
	}
	if rnd.Intn(10) != 0 {
		b.WriteString("]")
	}
	return b.String()
}

// mkFuzzQuoted composes a quoted property value from pieces that matter to the processors of
// replacement markers: the % placeholder, escaped backslashes and quotes, at any position
// (first, last, adjacent).
func mkFuzzQuoted(rnd *rand.Rand) string {
	var b strings.Builder
	b.WriteString(`"`)
	for k := rnd.Intn(5); k > 0; k-- {
		b.WriteString([]string{"%", `\\`, `\"`, "x", " ", "é", "%", `\\`, "1", "item"}[rnd.Intn(10)])
	}
	b.WriteString(`"`)
	return b.String()
}

// mkFuzzReplacement: a well-formed select / plural / ordinal marker whose SELECTED case is a
// composed quoted value (so that the replacement code really runs on it).
func mkFuzzReplacement(rnd *rand.Rand) string {
	close := []string{"/]", " /]", "/ ]"}[rnd.Intn(3)]
	switch rnd.Intn(3) {
	case 0:
		k := []string{"1", "a", "x1", "2"}[rnd.Intn(4)]
		return "[select value=" + k + " " + k + "=" + mkFuzzQuoted(rnd) + " other=" + mkFuzzQuoted(rnd) + close
	case 1:
		n := []string{"1", "2", "0", "21"}[rnd.Intn(4)]
		return "[plural value=" + n + " one=" + mkFuzzQuoted(rnd) + " other=" + mkFuzzQuoted(rnd) + close
	default:
		n := []string{"1", "2", "3", "4", "11", "22"}[rnd.Intn(6)]
		return "[ordinal value=" + n + " one=" + mkFuzzQuoted(rnd) + " two=" + mkFuzzQuoted(rnd) + " few=" + mkFuzzQuoted(rnd) +
			" other=" + mkFuzzQuoted(rnd) + close
	}
}

// mkFuzzMarkers: text, marker-shaped fragments and close tags.
func mkFuzzMarkers(rnd *rand.Rand, maxBytes int) string {
	var b strings.Builder
	for n := 1 + rnd.Intn(5); n > 0; n-- {
		var t string
		switch rnd.Intn(6) {
		case 5:
			t = mkFuzzReplacement(rnd)
		case 0:
			t = []string{"x", " ", "é ", "Name: ", " y ", "\\[", ":", "\t", "😀"}[rnd.Intn(9)]
		case 1:
			t = []string{"[/]", "[/a]", "[/b]", "[/nomarkup]", "[/select]", "[ / ]", "[/é]"}[rnd.Intn(7)]
		default:
			t = mkFuzzMarker(rnd)
		}
		if b.Len()+len(t) > maxBytes {
			break
		}
		b.WriteString(t)
	}
	return b.String()
}

func mkPickByte(rnd *rand.Rand, s string) byte { return s[rnd.Intn(len(s))] }

func mkFuzzBytes(rnd *rand.Rand, maxBytes int) string {
	n := rnd.Intn(maxBytes + 1)
	b := make([]byte, n)
	for i := range b {
		switch rnd.Intn(6) {
		case 0:
			b[i] = mkPickByte(rnd, "[]/=\\\": \t%.")
		case 1:
			b[i] = byte(0x80 + rnd.Intn(0x80))
		case 2:
			b[i] = mkPickByte(rnd, "abnomarkupselect019")
		default:
			b[i] = byte(rnd.Intn(256))
		}
	}
	return string(b)
}

func mkFuzzMutate(rnd *rand.Rand, line string, maxBytes int) string {
	b := []byte(line)
	for k := 1 + rnd.Intn(3); k > 0 && len(b) > 0; k-- {
		i := rnd.Intn(len(b))
		switch rnd.Intn(5) {
		case 0:
			b = append(b[:i], b[i+1:]...)
		case 1:
			b[i] = mkPickByte(rnd, "[]/=\\\": \t")
		case 2:
			ins := mkFuzzTokens[rnd.Intn(len(mkFuzzTokens))]
			b = append(b[:i], append([]byte(ins), b[i:]...)...)
		case 3:
			b = b[:i]
		default:
			b[i] = byte(rnd.Intn(256))
		}
	}
	if len(b) > maxBytes {
		b = b[:maxBytes]
	}
	return string(b)
}

type mkSafetyEvent struct {
	Ev      string   `json:"ev"`
	ID      int      `json:"id"`
	Kind    string   `json:"kind"`
	Hex     string   `json:"hex"`
	Outcome string   `json:"outcome"`
	TextLen int      `json:"textLen"`
	Attrs   [][2]int `json:"attrs"` // position, length
	Tfa     []int    `json:"tfa"`   // 0 ok, 1 TextForAttribute panicked
	// kind "kept": the result of parsing Hex, looked at again after the same parser went on to parse Then
	Then string `json:"then,omitempty"`
}

func mkSafetyRun(id int, kind, input string) mkSafetyEvent {
	return mkSafetyEventOf(id, kind, input, mkParse(&markup.LineParser{}, input))
}

// mkSafetyKept parses `input` and then `then` with one parser and reports what the FIRST result looks
// like afterwards (a result stays safe to use whatever its parser does later); nil if there is none.
func mkSafetyKept(id int, input, then string) *mkSafetyEvent {
	p := &markup.LineParser{}
	_, pr := mkParseKeep(p, input)
	if pr == nil {
		return nil
	}
	mkParse(p, then)
	var again mkRes
	if !guarded(func() { again = mkConvertResult(pr) }) {
		again = mkFail("panic")
	}
	ev := mkSafetyEventOf(id, "kept", input, again)
	ev.Then = hex.EncodeToString([]byte(then))
	return &ev
}

func mkSafetyEventOf(id int, kind, input string, r mkRes) mkSafetyEvent {
	ev := mkSafetyEvent{Ev: "fuzz", ID: id, Kind: kind, Hex: hex.EncodeToString([]byte(input)), Outcome: r.Outcome,
		TextLen: len(r.Text), Attrs: [][2]int{}, Tfa: []int{}}
	for _, a := range r.Attrs {
		ev.Attrs = append(ev.Attrs, [2]int{a.Pos, a.Len})
		if len(a.Tfa) == 1 && a.Tfa[0] == -1 {
			ev.Tfa = append(ev.Tfa, 1)
		} else {
			ev.Tfa = append(ev.Tfa, 0)
		}
	}
	return ev
}

func markupFuzz(m map[string]string) error {
	out, err := newNDJSON(m["out"])
	if err != nil {
		return err
	}
	id := 0
	counts := map[string]int{}
	timeouts := 0
	prevInput, havePrev := "", false
	emit := func(kind, input string) error {
		if timeouts >= 5 { // every further input would cost the watchdog delay again
			return nil
		}
		id++
		counts[kind]++
		ev := mkSafetyRun(id, kind, input)
		if ev.Outcome == "timeout" {
			timeouts++
			return out.Write(ev)
		}
		if err := out.Write(ev); err != nil {
			return err
		}
		// every third input is also parsed after the previous one by the same parser, and the
		// previous result is looked at again
		if havePrev && id%3 == 0 && m["inputs"] == "" {
			id++
			if kv := mkSafetyKept(id, prevInput, input); kv != nil {
				counts["kept"]++
				if err := out.Write(kv); err != nil {
					return err
				}
			} else {
				id--
			}
		}
		prevInput, havePrev = input, true
		return nil
	}
	if f := m["inputs"]; f != "" { // replay of stored inputs: [{"kind":..,"hex":..}]
		raws, err := readNDJSON(f)
		if err != nil {
			return err
		}
		for _, raw := range raws {
			var in struct {
				Kind string `json:"kind"`
				Hex  string `json:"hex"`
				Then string `json:"then"`
			}
			if err := json.Unmarshal(raw, &in); err != nil {
				return err
			}
			b, err := hex.DecodeString(in.Hex)
			if err != nil {
				return err
			}
			if in.Kind == "kept" {
				t, err := hex.DecodeString(in.Then)
				if err != nil {
					return err
				}
				id++
				counts["kept"]++
				if kv := mkSafetyKept(id, string(b), string(t)); kv != nil {
					if err := out.Write(kv); err != nil {
						return err
					}
				}
				continue
			}
			if err := emit(in.Kind, string(b)); err != nil {
				return err
			}
		}
	} else {
		n := argInt(m, "n", 20000)
		maxBytes := argInt(m, "maxbytes", 64)
		rnd := rand.New(rand.NewSource(Seed()))
		g := &mkGen{rnd: rand.New(rand.NewSource(Seed() + 3))}
		if f := m["beh"]; f != "" { // every line enumerated by the model
			raws, err := readNDJSON(f)
			if err != nil {
				return err
			}
			for i, raw := range raws {
				var b mkBeh
				if err := json.Unmarshal(raw, &b); err != nil {
					return err
				}
				layout := mkLayout{}
				if i%2 == 1 {
					layout = mkLayout{rnd: rnd}
				}
				if err := emit("model", layout.line(b.Items)); err != nil {
					return err
				}
			}
		}
		for i := 0; i < n; i++ {
			switch i % 5 {
			case 0, 1:
				err = emit("assembly", mkFuzzAssembly(rnd, maxBytes))
			case 4:
				err = emit("markers", mkFuzzMarkers(rnd, maxBytes))
			case 2:
				err = emit("mutated", mkFuzzMutate(rnd, mkLayout{rnd: rnd}.line(g.line(8, false)), 2*maxBytes))
			default:
				err = emit("bytes", mkFuzzBytes(rnd, maxBytes))
			}
			if err != nil {
				return err
			}
		}
	}
	if err := out.Close(); err != nil {
		return err
	}
	stats, _ := json.Marshal(map[string]any{"inputs": id, "kinds": counts, "stopped_after_timeouts": timeouts >= 5})
	fmt.Println(string(stats))
	return nil
}
