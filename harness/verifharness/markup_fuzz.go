package verifharness

import "fmt"

// C15 recorder (being written).
func markupFuzz(m map[string]string) error { return fmt.Errorf("markup fuzz: not implemented yet") }
