package verifharness

import (
	"encoding/hex"
	"encoding/json"
	"fmt"
	"math/rand"
	"os"
	"path/filepath"
	"regexp"
	"sort"
	"strings"
)

// Corpus of the loader layer (property C05).  Everything derives from VERIF_SEED.

// ------------------------------------------------------- valid script generator

type yarnGen struct {
	rnd   *rand.Rand
	sb    strings.Builder
	unit  string // one indentation level
	nl    string
	nodes int
	// column of the previous content line (spaces only); a line closing deeper blocks may
	// then sit strictly between its level and the next one (IndentLexer: every wider level
	// is closed, none is opened)
	prevCol int
	ragged  bool
}

var (
	lgWords    = []string{"Hello", "there", "general", "what", "a", "lovely", "day", "isn't", "it?", "Sure.", "ok", "Rémi", "café", "1", "2.5", "well,", "fine!", "(aside)", "x=1", "a-b"}
	lgSpeakers = []string{"", "", "", "Alice: ", "Bob: ", "Narrator: "}
	lgVars     = []string{"$x", "$y", "$gold", "$name_1", "$seen"}
	lgFuncs    = []string{"f", "visited", "random_range", "my_func", "string"}
	lgCmds     = []string{"walk", "shake", "fade_in", "play sound", "show", "stop_music", "iffy", "settle"}
	lgTags     = []string{"#tag", "#line:0a1b2c", "#t1 #t2", "#a:b"}
	lgBinOps   = []string{"+", "-", "*", "/", "%", "<", "<=", ">", ">=", "==", "!=", "and", "or", "xor", "&&", "||", "^", "is", "eq", "neq", "lt", "gt", "lte", "gte"}
)

func (g *yarnGen) pick(l []string) string { return l[g.rnd.Intn(len(l))] }

func (g *yarnGen) expr(d int) string {
	r := g.rnd.Intn(10)
	if d <= 0 && r >= 5 {
		r = g.rnd.Intn(5)
	}
	switch r {
	case 0:
		if g.rnd.Intn(12) == 0 {
			// grammar-valid NUMBER literals of unusual size: beyond the largest double, hundreds of
			// fraction digits, many leading zeros
			return g.pick([]string{"1" + strings.Repeat("0", 400), "17976931348623160" + strings.Repeat("0", 292), strings.Repeat("9", 310) + ".5",
				"0." + strings.Repeat("0", 400) + "1", "3." + strings.Repeat("14159", 80), strings.Repeat("0", 300) + "7", "9007199254740993", "18446744073709551616"})
		}
		return fmt.Sprint(g.rnd.Intn(100))
	case 1:
		return fmt.Sprintf("%d.%d", g.rnd.Intn(10), g.rnd.Intn(100))
	case 2:
		return g.pick([]string{"true", "false"})
	case 3:
		return g.pick(lgVars)
	case 4:
		return `"` + g.pick([]string{"", "abc", "N0", "a b", "it's", "x\\\"y", "{1}", ">>"}) + `"`
	case 5, 6:
		return g.expr(d-1) + " " + g.pick(lgBinOps) + " " + g.expr(d-1)
	case 7:
		return "(" + g.expr(d-1) + ")"
	case 8:
		return g.pick([]string{"-", "!", "not "}) + g.pick([]string{"3", "$x", "(" + g.expr(d-1) + ")"})
	default:
		n := g.rnd.Intn(3)
		args := make([]string, n)
		for i := range args {
			args[i] = g.expr(d - 1)
		}
		return g.pick(lgFuncs) + "(" + strings.Join(args, ", ") + ")"
	}
}

func (g *yarnGen) text() string {
	var parts []string
	n := 1 + g.rnd.Intn(5)
	for i := 0; i < n; i++ {
		if i > 0 && g.rnd.Intn(6) == 0 {
			parts = append(parts, "{"+g.expr(2)+"}")
		} else {
			parts = append(parts, g.pick(lgWords))
		}
	}
	t := g.pick(lgSpeakers) + strings.Join(parts, " ")
	if g.rnd.Intn(12) == 0 {
		t += g.pick([]string{" \\{not an expression\\}", " \\#nothashtag", " [b]bold[/b]", " 100% <3", " a/b", " \\\\ backslash"})
	}
	return t
}

func (g *yarnGen) lineTail() string {
	s := ""
	if g.rnd.Intn(8) == 0 {
		s += " <<if " + g.expr(1) + ">>"
	}
	if g.rnd.Intn(5) == 0 {
		s += " " + g.pick(lgTags)
	}
	if g.rnd.Intn(10) == 0 {
		s += " // remark"
	}
	return s
}

func (g *yarnGen) emit(level int, s string) {
	g.sb.WriteString(strings.Repeat(g.unit, level))
	if strings.HasPrefix(s, "//") {
		g.sb.WriteString(s) // comment-only lines do not count
		g.sb.WriteString(g.nl)
		return
	}
	g.sb.WriteString(g.raggedPad(level))
	g.sb.WriteString(s)
	g.sb.WriteString(g.nl)
}

func (g *yarnGen) raggedPad(level int) string {
	u := len(g.unit)
	if g.unit == "\t" {
		return ""
	}
	pad := 0
	if g.ragged && u >= 2 && g.prevCol >= (level+1)*u && g.rnd.Intn(2) == 0 {
		pad = 1 + g.rnd.Intn(u-1)
	}
	g.prevCol = level*u + pad
	return strings.Repeat(" ", pad)
}

func (g *yarnGen) stmts(level, depth, n int) {
	for i := 0; i < n; i++ {
		g.stmt(level, depth)
	}
}

func (g *yarnGen) stmt(level, depth int) {
	r := g.rnd.Intn(100)
	if depth >= 3 && r >= 66 {
		r = g.rnd.Intn(66)
	}
	switch {
	case r < 34:
		g.emit(level, g.text()+g.lineTail())
	case r < 42:
		op := g.pick([]string{"to", "=", "+=", "-=", "*=", "/=", "%="})
		g.emit(level, "<<set "+g.pick(lgVars)+" "+op+" "+g.expr(2)+">>")
	case r < 46:
		v := g.pick([]string{"0", "1.5", "true", "false", `"str"`})
		as := ""
		if g.rnd.Intn(4) == 0 {
			as = " as " + g.pick([]string{"number", "string", "bool"})
		}
		g.emit(level, "<<declare "+g.pick(lgVars)+" = "+v+as+">>")
	case r < 50:
		if g.rnd.Intn(4) == 0 {
			g.emit(level, `<<jump {"N" + "0"}>>`)
		} else {
			g.emit(level, fmt.Sprintf("<<jump N%d>>", g.rnd.Intn(g.nodes+1)))
		}
	case r < 52:
		g.emit(level, "<<stop>>")
	case r < 56:
		g.emit(level, "<<call "+g.pick(lgFuncs)+"("+g.expr(1)+")>>")
	case r < 63:
		c := g.pick(lgCmds)
		for k := g.rnd.Intn(3); k > 0; k-- {
			c += " " + g.pick([]string{"npc", "3", "fast", "{" + g.expr(1) + "}", "true", "a_b"})
		}
		if g.rnd.Intn(3) == 0 {
			// words that look like pieces of numbers, names and operators
			for k := 1 + g.rnd.Intn(3); k > 0; k-- {
				c += " " + g.pick([]string{"-", "--", "-5", "-x", "5.", ".5", "-.5", "1.2.3", "+", "+1", "1e5", "0x1F", "-{1 + 2}", "{$x}-", "a.b",
					"5-", "_", "1_000", "é", "00", "-0", "..", "=", "==", "!", "*", "%", ",", "(", ")", "()", "\"q\"", "'", ":", "a:b", "@", "&", "|", "~", "?"})
			}
		}
		// (a hashtag after a command is a syntax error in this grammar: the line break
		// that follows it arrives on the default channel)
		g.emit(level, "<<"+c+">>")
	case r < 66:
		if level == 0 {
			g.sb.WriteString(g.nl) // blank line between top-level statements
		}
		g.emit(level, "// a comment line")
	case r < 82: // if chain
		in := g.rnd.Intn(2) // bodies indented or not
		g.emit(level, "<<if "+g.expr(2)+">>")
		g.stmts(level+in, depth+1, g.rnd.Intn(3))
		for k := g.rnd.Intn(3); k > 0; k-- {
			g.emit(level, "<<elseif "+g.expr(1)+">>")
			g.stmts(level+in, depth+1, g.rnd.Intn(3))
		}
		if g.rnd.Intn(2) == 0 {
			g.emit(level, "<<else>>")
			g.stmts(level+in, depth+1, g.rnd.Intn(3))
		}
		g.emit(level, "<<endif>>")
	default: // option group
		for k := 1 + g.rnd.Intn(3); k > 0; k-- {
			g.emit(level, "-> "+g.text()+g.lineTail())
			if g.rnd.Intn(4) > 0 {
				g.stmts(level+1, depth+1, 1+g.rnd.Intn(3))
			}
		}
	}
}

// genValidScript renders a script meant to be syntactically valid (the oracle decides);
// every node starts with a line, so a jump cycle always yields.
func genValidScript(rnd *rand.Rand) string {
	g := &yarnGen{rnd: rnd, nl: "\n"}
	switch rnd.Intn(10) {
	case 0:
		g.nl = "\r\n"
	}
	switch rnd.Intn(5) {
	case 0:
		g.unit = "\t"
	default:
		g.unit = strings.Repeat(" ", 1+rnd.Intn(4))
	}
	g.nodes = 1 + rnd.Intn(4)
	g.ragged = rnd.Intn(3) == 0
	if rnd.Intn(10) == 0 {
		g.sb.WriteString("#file_tag" + g.nl)
	}
	for n := 0; n < g.nodes; n++ {
		if rnd.Intn(6) == 0 {
			g.sb.WriteString("// node comment" + g.nl)
		}
		g.sb.WriteString(fmt.Sprintf("title: N%d%s", n, g.nl))
		switch rnd.Intn(6) {
		case 0:
			g.sb.WriteString("tags: a b" + g.nl)
		case 1:
			g.sb.WriteString("tracking: always" + g.nl)
		case 2:
			g.sb.WriteString("position: 10,20" + g.nl + "empty:" + g.nl)
		}
		g.sb.WriteString("---" + g.nl)
		g.prevCol = 0
		g.emit(0, g.text())
		g.stmts(0, 0, rnd.Intn(7))
		if g.prevCol >= len(g.unit) {
			g.sb.WriteString(g.raggedPad(0))
		}
		g.sb.WriteString("===")
		if n < g.nodes-1 || rnd.Intn(4) > 0 {
			g.sb.WriteString(g.nl)
		}
		if rnd.Intn(8) == 0 {
			g.sb.WriteString(g.nl)
		}
	}
	return g.sb.String()
}

// ----------------------------------------------------------------- mutations

var lgTokenRe = regexp.MustCompile(`<<|>>|->|===|---|//|\r?\n[ \t]*|[ \t]+|[A-Za-z_$][A-Za-z0-9_]*|[0-9]+(?:\.[0-9]+)?|"[^"\n]*"|(?s:.)`)

var lgTokenPool = []string{"<<", ">>", "->", "{", "}", "#", "===", "---", ":", "\"", "(", ")", "$", "\\", "endif", "else", "if ", "elseif ", "null",
	"\n", "\n\t", "\n  ", "\n \t", "<<endif>>", "<<else>>", "<<if true>>", "set ", "jump ", "declare ", "=", "to", ",", "//", "\r", "[", "]", "<", ">", "/"}

func splitLinesKeep(s string) []string {
	var res []string
	for len(s) > 0 {
		i := strings.IndexByte(s, '\n')
		if i < 0 {
			res = append(res, s)
			break
		}
		res = append(res, s[:i+1])
		s = s[i+1:]
	}
	return res
}

// mutateTokens applies 1-3 token- or line-level edits.
func mutateTokens(rnd *rand.Rand, src string) (string, string) {
	s := src
	var names []string
	for k := 1 + rnd.Intn(3); k > 0; k-- {
		var name string
		s, name = mutateOnce(rnd, s)
		names = append(names, name)
	}
	return s, strings.Join(names, "+")
}

func mutateOnce(rnd *rand.Rand, s string) (string, string) {
	toks := lgTokenRe.FindAllString(s, -1)
	lines := splitLinesKeep(s)
	if len(toks) == 0 || len(lines) == 0 {
		return s + lgTokenPool[rnd.Intn(len(lgTokenPool))], "tok-insert"
	}
	join := func(t []string) string { return strings.Join(t, "") }
	ti := rnd.Intn(len(toks))
	li := rnd.Intn(len(lines))
	findLines := func(sub string) []int {
		var idx []int
		for i, l := range lines {
			if strings.Contains(l, sub) {
				idx = append(idx, i)
			}
		}
		return idx
	}
	dropLine := func(i int) string {
		return join(append(append([]string{}, lines[:i]...), lines[i+1:]...))
	}
	insertLine := func(i int, l string) string {
		out := append([]string{}, lines[:i]...)
		out = append(out, l)
		return join(append(out, lines[i:]...))
	}
	switch rnd.Intn(18) {
	case 0:
		return join(append(append([]string{}, toks[:ti]...), toks[ti+1:]...)), "tok-delete"
	case 1:
		out := append([]string{}, toks[:ti+1]...)
		out = append(out, toks[ti])
		return join(append(out, toks[ti+1:]...)), "tok-duplicate"
	case 2:
		tj := rnd.Intn(len(toks))
		if rnd.Intn(2) == 0 && ti+1 < len(toks) {
			tj = ti + 1
		}
		out := append([]string{}, toks...)
		out[ti], out[tj] = out[tj], out[ti]
		return join(out), "tok-swap"
	case 3:
		out := append([]string{}, toks...)
		out[ti] = lgTokenPool[rnd.Intn(len(lgTokenPool))]
		return join(out), "tok-replace"
	case 4:
		out := append([]string{}, toks[:ti]...)
		out = append(out, lgTokenPool[rnd.Intn(len(lgTokenPool))])
		return join(append(out, toks[ti:]...)), "tok-insert"
	case 5:
		return dropLine(li), "line-delete"
	case 6:
		return insertLine(li, lines[li]), "line-duplicate"
	case 7:
		lj := rnd.Intn(len(lines))
		out := append([]string{}, lines...)
		out[li], out[lj] = out[lj], out[li]
		return join(out), "line-swap"
	case 8: // unbalance if/endif
		if idx := findLines("<<endif>>"); len(idx) > 0 && rnd.Intn(2) == 0 {
			return dropLine(idx[rnd.Intn(len(idx))]), "endif-removed"
		}
		if idx := findLines("<<if "); len(idx) > 0 && rnd.Intn(2) == 0 {
			return dropLine(idx[rnd.Intn(len(idx))]), "if-removed"
		}
		return insertLine(li, []string{"<<endif>>\n", "<<else>>\n", "<<if true>>\n", "<<elseif false>>\n"}[rnd.Intn(4)]), "if-part-inserted"
	case 9: // break indentation: more
		return join(append(append(append([]string{}, lines[:li]...), strings.Repeat(" ", 1+rnd.Intn(6))+lines[li]), lines[li+1:]...)), "indent-more"
	case 10: // break indentation: none
		out := append([]string{}, lines...)
		out[li] = strings.TrimLeft(out[li], " \t")
		return join(out), "indent-removed"
	case 11: // mix tabs and spaces in front of a line
		out := append([]string{}, lines...)
		body := strings.TrimLeft(out[li], " \t")
		out[li] = []string{"\t ", " \t", "  \t", "\t\t "}[rnd.Intn(4)] + body
		return join(out), "indent-mixed"
	case 12: // a whitespace-only line with tabs and spaces
		return insertLine(li, " \t\n"), "blank-mixed-line"
	case 13: // truncate at a token boundary
		return join(toks[:ti]), "truncate"
	case 14: // drop a structural line
		for _, sub := range []string{"===", "---", "title:"}[rnd.Intn(3):] {
			if idx := findLines(sub); len(idx) > 0 {
				return dropLine(idx[rnd.Intn(len(idx))]), "structure-removed"
			}
		}
		return dropLine(li), "line-delete"
	case 15: // tabs for spaces in one line's indentation
		out := append([]string{}, lines...)
		trimmed := strings.TrimLeft(out[li], " ")
		out[li] = strings.Repeat("\t", (len(out[li])-len(trimmed)+1)/2) + trimmed
		return join(out), "indent-tabs"
	case 16:
		return string(mutateBytes(rnd, []byte(s))), "bytes"
	default: // cut inside a token
		p := rnd.Intn(len(s) + 1)
		return s[:p], "truncate-bytes"
	}
}

// ------------------------------------------------------------------- readers

// splitAtNodes cuts after `===` lines into k readers (fewer if there are not enough nodes).
func splitAtNodes(rnd *rand.Rand, s string, k int) []string {
	var cuts []int
	off := 0
	for _, l := range splitLinesKeep(s) {
		off += len(l)
		if strings.HasPrefix(strings.TrimLeft(l, " \t"), "===") && off < len(s) {
			cuts = append(cuts, off)
		}
	}
	rnd.Shuffle(len(cuts), func(i, j int) { cuts[i], cuts[j] = cuts[j], cuts[i] })
	if len(cuts) > k-1 {
		cuts = cuts[:k-1]
	}
	sort.Ints(cuts)
	return cutAt(s, cuts)
}

func splitAtBytes(rnd *rand.Rand, s string, k int) []string {
	var cuts []int
	for i := 0; i < k-1; i++ {
		cuts = append(cuts, rnd.Intn(len(s)+1))
	}
	sort.Ints(cuts)
	return cutAt(s, cuts)
}

func cutAt(s string, cuts []int) []string {
	var res []string
	prev := 0
	for _, c := range cuts {
		res = append(res, s[prev:c])
		prev = c
	}
	return append(res, s[prev:])
}

func withEmptyReaders(rnd *rand.Rand, rs []string) []string {
	for k := 1 + rnd.Intn(2); k > 0 && len(rs) < 4; k-- {
		p := rnd.Intn(len(rs) + 1)
		out := append([]string{}, rs[:p]...)
		out = append(out, []string{"", "", "\n", "  ", "// only a comment\n"}[rnd.Intn(5)])
		rs = append(out, rs[p:]...)
	}
	return rs
}

// --------------------------------------------------------------------- seeds

func genSeed(rnd *rand.Rand) string {
	const valid = "0123456789abcdefghijklmnopqrstuvwxyz"
	word := func(n int) string {
		b := make([]byte, n)
		for i := range b {
			b[i] = valid[rnd.Intn(len(valid))]
		}
		return string(b)
	}
	switch r := rnd.Intn(100); {
	case r < 45:
		return ""
	case r < 72:
		return word(1 + rnd.Intn(12))
	case r < 76:
		return word(200 + rnd.Intn(3000)) // overflows the int64 accumulator; still over [0-9a-z]
	case r < 80:
		return []string{"0", "z", "000", "zzzzzzzzzzzzz", "1y2p0ij32e8e7"}[rnd.Intn(5)]
	default:
		bad := []string{"ABC", "Seed", "a-b", "se ed", " ", "abc!", "é", "日本", "\xff", "\x00", "a\nb", "-1", "0x1f", "a_b", "{}", "\t",
			word(5) + "Z", "Z" + word(5), word(2000) + "!", strings.Repeat("\xff\xfe", 500), "\U0001F600"}
		return bad[rnd.Intn(len(bad))]
	}
}

// ------------------------------------------------- decision table (spec -> code)

// concrete reader contents for each abstract kind of MC_Loader.tla
var tableSnippets = map[string][]string{
	"V1": {"title: A\n---\nHello\n===\n", "title: Start\ntags: x\n---\n-> a\n    b\n-> c\n<<set $x to 1>>\n===", "title: A\n---\n===\n"},
	"V2": {"title: A\n---\nHello\n===\ntitle: B\n---\n<<jump A>>\n===\n", "title: A\n---\n<<if true>>\n  x\n<<endif>>\n===\n\ntitle: B\n---\ny {1 + 2} #t\n===\n"},
	"SE": {"hello", "title: A\n---\n<<if true>>\nx\n===\n", "title: A\n---\n<<set $x to>>\n===\n", "title: A\n---\nx {1 +} y\n===\n", "title: A\nHello\n===\n",
		"title: A\n---\nHello\n", "title: A\n---\n<<endif>>\n===\n", "title: A\n---\n-> \n===\n", "title: A\n---\n<<jump >>\n===\n", "-> option\n", "<<set $x to 1>>\n",
		"title: A\n---\n{$x +* 2}\n===\n", "title: A\n---\n<<set $x ++ 1>>\n===\n", "===\n", "---\n===\n", "title: A\n---\n\\q\n===\n"},
	"MX": {"title: A\n---\n-> o\n \tx\n===\n", "title: A\n---\n-> o\n\t x\n===\n", "title: A\n---\nx\n \ty\n===\n", "title: A\n \t---\nx\n===\n"},
	"MS": {"title: A\n---\nx\n \t\ny\n===\n", "title: A\n---\nx\n===\n\t \n", "title: A\n---\nx\n \t// c\ny\n===\n"},
	"EM": {"", "\n", "   ", "\n\n  \n", "// just a comment\n", "\t\n"},
	"TR": {"title: A\n---\nx\n===\n---\n", "title: A\n---\nx\n===\n: rest", "title: A\n---\nx\n===\n#tag\n", "title: A\n---\nx\n===\n---\nmore\n===\n"},
}

var tableSeeds = map[string][]string{
	"empty":   {""},
	"valid":   {"abc", "0", "seed42", "zzzzzzzzzzzzzzzzzzzzzzzzzz"},
	"invalid": {"ABC", "a b", "é", "x!", "\xff"},
}

type tableRow struct {
	Kinds []string `json:"kinds"`
	Seed  string   `json:"seed"`
}

// --------------------------------------------------------------------- corpus

func hexAll(rs []string) []string {
	out := make([]string, len(rs))
	for i, r := range rs {
		out[i] = hex.EncodeToString([]byte(r))
	}
	return out
}

func loaderCorpus(m map[string]string) error {
	n := argInt(m, "n", 1000)
	w, err := newNDJSON(m["out"])
	if err != nil {
		return err
	}
	rnd := rand.New(rand.NewSource(Seed()*7919 + 5))
	id := 0
	emit := func(kind string, readers []string, seed string, probe bool, intent string) error {
		id++
		if readers == nil {
			readers = []string{}
		}
		return w.Write(loadInput{ID: id, Kind: kind, Readers: hexAll(readers), Seed: hex.EncodeToString([]byte(seed)), Probe: probe, Intent: intent})
	}

	// decision-table rows enumerated by TLC (spec -> code)
	if tp := m["table"]; tp != "" {
		rows, err := readNDJSON(tp)
		if err != nil {
			return err
		}
		for _, raw := range rows {
			var row tableRow
			if err := json.Unmarshal(raw, &row); err != nil {
				return err
			}
			var rs []string
			skip := false
			for _, k := range row.Kinds {
				sn, ok := tableSnippets[k]
				if !ok {
					skip = true // kind "UN" (facts unknown) has no concrete content
					break
				}
				rs = append(rs, sn[rnd.Intn(len(sn))])
			}
			if skip {
				continue
			}
			seeds := tableSeeds[row.Seed]
			if err := emit("table", rs, seeds[rnd.Intn(len(seeds))], false, strings.Join(row.Kinds, ",")+"|"+row.Seed); err != nil {
				return err
			}
		}
	}

	// fixtures
	var fixtures []string
	for _, dir := range strings.Split(m["testdata"], ",") {
		if dir == "" {
			continue
		}
		files, _ := filepath.Glob(filepath.Join(dir, "*.yarn"))
		sort.Strings(files)
		for _, f := range files {
			if b, err := os.ReadFile(f); err == nil {
				fixtures = append(fixtures, string(b))
			}
		}
	}
	for _, fx := range fixtures {
		if err := emit("fixture", []string{fx}, "", true, ""); err != nil {
			return err
		}
		if err := emit("fixture", []string{fx}, genSeed(rnd), true, ""); err != nil {
			return err
		}
		for k := 2; k <= 4; k++ {
			if err := emit("fixture-split-nodes", splitAtNodes(rnd, fx, k), genSeed(rnd), true, ""); err != nil {
				return err
			}
		}
	}

	// degenerate inputs
	for _, seed := range []string{"", "abc", "ABC"} {
		if err := emit("no-readers", nil, seed, false, ""); err != nil {
			return err
		}
		for _, rs := range [][]string{{""}, {"", ""}, {"", "", "", ""}, {" "}, {"\n"}, {"\t"}, {" \t "}, {"\r\n\r\n"}, {"\n\n\n   \n"}, {"  ", "\n"},
			{"hello"}, {"hello\n"}, {"hello\nworld\n"}, {"-> a\n-> b\n"}, {"<<set $x to 1>>"}, {"// comment only"}, {"#tag"}, {"#tag\n"},
			{"title: A"}, {"title: A\n"}, {"title: A\n---"}, {"title: A\n---\n"}, {"title: A\n---\nhello"}, {"title: A\n---\nhello\n"},
			{"---"}, {"==="}, {"---\n===\n"}, {"title"}, {":"}, {"\x00"}, {"\xff\xfe"}, {"\xef\xbb\xbftitle: A\n---\nx\n===\n"},
			{"title: A\n---\nx\n===\n", ""}, {"", "title: A\n---\nx\n===\n"}, {"title: A\n---\nx\n", "===\n"}, {"title: A\n", "---\nx\n===\n"}} {
			if err := emit("degenerate", rs, seed, false, ""); err != nil {
				return err
			}
		}
	}

	readersFor := func(s string) ([]string, string) {
		switch r := rnd.Intn(10); {
		case r < 5:
			return []string{s}, "one"
		case r < 7:
			return splitAtNodes(rnd, s, 2+rnd.Intn(3)), "nodes"
		case r < 9:
			return splitAtBytes(rnd, s, 2+rnd.Intn(3)), "bytes"
		default:
			return withEmptyReaders(rnd, splitAtNodes(rnd, s, 1+rnd.Intn(3))), "nodes+empty"
		}
	}

	for i := 0; i < n; i++ {
		var err error
		switch r := i % 20; {
		case r < 4:
			s := genValidScript(rnd)
			rs, how := readersFor(s)
			err = emit("gen-valid/"+how, rs, genSeed(rnd), how != "bytes", "")
		case r < 9:
			s, mut := mutateTokens(rnd, genValidScript(rnd))
			rs, how := readersFor(s)
			err = emit("gen-mutated/"+how, rs, genSeed(rnd), false, mut)
		case r < 13 && len(fixtures) > 0:
			s, mut := mutateTokens(rnd, fixtures[rnd.Intn(len(fixtures))])
			rs, how := readersFor(s)
			err = emit("fixture-mutated/"+how, rs, genSeed(rnd), false, mut)
		case r < 15:
			b := make([]byte, rnd.Intn(160))
			alphabet := []byte(" \t\n\r-><{}#=/:abc$\"\\()titleif")
			pure := rnd.Intn(3) == 0
			for k := range b {
				if pure || rnd.Intn(5) == 0 {
					b[k] = byte(rnd.Intn(256))
				} else {
					b[k] = alphabet[rnd.Intn(len(alphabet))]
				}
			}
			rs, how := readersFor(string(b))
			err = emit("bytes/"+how, rs, genSeed(rnd), false, "")
		case r < 16 && len(fixtures) > 0:
			fx := fixtures[rnd.Intn(len(fixtures))]
			if rnd.Intn(2) == 0 {
				err = emit("fixture-split-bytes", splitAtBytes(rnd, fx, 2+rnd.Intn(3)), genSeed(rnd), false, "")
			} else {
				err = emit("fixture-split-nodes+empty", withEmptyReaders(rnd, splitAtNodes(rnd, fx, 1+rnd.Intn(3))), genSeed(rnd), true, "")
			}
		case r < 17: // tabs and spaces mixed in an otherwise valid script
			s := genValidScript(rnd)
			lines := splitLinesKeep(s)
			li := rnd.Intn(len(lines))
			mut := "indent-mixed"
			if rnd.Intn(3) == 0 {
				lines = append(append(append([]string{}, lines[:li]...), []string{" \t\n", "\t \n", " \t// c\n"}[rnd.Intn(3)]), lines[li:]...)
				mut = "blank-mixed-line"
			} else if cands := sameWidthMixCandidates(lines); len(cands) > 0 && rnd.Intn(2) == 0 {
				// a mixed indentation of exactly the SAME width as the consistent one it replaces (a tab
				// counts as 8), e.g. on a line that merely continues an open block
				li = cands[rnd.Intn(len(cands))]
				lines[li] = sameWidthMix(lines[li])
			} else {
				lines[li] = []string{"\t ", " \t", "    \t", "\t    "}[rnd.Intn(4)] + strings.TrimLeft(lines[li], " \t")
			}
			rs, how := readersFor(strings.Join(lines, ""))
			err = emit("gen-mixed/"+how, rs, genSeed(rnd), false, mut)
		case r < 18: // text without any node, blank input
			var sb strings.Builder
			for k := rnd.Intn(5); k > 0; k-- {
				sb.WriteString([]string{"hello\n", "-> opt\n", "    body\n", "<<set $x to 1>>\n", "// c\n", "\n", "   \n", "#tag\n", "<<if true>>\n", "<<endif>>\n", "{1}\n", "\t\n"}[rnd.Intn(12)])
			}
			rs, how := readersFor(sb.String())
			err = emit("no-node/"+how, rs, genSeed(rnd), false, "")
		case r < 19: // valid script with something before or after it
			s := genValidScript(rnd)
			junk := []string{"---\n", ": x\n", "#tag\n", "hello\n", "-> a\n", "===\n", "title: Z\n", "title: Z\n---\n", "}\n", "<<endif>>\n", "\x00", "---\nmore\n===\n"}[rnd.Intn(12)]
			mut := "junk-after"
			if !strings.HasSuffix(s, "\n") {
				s += "\n"
			}
			if rnd.Intn(3) == 0 {
				s, mut = junk+s, "junk-before"
			} else {
				s += junk
			}
			rs, how := readersFor(s)
			err = emit("gen-junk/"+how, rs, genSeed(rnd), false, mut)
		default:
			s := string(mutateBytes(rnd, []byte(genValidScript(rnd))))
			rs, how := readersFor(s)
			err = emit("gen-mutated-bytes/"+how, rs, genSeed(rnd), false, "bytes")
		}
		if err != nil {
			return err
		}
	}
	return w.Close()
}

// indentWidth returns the leading whitespace of a line and its width (a tab counts as 8).
func indentWidth(line string) (ws string, width int) {
	body := strings.TrimLeft(line, " \t")
	ws = line[:len(line)-len(body)]
	for _, c := range ws {
		if c == '\t' {
			width += 8
		} else {
			width++
		}
	}
	return ws, width
}

// sameWidthMixCandidates: content lines indented consistently (only tabs or only spaces) by more
// than 8 columns, so that an equally wide indentation mixing tabs and spaces exists.
func sameWidthMixCandidates(lines []string) []int {
	var res []int
	for i, l := range lines {
		ws, w := indentWidth(l)
		if strings.TrimSpace(l) == "" || strings.HasPrefix(strings.TrimSpace(l), "//") {
			continue
		}
		if w > 8 && (strings.Count(ws, "\t") == 0 || strings.Count(ws, " ") == 0) {
			res = append(res, i)
		}
	}
	return res
}

func sameWidthMix(line string) string {
	ws, w := indentWidth(line)
	body := line[len(ws):]
	if strings.Contains(ws, "\t") { // k tabs, k >= 2: k-1 tabs and 8 spaces
		return strings.Repeat("\t", w/8-1) + strings.Repeat(" ", 8) + body
	}
	return "\t" + strings.Repeat(" ", w-8) + body // w > 8 spaces: one tab and the rest
}
