package verifharness

import (
	"encoding/json"
	"fmt"
	"io"
	"strings"

	"github.com/remieven/ysgo/internal/tree"
	"github.com/remieven/ysgo/variable"
)

// Conversion of the real parser's output (internal/tree.Dialogue) into the case
// schema, and a canonical nested form in which two programs are equal iff their
// JSON is equal (used to bind the listener's callback stacks and the INDENT/DEDENT
// nesting to the generator's AST, and for layout invariance, property C08).

var binOpNames = map[int]string{
	tree.MultiplicationBinaryOperator: "mul", tree.DivisionBinaryOperator: "div", tree.ModuloBinaryOperator: "mod",
	tree.AdditionBinaryOperator: "add", tree.SubtractionBinaryOperator: "sub",
	tree.LessThanEqualsBinaryOperator: "le", tree.GreaterThanEqualsBinaryOperator: "ge",
	tree.LessBinaryOperator: "lt", tree.GreaterBinaryOperator: "gt",
	tree.EqualsBinaryOperator: "eq", tree.NotEqualsBinaryOperator: "ne",
	tree.AndBinaryOperator: "and", tree.OrBinaryOperator: "or", tree.XorBinaryOperator: "xor",
}

var inPlaceNames = map[int]string{
	tree.AssignmentInPlaceOperator: "=", tree.MultiplicationInPlaceOperator: "*=", tree.DivisionInPlaceOperator: "/=",
	tree.ModuloInPlaceOperator: "%=", tree.AdditionInPlaceOperator: "+=", tree.SubtractionInPlaceOperator: "-=",
}

func exprOfValue(v *variable.Value) *Expr {
	switch {
	case v == nil:
		return &Expr{K: "null", Bad: "nil value"}
	case v.Number != nil:
		x := valOfFloat(*v.Number)
		if x.T != "n" {
			return &Expr{K: "num", Bad: "number outside the window: " + x.S}
		}
		return eNum(x.N, x.D)
	case v.Boolean != nil:
		return eBool(*v.Boolean)
	case v.String != nil:
		if !isASCII(*v.String) {
			return &Expr{K: "str", S: "?", Bad: "non-ascii string"}
		}
		return eStr(*v.String)
	}
	return eNull()
}

func exprOfTree(e *tree.Expression) *Expr {
	switch {
	case e == nil:
		return &Expr{K: "null", Bad: "nil expression"}
	case e.VariableID != nil:
		return eVar(*e.VariableID)
	case e.FunctionCall != nil:
		return callOfTree(e.FunctionCall)
	case e.Value != nil:
		return exprOfValue(e.Value)
	case e.NegativeExpression != nil:
		return eNeg(exprOfTree(e.NegativeExpression))
	case e.NotExpression != nil:
		return eNot(exprOfTree(e.NotExpression))
	case e.Operator != nil:
		name, ok := binOpNames[*e.Operator]
		if !ok {
			return &Expr{K: "bin", Op: "?", L: eNull(), R: eNull(), Bad: "unknown operator"}
		}
		return eBin(name, exprOfTree(e.LeftOperand), exprOfTree(e.RightOperand))
	}
	return eNull() // an expression without any content: the null literal
}

func callOfTree(fc *tree.FunctionCall) *Expr {
	args := make([]*Expr, len(fc.Arguments))
	for i, a := range fc.Arguments {
		args[i] = exprOfTree(a)
	}
	return &Expr{K: "call", S: fc.FunctionID, Args: args}
}

func partsOfTree(t *tree.LineFormattedText) []Part {
	if t == nil {
		return []Part{}
	}
	parts := make([]Part, 0, len(t.Elements))
	for _, el := range t.Elements {
		if el.Expression != nil {
			parts = append(parts, Part{E: exprOfTree(el.Expression)})
		} else {
			parts = append(parts, Part{Lit: el.Text})
		}
	}
	return parts
}

type astConv struct {
	c   *Case
	bad []string
}

func (a *astConv) stmts(ss []*tree.Statement) int {
	if len(ss) == 0 {
		return 0
	}
	// reserve the id first so that numbering is pre-order
	a.c.Bodies = append(a.c.Bodies, nil)
	id := len(a.c.Bodies)
	out := make([]Stmt, 0, len(ss))
	for _, s := range ss {
		out = append(out, a.stmt(s))
	}
	a.c.Bodies[id-1] = out
	return id
}

func (a *astConv) stmt(s *tree.Statement) Stmt {
	switch {
	case s.LineStatement != nil:
		ls := s.LineStatement
		st := Stmt{K: "line", Text: partsOfTree(ls.Text), Tags: ls.Tags}
		if ls.Condition != nil {
			st.Cond = exprOfTree(ls.Condition)
		}
		return st
	case s.ShortcutOptionStatement != nil:
		st := Stmt{K: "opts"}
		for _, o := range s.ShortcutOptionStatement.Options {
			opt := Option{}
			if o.LineStatement != nil {
				opt.Text = partsOfTree(o.LineStatement.Text)
				opt.Tags = o.LineStatement.Tags
				if o.LineStatement.Condition != nil {
					opt.Cond = exprOfTree(o.LineStatement.Condition)
				}
			} else {
				a.bad = append(a.bad, "option without line")
				opt.Text = []Part{}
			}
			opt.Body = a.stmts(o.Statements)
			st.Opts = append(st.Opts, opt)
		}
		return st
	case s.SetStatement != nil:
		return Stmt{K: "set", Var: s.SetStatement.VariableID, Op: inPlaceNames[s.SetStatement.InPlaceOperator],
			E: exprOfTree(s.SetStatement.Expression)}
	case s.DeclareStatement != nil:
		return Stmt{K: "set", Var: s.DeclareStatement.VariableID, Op: "=", Decl: true, E: exprOfTree(s.DeclareStatement.Value)}
	case s.JumpStatement != nil:
		return Stmt{K: "jump", E: exprOfTree(s.JumpStatement.Expression)}
	case s.IfStatement != nil:
		st := Stmt{K: "if"}
		for _, c := range s.IfStatement.Clauses {
			st.Clauses = append(st.Clauses, Clause{Cond: exprOfTree(c.Condition), Body: a.stmts(c.Statements)})
		}
		return st
	case s.CommandStatement != nil:
		st := Stmt{K: "cmd"}
		for _, el := range s.CommandStatement.Elements {
			st.Elems = append(st.Elems, exprOfTree(el.Expression))
		}
		return st
	case s.CallStatement != nil:
		if s.CallStatement.FunctionCall == nil {
			a.bad = append(a.bad, "call statement without call")
			return Stmt{K: "call", E: eNull()}
		}
		return Stmt{K: "call", E: callOfTree(s.CallStatement.FunctionCall)}
	}
	a.bad = append(a.bad, "empty statement")
	return Stmt{K: "line", Text: []Part{}}
}

// caseOfDialogue converts a parsed dialogue; problems (things the schema cannot
// express) are returned as strings.
func caseOfDialogue(d *tree.Dialogue) (*Case, []string) {
	a := &astConv{c: &Case{Funcs: defaultFuncs(), Cmds: defaultCmds()}}
	for _, n := range d.Nodes {
		node := Node{Title: n.Title(), Tracking: n.Headers["tracking"]}
		node.Body = a.stmts(n.Statements)
		a.c.Nodes = append(a.c.Nodes, node)
	}
	a.c.Vars = collectVars(a.c)
	return a.c, a.bad
}

func parseTexts(texts []string) (d *tree.Dialogue, err error) {
	defer func() {
		if r := recover(); r != nil {
			err = fmt.Errorf("panic while parsing: %v", r)
		}
	}()
	readers := make([]io.Reader, len(texts))
	for i, t := range texts {
		readers[i] = strings.NewReader(t)
	}
	return tree.FromReaders(readers...)
}

// ------------------------------------------------------------ canonical form

func normParts(parts []Part) []any {
	var merged []Part
	for _, p := range parts {
		if p.E == nil {
			p = Part{Lit: p.source()} // the parsed tree holds the literal as written (markup included)
			if p.Lit == "" {
				continue
			}
			if n := len(merged); n > 0 && merged[n-1].E == nil {
				merged[n-1].Lit += p.Lit
				continue
			}
		}
		merged = append(merged, p)
	}
	if len(merged) > 0 && merged[0].E == nil {
		merged[0].Lit = strings.TrimLeft(merged[0].Lit, " \t")
		if merged[0].Lit == "" {
			merged = merged[1:]
		}
	}
	if n := len(merged); n > 0 && merged[n-1].E == nil {
		merged[n-1].Lit = strings.TrimRight(merged[n-1].Lit, " \t")
		if merged[n-1].Lit == "" {
			merged = merged[:n-1]
		}
	}
	res := make([]any, 0, len(merged))
	for _, p := range merged {
		res = append(res, p)
	}
	return res
}

func (c *Case) nestedBody(id int) []any {
	res := []any{}
	for _, s := range c.body(id) {
		switch s.K {
		case "line":
			m := map[string]any{"k": "line", "text": normParts(s.Text), "tags": nonNilTags(s.Tags)}
			if s.Cond != nil {
				m["cond"] = s.Cond
			}
			res = append(res, m)
		case "opts":
			var opts []any
			for _, o := range s.Opts {
				cond := o.Cond
				if cond == nil {
					cond = eNone()
				}
				opts = append(opts, map[string]any{"text": normParts(o.Text), "cond": cond, "tags": nonNilTags(o.Tags),
					"body": c.nestedBody(o.Body)})
			}
			res = append(res, map[string]any{"k": "opts", "opts": opts})
		case "if":
			var cl []any
			for _, x := range s.Clauses {
				cl = append(cl, map[string]any{"cond": x.Cond, "body": c.nestedBody(x.Body)})
			}
			res = append(res, map[string]any{"k": "if", "clauses": cl})
		default:
			res = append(res, s)
		}
	}
	return res
}

// canonical returns the canonical nested JSON of the program part of a case.
func (c *Case) canonical() string {
	var nodes []any
	for _, n := range c.Nodes {
		nodes = append(nodes, map[string]any{"title": n.Title, "tracking": n.Tracking, "body": c.nestedBody(n.Body)})
	}
	b, _ := json.Marshal(nodes)
	return string(b)
}

func collectVarsExpr(e *Expr, seen map[string]bool, out *[]string) {
	if e == nil {
		return
	}
	if e.K == "var" && !seen[e.S] {
		seen[e.S] = true
		*out = append(*out, e.S)
	}
	collectVarsExpr(e.A, seen, out)
	collectVarsExpr(e.L, seen, out)
	collectVarsExpr(e.R, seen, out)
	for _, a := range e.Args {
		collectVarsExpr(a, seen, out)
	}
}

func collectVars(c *Case) []string {
	seen := map[string]bool{}
	out := []string{}
	for _, b := range c.Bodies {
		for _, s := range b {
			if s.K == "set" && !seen[s.Var] {
				seen[s.Var] = true
				out = append(out, s.Var)
			}
			collectVarsExpr(s.E, seen, &out)
			collectVarsExpr(s.Cond, seen, &out)
			for _, p := range s.Text {
				collectVarsExpr(p.E, seen, &out)
			}
			for _, o := range s.Opts {
				collectVarsExpr(o.Cond, seen, &out)
				for _, p := range o.Text {
					collectVarsExpr(p.E, seen, &out)
				}
			}
			for _, cl := range s.Clauses {
				collectVarsExpr(cl.Cond, seen, &out)
			}
			for _, e := range s.Elems {
				collectVarsExpr(e, seen, &out)
			}
		}
	}
	return out
}
