package verifharness

import (
	"encoding/json"
	"fmt"
	"math"
	"math/rand"
	"strconv"
)

// builtinsRecord: verifh builtins record --n N --out trace.ndjson [--cases cases.ndjson] [--in cases.ndjson]
func builtinsRecord(m map[string]string) error {
	var cases []*builtinCase
	if m["in"] != "" {
		lines, err := readNDJSON(m["in"])
		if err != nil {
			return err
		}
		for _, raw := range lines {
			c := &builtinCase{}
			if err := json.Unmarshal(raw, c); err != nil {
				return err
			}
			if c.XBits != "" {
				bits, err := strconv.ParseUint(c.XBits, 16, 64)
				if err != nil {
					return fmt.Errorf("builtins: bad xbits %q", c.XBits)
				}
				c.X = math.Float64frombits(bits)
			}
			cases = append(cases, c)
		}
	} else {
		rnd := rand.New(rand.NewSource(Seed()*97 + 19))
		cases = genBuiltinCases(rnd, argInt(m, "n", 20000))
	}
	w, err := newNDJSON(m["out"])
	if err != nil {
		return err
	}
	var wc *ndjsonWriter
	if m["cases"] != "" {
		if wc, err = newNDJSON(m["cases"]); err != nil {
			return err
		}
	}
	forms := map[string]*builtinForm{}
	counts := map[string]int{}
	nontrivial := map[string]bool{} // distinct (built-in, argument) pairs with a non-integral numeric argument
	for i, c := range cases {
		ev, err := runBuiltinCase(forms, c, i+1)
		if err != nil {
			return err
		}
		counts[ev.Ev]++
		counts["res_"+ev.Res.T]++
		if ev.X != nil && ev.X.F != 0 {
			nontrivial[fmt.Sprintf("%s/%d/%016x", c.F, c.N, math.Float64bits(c.X))] = true
		}
		if err := w.Write(ev); err != nil {
			return err
		}
		if wc != nil {
			c.XBits = fmt.Sprintf("%016x", math.Float64bits(c.X))
			if err := wc.Write(c); err != nil {
				return err
			}
		}
	}
	if wc != nil {
		if err := wc.Close(); err != nil {
			return err
		}
	}
	counts["nontrivial"] = len(nontrivial)
	b, _ := json.Marshal(counts)
	fmt.Println(string(b))
	return w.Close()
}
