package verifharness

import (
	"errors"
	"fmt"
	"io"
	"math/rand"
	"reflect"
	"sort"
	"strings"

	ysgo "github.com/remieven/ysgo"
	"github.com/remieven/ysgo/variable"
)

// Driving the real library for the core properties: one host environment per
// runner (recording storer, probe functions, command handlers under harness
// control), one observation record per public call.

type callRec struct {
	Name string `json:"name"`
	Args []Val  `json:"args"`
}

type writeRec struct {
	Var string `json:"var"`
	Val Val    `json:"val"`
}

func valOf(v *variable.Value) Val {
	switch {
	case v == nil:
		return Val{T: "u"}
	case v.Number != nil:
		return valOfFloat(*v.Number)
	case v.Boolean != nil:
		return Val{T: "b", B: *v.Boolean}
	case v.String != nil:
		return valOfString(*v.String)
	}
	return Val{T: "u"}
}

func valsOf(vs []*variable.Value) []Val {
	res := make([]Val, len(vs))
	for i, v := range vs {
		res[i] = valOf(v)
	}
	return res
}

// recStorer wraps a Storer and records writes (and counts reads / clears).
type recStorer struct {
	inner  variable.Storer
	writes []writeRec
	reads  int
	clears int
}

func (s *recStorer) GetValue(n string) (*variable.Value, bool) { s.reads++; return s.inner.GetValue(n) }
func (s *recStorer) GetValues() map[string]variable.Value      { return s.inner.GetValues() }
func (s *recStorer) Contains(n string) bool                    { return s.inner.Contains(n) }
func (s *recStorer) SetNumberValue(n string, v float64) {
	s.writes = append(s.writes, writeRec{n, valOfFloat(v)})
	s.inner.SetNumberValue(n, v)
}
func (s *recStorer) SetBooleanValue(n string, v bool) {
	s.writes = append(s.writes, writeRec{n, Val{T: "b", B: v}})
	s.inner.SetBooleanValue(n, v)
}
func (s *recStorer) SetStringValue(n string, v string) {
	s.writes = append(s.writes, writeRec{n, valOfString(v)})
	s.inner.SetStringValue(n, v)
}
func (s *recStorer) Clear() { s.clears++; s.inner.Clear() }

// mapStorer is the harness's own one-map Storer (an independent implementation of
// the interface, so that the runner is exercised against a host-supplied storer
// that is not the library's).
type mapStorer struct{ m map[string]variable.Value }

func newMapStorer() *mapStorer { return &mapStorer{m: map[string]variable.Value{}} }
func (s *mapStorer) GetValue(n string) (*variable.Value, bool) {
	v, ok := s.m[n]
	if !ok {
		return nil, false
	}
	c := v
	return &c, true
}
func (s *mapStorer) GetValues() map[string]variable.Value {
	r := make(map[string]variable.Value, len(s.m))
	for k, v := range s.m {
		r[k] = v
	}
	return r
}
func (s *mapStorer) Contains(n string) bool             { _, ok := s.m[n]; return ok }
func (s *mapStorer) SetNumberValue(n string, v float64) { s.m[n] = *variable.NewNumber(v) }
func (s *mapStorer) SetBooleanValue(n string, v bool)   { s.m[n] = *variable.NewBoolean(v) }
func (s *mapStorer) SetStringValue(n string, v string)  { s.m[n] = *variable.NewString(v) }
func (s *mapStorer) Clear()                             { s.m = map[string]variable.Value{} }

// host is the environment of one runner.
type host struct {
	c       *Case
	dr      *ysgo.DialogueRunner
	storer  variable.Storer // nil when the case uses the library's private default storer
	rec     *recStorer
	fcalls  []callRec
	ccalls  []callRec
	pending chan error // channel of the raw handler that has not completed yet
	// the argument values handed to raw command handlers, kept by the host like a handler that reads
	// its arguments later would: whatever the runner or the storer does afterwards, they stay what they were
	kept []keptCall
}

type keptCall struct {
	name string
	args []*variable.Value
	vals []Val
}

func (h *host) keep(name string, args []*variable.Value) {
	if len(h.kept) >= 64 {
		h.kept = h.kept[1:]
	}
	h.kept = append(h.kept, keptCall{name, args, valsOf(args)})
}

// keptChanged re-reads the kept arguments; an invocation whose arguments are no longer what the handler
// received is reported once, as a pseudo-call in the log of the current step.
func (h *host) keptChanged() []callRec {
	var out []callRec
	rest := h.kept[:0]
	for _, k := range h.kept {
		now := valsOf(k.args)
		if !reflect.DeepEqual(now, k.vals) {
			out = append(out, callRec{"ARGUMENTS-OF-EARLIER-INVOCATION-CHANGED:" + k.name, now})
			continue
		}
		rest = append(rest, k)
	}
	h.kept = rest
	return out
}

type (
	hostMood  string
	hostFlag  bool
	hostCount int
)

var errBoom = errors.New("boom")
var errCmd = errors.New("command failed")

// newHost parses the rendered texts with NewDialogueRunner and registers the
// case's host functions and commands.
func newHost(c *Case, texts []string) (h *host, err error) {
	defer func() {
		if r := recover(); r != nil {
			h, err = nil, fmt.Errorf("panic in NewDialogueRunner: %v", r)
		}
	}()
	h = &host{c: c}
	switch c.Storer {
	case "", "default":
		// library default: nothing to observe except through lines
	case "inmemory":
		h.storer = variable.NewInMemoryStorer()
	case "recording":
		h.rec = &recStorer{inner: variable.NewInMemoryStorer()}
		h.storer = h.rec
	case "map":
		h.rec = &recStorer{inner: newMapStorer()}
		h.storer = h.rec
	default:
		return nil, fmt.Errorf("unknown storer kind %q", c.Storer)
	}
	readers := make([]io.Reader, len(texts))
	for i, t := range texts {
		readers[i] = strings.NewReader(t)
	}
	var dr *ysgo.DialogueRunner
	if h.storer != nil {
		dr, err = ysgo.NewDialogueRunner(h.storer, c.Seed, readers...)
	} else {
		dr, err = ysgo.NewDialogueRunner(nil, c.Seed, readers...)
	}
	if err != nil {
		return nil, err
	}
	h.dr = dr
	for name, kind := range c.Funcs {
		if err := h.registerFunc(name, kind); err != nil {
			return nil, err
		}
	}
	for name, kind := range c.Cmds {
		h.registerCmd(name, kind)
	}
	return h, nil
}

// registerFunc registers (or replaces) the host function `name` with the behaviour class `kind`.
func (h *host) registerFunc(name, kind string) error {
	dr := h.dr
	switch kind {
	case "id":
		dr.AddFunction(name, func(args []*variable.Value) (*variable.Value, error) {
			h.fcalls = append(h.fcalls, callRec{name, valsOf(args)})
			if len(args) != 1 {
				return nil, fmt.Errorf("%s expects exactly one argument", name)
			}
			return args[0], nil
		})
	case "boom":
		dr.AddFunction(name, func(args []*variable.Value) (*variable.Value, error) {
			h.fcalls = append(h.fcalls, callRec{name, valsOf(args)})
			return nil, errBoom
		})
	case "noret":
		dr.AddFunction(name, func(args []*variable.Value) (*variable.Value, error) {
			h.fcalls = append(h.fcalls, callRec{name, valsOf(args)})
			return nil, nil
		})
	case "bump":
		// a host function that WRITES a variable through the storer while the expression that calls it
		// is being evaluated: $x += 1, returns the new value (see EffStore in spec/YarnExpr.tla)
		dr.AddFunction(name, func(args []*variable.Value) (*variable.Value, error) {
			h.fcalls = append(h.fcalls, callRec{name, valsOf(args)})
			if len(args) != 0 {
				return nil, fmt.Errorf("%s takes no argument", name)
			}
			if h.storer == nil {
				return nil, fmt.Errorf("%s needs a host storer", name)
			}
			v, ok := h.storer.GetValue("x")
			if !ok || v.Number == nil {
				return nil, fmt.Errorf("%s: $x is not a number", name)
			}
			n := *v.Number + 1
			h.storer.SetNumberValue("x", n)
			return variable.NewNumber(n), nil
		})
	case "idstr": // converted functions whose parameters are named types
		if err := dr.ConvertAndAddFunction(name, func(m hostMood) string { return string(m) }); err != nil {
			return fmt.Errorf("registration of %s refused: %w", name, err)
		}
	case "idbool":
		if err := dr.ConvertAndAddFunction(name, func(f hostFlag) bool { return bool(f) }); err != nil {
			return fmt.Errorf("registration of %s refused: %w", name, err)
		}
	case "add2": // converted functions of several parameters (a call refused for its second argument leaves nothing behind)
		if err := dr.ConvertAndAddFunction(name, func(a, b hostCount) int { return int(a) + int(b) }); err != nil {
			return fmt.Errorf("registration of %s refused: %w", name, err)
		}
	case "sumv":
		if err := dr.ConvertAndAddFunction(name, func(first hostCount, rest ...hostCount) int {
			n := int(first)
			for _, r := range rest {
				n += int(r)
			}
			return n
		}); err != nil {
			return fmt.Errorf("registration of %s refused: %w", name, err)
		}
	case "idint":
		if err := dr.ConvertAndAddFunction(name, func(n hostCount) int { return int(n) }); err != nil {
			return fmt.Errorf("registration of %s refused: %w", name, err)
		}
	}
	return nil
}

// registerCmd registers (or replaces) the raw command handler `name` of behaviour class `kind`.
func (h *host) registerCmd(name, kind string) {
	dr := h.dr
	switch kind {
	case "done":
		dr.AddCommand(name, func(args []*variable.Value) <-chan error {
			h.ccalls = append(h.ccalls, callRec{name, valsOf(args)})
			h.keep(name, args)
			ch := make(chan error, 1)
			ch <- nil
			return ch
		})
	case "fail":
		dr.AddCommand(name, func(args []*variable.Value) <-chan error {
			h.ccalls = append(h.ccalls, callRec{name, valsOf(args)})
			h.keep(name, args)
			ch := make(chan error, 1)
			ch <- errCmd
			return ch
		})
	case "pend":
		dr.AddCommand(name, func(args []*variable.Value) <-chan error {
			h.ccalls = append(h.ccalls, callRec{name, valsOf(args)})
			h.keep(name, args)
			ch := make(chan error, 1)
			h.pending = ch
			return ch
		})
	}
}

// rebind: AddFunction ("f") / AddCommand ("c") between two calls.
func (h *host) rebind(what, name, kind string) {
	guarded(func() {
		if what == "f" {
			h.registerFunc(name, kind)
		} else {
			h.registerCmd(name, kind)
		}
	})
}

// bystander is another runner alive in the same process while a runner is being observed.
type bystander struct {
	h     *host
	rnd   *rand.Rand
	nopts int
}

func newBystander(c *Case, rnd *rand.Rand) *bystander {
	h, err := newHost(c, renderCase(c, canonicalLayout()))
	if err != nil || h == nil {
		return nil
	}
	return &bystander{h: h, rnd: rand.New(rand.NewSource(rnd.Int63()))}
}

// poke lets the bystander take a step (sometimes).
func (b *bystander) poke() {
	if b == nil || b.rnd.Intn(2) == 0 {
		return
	}
	if b.h.pending != nil {
		b.h.complete(false)
	}
	choice := 0
	if b.nopts > 0 {
		choice = b.rnd.Intn(b.nopts)
	}
	obs := b.h.next(choice)
	b.nopts = 0
	if obs.Out["k"] == "opts" {
		if o, ok := obs.Out["opts"].([]any); ok {
			b.nopts = len(o)
		}
	}
}

// stepObs is what one Next call showed.
type stepObs struct {
	Out    map[string]any `json:"out"`
	Writes []writeRec     `json:"writes"`
	Fcalls []callRec      `json:"fcalls"`
	Ccalls []callRec      `json:"ccalls"`
	Vars   []Val          `json:"vars"`
	Visits []int          `json:"visits"`
	Panic  string         `json:"panic,omitempty"`
}

func textField(s string) string {
	if isASCII(s) {
		return s
	}
	return fmt.Sprintf("<non-ascii %+q>", s)
}

func outOfElement(el *ysgo.DialogueElement, err error) map[string]any {
	switch {
	case err != nil && errors.Is(err, ysgo.ErrWaitingForCommandCompletion):
		return map[string]any{"k": "waiting"}
	case err != nil:
		return map[string]any{"k": "error"}
	case el == nil:
		return map[string]any{"k": "end"}
	case el.Line != nil:
		return map[string]any{"k": "line", "node": el.Node, "text": textField(el.Line.Text), "tags": nonNilTags(el.Line.Tags)}
	default:
		opts := make([]any, 0, len(el.Options))
		for _, o := range el.Options {
			t, tags := "<nil line>", []string{}
			if o.Line != nil {
				t, tags = textField(o.Line.Text), nonNilTags(o.Line.Tags)
			}
			opts = append(opts, map[string]any{"text": t, "dis": o.Disabled, "tags": tags})
		}
		return map[string]any{"k": "opts", "node": el.Node, "opts": opts}
	}
}

// complete reports completion of the pending raw command to the runner's channel.
func (h *host) complete(withErr bool) bool {
	if h.pending == nil {
		return false
	}
	if withErr {
		h.pending <- errCmd
	} else {
		h.pending <- nil
	}
	h.pending = nil
	return true
}

func (h *host) vars() []Val {
	res := make([]Val, len(h.c.Vars))
	if h.storer == nil {
		for i := range res {
			res[i] = Val{T: "?"}
		}
		return res
	}
	for i, n := range h.c.Vars {
		v, ok := h.storer.GetValue(n)
		if !ok {
			res[i] = Val{T: "u"}
		} else {
			res[i] = valOf(v)
		}
	}
	if h.rec != nil {
		h.rec.reads -= len(h.c.Vars)
	}
	return res
}

func (h *host) visits() []int {
	res := make([]int, len(h.c.Nodes))
	snap := h.dr.Snapshot()
	if snap == nil {
		return res
	}
	for i, n := range h.c.Nodes {
		res[i] = snap.VisitedNodes[n.Title]
	}
	return res
}

// next performs one Next call under recover and collects the observation.
func (h *host) next(choice int) (obs stepObs) {
	h.fcalls, h.ccalls = nil, nil
	if h.rec != nil {
		h.rec.writes = nil
	}
	func() {
		defer func() {
			if r := recover(); r != nil {
				obs.Out = map[string]any{"k": "panic"}
				obs.Panic = fmt.Sprint(r)
			}
		}()
		el, err := h.dr.Next(choice)
		obs.Out = outOfElement(el, err)
	}()
	obs.Fcalls, obs.Ccalls = h.fcalls, append(h.ccalls, h.keptChanged()...)
	if obs.Fcalls == nil {
		obs.Fcalls = []callRec{}
	}
	if obs.Ccalls == nil {
		obs.Ccalls = []callRec{}
	}
	obs.Writes = []writeRec{}
	if h.rec != nil && h.rec.writes != nil {
		obs.Writes = h.rec.writes
	}
	func() {
		defer func() {
			if r := recover(); r != nil && obs.Panic == "" {
				obs.Panic = "panic while observing: " + fmt.Sprint(r)
			}
		}()
		obs.Vars = h.vars()
		obs.Visits = h.visits()
	}()
	return obs
}

func (h *host) hostSet(name string, v Val) {
	switch v.T {
	case "n":
		h.storer.SetNumberValue(name, floatOfVal(v))
	case "b":
		h.storer.SetBooleanValue(name, v.B)
	case "s":
		h.storer.SetStringValue(name, v.S)
	}
	if h.rec != nil {
		h.rec.writes = nil
	}
}

// snapContent reads a snapshot's fields into the case's coordinates.
type snapContent struct {
	Node   string `json:"node"`
	Vars   []Val  `json:"vars"`
	Visits []int  `json:"visits"`
	Extra  int    `json:"extra"` // entries that are neither case variables nor case nodes
}

func (h *host) readSnap(s *ysgo.Snapshot) snapContent {
	sc := snapContent{Node: s.CurrentNode, Vars: make([]Val, len(h.c.Vars)), Visits: make([]int, len(h.c.Nodes))}
	known := 0
	for i, n := range h.c.Vars {
		if v, ok := s.Variables[n]; ok {
			vv := v
			sc.Vars[i] = valOf(&vv)
			known++
		} else {
			sc.Vars[i] = Val{T: "u"}
		}
	}
	sc.Extra = len(s.Variables) - known
	for i, n := range h.c.Nodes {
		sc.Visits[i] = s.VisitedNodes[n.Title]
	}
	return sc
}

func sortedKeys(m map[string]string) []string {
	ks := make([]string, 0, len(m))
	for k := range m {
		ks = append(ks, k)
	}
	sort.Strings(ks)
	return ks
}
