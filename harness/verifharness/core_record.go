package verifharness

import (
	"encoding/json"
	"fmt"
	"math/rand"

	ysgo "github.com/remieven/ysgo"
	"github.com/remieven/ysgo/variable"
)

type recIn struct {
	Choice int  `json:"choice"`
	Done   bool `json:"done"`
	Err    bool `json:"err"`
}

type recEvent struct {
	Ev   string       `json:"ev"`
	Case int          `json:"case,omitempty"`
	ID   int          `json:"id"`
	R    int          `json:"r,omitempty"`
	In   *recIn       `json:"in,omitempty"`
	Obs  *stepObs     `json:"obs,omitempty"`
	Var  string       `json:"var,omitempty"`
	Val  *Val         `json:"val,omitempty"`
	H    int          `json:"h,omitempty"`
	Snap *snapContent `json:"snap,omitempty"`
	Ok   *bool        `json:"ok,omitempty"`
	What string       `json:"what,omitempty"` // rebind: "f" | "c", with Name and Kind
	Name string       `json:"name,omitempty"`
	Kind string       `json:"kind,omitempty"`
	Node string       `json:"node,omitempty"` // snaphand
	T0   int          `json:"t0"`             // monotonic microseconds since the start of the case (0 where timing is not observed)
	T1   int          `json:"t1"`
	// harness-only (ignored by the trace specification)
	Path   int            `json:"path,omitempty"`
	Layout map[string]any `json:"layout,omitempty"`
	Texts  []string       `json:"texts,omitempty"`
}

// recorder buffers the events of one path (paths are recorded in parallel and merged in order).
// registrations the host may make between two calls (MC_Runner!Rebinds)
var rebindChoices = [][3]string{{"f", "late", "id"}, {"f", "p1", "boom"}, {"c", "clate", "done"}, {"c", "cother", "fail"}, {"c", "cdone", "pend"},
	{"f", "p1", "id"}, {"c", "cother", "done"}, {"f", "late", "boom"}}

type recorder struct {
	rnd      *rand.Rand
	maxCalls int
	rebinds  bool
	hostSets bool
	layouts  bool
	events   []recEvent
	by       *bystander       // another runner alive in the process, stepped in between (see core_run.go)
	fixed    map[int][]string // scripts that are run as they were written (core fromscripts), by case id
}

func (rc *recorder) emit(e recEvent) error {
	rc.events = append(rc.events, e)
	return nil
}

func randomHostVal(rnd *rand.Rand) Val {
	switch rnd.Intn(3) {
	case 0:
		if rnd.Intn(3) == 0 {
			return Val{T: "n", N: 2*rnd.Intn(5) - 3, D: 2} // odd numerator: already in lowest terms
		}
		return Val{T: "n", N: rnd.Intn(9) - 2, D: 1}
	case 1:
		return Val{T: "b", B: rnd.Intn(2) == 0}
	}
	return Val{T: "s", S: []string{"h", "host", ""}[rnd.Intn(3)]}
}

// drive walks one runner along a random path.
func (rc *recorder) drive(ci int, c *Case, path int) error {
	rnd := rc.rnd
	l := canonicalLayout()
	if rc.layouts && path > 0 {
		l = randomLayout(rnd)
	}
	texts := renderCase(c, l)
	if t, ok := rc.fixed[c.ID]; ok {
		texts = t
	}
	if err := rc.emit(recEvent{Ev: "reset", Case: ci, ID: c.ID, Path: path, Layout: l.describe(), Texts: texts}); err != nil {
		return err
	}
	byMode := rnd.Intn(4)
	if byMode == 1 {
		rc.by = newBystander(c, rnd) // (the same program: every name is registered by both runners)
	}
	h, err := newHost(c, texts)
	if err != nil {
		f := false
		return rc.emit(recEvent{Ev: "loadfail", ID: c.ID, Ok: &f, Var: err.Error()})
	}
	if byMode == 2 {
		rc.by = newBystander(c, rnd)
	}
	return rc.walk(h, c, 1)
}

// walk drives runner number r of the current trace (a runner that is not waiting for a
// choice) along a random path.
func (rc *recorder) walk(h *host, c *Case, r int) error {
	rnd := rc.rnd
	waiting, pendingPolls, ends := false, 0, 0
	nopts := 0
	for call := 0; call < rc.maxCalls; call++ {
		rc.by.poke()
		if rc.hostSets && h.storer != nil && len(c.Vars) > 0 && rnd.Intn(6) == 0 {
			name := c.Vars[rnd.Intn(len(c.Vars))]
			v := randomHostVal(rnd)
			h.hostSet(name, v)
			if err := rc.emit(recEvent{Ev: "hostset", ID: c.ID, R: r, Var: name, Val: &v}); err != nil {
				return err
			}
		}
		if rc.rebinds && rnd.Intn(6) == 0 {
			b := rebindChoices[rnd.Intn(len(rebindChoices))]
			h.rebind(b[0], b[1], b[2])
			if err := rc.emit(recEvent{Ev: "rebind", ID: c.ID, R: r, What: b[0], Name: b[1], Kind: b[2]}); err != nil {
				return err
			}
		}
		in := &recIn{}
		if h.pending != nil {
			if pendingPolls < 3 && rnd.Intn(5) < 2 {
				pendingPolls++
			} else {
				in.Done = true
				in.Err = rnd.Intn(10) < 3
				h.complete(in.Err)
				pendingPolls = 0
			}
		}
		if waiting {
			in.Choice = rnd.Intn(nopts)
		} else {
			in.Choice = arbitraryArg(rnd)
		}
		obs := h.next(in.Choice)
		if err := rc.emit(recEvent{Ev: "next", ID: c.ID, R: r, In: in, Obs: &obs}); err != nil {
			return err
		}
		waiting = false
		switch obs.Out["k"] {
		case "opts":
			waiting = true
			nopts = len(obs.Out["opts"].([]any))
			if nopts == 0 {
				return nil
			}
		case "end":
			ends++
			if ends > 2+rnd.Intn(2) {
				return nil
			}
		case "panic":
			return nil
		}
	}
	return nil
}

// driveSnap interleaves Next / Snapshot / RestoreAt over three runners of one case.
func (rc *recorder) driveSnap(ci int, c *Case, path int) error {
	rnd := rc.rnd
	l := canonicalLayout()
	texts := renderCase(c, l)
	if t, ok := rc.fixed[c.ID]; ok {
		texts = t
	}
	if err := rc.emit(recEvent{Ev: "reset", Case: ci, ID: c.ID, Path: path, Layout: l.describe(), Texts: texts}); err != nil {
		return err
	}
	const nr = 3
	hosts := make([]*host, nr)
	for i := range hosts {
		h, err := newHost(c, texts)
		if err != nil {
			f := false
			return rc.emit(recEvent{Ev: "loadfail", ID: c.ID, Ok: &f, Var: err.Error()})
		}
		hosts[i] = h
	}
	type handle struct {
		s    *ysgo.Snapshot
		from int
	}
	var snaps []handle
	waiting := make([]bool, nr)
	nopts := make([]int, nr)
	polls := make([]int, nr)
	readAll := func() error {
		// every snapshot handle is read again: contents must not have changed
		for hi, sn := range snaps {
			sc := hosts[sn.from].readSnap(sn.s)
			if err := rc.emit(recEvent{Ev: "snapread", ID: c.ID, H: hi + 1, Snap: &sc}); err != nil {
				return err
			}
		}
		return nil
	}
	for step := 0; step < rc.maxCalls; step++ {
		r := rnd.Intn(nr)
		if step < rc.maxCalls/3 && rnd.Intn(3) > 0 {
			r = 0 // let the first runner get somewhere first
		}
		h := hosts[r]
		switch x := rnd.Intn(10); {
		case x < 6: // Next
			in := &recIn{}
			if h.pending != nil {
				if polls[r] < 2 && rnd.Intn(2) == 0 {
					polls[r]++
				} else {
					in.Done, in.Err = true, rnd.Intn(10) < 2
					h.complete(in.Err)
					polls[r] = 0
				}
			}
			if waiting[r] {
				in.Choice = rnd.Intn(nopts[r])
			} else {
				in.Choice = arbitraryArg(rnd)
			}
			obs := h.next(in.Choice)
			if err := rc.emit(recEvent{Ev: "next", ID: c.ID, R: r + 1, In: in, Obs: &obs}); err != nil {
				return err
			}
			waiting[r] = false
			if obs.Out["k"] == "opts" {
				waiting[r] = true
				nopts[r] = len(obs.Out["opts"].([]any))
			}
			if obs.Out["k"] == "panic" {
				return nil
			}
			if rnd.Intn(3) == 0 {
				if err := readAll(); err != nil {
					return err
				}
			}
		case x < 8: // Snapshot
			if len(snaps) >= 6 {
				continue
			}
			if rnd.Intn(5) == 0 {
				// a snapshot written by hand: the node only (nil maps), or with empty maps
				node := c.Nodes[rnd.Intn(len(c.Nodes))].Title
				s := &ysgo.Snapshot{CurrentNode: node}
				if rnd.Intn(2) == 0 {
					s.Variables, s.VisitedNodes = map[string]variable.Value{}, map[string]int{}
				}
				snaps = append(snaps, handle{s, r})
				if err := rc.emit(recEvent{Ev: "snaphand", ID: c.ID, H: len(snaps), Node: node}); err != nil {
					return err
				}
				continue
			}
			var s *ysgo.Snapshot
			if !guarded(func() { s = h.dr.Snapshot() }) || s == nil {
				continue
			}
			snaps = append(snaps, handle{s, r})
			sc := h.readSnap(s)
			if err := rc.emit(recEvent{Ev: "snap", ID: c.ID, R: r + 1, H: len(snaps), Snap: &sc}); err != nil {
				return err
			}
		case x < 9 && len(snaps) > 0: // RestoreAt(snapshot) into any runner, in any state
			hi := rnd.Intn(len(snaps))
			var rerr error
			panicked := !guarded(func() { rerr = h.dr.RestoreAt(snaps[hi].s) })
			ok := rerr == nil && !panicked
			if err := rc.emit(recEvent{Ev: "restore", ID: c.ID, R: r + 1, H: hi + 1, Ok: &ok}); err != nil {
				return err
			}
			if ok {
				// a command still pending from before the restore no longer concerns the runner
				h.pending = nil
				waiting[r], polls[r] = false, 0
			}
			if err := readAll(); err != nil {
				return err
			}
		default: // RestoreAt(a snapshot naming an unknown node)
			bogus := &ysgo.Snapshot{CurrentNode: []string{"NoSuchNodeAtAll", "Aaa", "Zzzz", "~last", ""}[rnd.Intn(5)], Variables: map[string]variable.Value{"x": *variable.NewNumber(99)},
				VisitedNodes: map[string]int{c.Nodes[0].Title: 42}}
			var rerr error
			panicked := !guarded(func() { rerr = h.dr.RestoreAt(bogus) })
			ok := rerr == nil && !panicked
			if err := rc.emit(recEvent{Ev: "restorebad", ID: c.ID, R: r + 1, Ok: &ok}); err != nil {
				return err
			}
		}
	}
	return readAll()
}

func coreRecord(m map[string]string) error {
	cases, err := loadCases(m["cases"])
	if err != nil {
		return err
	}
	w, err := newNDJSON(m["out"])
	if err != nil {
		return err
	}
	meta, err := newNDJSON(m["out"] + ".meta")
	if err != nil {
		return err
	}
	paths := argInt(m, "paths", 3)
	var fixed map[int][]string
	if m["texts"] != "" {
		lines, err := readNDJSON(m["texts"])
		if err != nil {
			return err
		}
		fixed = map[int][]string{}
		for _, raw := range lines {
			var t struct {
				ID    int      `json:"id"`
				Texts []string `json:"texts"`
			}
			if err := json.Unmarshal(raw, &t); err != nil {
				return err
			}
			fixed[t.ID] = t.Texts
		}
	}
	type job struct{ ci, path int }
	jobs := make([]job, 0, len(cases)*paths)
	for ci := range cases {
		for p := 0; p < paths; p++ {
			jobs = append(jobs, job{ci, p})
		}
	}
	results := make([][]recEvent, len(jobs))
	errs := make([]error, len(jobs))
	base := Seed()*31 + 5
	parallelFor(len(jobs), func(j int) {
		jb := jobs[j]
		rc := &recorder{rnd: rand.New(rand.NewSource(base + int64(j)*1000003)), maxCalls: argInt(m, "calls", 30),
			hostSets: m["hostsets"] == "1", layouts: m["layouts"] == "random", rebinds: m["rebinds"] == "1", fixed: fixed}
		if m["mode"] == "snap" {
			errs[j] = rc.driveSnap(jb.ci+1, cases[jb.ci], jb.path)
		} else {
			errs[j] = rc.drive(jb.ci+1, cases[jb.ci], jb.path)
		}
		results[j] = rc.events
	})
	n := 0
	for j := range jobs {
		if errs[j] != nil {
			return errs[j]
		}
		for _, e := range results[j] {
			n++
			if e.Ev == "reset" {
				if err := meta.Write(map[string]any{"line": n, "id": e.ID, "path": e.Path, "layout": e.Layout, "texts": e.Texts}); err != nil {
					return err
				}
				e.Layout, e.Texts = nil, nil
			}
			if err := w.Write(e); err != nil {
				return err
			}
		}
	}
	fmt.Printf("{\"cases\":%d,\"paths\":%d,\"events\":%d}\n", len(cases), len(jobs), n)
	if err := meta.Close(); err != nil {
		return err
	}
	return w.Close()
}
