package verifharness

import (
	"fmt"
	"math/rand"
	"strconv"
	"strings"
)

// Layout holds every purely presentational choice of a rendering (property C08):
// none of them may change the parsed dialogue or any trace.
type Layout struct {
	Tabs       bool
	Unit       int     // spaces per level (1..8) when !Tabs
	JunkProb   float64 // probability of a blank / whitespace-only / comment line before a line
	CRLF       bool
	Spelling   int  // 0 = symbols, 1 = words, 2 = random per operator
	Parens     int  // 0 = minimal, 1 = full, 2 = random redundant
	CmdSpaces  bool // extra spaces inside << >>
	IndentIf   bool // indent the bodies of if clauses
	TrailingCm bool // trailing // comments
	ExtraHead  bool // file-level hashtags before the first node, blank / comment lines in front of headers
	NoFinalNL  bool // no line end after the last ===
	// a line that closes deeper blocks may sit at a column strictly between its own level
	// and the next deeper one (`<<else>>` under a body indented twice as far, an option
	// after the previous option's body, `===`): the indentation rule closes every level
	// wider than the line and opens none, so the nesting is the same
	Ragged bool
	// an explicit type after the value of a declare statement (`<<declare $x = 1 as number>>`): 0 none,
	// 1 the type of the value, 2 any of string / number / bool - what is stored is the value's own (C03)
	DeclAs int
	// the first level is indented with Unit (2..7) spaces, every deeper level d with d-1 tabs: no line mixes
	// the two kinds, and with a tab counting 8 columns (the library's and upstream's documented convention)
	// every level is wider than the one around it, so the nesting is the same
	MixKinds bool
	rnd      *rand.Rand
}

func canonicalLayout() *Layout {
	return &Layout{Unit: 4, rnd: rand.New(rand.NewSource(1))}
}

func randomLayout(rnd *rand.Rand) *Layout {
	l := &Layout{
		Tabs:       rnd.Intn(4) == 0,
		Unit:       1 + rnd.Intn(8),
		CRLF:       rnd.Intn(4) == 0,
		Spelling:   rnd.Intn(3),
		Parens:     rnd.Intn(3),
		CmdSpaces:  rnd.Intn(2) == 0,
		IndentIf:   rnd.Intn(2) == 0,
		TrailingCm: rnd.Intn(3) == 0,
		ExtraHead:  rnd.Intn(3) == 0,
		NoFinalNL:  rnd.Intn(4) == 0,
		rnd:        rand.New(rand.NewSource(rnd.Int63())),
	}
	l.Ragged = !l.Tabs && l.Unit >= 2 && l.rnd.Intn(2) == 0
	if rnd.Intn(3) > 0 {
		l.JunkProb = 0.15 + 0.3*rnd.Float64()
	}
	l.DeclAs = l.rnd.Intn(3)
	if !l.Tabs && l.Unit >= 2 && l.Unit <= 7 && l.rnd.Intn(4) == 0 {
		l.MixKinds, l.Ragged = true, false
	}
	return l
}

func (l *Layout) describe() map[string]any {
	return map[string]any{"tabs": l.Tabs, "unit": l.Unit, "junk": l.JunkProb > 0, "crlf": l.CRLF, "spelling": l.Spelling,
		"parens": l.Parens, "cmdspaces": l.CmdSpaces, "indentif": l.IndentIf, "trailing": l.TrailingCm,
		"extrahead": l.ExtraHead, "nofinalnl": l.NoFinalNL, "ragged": l.Ragged, "declas": l.DeclAs, "mixkinds": l.MixKinds}
}

func (l *Layout) nl() string {
	if l.CRLF {
		return "\r\n"
	}
	return "\n"
}

func (l *Layout) indent(d int) string {
	if l.MixKinds && d >= 2 {
		return strings.Repeat("\t", d-1)
	}
	if l.Tabs {
		return strings.Repeat("\t", d)
	}
	return strings.Repeat(" ", d*l.Unit)
}

// ------------------------------------------------------------ expressions

var opLevel = map[string]int{"mul": 5, "div": 5, "mod": 5, "add": 4, "sub": 4, "lt": 3, "le": 3, "gt": 3, "ge": 3,
	"eq": 2, "ne": 2, "and": 1, "or": 1, "xor": 1}

var opSpellings = map[string][]string{
	"mul": {"*"}, "div": {"/"}, "mod": {"%"}, "add": {"+"}, "sub": {"-"},
	"lt": {"<", "lt"}, "le": {"<=", "lte"}, "gt": {">", "gt"}, "ge": {">=", "gte"},
	"eq": {"==", "is", "eq"}, "ne": {"!=", "neq"}, "and": {"&&", "and"}, "or": {"||", "or"}, "xor": {"^", "xor"},
	"not": {"!", "not"},
}

func (l *Layout) spell(op string) string {
	sp := opSpellings[op]
	switch l.Spelling {
	case 0:
		return sp[0]
	case 1:
		return sp[len(sp)-1]
	}
	return sp[l.rnd.Intn(len(sp))]
}

func exprLevel(e *Expr) int {
	switch e.K {
	case "bin":
		return opLevel[e.Op]
	case "neg", "not":
		return 6
	}
	return 7
}

func formatNumber(n, d int) string {
	// non-negative decimal literal of the grammar: INT | INT '.' INT
	f := float64(n) / float64(d)
	return strconv.FormatFloat(f, 'f', -1, 64)
}

func (l *Layout) expr(e *Expr) string {
	return l.exprIn(e, 0, false)
}

// exprIn prints e as an operand of an operator of level `outer`; needParens is
// decided by the caller from precedence and associativity.
func (l *Layout) exprIn(e *Expr, outer int, needParens bool) string {
	var s string
	switch e.K {
	case "num":
		if e.N < 0 {
			s = "-" + formatNumber(-e.N, e.D)
			if outer > 0 {
				needParens = true
			}
		} else {
			s = formatNumber(e.N, e.D)
		}
	case "bool":
		s = strconv.FormatBool(e.B)
	case "str":
		s = `"` + e.S + `"`
	case "null":
		s = "null"
	case "special":
		s = map[string]string{"inf": "(1 / 0)", "neginf": "(-1 / 0)", "nan": "(0 / 0)", "huge": "99999999999999999999",
			"neghuge": "-99999999999999999999", "big": "4611686018427387904", "negbig": "-4611686018427387904"}[e.S]
	case "var":
		s = "$" + e.S
	case "neg":
		s = "-" + l.exprIn(e.A, 6, exprLevel(e.A) < 6 || (e.A.K == "neg") || (e.A.K == "num" && e.A.N < 0))
	case "not":
		sp := l.spell("not")
		inner := l.exprIn(e.A, 6, exprLevel(e.A) < 6)
		if sp == "not" {
			s = "not " + inner
		} else {
			s = "!" + inner
		}
	case "bin":
		lv := opLevel[e.Op]
		left := l.exprIn(e.L, lv, exprLevel(e.L) < lv)
		right := l.exprIn(e.R, lv, exprLevel(e.R) <= lv)
		s = left + " " + l.spell(e.Op) + " " + right
	case "call":
		args := make([]string, len(e.Args))
		for i, a := range e.Args {
			args[i] = l.exprIn(a, 0, false)
		}
		sep := ", "
		if l.Parens == 2 && l.rnd.Intn(2) == 0 {
			sep = ","
		}
		s = e.S + "(" + strings.Join(args, sep) + ")"
	default:
		s = "<?" + e.K + ">"
	}
	extra := false
	switch l.Parens {
	case 1:
		extra = e.K == "bin" || e.K == "neg" || e.K == "not"
	case 2:
		extra = l.rnd.Intn(4) == 0
	}
	if needParens || extra {
		s = "(" + s + ")"
		if l.Parens == 2 && l.rnd.Intn(6) == 0 {
			s = "( " + s + " )"
		}
	}
	return s
}

// -------------------------------------------------------------- statements

type renderer struct {
	c       *Case
	l       *Layout
	sb      *strings.Builder
	prevCol int // column of the previous content line of the node body (0 at its start)
	ragged  int // lines placed between two levels
}

// raggedPad: extra blanks for a content line of depth d that follows a line at least one
// whole level deeper (Layout.Ragged); never enough to reach the next level.
func (r *renderer) raggedPad(d int) string {
	l := r.l
	pad := 0
	if l.Ragged && !l.Tabs && l.Unit >= 2 && r.prevCol >= (d+1)*l.Unit && l.rnd.Intn(2) == 0 {
		pad = 1 + l.rnd.Intn(l.Unit-1)
		r.ragged++
	}
	if !l.Tabs {
		r.prevCol = d*l.Unit + pad
	}
	return strings.Repeat(" ", pad)
}

func (r *renderer) junk() {
	l := r.l
	// indentation of a line that does not count: of the file's own kind, or - such a line is no
	// indentation of anything - of the other kind (spaces in a file indented with tabs and vice versa)
	pad := func() string {
		tabs := l.Tabs
		if l.rnd.Intn(3) == 0 {
			tabs = !tabs
		}
		if tabs {
			return strings.Repeat("\t", l.rnd.Intn(4))
		}
		return strings.Repeat(" ", l.rnd.Intn(13))
	}
	for l.JunkProb > 0 && l.rnd.Float64() < l.JunkProb {
		switch l.rnd.Intn(3) {
		case 0:
			r.sb.WriteString(l.nl())
		case 1: // whitespace-only line of arbitrary width
			r.sb.WriteString(pad())
			r.sb.WriteString(l.nl())
		default: // comment-only line at arbitrary indentation
			r.sb.WriteString(pad())
			r.sb.WriteString("// comment" + l.nl())
		}
	}
}

func (r *renderer) line(d int, text string) { r.lineT(d, text, false) }

// lineT: endsInText says that the line ends in literal text; a trailing comment is then
// attached without a blank, because a blank before it would be trailing whitespace of the
// text (which the lexer keeps in the TEXT token), not layout.
func (r *renderer) lineT(d int, text string, endsInText bool) {
	r.junk()
	r.sb.WriteString(r.l.indent(d))
	r.sb.WriteString(r.raggedPad(d))
	r.sb.WriteString(text)
	if r.l.TrailingCm && r.l.rnd.Intn(3) == 0 {
		if endsInText {
			r.sb.WriteString("// trailing")
		} else {
			r.sb.WriteString(" // trailing")
		}
	}
	r.sb.WriteString(r.l.nl())
}

func (r *renderer) cmd(inner string) string {
	if r.l.CmdSpaces {
		pre := strings.Repeat(" ", r.l.rnd.Intn(3))
		post := strings.Repeat(" ", r.l.rnd.Intn(3))
		return "<<" + pre + inner + post + ">>"
	}
	return "<<" + inner + ">>"
}

func (r *renderer) parts(parts []Part) string {
	var sb strings.Builder
	for _, p := range parts {
		if p.E != nil {
			sb.WriteString("{" + r.l.expr(p.E) + "}")
		} else {
			sb.WriteString(p.source())
		}
	}
	return sb.String()
}

func (r *renderer) tags(tags []string) string {
	s := ""
	for _, t := range tags {
		s += " #" + t
	}
	return s
}

// commandWord prints a command element as a bare word when the language allows
// it (identifier-like strings, decimal numbers, booleans), else as {expression}.
func (r *renderer) commandWord(e *Expr) string {
	switch e.K {
	case "str":
		if isBareWord(e.S) {
			return e.S
		}
	case "num":
		if e.N < 0 {
			return "-" + formatNumber(-e.N, e.D)
		}
		return formatNumber(e.N, e.D)
	case "bool":
		return strconv.FormatBool(e.B)
	}
	return "{" + r.l.expr(e) + "}"
}

func isBareWord(s string) bool {
	if s == "" || s == "true" || s == "false" {
		return false
	}
	for i, c := range s {
		if !(c >= 'a' && c <= 'z' || c >= 'A' && c <= 'Z' || c == '_' || i > 0 && c >= '0' && c <= '9') {
			return false
		}
	}
	return true
}

func (r *renderer) body(id int, d int) {
	for _, s := range r.c.body(id) {
		r.stmt(s, d)
	}
}

func (r *renderer) stmt(s Stmt, d int) {
	l := r.l
	sp := func() string { // separator inside commands
		if l.CmdSpaces {
			return strings.Repeat(" ", 1+l.rnd.Intn(3))
		}
		return " "
	}
	switch s.K {
	case "line":
		t := r.parts(s.Text)
		if s.Cond != nil {
			t += " " + r.cmd("if"+sp()+l.expr(s.Cond))
		}
		r.lineT(d, t+r.tags(s.Tags), len(s.Tags) == 0 && s.Cond == nil)
	case "opts":
		for _, o := range s.Opts {
			t := "->" + sp() + r.parts(o.Text)
			if o.Cond != nil && o.Cond.K != "none" {
				t += " " + r.cmd("if"+sp()+l.expr(o.Cond))
			}
			r.lineT(d, t+r.tags(o.Tags), len(o.Tags) == 0 && (o.Cond == nil || o.Cond.K == "none"))
			r.body(o.Body, d+1)
		}
	case "if":
		bd := d
		if l.IndentIf {
			bd = d + 1
		}
		for i, c := range s.Clauses {
			isElse := i > 0 && i == len(s.Clauses)-1 && c.Cond.K == "bool" && c.Cond.B
			switch {
			case i == 0:
				r.line(d, r.cmd("if"+sp()+l.expr(c.Cond)))
			case isElse:
				r.line(d, r.cmd("else"))
			default:
				r.line(d, r.cmd("elseif"+sp()+l.expr(c.Cond)))
			}
			r.body(c.Body, bd)
		}
		r.line(d, r.cmd("endif"))
	case "set":
		if s.Decl {
			// the grammar wants a plain value here, not an expression: no parentheses
			saved := l.Parens
			l.Parens = 0
			v := l.expr(s.E)
			l.Parens = saved
			as := ""
			if tn, ok := map[string]string{"num": "number", "str": "string", "bool": "bool"}[s.E.K]; ok && l.DeclAs > 0 {
				if l.DeclAs == 2 {
					tn = []string{"number", "string", "bool"}[l.rnd.Intn(3)]
				}
				as = " as " + tn
			}
			r.line(d, r.cmd("declare"+sp()+"$"+s.Var+sp()+"="+sp()+v+as))
			return
		}
		op := s.Op
		if op == "=" && (l.Spelling == 1 || l.Spelling == 2 && l.rnd.Intn(2) == 0) {
			op = "to"
		}
		r.line(d, r.cmd("set"+sp()+"$"+s.Var+sp()+op+sp()+l.expr(s.E)))
	case "jump":
		// exactly one blank after `jump`: the lexer mode entered there has no whitespace rule,
		// so more than one is a syntax error of the grammar, not layout
		if s.E.K == "str" && isBareWord(s.E.S) && (l.Parens != 2 || l.rnd.Intn(2) == 0) {
			r.line(d, r.cmd("jump "+s.E.S))
		} else {
			r.line(d, r.cmd("jump {"+l.expr(s.E)+"}"))
		}
	case "cmd":
		if len(s.Elems) == 0 {
			// valid for the grammar (the text of the command is not empty), no word for the runner: an error (C06)
			r.line(d, r.cmd([]string{"\u00a0", "\u3000", "\u00a0 \u2003", "\u3000\u00a0"}[l.rnd.Intn(4)]))
			return
		}
		words := make([]string, len(s.Elems))
		for i, e := range s.Elems {
			words[i] = r.commandWord(e)
		}
		r.line(d, r.cmd(strings.Join(words, sp())))
	case "call":
		// the grammar wants a function call here, not an expression: no parentheses around it
		saved := l.Parens
		l.Parens = 0
		v := l.expr(s.E)
		l.Parens = saved
		r.line(d, r.cmd("call"+sp()+v))
	default:
		r.line(d, fmt.Sprintf("<<unknown %s>>", s.K))
	}
}

// renderNodes renders nodes [from, to) of the case as one Yarn source text.
func renderNodes(c *Case, l *Layout, from, to int) string {
	var sb strings.Builder
	r := &renderer{c: c, l: l, sb: &sb}
	if l.ExtraHead && l.rnd.Intn(2) == 0 {
		// file-level hashtags precede all nodes of a file
		sb.WriteString("#file_tag" + l.nl())
		if l.rnd.Intn(2) == 0 {
			sb.WriteString("#another:tag" + l.nl())
		}
	}
	for i := from; i < to; i++ {
		n := c.Nodes[i]
		if l.ExtraHead && l.rnd.Intn(2) == 0 {
			r.junk() // blank / comment lines between nodes and in front of the headers
		}
		// (extra headers such as `position:` are content of the parsed dialogue - Node.Headers - not layout)
		sb.WriteString("title: " + n.Title + l.nl())
		if n.Tracking != "" {
			sb.WriteString("tracking: " + n.Tracking + l.nl())
		}
		sb.WriteString("---" + l.nl())
		r.prevCol = 0
		r.body(n.Body, 0)
		r.junk()
		if r.prevCol >= l.Unit {
			sb.WriteString(r.raggedPad(0))
		}
		sb.WriteString("===")
		if !(l.NoFinalNL && i == to-1) {
			sb.WriteString(l.nl())
		}
	}
	return sb.String()
}

// renderCase renders the whole case, split over readers as c.Readers says.
func renderCase(c *Case, l *Layout) []string {
	readers := c.Readers
	total := 0
	for _, n := range readers {
		total += n
	}
	if len(readers) == 0 || total != len(c.Nodes) {
		readers = []int{len(c.Nodes)}
	}
	var res []string
	from := 0
	for _, n := range readers {
		res = append(res, renderNodes(c, l, from, from+n))
		from += n
	}
	return res
}
