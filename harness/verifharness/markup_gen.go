package verifharness

import (
	"encoding/json"
	"fmt"
	"math/rand"
	"strings"

	ysgo "github.com/remieven/ysgo"
	"github.com/remieven/ysgo/internal/tree"
	"github.com/remieven/ysgo/markup"
)

// Code -> spec for property C13: random long lines of the C13 region (DESIGN appendix
// D/E; the same region as Markup!WellFormedC13) and their recording.

type mkCase struct {
	ID     int      `json:"id"`
	Items  []mkItem `json:"items"`
	Runner bool     `json:"runner"` // the line survives the Yarn lexer unchanged
}

type mkGen struct {
	rnd  *rand.Rand
	safe bool // the current line must survive the Yarn lexer unchanged (no \" escape)
}

var mkReservedNames = map[string]bool{"nomarkup": true, "select": true, "plural": true, "ordinal": true,
	"character": true, "trimwhitespace": true, "true": true, "false": true}

func (g *mkGen) pick(pool []rune) int { return int(pool[g.rnd.Intn(len(pool))]) }

// a non-space character of a random class
func (g *mkGen) textChar() int {
	switch r := g.rnd.Intn(20); {
	case r < 8:
		return g.pick(poolAsciiLetter)
	case r < 10:
		return g.pick([]rune("abcdefghijklmnopqrstuvw0123456789"))
	case r < 12:
		return g.pick(poolAsciiPunct)
	case r < 14:
		return g.pick(pool2L)
	case r < 15:
		return g.pick(pool2N)
	case r < 16:
		return g.pick(pool3L)
	case r < 17:
		return g.pick(pool3N)
	case r < 18:
		return g.pick(pool4L)
	case r < 19:
		return g.pick(pool4N)
	}
	return g.pick([]rune(`"%_`))
}

func (g *mkGen) blank() int {
	if g.rnd.Intn(5) == 0 {
		return 9
	}
	return 32
}

// a letter (any width), digit or underscore: the characters of names and bare words
func (g *mkGen) idChar(first bool) int {
	switch r := g.rnd.Intn(16); {
	case r < 8:
		return g.pick([]rune("abcdefghijklmnopqrstuvwxyzABCDEFGHIJKLMNOPQRSTUVWXYZ"))
	case r < 10:
		return g.pick(pool2L)
	case r < 11:
		return g.pick(pool3L)
	case r < 12:
		return g.pick(pool4L)
	case r < 13:
		return '_'
	}
	if first {
		return g.pick([]rune("abcdefghijklmnopqrstuvwxyz"))
	}
	return g.pick([]rune("0123456789"))
}

// word draws an identifier that is neither reserved nor a boolean literal.
func (g *mkGen) word(minLen, maxLen int) []int {
	for {
		n := minLen + g.rnd.Intn(maxLen-minLen+1)
		w := make([]int, n)
		for i := range w {
			w[i] = g.idChar(i == 0)
		}
		if !mkReservedNames[strings.ToLower(mkStr(w))] {
			return w
		}
	}
}

func (g *mkGen) quoted(maxLen int) []int {
	n := g.rnd.Intn(maxLen + 1)
	s := make([]int, n)
	for i := range s {
		switch r := g.rnd.Intn(12); {
		case r < 2:
			s[i] = 32
		case r == 2 && !g.safe:
			s[i] = '"'
		default:
			s[i] = g.textChar()
		}
		if s[i] == '%' || (g.safe && s[i] == '"') { // % is kept for replacement texts
			s[i] = 'o'
		}
	}
	return s
}

func (g *mkGen) value() mkVal {
	switch g.rnd.Intn(6) {
	case 0:
		if g.rnd.Intn(6) == 0 {
			return g.bigInt()
		}
		return mkVal{T: "int", I: g.smallInt()}
	case 1:
		k := 1 + g.rnd.Intn(4)
		pow := []int{1, 10, 100, 1000, 10000}[k]
		f := g.rnd.Intn(pow)
		if g.rnd.Intn(3) == 0 { // fractional part with leading zeros
			f = g.rnd.Intn(pow/10 + 1)
		}
		return mkVal{T: "dec", I: g.smallInt(), F: f, K: k}
	case 2:
		return mkVal{T: "bool", B: g.rnd.Intn(2) == 0}
	case 3:
		return mkVal{T: "str", S: g.quoted(6), Q: true}
	default:
		return mkVal{T: "str", S: g.word(1, 5), Q: false}
	}
}

// bigInt: an integer of 11 to 19 digits that still fits an int (up to 2^63-1): beyond what a double holds exactly
func (g *mkGen) bigInt() mkVal {
	fixed := []string{"9007199254740993", "9223372036854775807", "4611686018427387905", "9007199254740992", "10000000000", "1234567890123456789",
		"9223372036854775806", "72057594037927937"}
	d := fixed[g.rnd.Intn(len(fixed))]
	if g.rnd.Intn(2) == 0 {
		n := 11 + g.rnd.Intn(8)
		b := make([]byte, n)
		for i := range b {
			b[i] = byte('0' + g.rnd.Intn(10))
		}
		b[0] = byte('1' + g.rnd.Intn(9))
		d = string(b)
	}
	return mkVal{T: "big", S: mkCps(d)}
}

func (g *mkGen) smallInt() int {
	switch g.rnd.Intn(4) {
	case 0:
		return g.rnd.Intn(10)
	case 1:
		return g.rnd.Intn(130)
	}
	return g.rnd.Intn(10000)
}

func (g *mkGen) props(markerName []int, allowShorthand bool) ([]mkProp, bool) {
	n := []int{0, 0, 0, 1, 1, 2, 3}[g.rnd.Intn(7)]
	ps := []mkProp{}
	seen := map[string]bool{}
	sh := false
	if n > 0 && allowShorthand && g.rnd.Intn(4) == 0 {
		sh = true
		ps = append(ps, mkProp{N: markerName, V: g.value()})
		seen[mkStr(markerName)] = true
	}
	for len(ps) < n {
		w := g.word(1, 3)
		if seen[mkStr(w)] {
			continue
		}
		seen[mkStr(w)] = true
		ps = append(ps, mkProp{N: w, V: g.value()})
	}
	return ps, sh
}

func mkSV(s string, q bool) mkVal { return mkVal{T: "str", S: mkCps(s), Q: q} }

// replacement text for a case: sometimes with the % placeholder
func (g *mkGen) caseText(withPct bool) mkVal {
	if g.rnd.Intn(3) == 0 {
		w := g.word(1, 4)
		return mkVal{T: "str", S: w, Q: false}
	}
	s := g.quoted(5)
	if withPct && g.rnd.Intn(2) == 0 {
		at := g.rnd.Intn(len(s) + 1)
		s = append(append(append([]int{}, s[:at]...), '%'), s[at:]...)
		if g.rnd.Intn(4) == 0 {
			s = append(s, '%')
		}
	}
	return mkVal{T: "str", S: s, Q: true}
}

func (g *mkGen) replacement() mkItem {
	shuffle := func(ps []mkProp) []mkProp {
		g.rnd.Shuffle(len(ps), func(i, j int) { ps[i], ps[j] = ps[j], ps[i] })
		return ps
	}
	switch g.rnd.Intn(3) {
	case 0: // select over 2-3 keys; the value is a bare word, a quoted word or an integer
		nk := 2 + g.rnd.Intn(2)
		keys := [][]int{}
		seen := map[string]bool{"value": true}
		useInts := g.rnd.Intn(4) == 0
		for len(keys) < nk {
			var k []int
			if useInts {
				k = mkCps(fmt.Sprint(g.rnd.Intn(30)))
			} else {
				k = g.word(1, 4)
			}
			if !seen[mkStr(k)] {
				seen[mkStr(k)] = true
				keys = append(keys, k)
			}
		}
		chosen := keys[g.rnd.Intn(nk)]
		var val mkVal
		switch {
		case useInts:
			n := 0
			fmt.Sscan(mkStr(chosen), &n)
			val = mkVal{T: "int", I: n}
		case g.rnd.Intn(2) == 0:
			val = mkVal{T: "str", S: chosen, Q: true}
		default:
			val = mkVal{T: "str", S: chosen, Q: false}
		}
		ps := []mkProp{{N: mkCps("value"), V: val}}
		for _, k := range keys {
			ps = append(ps, mkProp{N: k, V: g.caseText(true)})
		}
		return mkItem{K: "select", Props: shuffle(ps)}
	case 1: // plural: integers (1 -> one), decimals (-> other, no % because the display
		// of a decimal is not pinned by the property)
		var val mkVal
		pct := true
		switch g.rnd.Intn(5) {
		case 0:
			val = mkVal{T: "int", I: 1}
		case 1:
			val = mkVal{T: "dec", I: g.rnd.Intn(3), F: 1 + g.rnd.Intn(9), K: 1}
			pct = false
		case 2:
			val = g.bigInt()
		default:
			val = mkVal{T: "int", I: g.smallInt()}
		}
		ps := []mkProp{{N: mkCps("value"), V: val}, {N: mkCps("one"), V: g.caseText(pct)}, {N: mkCps("other"), V: g.caseText(pct)}}
		return mkItem{K: "plural", Props: shuffle(ps)}
	default: // ordinal: every English category, including the 11/12/13 exceptions
		n := []int{1, 2, 3, 4, 11, 12, 13, 21, 22, 23, 101, 111, 112, 113, 122, 1003}[g.rnd.Intn(16)]
		if g.rnd.Intn(3) == 0 {
			n = g.rnd.Intn(2000)
		}
		ov := mkVal{T: "int", I: n}
		if g.rnd.Intn(8) == 0 {
			ov = g.bigInt()
		}
		ps := []mkProp{{N: mkCps("value"), V: ov}}
		for _, c := range []string{"one", "two", "few", "other"} {
			ps = append(ps, mkProp{N: mkCps(c), V: g.caseText(true)})
		}
		return mkItem{K: "ordinal", Props: shuffle(ps)}
	}
}

// line generates one line of the C13 region with about maxItems items.
func (g *mkGen) line(maxItems int, runnerSafe bool) []mkItem {
	g.safe = runnerSafe
	n := 1 + g.rnd.Intn(maxItems)
	items := []mkItem{}
	// a small set of marker names per line, so that names repeat sequentially
	names := [][]int{}
	for len(names) < 4 {
		w := g.word(1, 3)
		dup := false
		for _, o := range names {
			dup = dup || mkStr(o) == mkStr(w)
		}
		if !dup {
			names = append(names, w)
		}
	}
	open := [][]int{}
	isOpen := func(nm []int) bool {
		for _, o := range open {
			if mkStr(o) == mkStr(nm) {
				return true
			}
		}
		return false
	}
	if g.rnd.Intn(4) == 0 {
		nameLen := 1 + g.rnd.Intn(4)
		nm := make([]int, nameLen)
		for i := range nm {
			nm[i] = g.textChar()
			if nm[i] == '"' || nm[i] == '%' { // keep the name plain
				nm[i] = 'R'
			}
		}
		if runnerSafe && (nm[0] == '-' || nm[0] == '=') {
			nm[0] = 'N'
		}
		ws := [][]int{{32}, {32}, {32}, {}, {32, 32}, {9}, {32, 9}}[g.rnd.Intn(7)]
		items = append(items, mkItem{K: "pfx", Name: nm, Ws: ws})
	}
	edgeWs := g.rnd.Intn(8) == 0
	for len(items) < n {
		i := len(items)
		prevK := ""
		if i > 0 {
			prevK = items[i-1].K
		}
		r := g.rnd.Intn(100)
		switch {
		case r < 34:
			items = append(items, mkItem{K: "ch", C: g.textChar()})
		case r < 50:
			// blanks: not right after the prefix (they belong to it); at the very start
			// only when the line is allowed whitespace at an edge and is not for the runner
			if prevK == "pfx" || (i == 0 && (runnerSafe || !edgeWs)) {
				continue
			}
			items = append(items, mkItem{K: "ch", C: g.blank()})
		case r < 54:
			if i == 0 && runnerSafe {
				continue // \[ cannot start a Yarn line
			}
			items = append(items, mkItem{K: "esc", C: []int{91, 93}[g.rnd.Intn(2)]})
		case r < 66:
			if len(open) >= 3 {
				continue
			}
			nm := names[g.rnd.Intn(len(names))]
			if isOpen(nm) && g.rnd.Intn(3) != 0 {
				continue // same-name nesting: less often than fresh names
			}
			ps, sh := g.props(nm, true)
			items = append(items, mkItem{K: "open", Name: nm, Props: ps, Sh: sh})
			open = append(open, nm)
		case r < 78:
			if len(open) == 0 {
				continue
			}
			k := g.rnd.Intn(len(open)) // any open marker: nesting and overlap
			if g.rnd.Intn(2) == 0 {
				k = len(open) - 1
			}
			items = append(items, mkItem{K: "close", Name: open[k]})
			open = append(open[:k:k], open[k+1:]...)
		case r < 80:
			items = append(items, mkItem{K: "closeall"})
			open = nil
		case r < 88:
			// anywhere (directly after other markers, replacements and swallowed blanks
			// too) except after an escaped bracket, where the code's memory of the last
			// character is neither reading of rule 5 (Markup!ItemOK)
			if prevK == "esc" {
				continue
			}
			nm := names[g.rnd.Intn(len(names))]
			ps, sh := g.props(nm, true)
			if g.rnd.Intn(4) == 0 {
				b := g.rnd.Intn(3) == 0
				p := mkProp{N: mkCps("trimwhitespace"), V: mkVal{T: "bool", B: b}}
				at := g.rnd.Intn(len(ps) + 1)
				if sh && at == 0 {
					at = 1
				}
				ps = append(ps[:at:at], append([]mkProp{p}, ps[at:]...)...)
			}
			items = append(items, mkItem{K: "self", Name: nm, Props: ps, Sh: sh})
		case r < 95:
			it := g.replacement()
			if g.rnd.Intn(3) == 0 {
				// the open form: contents read as raw text up to the close marker, replaced as a whole
				raw := []int{}
				for k := g.rnd.Intn(6); k > 0; k-- {
					switch q := g.rnd.Intn(10); {
					case q < 2:
						raw = append(raw, 91)
					case q < 3:
						raw = append(raw, 93)
					case q < 5:
						raw = append(raw, 32)
					default:
						raw = append(raw, g.textChar())
					}
				}
				it = mkItem{K: "ropen", RK: it.K, Props: it.Props, Raw: raw, Close: "name"}
				if g.rnd.Intn(3) == 0 {
					it.Close = "all"
					open = nil
				}
			}
			items = append(items, it)
		default:
			raw := []int{}
			for k := g.rnd.Intn(7); k > 0; k-- {
				switch q := g.rnd.Intn(10); {
				case q < 2:
					raw = append(raw, 91)
				case q < 4:
					raw = append(raw, 93)
				case q < 5:
					raw = append(raw, 32)
				default:
					raw = append(raw, g.textChar())
				}
			}
			it := mkItem{K: "nomarkup", Raw: raw, Close: "name"}
			if g.rnd.Intn(3) == 0 {
				it.Close = "all"
				open = nil
			}
			items = append(items, it)
		}
	}
	// every marker is closed (appendix D)
	for len(open) > 0 {
		if g.rnd.Intn(4) == 0 {
			items = append(items, mkItem{K: "closeall"})
			open = nil
			break
		}
		k := g.rnd.Intn(len(open))
		items = append(items, mkItem{K: "close", Name: open[k]})
		open = append(open[:k:k], open[k+1:]...)
		if g.rnd.Intn(3) == 0 {
			items = append(items, mkItem{K: "ch", C: g.textChar()})
		}
	}
	if edgeWs && g.rnd.Intn(2) == 0 && items[len(items)-1].K != "pfx" {
		items = append(items, mkItem{K: "ch", C: g.blank()})
	}
	return items
}

func mkIsBlankItem(it mkItem) bool { return it.K == "ch" && (it.C == 32 || it.C == 9) }

// mkSwallowed tells whether item i (0-based) is a blank eaten by the self-closing marker
// before it (rule 5; the linear form Markup!SwC13 of the specification).
func mkSwallowed(items []mkItem, i int) bool {
	if i < 1 || !mkIsBlankItem(items[i]) || items[i-1].K != "self" {
		return false
	}
	for _, p := range items[i-1].Props {
		if mkStr(p.N) == "trimwhitespace" && p.V.T == "bool" && !p.V.B {
			return false
		}
	}
	if i == 1 {
		return true
	}
	prev := items[i-2]
	return (mkIsBlankItem(prev) && !mkSwallowed(items, i-2)) || (prev.K == "pfx" && len(prev.Ws) > 0)
}

func markupGen(m map[string]string) error {
	n := argInt(m, "n", 1000)
	maxItems := argInt(m, "max", 36)
	out, err := newNDJSON(m["out"])
	if err != nil {
		return err
	}
	g := &mkGen{rnd: rand.New(rand.NewSource(Seed()))}
	for id := 1; id <= n; id++ {
		runner := id%3 != 0
		mx := maxItems
		if id%5 == 0 {
			mx = 6
		}
		if id%40 == 7 {
			mx = 10 * maxItems // lines of hundreds of characters and dozens of markers
		}
		c := mkCase{ID: id, Items: g.line(mx, runner), Runner: runner}
		if err := out.Write(c); err != nil {
			return err
		}
	}
	return out.Close()
}

// ------------------------------------------------------------------ record

type mkEvent struct {
	Ev      string   `json:"ev"`
	ID      int      `json:"id"`
	Via     string   `json:"via"`
	Items   []mkItem `json:"items"`
	Input   []int    `json:"input"`
	Outcome string   `json:"outcome"`
	Got     mkRes    `json:"got"`
}

// mkRunnerLines builds a one-node script from the lines, checks that the Yarn front end
// hands each line to the markup parser unchanged (otherwise the batch is not judged
// through the runner) and returns what the runner yields for every line.
func mkRunnerLines(lines []string) (res []mkRes, ok bool) {
	var sb strings.Builder
	sb.WriteString("title: Start\n---\n")
	for _, l := range lines {
		sb.WriteString(l)
		sb.WriteString("\n")
	}
	sb.WriteString("===\n")
	script := sb.String()
	same := false
	if !guarded(func() {
		d, err := tree.FromReaders(strings.NewReader(script))
		if err != nil || d == nil || len(d.Nodes) != 1 || len(d.Nodes[0].Statements) != len(lines) {
			return
		}
		for i, st := range d.Nodes[0].Statements {
			if st.LineStatement == nil || st.LineStatement.Text == nil || len(st.LineStatement.Tags) != 0 {
				return
			}
			var b strings.Builder
			for _, e := range st.LineStatement.Text.Elements {
				if e.Expression != nil {
					return
				}
				b.WriteString(e.Text)
			}
			if b.String() != lines[i] {
				return
			}
		}
		same = true
	}) || !same {
		return nil, false
	}
	var runner *ysgo.DialogueRunner
	if !guarded(func() {
		r, err := ysgo.NewDialogueRunner(nil, "verif", strings.NewReader(script))
		if err == nil {
			runner = r
		}
	}) || runner == nil {
		return nil, false
	}
	kept := make([]*ysgo.DialogueElement, len(lines)) // the host keeps what it was given (a backlog)
	for i := range lines {
		var r mkRes
		if !guarded(func() {
			el, err := runner.Next(0)
			switch {
			case err != nil:
				r = mkFail("error")
			case el == nil || el.Line == nil:
				r = mkFail("desync")
			default:
				kept[i] = el
				r = mkConvertResult(&el.Line.ParseResult)
			}
		}) {
			r = mkFail("panic")
		}
		if r.Outcome == "desync" {
			return nil, false
		}
		res = append(res, r)
	}
	// ... and looks at it again later: every result is still what it was when it was returned
	for i, el := range kept {
		if el == nil {
			continue
		}
		var again mkRes
		if !guarded(func() { again = mkConvertResult(&el.Line.ParseResult) }) {
			again = mkFail("panic")
		}
		if mkCanon(again) != mkCanon(res[i]) || mkStr(again.Text) != mkStr(res[i].Text) {
			again.Later = true
			res[i] = again
		}
	}
	return res, true
}

func markupRecord(m map[string]string) error {
	raws, err := readNDJSON(m["cases"])
	if err != nil {
		return err
	}
	out, err := newNDJSON(m["out"])
	if err != nil {
		return err
	}
	rnd := rand.New(rand.NewSource(Seed() + 7))
	cases := make([]mkCase, len(raws))
	lines := make([]string, len(raws))
	for i, raw := range raws {
		if err := json.Unmarshal(raw, &cases[i]); err != nil {
			return err
		}
		layout := mkLayout{rnd: rnd}
		if i%4 == 0 {
			layout = mkLayout{}
		}
		lines[i] = layout.line(cases[i].Items)
	}
	if in := m["input"]; in != "" && len(lines) > 0 { // replay: the stored concrete line of the (single) case
		var c []int
		if err := json.Unmarshal([]byte(in), &c); err != nil {
			return err
		}
		lines[0] = mkStr(c)
	}
	nRunner, nSkipped := 0, 0
	for i, c := range cases {
		ev := mkEvent{Ev: "parse", ID: c.ID, Via: "direct", Items: c.Items, Input: mkCps(lines[i])}
		ev.Got = mkParse(&markup.LineParser{}, lines[i])
		ev.Outcome = ev.Got.Outcome
		if err := out.Write(ev); err != nil {
			return err
		}
	}
	// through the dialogue runner, in batches of up to 25 lines per script
	batch := []int{}
	flush := func() error {
		if len(batch) == 0 {
			return nil
		}
		ls := make([]string, len(batch))
		for k, i := range batch {
			ls[k] = lines[i]
		}
		res, ok := mkRunnerLines(ls)
		if !ok {
			nSkipped += len(batch)
		} else {
			for k, i := range batch {
				ev := mkEvent{Ev: "parse", ID: cases[i].ID, Via: "runner", Items: cases[i].Items, Input: mkCps(lines[i]),
					Got: res[k], Outcome: res[k].Outcome}
				nRunner++
				if err := out.Write(ev); err != nil {
					return err
				}
			}
		}
		batch = batch[:0]
		return nil
	}
	for i, c := range cases {
		if !c.Runner {
			continue
		}
		batch = append(batch, i)
		if len(batch) == 25 {
			if err := flush(); err != nil {
				return err
			}
		}
	}
	if err := flush(); err != nil {
		return err
	}
	if err := out.Close(); err != nil {
		return err
	}
	stats, _ := json.Marshal(map[string]any{"cases": len(cases), "runner_events": nRunner, "runner_skipped": nSkipped})
	fmt.Println(string(stats))
	return nil
}
