package verifharness

import (
	"encoding/hex"
	"encoding/json"
	"fmt"
	"math/rand"
	"os"
	"reflect"
	"sort"

	ysgo "github.com/remieven/ysgo"
)

// Sub-command `core`:
//
//	verifh core gen    --family F --n N --out cases.ndjson
//	verifh core replay --cases cases.ndjson --beh beh.ndjson --out diffs.ndjson [--layouts K]
//	    spec -> code: replays TLC-generated behaviours (spec/MC_Runner.tla) on the real runner
//	verifh core record --cases cases.ndjson --out trace.ndjson [--paths K] [--mode M] [--layouts K]
//	    code -> spec: drives the real runner along random paths, one event per public call
//	    (validated by spec/YarnTrace.tla)
//	verifh core ast    --cases cases.ndjson --out diffs.ndjson --layouts K
//	    parsed dialogue of every rendering == the generator's AST, and pairwise DeepEqual
func init() { register("core", coreMain) }

func coreMain(args []string) error {
	if len(args) == 0 {
		return fmt.Errorf("core: missing mode")
	}
	m := argMap(args[1:])
	switch args[0] {
	case "gen":
		return coreGen(m)
	case "replay":
		return coreReplay(m)
	case "record":
		return coreRecord(m)
	case "ast":
		return coreAST(m)
	case "render":
		return coreRender(m)
	case "rerun":
		return coreRerun(m)
	case "cmdrace":
		return coreCmdRace(m)
	case "exprrows":
		return coreExprRows(m)
	case "widearith":
		return coreWideArith(m)
	case "astone":
		return coreASTOne(m)
	case "concurrent":
		return coreConcurrent(m)
	case "fromscripts":
		return coreFromScripts(m)
	}
	return fmt.Errorf("core: unknown mode %s", args[0])
}

func loadCases(path string) ([]*Case, error) {
	lines, err := readNDJSON(path)
	if err != nil {
		return nil, err
	}
	cases := make([]*Case, len(lines))
	for i, raw := range lines {
		c := &Case{}
		if err := json.Unmarshal(raw, c); err != nil {
			return nil, fmt.Errorf("case %d: %w", i+1, err)
		}
		cases[i] = c
	}
	return cases, nil
}

func coreGen(m map[string]string) error {
	if m["family"] == "domain" {
		// deterministic enumeration; n cases starting at a seed-dependent offset (all of them if n >= count)
		w, err := newNDJSON(m["out"])
		if err != nil {
			return err
		}
		total := domainCaseCount()
		n := argInt(m, "n", total)
		if n > total {
			n = total
		}
		start := int((Seed() * 7919) % int64(total))
		for i := 0; i < n; i++ {
			// stride through the table so that a sample covers every function/kind/position
			id := (start+i*37)%total + 1
			if n == total {
				id = i + 1
			}
			if err := w.Write(genDomainCase(id)); err != nil {
				return err
			}
		}
		return w.Close()
	}
	if m["family"] == "tiny" {
		// systematic enumeration by index; a sample strides through the whole family from a
		// seed-dependent offset (n >= count: the whole family)
		w, err := newNDJSON(m["out"])
		if err != nil {
			return err
		}
		total := tinyCaseCount()
		n := argInt(m, "n", 300)
		if n > total {
			n = total
		}
		start := int((Seed() * 104729) % int64(total))
		stride := total/n | 1
		for i := 0; i < n; i++ {
			id := (start+i*stride)%total + 1
			if n == total {
				id = i + 1
			}
			if err := w.Write(genTinyCase(id)); err != nil {
				return err
			}
		}
		return w.Close()
	}
	cfg, ok := families[m["family"]]
	if !ok {
		return fmt.Errorf("unknown family %q", m["family"])
	}
	n := argInt(m, "n", 100)
	w, err := newNDJSON(m["out"])
	if err != nil {
		return err
	}
	rnd := rand.New(rand.NewSource(Seed()*7919 + int64(len(cfg.Family))))
	seen := map[string]bool{}
	for id := 1; id <= n; id++ {
		var c *Case
		for try := 0; try < 20; try++ {
			c = genCase(rnd, cfg, id)
			if key := c.canonical(); !seen[key] {
				seen[key] = true
				break
			}
		}
		if st := m["storer"]; st != "" {
			c.Storer = st
		}
		if err := w.Write(c); err != nil {
			return err
		}
	}
	return w.Close()
}

func coreRender(m map[string]string) error {
	cases, err := loadCases(m["cases"])
	if err != nil {
		return err
	}
	idx := argInt(m, "index", 1)
	l := canonicalLayout()
	if m["layout"] == "random" {
		l = randomLayout(rand.New(rand.NewSource(Seed())))
	}
	for i, t := range renderCase(cases[idx-1], l) {
		fmt.Printf("----- reader %d\n%s", i+1, t)
	}
	return nil
}

// ------------------------------------------------------------------ replay

type behStep struct {
	Ev string `json:"ev"`
	In struct {
		Choice int  `json:"choice"`
		Done   bool `json:"done"`
		Err    bool `json:"err"`
	} `json:"in"`
	Var    string          `json:"var"`
	Val    Val             `json:"val"`
	What   string          `json:"what"` // rebind: "f" | "c"
	Name   string          `json:"name"`
	Kind   string          `json:"kind"`
	Node   string          `json:"node"` // snaphand
	H      int             `json:"h"`
	Snap   json.RawMessage `json:"snap"`
	Ok     bool            `json:"ok"`
	Out    json.RawMessage `json:"out"`
	Writes json.RawMessage `json:"writes"`
	Fcalls json.RawMessage `json:"fcalls"`
	Ccalls json.RawMessage `json:"ccalls"`
	Vars   json.RawMessage `json:"vars"`
	Visits json.RawMessage `json:"visits"`
}

type behaviour struct {
	Case  int       `json:"case"`
	Steps []behStep `json:"steps"`
}

// jsonEqual compares the expected JSON (from TLC) with a Go value structurally.
func jsonEqual(exp json.RawMessage, got any) bool {
	var a, b any
	if err := json.Unmarshal(exp, &a); err != nil {
		return false
	}
	gb, err := json.Marshal(got)
	if err != nil {
		return false
	}
	if err := json.Unmarshal(gb, &b); err != nil {
		return false
	}
	return reflect.DeepEqual(a, b)
}

type replayDiff struct {
	Case   int             `json:"case"`
	Beh    int             `json:"beh"`
	Step   int             `json:"step"`
	Field  string          `json:"field"`
	Exp    json.RawMessage `json:"exp"`
	Got    any             `json:"got"`
	Panic  string          `json:"panic,omitempty"`
	Layout map[string]any  `json:"layout"`
	Texts  []string        `json:"texts"`
}

// arbitraryArg: an argument for Next when no choice is pending (it must be ignored).
func arbitraryArg(rnd *rand.Rand) int {
	return []int{0, 0, 1, -1, 7, 1 << 30, -5}[rnd.Intn(7)]
}

func coreReplay(m map[string]string) error {
	cases, err := loadCases(m["cases"])
	if err != nil {
		return err
	}
	byID := map[int]*Case{}
	for _, c := range cases {
		byID[c.ID] = c
	}
	lines, err := readNDJSON(m["beh"])
	if err != nil {
		return err
	}
	w, err := newNDJSON(m["out"])
	if err != nil {
		return err
	}
	randomLayouts := m["layouts"] == "random"
	fixedTexts, err := loadFixedTexts(m["texts"])
	if err != nil {
		return err
	}
	orig := len(lines)
	if m["bystander"] == "all" {
		lines = append(lines, lines...)
	}
	diffs := make([]*replayDiff, len(lines))
	stepCounts := make([]int, len(lines))
	errs := make([]error, len(lines))
	base := Seed()
	parallelFor(len(lines), func(bi int) {
		rnd := rand.New(rand.NewSource(base + int64(bi)*1000003))
		pass, bidx := bi/orig, bi%orig
		var b behaviour
		if err := json.Unmarshal(lines[bi], &b); err != nil {
			errs[bi] = err
			return
		}
		c := byID[b.Case]
		if c == nil {
			errs[bi] = fmt.Errorf("behaviour %d refers to unknown case %d", bi, b.Case)
			return
		}
		l := canonicalLayout()
		if randomLayouts {
			l = randomLayout(rnd)
		}
		texts := renderCase(c, l)
		if t, ok := fixedTexts[c.ID]; ok {
			texts = t // a hand-written script is replayed as it was written (core fromscripts)
		}
		// a bystander: another runner of this process (its own program, storer, host functions and
		// commands under the same names), created before or after the runner under test and stepped
		// now and then in between - what it does is nobody else's business
		var by *bystander
		byMode := rnd.Intn(4)
		if m["bystander"] == "all" {
			byMode = 1 + pass%2 // (replay of a stored behaviour: once with a bystander created before, once after)
		}
		if byMode == 1 {
			by = newBystander(cases[rnd.Intn(len(cases))], rnd)
		}
		h, err := newHost(c, texts)
		if err != nil {
			diffs[bi] = &replayDiff{Case: c.ID, Beh: bidx, Step: -1, Field: "load", Got: err.Error(), Layout: l.describe(), Texts: texts}
			return
		}
		if byMode == 2 {
			by = newBystander(cases[rnd.Intn(len(cases))], rnd)
		}
		waitingForChoice := false
		type taken struct {
			s  *ysgo.Snapshot
			at snapContent
		}
		snaps := map[int]taken{}
		// a snapshot is a self-contained value: whatever happens later, it reads the same
		snapsUnchanged := func(si int) bool {
			for hnd, t := range snaps {
				if now := h.readSnap(t.s); !reflect.DeepEqual(now, t.at) {
					exp, _ := json.Marshal(t.at)
					diffs[bi] = &replayDiff{Case: c.ID, Beh: bidx, Step: si, Field: "snapshot-changed", Exp: exp,
						Got: map[string]any{"handle": hnd, "now": now}, Layout: l.describe(), Texts: texts}
					return false
				}
			}
			return true
		}
		for si, st := range b.Steps {
			stepCounts[bi]++
			by.poke()
			if st.Ev == "hostset" {
				h.hostSet(st.Var, st.Val)
				continue
			}
			if st.Ev == "rebind" {
				h.rebind(st.What, st.Name, st.Kind)
				continue
			}
			if st.Ev == "snap" {
				var sn *ysgo.Snapshot
				if !guarded(func() { sn = h.dr.Snapshot() }) || sn == nil {
					diffs[bi] = &replayDiff{Case: c.ID, Beh: bidx, Step: si, Field: "snapshot", Exp: st.Snap, Got: "panic or nil", Layout: l.describe(), Texts: texts}
					return
				}
				at := h.readSnap(sn)
				snaps[st.H] = taken{sn, at}
				if !jsonEqual(st.Snap, at) {
					diffs[bi] = &replayDiff{Case: c.ID, Beh: bidx, Step: si, Field: "snapshot", Exp: st.Snap, Got: at, Layout: l.describe(), Texts: texts}
					return
				}
				continue
			}
			if st.Ev == "snaphand" {
				// the host writes a snapshot by hand: only the node, no maps at all
				sn := &ysgo.Snapshot{CurrentNode: st.Node}
				snaps[st.H] = taken{sn, h.readSnap(sn)}
				continue
			}
			if st.Ev == "restore" {
				var rerr error
				panicked := !guarded(func() { rerr = h.dr.RestoreAt(snaps[st.H].s) })
				ok := rerr == nil && !panicked
				if ok != st.Ok {
					exp, _ := json.Marshal(st.Ok)
					diffs[bi] = &replayDiff{Case: c.ID, Beh: bidx, Step: si, Field: "restore-result", Exp: exp, Got: ok, Layout: l.describe(), Texts: texts}
					return
				}
				h.pending = nil
				waitingForChoice = false
				if !snapsUnchanged(si) {
					return
				}
				continue
			}
			if st.In.Done {
				h.complete(st.In.Err)
			}
			arg := st.In.Choice
			if !waitingForChoice {
				arg = arbitraryArg(rnd)
			}
			var prevVars []Val
			if h.rec != nil {
				prevVars = h.vars()
			}
			obs := h.next(arg)
			waitingForChoice = obs.Out["k"] == "opts"
			if jsonEqual(st.Out, map[string]any{"k": "oos"}) {
				// the model gives no verdict from here on, except that nothing may panic and the
				// runner stays usable: drive it a few more calls
				for extra := 0; extra < 6 && obs.Panic == ""; extra++ {
					k := obs.Out["k"]
					if k == "end" || k == "waiting" {
						break
					}
					obs = h.next(0)
				}
				if obs.Panic != "" {
					diffs[bi] = &replayDiff{Case: c.ID, Beh: bidx, Step: si, Field: "out", Exp: json.RawMessage(`{"k":"anything but a panic"}`),
						Got: obs.Out, Panic: obs.Panic, Layout: l.describe(), Texts: texts}
				}
				return
			}
			var field string
			var exp json.RawMessage
			var got any
			switch {
			case !jsonEqual(st.Out, obs.Out):
				field, exp, got = "out", st.Out, obs.Out
			case !jsonEqual(st.Fcalls, obs.Fcalls):
				field, exp, got = "fcalls", st.Fcalls, obs.Fcalls
			case !jsonEqual(st.Ccalls, obs.Ccalls):
				field, exp, got = "ccalls", st.Ccalls, obs.Ccalls
			case h.rec != nil && !sameEffectiveWrites(prevVars, h.c.Vars, st.Writes, obs.Writes):
				field, exp, got = "writes", st.Writes, obs.Writes
			case h.storer != nil && !jsonEqual(st.Vars, obs.Vars):
				field, exp, got = "vars", st.Vars, obs.Vars
			case !jsonEqual(st.Visits, obs.Visits):
				field, exp, got = "visits", st.Visits, obs.Visits
			}
			if field != "" {
				diffs[bi] = &replayDiff{Case: c.ID, Beh: bidx, Step: si, Field: field, Exp: exp, Got: got, Panic: obs.Panic,
					Layout: l.describe(), Texts: texts}
				return
			}
			if !snapsUnchanged(si) {
				return
			}
		}
	})
	steps, loadFailures := 0, 0
	for bi := range lines {
		if errs[bi] != nil {
			return errs[bi]
		}
		steps += stepCounts[bi]
		if d := diffs[bi]; d != nil {
			if d.Field == "load" {
				loadFailures++
			}
			if err := w.Write(d); err != nil {
				return err
			}
		}
	}
	fmt.Printf("{\"behaviours\":%d,\"steps\":%d,\"loadFailures\":%d}\n", len(lines), steps, loadFailures)
	return w.Close()
}

// --------------------------------------------------------------------- ast

type astDiff struct {
	Case   int            `json:"case"`
	What   string         `json:"what"`
	Detail string         `json:"detail"`
	Layout map[string]any `json:"layout"`
	Texts  []string       `json:"texts"`
	Base   []string       `json:"base,omitempty"`
}

func coreAST(m map[string]string) error {
	cases, err := loadCases(m["cases"])
	if err != nil {
		return err
	}
	w, err := newNDJSON(m["out"])
	if err != nil {
		return err
	}
	k := argInt(m, "layouts", 3)
	rnd := rand.New(rand.NewSource(Seed() + 17))
	renderings, distinctLayouts := 0, map[string]bool{}
	var lexw *ndjsonWriter
	if m["dumplex"] != "" {
		// every rendered reader also goes to the token-level check (spec/LexTrace.tla)
		lexw, err = newNDJSON(m["dumplex"])
		if err != nil {
			return err
		}
		defer lexw.Close()
	}
	lexID := 0
	for _, c := range cases {
		want := c.canonical()
		base := renderCase(c, canonicalLayout())
		baseTree, baseErr := parseTexts(base)
		for i := 0; i <= k; i++ {
			l := canonicalLayout()
			texts := base
			if i > 0 {
				l = randomLayout(rnd)
				// reader split is layout too
				cc := *c
				if len(c.Nodes) > 1 && rnd.Intn(2) == 0 {
					cut := 1 + rnd.Intn(len(c.Nodes)-1)
					cc.Readers = []int{cut, len(c.Nodes) - cut}
				} else {
					cc.Readers = []int{len(c.Nodes)}
				}
				texts = renderCase(&cc, l)
			}
			renderings++
			if lexw != nil {
				for _, t := range texts {
					lexID++
					if err := lexw.Write(lexInput{ID: lexID, Kind: fmt.Sprintf("case %d layout %d", c.ID, i), Hex: hex.EncodeToString([]byte(t))}); err != nil {
						return err
					}
				}
			}
			lb, _ := json.Marshal(l.describe())
			distinctLayouts[string(lb)] = true
			d, err := parseTexts(texts)
			if err != nil {
				if werr := w.Write(astDiff{Case: c.ID, What: "load-error", Detail: err.Error(), Layout: l.describe(), Texts: texts}); werr != nil {
					return werr
				}
				continue
			}
			got, bad := caseOfDialogue(d)
			if len(bad) > 0 || got.canonical() != want {
				detail := fmt.Sprintf("parsed: %s\nwanted: %s\nproblems: %v", got.canonical(), want, bad)
				if werr := w.Write(astDiff{Case: c.ID, What: "ast-differs-from-generator", Detail: detail, Layout: l.describe(), Texts: texts}); werr != nil {
					return werr
				}
				continue
			}
			if i > 0 && baseErr == nil && !reflect.DeepEqual(d, baseTree) {
				if werr := w.Write(astDiff{Case: c.ID, What: "dialogues-not-deep-equal", Layout: l.describe(), Texts: texts, Base: base}); werr != nil {
					return werr
				}
			}
		}
	}
	fmt.Printf("{\"cases\":%d,\"renderings\":%d,\"distinctLayouts\":%d}\n", len(cases), renderings, len(distinctLayouts))
	return w.Close()
}

// ------------------------------------------------------------------ record

// traceEvent is one line of trace.ndjson (spec/YarnTrace.tla).
type traceEvent struct {
	Ev   string `json:"ev"`
	Case int    `json:"case"` // 1-based index into cases.ndjson (reset events)
	ID   int    `json:"id"`   // case id
	R    int    `json:"r"`    // runner
	In   *struct {
		Choice int  `json:"choice"`
		Done   bool `json:"done"`
		Err    bool `json:"err"`
	} `json:"in,omitempty"`
	Arg    int          `json:"arg"` // the argument actually passed to Next
	Obs    *stepObs     `json:"obs,omitempty"`
	Var    string       `json:"var,omitempty"`
	Val    *Val         `json:"val,omitempty"`
	H      int          `json:"h"` // snapshot handle
	Snap   *snapContent `json:"snap,omitempty"`
	Ok     bool         `json:"ok"`
	Layout int          `json:"layout"`
}

func sortedVals(m map[string]Val) []string {
	ks := make([]string, 0, len(m))
	for k := range m {
		ks = append(ks, k)
	}
	sort.Strings(ks)
	return ks
}

// coreASTOne re-checks one stored rendering (replay of a C08 violation).
func coreASTOne(m map[string]string) error {
	raw, err := os.ReadFile(m["in"])
	if err != nil {
		return err
	}
	var in struct {
		Texts []string `json:"texts"`
		Base  []string `json:"base"`
		Case  *Case    `json:"case"`
	}
	if err := json.Unmarshal(raw, &in); err != nil {
		return err
	}
	what := ""
	d, perr := parseTexts(in.Texts)
	switch {
	case perr != nil:
		what = "load-error"
	default:
		got, bad := caseOfDialogue(d)
		if len(bad) > 0 || got.canonical() != in.Case.canonical() {
			what = "ast-differs-from-generator"
		} else {
			base := in.Base
			if base == nil {
				base = renderCase(in.Case, canonicalLayout())
			}
			if bt, err := parseTexts(base); err == nil && !reflect.DeepEqual(d, bt) {
				what = "dialogues-not-deep-equal"
			}
		}
	}
	fmt.Printf("{\"what\":%q}\n", what)
	return nil
}

// sameEffectiveWrites compares two write logs by effect: writes that store the value a variable
// already has are dropped on both sides (see EffWrites in spec/YarnTrace.tla).
func sameEffectiveWrites(prev []Val, names []string, exp json.RawMessage, got []writeRec) bool {
	var expW []writeRec
	if err := json.Unmarshal(exp, &expW); err != nil {
		return false
	}
	eff := func(ws []writeRec) []writeRec {
		cur := map[string]Val{}
		for i, n := range names {
			if i < len(prev) {
				cur[n] = prev[i]
			}
		}
		var out []writeRec
		for _, w := range ws {
			if v, ok := cur[w.Var]; ok && v == w.Val {
				continue
			}
			cur[w.Var] = w.Val
			out = append(out, w)
		}
		return out
	}
	a, _ := json.Marshal(eff(expW))
	b, _ := json.Marshal(eff(got))
	return string(a) == string(b)
}
