package verifharness

import (
	"fmt"
	"math/rand"
	"sync"
	"time"

	ysgo "github.com/remieven/ysgo"
)

// verifh core cmdrace --n N --cases cases.ndjson --out trace.ndjson
//
// Property C10 with real goroutines (meant to be built with -race): handlers of every
// supported shape registered through ConvertAndAddCommand, each blocked on a gate that the
// harness opens at a time of its choosing; Next is polled from the driving goroutine; the
// built-in <<wait n>> is timed with the monotonic clock.  One event per Next call, labelled
// after the fact: a call that answered "waiting" is a poll before completion was visible
// (in.done = false), the first call that answers anything else consumed the completion
// (in.done = true, in.err = what the handler reported).  Both orders of "handler returned"
// and "Next polled" are legal for a waiting answer, so scheduling cannot cause a false alarm.

type gate struct {
	mu         sync.Mutex
	started    chan struct{} // a handler has been entered
	release    chan bool     // value = report an error
	calls      []callRec
	chanMode   chan error // for channel-returning shapes: the channel the harness fills
	unbuffered bool       // ... which is unbuffered: the harness sends from a goroutine
}

func newGate() *gate {
	return &gate{started: make(chan struct{}, 64), release: make(chan bool, 64)}
}

func (g *gate) enter(name string, args []Val) {
	g.mu.Lock()
	g.calls = append(g.calls, callRec{name, args})
	g.mu.Unlock()
	g.started <- struct{}{}
}

func (g *gate) takeCalls() []callRec {
	g.mu.Lock()
	defer g.mu.Unlock()
	c := g.calls
	g.calls = nil
	if c == nil {
		c = []callRec{}
	}
	return c
}

var errGate = fmt.Errorf("handler reported an error")

func numVal(f float64) Val { return valOfFloat(f) }

// registerShapes registers one handler per supported shape.
func registerShapes(dr *ysgo.DialogueRunner, g *gate) error {
	blockErr := func() error {
		if <-g.release {
			return errGate
		}
		return nil
	}
	// returns nothing
	if err := dr.ConvertAndAddCommand("h0", func() {
		g.enter("h0", []Val{})
		<-g.release
	}); err != nil {
		return err
	}
	// returns an error
	if err := dr.ConvertAndAddCommand("h1", func(x float64) error {
		g.enter("h1", []Val{numVal(x)})
		return blockErr()
	}); err != nil {
		return err
	}
	// returns a channel (the bridge calls these synchronously; they must not block)
	if err := dr.ConvertAndAddCommand("h2", func(s string, b bool) chan error {
		g.enter("h2", []Val{valOfString(s), {T: "b", B: b}})
		// an UNBUFFERED channel owned by the handler: completion is a sender blocked on it
		ch := make(chan error)
		g.chanMode = ch
		g.unbuffered = true
		return ch
	}); err != nil {
		return err
	}
	if err := dr.ConvertAndAddCommand("h3", func(n int) <-chan error {
		g.enter("h3", []Val{numVal(float64(n))})
		ch := make(chan error, 1)
		g.chanMode = ch
		g.unbuffered = false
		return ch
	}); err != nil {
		return err
	}
	// variadic, returns an error
	return dr.ConvertAndAddCommand("h4", func(xs ...float64) error {
		args := make([]Val, len(xs))
		for i, x := range xs {
			args[i] = numVal(x)
		}
		g.enter("h4", args)
		return blockErr()
	})
}

var raceCmds = map[string]string{"h0": "pend", "h1": "pend", "h2": "pend", "h3": "pend", "h4": "pend", "wait": "pendq"}

// genCmdRaceCase: lines, sets, simple options and commands of every shape (and <<wait n>>).
func genCmdRaceCase(rnd *rand.Rand, id int) *Case {
	// a case uses either gated host handlers or the built-in wait, never both: the recorder then
	// knows what kind of command is pending without guessing from timing
	waitOnly := id%3 == 0
	family := "cmdrace-gate"
	if waitOnly {
		family = "cmdrace-wait"
	}
	c := &Case{ID: id, Family: family, Funcs: defaultFuncs(), Cmds: raceCmds, Storer: "recording", Vars: []string{"x"}}
	c.Nodes = []Node{{Title: "Start"}, {Title: "Beta"}}
	lineNo := 0
	line := func() Stmt {
		lineNo++
		return Stmt{K: "line", Text: []Part{{Lit: fmt.Sprintf("L%d x=", lineNo)}, {E: eVar("x")}}}
	}
	cmd := func() Stmt {
		k := rnd.Intn(5)
		if waitOnly {
			k = 5
		}
		switch k {
		case 0:
			return Stmt{K: "cmd", Elems: []*Expr{eStr("h0")}}
		case 1:
			if rnd.Intn(3) == 0 {
				// an expression over negated literals: converted to the float64 parameter at every dispatch alike
				return Stmt{K: "cmd", Elems: []*Expr{eStr("h1"), eBin("add", eNeg(eNum(1+rnd.Intn(3), 1)), eNeg(eNum(1, 2)))}}
			}
			return Stmt{K: "cmd", Elems: []*Expr{eStr("h1"), eNum(rnd.Intn(9)-4, 1)}}
		case 2:
			return Stmt{K: "cmd", Elems: []*Expr{eStr("h2"), eStr([]string{"north", "word"}[rnd.Intn(2)]), eBool(rnd.Intn(2) == 0)}}
		case 3:
			return Stmt{K: "cmd", Elems: []*Expr{eStr("h3"), eCall("p1", eBin("add", eVar("x"), eNum(1, 1)))}}
		case 4:
			el := []*Expr{eStr("h4")}
			for k := rnd.Intn(4); k > 0; k-- {
				el = append(el, eNum(rnd.Intn(5), []int{1, 2}[rnd.Intn(2)]))
			}
			for _, e := range el[1:] { // keep literals in lowest terms
				if e.D == 2 && e.N%2 == 0 {
					e.N, e.D = e.N/2, 1
				}
			}
			return Stmt{K: "cmd", Elems: el}
		default:
			// dyadic fractions of a second, some of them not a whole number of milliseconds (1/256 s = 3.90625 ms)
			w := [][2]int{{0, 1}, {1, 16}, {1, 4}, {1, 8}, {3, 8}, {1, 256}, {3, 256}, {5, 128}, {1, 128}}[rnd.Intn(9)]
			return Stmt{K: "cmd", Elems: []*Expr{eStr("wait"), eNum(w[0], w[1])}}
		}
	}
	var body func(depth int) []Stmt
	body = func(depth int) []Stmt {
		var out []Stmt
		for i := 1 + rnd.Intn(4); i > 0; i-- {
			switch r := rnd.Intn(10); {
			case r < 4:
				// a line follows every command, so that one Next call never both consumes a
				// completion and dispatches the next command (the recorder labels calls by result)
				out = append(out, cmd(), line())
			case r < 6:
				out = append(out, line())
			case r < 7:
				out = append(out, Stmt{K: "set", Var: "x", Op: "+=", E: eNum(1, 1)})
			case r < 8 && depth < 2 && (len(out) == 0 || out[len(out)-1].K != "opts"):
				st := Stmt{K: "opts"}
				for k := 1 + rnd.Intn(2); k > 0; k-- {
					lineNo++
					st.Opts = append(st.Opts, Option{Text: []Part{{Lit: fmt.Sprintf("O%d", lineNo)}}, Body: c.addBody(body(depth + 1))})
				}
				out = append(out, st)
			case r < 9 && depth > 0:
				out = append(out, Stmt{K: "jump", E: eStr("Beta")})
				return out
			default:
				out = append(out, line())
			}
		}
		return out
	}
	start := append([]Stmt{{K: "line", Text: []Part{{Lit: "Node Start"}}}, {K: "set", Var: "x", Op: "=", E: eNum(0, 1)}}, body(0)...)
	c.Nodes[0].Body = c.addBody(start)
	c.Nodes[1].Body = c.addBody(append([]Stmt{{K: "line", Text: []Part{{Lit: "Node Beta"}}}}, body(1)...))
	c.Readers = []int{2}
	return c
}

func nextWithWatchdog(h *host, choice int, limit time.Duration) (obs stepObs, blocked bool) {
	done := make(chan stepObs, 1)
	go func() { done <- h.next(choice) }()
	select {
	case o := <-done:
		return o, false
	case <-time.After(limit):
		return stepObs{Out: map[string]any{"k": "blocked"}, Writes: []writeRec{}, Fcalls: []callRec{}, Ccalls: []callRec{},
			Vars: []Val{}, Visits: []int{}}, true
	}
}

func driveCmdRace(ci int, c *Case, rnd *rand.Rand) []recEvent {
	var evs []recEvent
	texts := renderCase(c, canonicalLayout())
	evs = append(evs, recEvent{Ev: "reset", Case: ci, ID: c.ID, Texts: texts})
	h, err := newHost(c, texts)
	if err != nil {
		f := false
		return append(evs, recEvent{Ev: "loadfail", ID: c.ID, Ok: &f, Var: err.Error()})
	}
	g := newGate()
	if err := registerShapes(h.dr, g); err != nil {
		f := false
		return append(evs, recEvent{Ev: "loadfail", ID: c.ID, Ok: &f, Var: "registration refused: " + err.Error()})
	}
	// a snapshot of the fresh runner: restoring it while a handler is still running abandons that
	// call (its outcome, reported later, concerns nobody - in particular not the next call of the
	// same command)
	var snap0 *ysgo.Snapshot
	if c.Family == "cmdrace-gate" && guarded(func() { snap0 = h.dr.Snapshot() }) && snap0 != nil {
		sc := h.readSnap(snap0)
		evs = append(evs, recEvent{Ev: "snap", ID: c.ID, R: 1, H: 1, Snap: &sc})
	}
	restores := 0
	caseStart := time.Now()
	// microseconds since the start of the case (a case lasts a few seconds at most: fits in 31 bits)
	ms := func(t time.Time) int { return int(t.Sub(caseStart) / time.Microsecond) }
	const (
		kUnknown = iota // a host handler was dispatched but has not been entered yet
		kHandler        // a gated host handler is running
		kWait           // the built-in wait
	)
	waitOnly := c.Family == "cmdrace-wait"
	waiting, nopts := false, 0
	pending, kind := false, kUnknown
	released, releasedErr := false, false
	dispatchIdx := -1 // event of the call that dispatched the pending command
	var dispatchAt time.Time
	polls := 0
	maxCalls := 8000 // polls included
	if waitOnly {
		maxCalls = 900
	}
	shown := 0 // calls that answered something else than "waiting" (polls do not count: a command that never resumes must be polled to the end)
	for call := 0; call < maxCalls && shown < 400; call++ {
		if pending && kind == kUnknown {
			select {
			case <-g.started:
				kind = kHandler
			default:
				if time.Since(dispatchAt) > 20*time.Second {
					kind = kWait // the handler was never entered: the run ends as "stuck"
				}
			}
		}
		in := &recIn{}
		if pending && kind == kHandler && !released && snap0 != nil && restores < 2 && rnd.Intn(5) == 0 {
			restores++
			// the handler has been entered: its invocation is logged by now, and belongs to the call
			// that dispatched it (which may have returned before the handler's goroutine got to log it)
			if calls := g.takeCalls(); len(calls) > 0 && dispatchIdx >= 0 && len(evs[dispatchIdx].Obs.Ccalls) == 0 {
				evs[dispatchIdx].Obs.Ccalls = calls
			}
			var rerr error
			panicked := !guarded(func() { rerr = h.dr.RestoreAt(snap0) })
			ok := rerr == nil && !panicked
			evs = append(evs, recEvent{Ev: "restore", ID: c.ID, R: 1, H: 1, Ok: &ok})
			// the abandoned call now finishes, with an error or without
			if g.chanMode != nil {
				if !g.unbuffered {
					g.chanMode <- errGate
				}
				g.chanMode = nil
			} else {
				g.release <- rnd.Intn(2) == 0
			}
			time.Sleep(2 * time.Millisecond)
			g.takeCalls()
			if !ok {
				return evs
			}
			pending, kind, released, polls, dispatchIdx, waiting = false, kUnknown, false, 0, -1, false
			continue
		}
		if pending && kind == kHandler && !released && (polls >= 2 || rnd.Intn(2) == 0) {
			releasedErr = rnd.Intn(4) == 0
			if g.chanMode != nil {
				var e error
				if releasedErr {
					e = errGate
				}
				if g.unbuffered {
					go func(ch chan error) { ch <- e }(g.chanMode)
				} else {
					g.chanMode <- e
				}
				g.chanMode = nil
			} else {
				g.release <- releasedErr
			}
			released = true
		}
		if pending && !(kind == kWait && time.Since(dispatchAt) < 12*time.Millisecond) {
			// (a wait is polled in a tight loop for its first 12 ms, so that short waits are timed to
			// within microseconds; the polls of that loop are not all recorded, see below)
			time.Sleep(time.Duration(1+rnd.Intn(6)) * time.Millisecond)
		}
		if waiting {
			in.Choice = rnd.Intn(nopts)
		} else {
			in.Choice = arbitraryArg(rnd)
		}
		t0 := time.Now()
		obs, blocked := nextWithWatchdog(h, in.Choice, 5*time.Second)
		t1 := time.Now()
		k := obs.Out["k"]
		if k != "waiting" {
			shown++
		}
		if blocked {
			return append(evs, recEvent{Ev: "next", ID: c.ID, R: 1, In: in, Obs: &obs, T0: ms(t0), T1: ms(t1)})
		}
		calls := g.takeCalls()
		switch {
		case k == "waiting" && !pending: // this call dispatched a command
			pending, kind, released, polls = true, kUnknown, false, 0
			if waitOnly {
				kind = kWait
			}
			dispatchIdx, dispatchAt = len(evs), t0
			obs.Ccalls = calls
		case k == "waiting": // a poll answered before completion was visible
			polls++
			if kind == kWait && polls > 4 && len(calls) == 0 && len(obs.Writes) == 0 && len(obs.Fcalls) == 0 {
				continue // tight polling of a wait: only the first polls are recorded as events
			}
			// a handler that the bridge runs in its own goroutine may log its invocation only
			// after the dispatching call has returned: the invocation belongs to that call
			if len(calls) > 0 && dispatchIdx >= 0 && len(evs[dispatchIdx].Obs.Ccalls) == 0 {
				evs[dispatchIdx].Obs.Ccalls = calls
				calls = []callRec{}
			}
			obs.Ccalls = calls
		case pending: // the first answer other than waiting: the completion was consumed
			if len(calls) > 0 && dispatchIdx >= 0 && len(evs[dispatchIdx].Obs.Ccalls) == 0 {
				evs[dispatchIdx].Obs.Ccalls = calls
				calls = []callRec{}
			}
			obs.Ccalls = calls
			in.Done = kind != kHandler || released // resuming while the handler is still gated is NOT a completion
			in.Err = in.Done && k == "error"
			pending, dispatchIdx = false, -1
		default:
			obs.Ccalls = calls
		}
		// t0 is taken before the call and t1 after it returned: t1 of the resuming call minus t0 of
		// the dispatching call can only over-estimate the time the wait really took, so scheduling
		// delays cannot make a correct <<wait n>> look early
		evs = append(evs, recEvent{Ev: "next", ID: c.ID, R: 1, In: in, Obs: &obs, T0: ms(t0), T1: ms(t1) + 1})
		waiting = false
		switch k {
		case "opts":
			waiting, nopts = true, len(obs.Out["opts"].([]any))
		case "end", "panic":
			return evs
		}
		if polls > 6000 { // never resumes (more than 20 s of polling)
			obs2 := stepObs{Out: map[string]any{"k": "stuck"}, Writes: []writeRec{}, Fcalls: []callRec{}, Ccalls: []callRec{},
				Vars: []Val{}, Visits: []int{}}
			return append(evs, recEvent{Ev: "next", ID: c.ID, R: 1, In: &recIn{Done: true}, Obs: &obs2, T0: ms(t0), T1: ms(time.Now())})
		}
	}
	// the walk stops here (bound reached).  If its last call dispatched a handler that the bridge runs in
	// its own goroutine, that goroutine may not have logged the invocation yet: it belongs to that call
	if pending && kind != kWait && dispatchIdx >= 0 && len(evs[dispatchIdx].Obs.Ccalls) == 0 {
		if kind == kUnknown {
			select {
			case <-g.started:
			case <-time.After(5 * time.Second):
			}
		}
		if calls := g.takeCalls(); len(calls) > 0 {
			evs[dispatchIdx].Obs.Ccalls = calls
		}
	}
	return evs
}

func coreCmdRace(m map[string]string) error {
	n := argInt(m, "n", 40)
	rnd := rand.New(rand.NewSource(Seed()*131 + 7))
	cw, err := newNDJSON(m["cases"])
	if err != nil {
		return err
	}
	cases := make([]*Case, n)
	for i := range cases {
		cases[i] = genCmdRaceCase(rnd, i+1)
		if err := cw.Write(cases[i]); err != nil {
			return err
		}
	}
	if err := cw.Close(); err != nil {
		return err
	}
	w, err := newNDJSON(m["out"])
	if err != nil {
		return err
	}
	meta, err := newNDJSON(m["out"] + ".meta")
	if err != nil {
		return err
	}
	paths := argInt(m, "paths", 2)
	type job struct{ ci, p int }
	var jobs []job
	for ci := range cases {
		for p := 0; p < paths; p++ {
			jobs = append(jobs, job{ci, p})
		}
	}
	results := make([][]recEvent, len(jobs))
	base := Seed()*977 + 3
	parallelFor(len(jobs), func(j int) {
		results[j] = driveCmdRace(jobs[j].ci+1, cases[jobs[j].ci], rand.New(rand.NewSource(base+int64(j)*7919)))
	})
	lines := 0
	for _, evs := range results {
		for _, e := range evs {
			lines++
			if e.Ev == "reset" {
				if err := meta.Write(map[string]any{"line": lines, "id": e.ID, "texts": e.Texts}); err != nil {
					return err
				}
				e.Texts = nil
			}
			if err := w.Write(e); err != nil {
				return err
			}
		}
	}
	fmt.Printf("{\"cases\":%d,\"paths\":%d,\"events\":%d}\n", len(cases), len(jobs), lines)
	if err := meta.Close(); err != nil {
		return err
	}
	return w.Close()
}
