package verifharness

import (
	"fmt"
	"strings"

	ysgo "github.com/remieven/ysgo"
	"github.com/remieven/ysgo/variable"
)

// verifh cmdargs longrun --out trace.ndjson [--n N] [--loops L]
//
// Property C17 at scale: "a generic command reaches the handler registered under its name, once, with its
// arguments in order" - for the 12,000th command of a node as for the first, and for the 3,000th pass
// through a loop (no line in between: the dialogue runs silently for tens of thousands of statements inside
// one Next call).  One event per scenario; spec/LongRunTrace.tla states what each must show.
type longRunEvent struct {
	Kind     string `json:"kind"`     // straight | loop
	N        int    `json:"n"`        // commands the script dispatches before its only line
	Calls    int    `json:"calls"`    // handler invocations observed
	FirstBad int    `json:"firstbad"` // index of the first invocation with a wrong argument (-1: none)
	Outcome  string `json:"outcome"`  // line | end | error | panic
}

func cmdargsLongRun(m map[string]string) error {
	w, err := newNDJSON(m["out"])
	if err != nil {
		return err
	}
	n, loops := argInt(m, "n", 12000), argInt(m, "loops", 3000)
	run := func(kind string, count int, script string) longRunEvent {
		ev := longRunEvent{Kind: kind, N: count, FirstBad: -1, Outcome: "panic"}
		guarded(func() {
			dr, err := ysgo.NewDialogueRunner(variable.NewInMemoryStorer(), "", strings.NewReader(script))
			if err != nil {
				ev.Outcome = "error"
				return
			}
			dr.AddCommand("tick", func(args []*variable.Value) <-chan error {
				if ev.FirstBad < 0 && (len(args) != 1 || args[0].Number == nil || int(*args[0].Number) != ev.Calls) {
					ev.FirstBad = ev.Calls
				}
				ev.Calls++
				ch := make(chan error, 1)
				ch <- nil
				return ch
			})
			el, err := dr.Next(0)
			switch {
			case err != nil:
				ev.Outcome = "error"
			case el == nil:
				ev.Outcome = "end"
			case el.Line != nil && el.Line.Text == "done":
				ev.Outcome = "line"
			default:
				ev.Outcome = "other"
			}
		})
		return ev
	}
	var sb strings.Builder
	sb.WriteString("title: Start\n---\n")
	for i := 0; i < n; i++ {
		fmt.Fprintf(&sb, "<<tick %d>>\n", i)
	}
	sb.WriteString("done\n===\n")
	if err := w.Write(run("straight", n, sb.String())); err != nil {
		return err
	}
	loop := fmt.Sprintf("title: Start\n---\n<<set $i = 0>>\n<<jump Loop>>\n===\ntitle: Loop\n---\n<<tick {$i}>>\n<<set $i = $i + 1>>\n"+
		"<<if $i < %d>>\n<<jump Loop>>\n<<endif>>\ndone\n===\n", loops)
	if err := w.Write(run("loop", loops, loop)); err != nil {
		return err
	}
	fmt.Println(`{"events":2}`)
	return w.Close()
}
