package verifharness

import (
	"bytes"
	"encoding/hex"
	"encoding/json"
	"fmt"
	"io"
	"strings"
	"time"

	"github.com/antlr4-go/antlr/v4"

	ysgo "github.com/remieven/ysgo"
	"github.com/remieven/ysgo/internal/parser"
)

// Loader layer (property C05: loading any input yields a runner or an error).
//
//	verifh loader corpus --n N --out inputs.ndjson [--testdata dir1,dir2] [--table beh.ndjson]
//	    inputs: fixtures, generated valid scripts, token/line-level mutations, random
//	    bytes, empty / blank / node-less texts, mixed indentation; each split over
//	    1-4 readers; seeds of every class; plus one concrete case per row of the
//	    decision table enumerated by spec/MC_Loader.tla (--table)
//	verifh loader record --in inputs.ndjson --out trace.ndjson
//	    for every input: the independent ANTLR oracle per reader and for the
//	    concatenation, then ysgo.NewDialogueRunner under recover + watchdog;
//	    one `load` event per input (validated by spec/LoaderTrace.tla)
//	verifh loader show --in inputs.ndjson --id K
//	    print one input (debugging aid)
func init() { register("loader", loaderMain) }

type loadInput struct {
	ID      int      `json:"id"`
	Kind    string   `json:"kind"`
	Readers []string `json:"readers"` // hex of every reader's bytes
	Seed    string   `json:"seed"`    // hex of the seed string
	Probe   bool     `json:"probe"`   // call Next a few times on the runner (scripts known to yield)
	Intent  string   `json:"intent,omitempty"`
}

// readerInfo is what the independent oracle says about one byte string parsed on its own.
type readerInfo struct {
	Errs     int    `json:"errs"`     // syntax errors reported to a counting ANTLR listener (lexer + parser), capped
	Mixed    int    `json:"mixed"`    // 0 none; 1 tabs+spaces only in front of blank/comment-only lines; 2 in front of content
	Nodes    int    `json:"nodes"`    // node contexts in the parse tree
	Consumed bool   `json:"consumed"` // the parser stopped at end of input
	OPanic   bool   `json:"opanic"`   // the oracle's own parse panicked or timed out (errs/nodes/consumed unknown)
	Len      int    `json:"len"`
	Blank    bool   `json:"blank"`             // empty or white space only
	ODetail  string `json:"odetail,omitempty"` // first syntax error / why the oracle failed (for the reader of a replay file)
	title    string
}

type loadEvent struct {
	ID         int          `json:"id"`
	Kind       string       `json:"kind"`
	Readers    []readerInfo `json:"readers"`
	Whole      readerInfo   `json:"whole"`
	Blank      bool         `json:"blank"` // the concatenation is empty or only white space
	SeedClass  string       `json:"seedclass"`
	Outcome    string       `json:"outcome"` // runner | error | panic | timeout
	StartOK    bool         `json:"startok"` // runner: Snapshot().CurrentNode = title of the first node of the first reader
	StartNode  string       `json:"startNode"`
	FirstTitle string       `json:"firstTitle"`
	Usable     string       `json:"usable"` // ok | panic | timeout | skipped  (Next(0) x3 on the runner; recorded, not judged)
	Detail     string       `json:"detail"`
}

func loaderMain(args []string) error {
	if len(args) == 0 {
		return fmt.Errorf("loader: missing mode")
	}
	m := argMap(args[1:])
	switch args[0] {
	case "corpus":
		return loaderCorpus(m)
	case "record":
		return loaderRecord(m)
	case "show":
		return loaderShow(m)
	}
	return fmt.Errorf("loader: unknown mode %s", args[0])
}

// ------------------------------------------------------------------ watchdog

const loaderTimeout = 60 * time.Second

// watched runs f in its own goroutine under recover; it reports a panic value or a
// timeout (the goroutine is then abandoned).
func watched(d time.Duration, f func()) (panicked bool, msg string, timedOut bool) {
	type res struct {
		p   bool
		msg string
	}
	ch := make(chan res, 1)
	go func() {
		defer func() {
			if r := recover(); r != nil {
				ch <- res{true, asciiOnly(fmt.Sprint(r), 160)}
				return
			}
			ch <- res{}
		}()
		f()
	}()
	t := time.NewTimer(d)
	defer t.Stop()
	select {
	case r := <-ch:
		return r.p, r.msg, false
	case <-t.C:
		return false, "", true
	}
}

func asciiOnly(s string, max int) string {
	var sb strings.Builder
	for _, c := range s {
		if sb.Len() >= max {
			break
		}
		if c >= 32 && c < 127 && c != '"' && c != '\\' {
			sb.WriteRune(c)
		} else {
			sb.WriteByte('?')
		}
	}
	return sb.String()
}

// -------------------------------------------------------------------- oracle

// countingListener is the independent ANTLR error listener of the property's
// observation point: it only counts.
type countingListener struct {
	*antlr.DefaultErrorListener
	n     int
	first string
}

func (c *countingListener) SyntaxError(_ antlr.Recognizer, _ interface{}, line, column int, msg string, _ antlr.RecognitionException) {
	if c.n == 0 {
		c.first = asciiOnly(fmt.Sprintf("%d:%d %s", line, column, msg), 120)
	}
	c.n++
}

const maxOracleTokens = 200000

// oracleMixed scans the raw token stream of the generated lexer, *below* the
// indentation layer (BaseLexer.NextToken, so neither handleNewLineToken nor its panic
// is involved): a NEWLINE token's text is the line break plus the indentation of the
// line that follows; the indentation is mixed if it has both a tab and a space.
func oracleMixed(data []byte) (mixed int, ok bool) {
	lx := parser.NewYarnSpinnerLexer(antlr.NewInputStream(string(data)))
	lx.RemoveErrorListeners()
	var toks []antlr.Token
	for {
		t := lx.BaseLexer.NextToken()
		if t == nil {
			return 0, false
		}
		toks = append(toks, t)
		if t.GetTokenType() == antlr.TokenEOF {
			break
		}
		if len(toks) > maxOracleTokens {
			return 0, false
		}
	}
	for i, t := range toks {
		if t.GetTokenType() != parser.YarnSpinnerLexerNEWLINE {
			continue
		}
		txt := t.GetText()
		if !(strings.ContainsRune(txt, ' ') && strings.ContainsRune(txt, '\t')) {
			continue
		}
		// kind of the line that follows
		content := false
		for j := i + 1; j < len(toks); j++ {
			u := toks[j]
			ty := u.GetTokenType()
			if ty == parser.YarnSpinnerLexerNEWLINE || ty == antlr.TokenEOF {
				break
			}
			if u.GetChannel() == antlr.TokenHiddenChannel || u.GetChannel() == parser.YarnSpinnerLexerCOMMENTS {
				continue
			}
			content = true
			break
		}
		if content {
			return 2, true
		}
		mixed = 1
	}
	return mixed, true
}

// oracleParse parses data on its own with lexer and parser built from the same
// generated grammar, default console listeners removed, a counting listener on both.
func oracleParse(data []byte) readerInfo {
	info := readerInfo{Len: len(data), Blank: len(bytes.TrimSpace(data)) == 0}
	if len(data) == 0 {
		// `dialogue : file_hashtag* node+` does not derive the empty string and the property
		// names empty input explicitly; ANTLR is not asked (IndentAwareLexer hands out an EOF
		// token without a source for an empty stream, which error reporting cannot print).
		info.Errs, info.Consumed, info.ODetail = 1, true, "empty input"
		return info
	}
	var mixed int
	var mixedOK bool
	p1, _, t1 := watched(loaderTimeout, func() { mixed, mixedOK = oracleMixed(data) })
	if p1 || t1 || !mixedOK {
		info.OPanic = true
		return info
	}
	info.Mixed = mixed
	var errs, nodes int
	var consumed bool
	var title, first string
	p2, m2, t2 := watched(loaderTimeout, func() {
		cl := &countingListener{DefaultErrorListener: antlr.NewDefaultErrorListener()}
		// the generated lexer under the specification's indentation rule (reflexer.go), not
		// under the library's own indentation layer
		lx := newRefIndentLexer(string(data))
		lx.RemoveErrorListeners()
		lx.AddErrorListener(cl)
		ts := antlr.NewCommonTokenStream(lx, antlr.LexerDefaultTokenChannel)
		ps := parser.NewYarnSpinnerParser(ts)
		ps.RemoveErrorListeners()
		ps.AddErrorListener(cl)
		tree := ps.Dialogue()
		errs, first = cl.n, cl.first
		consumed = ts.LA(1) == antlr.TokenEOF
		if tree != nil {
			all := tree.AllNode()
			nodes = len(all)
			if nodes > 0 && errs == 0 {
				for _, h := range all[0].AllHeader() {
					if k := h.GetHeader_key(); k != nil && k.GetText() == "title" {
						title = ""
						if v := h.GetHeader_value(); v != nil {
							title = v.GetText()
						}
					}
				}
			}
		}
	})
	if p2 || t2 {
		info.OPanic = true
		info.ODetail = m2
		return info
	}
	if errs > 1000 {
		errs = 1000
	}
	info.Errs, info.Nodes, info.Consumed, info.title, info.ODetail = errs, nodes, consumed, title, first
	return info
}

func (r readerInfo) valid() bool {
	return !r.OPanic && r.Errs == 0 && r.Mixed == 0 && r.Consumed && r.Nodes > 0
}

func seedClass(seed string) string {
	if seed == "" {
		return "empty"
	}
	for i := 0; i < len(seed); i++ {
		c := seed[i]
		if !((c >= '0' && c <= '9') || (c >= 'a' && c <= 'z')) {
			return "invalid"
		}
	}
	return "valid"
}

// -------------------------------------------------------------------- record

func decodeInput(in loadInput) (readers [][]byte, seed string, err error) {
	for _, h := range in.Readers {
		b, err := hex.DecodeString(h)
		if err != nil {
			return nil, "", err
		}
		readers = append(readers, b)
	}
	sb, err := hex.DecodeString(in.Seed)
	if err != nil {
		return nil, "", err
	}
	return readers, string(sb), nil
}

func loadOne(in loadInput) (loadEvent, error) {
	ev := loadEvent{ID: in.ID, Kind: in.Kind, Readers: []readerInfo{}, Usable: "skipped"}
	readers, seed, err := decodeInput(in)
	if err != nil {
		return ev, err
	}
	var whole []byte
	for _, b := range readers {
		ev.Readers = append(ev.Readers, oracleParse(b))
		whole = append(whole, b...)
	}
	if len(readers) == 1 {
		ev.Whole = ev.Readers[0]
	} else {
		ev.Whole = oracleParse(whole)
	}
	ev.Blank = len(bytes.TrimSpace(whole)) == 0
	ev.SeedClass = seedClass(seed)
	if len(ev.Readers) > 0 {
		ev.FirstTitle = hex.EncodeToString([]byte(ev.Readers[0].title))
	}

	var runner *ysgo.DialogueRunner
	var lerr error
	panicked, msg, timedOut := watched(loaderTimeout, func() {
		rs := make([]io.Reader, len(readers))
		for i, b := range readers {
			rs[i] = bytes.NewReader(b)
		}
		runner, lerr = ysgo.NewDialogueRunner(nil, seed, rs...)
	})
	switch {
	case timedOut:
		ev.Outcome = "timeout"
	case panicked:
		ev.Outcome = "panic"
		ev.Detail = msg
	case lerr != nil:
		ev.Outcome = "error"
		ev.Detail = asciiOnly(lerr.Error(), 160)
	case runner == nil:
		ev.Outcome = "panic" // neither a runner nor an error
		ev.Detail = "nil runner and nil error"
	default:
		ev.Outcome = "runner"
		start := ""
		p, _, t := watched(loaderTimeout, func() { start = runner.Snapshot().CurrentNode })
		ev.StartNode = hex.EncodeToString([]byte(start))
		ev.StartOK = !p && !t && len(ev.Readers) > 0 && start == ev.Readers[0].title
		if in.Probe {
			ev.Usable = "ok"
			p, _, t := watched(5*time.Second, func() {
				for k := 0; k < 3; k++ {
					if _, err := runner.Next(0); err != nil {
						break
					}
				}
			})
			if p {
				ev.Usable = "panic"
			} else if t {
				ev.Usable = "timeout"
			}
		}
	}
	return ev, nil
}

func loaderRecord(m map[string]string) error {
	lines, err := readNDJSON(m["in"])
	if err != nil {
		return err
	}
	w, err := newNDJSON(m["out"])
	if err != nil {
		return err
	}
	for _, raw := range lines {
		var in loadInput
		if err := json.Unmarshal(raw, &in); err != nil {
			return err
		}
		ev, err := loadOne(in)
		if err != nil {
			return err
		}
		if err := w.Write(ev); err != nil {
			return err
		}
	}
	return w.Close()
}

func loaderShow(m map[string]string) error {
	lines, err := readNDJSON(m["in"])
	if err != nil {
		return err
	}
	id := argInt(m, "id", 1)
	for _, raw := range lines {
		var in loadInput
		if err := json.Unmarshal(raw, &in); err != nil {
			return err
		}
		if in.ID != id {
			continue
		}
		readers, seed, err := decodeInput(in)
		if err != nil {
			return err
		}
		fmt.Printf("id %d kind %s seed %q probe %v intent %s\n", in.ID, in.Kind, seed, in.Probe, in.Intent)
		for i, b := range readers {
			fmt.Printf("--- reader %d (%d bytes): %q\n", i+1, len(b), string(b))
		}
		ev, err := loadOne(in)
		if err != nil {
			return err
		}
		out, _ := json.Marshal(ev)
		fmt.Println(string(out))
	}
	return nil
}
