package verifharness

import (
	"encoding/json"
	"fmt"
	"math"
	"math/rand"
	"strconv"
	"strings"
	"time"
	"unicode"
	"unicode/utf8"

	"github.com/remieven/ysgo/markup"
)

// Markup layer (properties C13, C14, C15); specifications spec/Markup.tla,
// MC_Markup.tla, MarkupTrace.tla, MarkupHistoryTrace.tla, MarkupSafetyTrace.tla.
//
//	verifh markup replay  --in beh.ndjson --out diffs.ndjson --variants K
//	    spec -> code: every line printed by MC_Markup is concretised (class-preserving
//	    renaming of the placeholder characters, layout inside brackets) and parsed by
//	    markup.LineParser; differences with the results the spec allows are written out
//	verifh markup gen     --n N --max M --out cases.ndjson
//	    random long lines of the C13 region, as item sequences
//	verifh markup record  --cases cases.ndjson --out trace.ndjson
//	    code -> spec: each case through LineParser.ParseMarkup and through a dialogue
//	    runner (Line.Attributes); one event per call (validated by MarkupTrace.tla)
//	verifh markup history --n N --out trace.ndjson [--cases f]
//	    C14: histories on one reused LineParser / one dialogue runner vs a fresh parser
//	verifh markup fuzz    --n N --out trace.ndjson [--inputs f] [--beh beh.ndjson]
//	    C15: token assemblies, mutated lines, arbitrary bytes, enumerated model lines;
//	    safety facts only (validated by MarkupSafetyTrace.tla)
func init() { register("markup", markupMain) }

func markupMain(args []string) error {
	if len(args) == 0 {
		return fmt.Errorf("markup: missing mode")
	}
	if err := mkCheckPools(); err != nil {
		return err
	}
	m := argMap(args[1:])
	switch args[0] {
	case "replay":
		return markupReplay(m)
	case "gen":
		return markupGen(m)
	case "record":
		return markupRecord(m)
	case "history":
		return markupHistory(m)
	case "fuzz":
		return markupFuzz(m)
	}
	return fmt.Errorf("markup: unknown mode %s", args[0])
}

// ------------------------------------------------------------------ items

// mkVal is a property value as written in a marker (item side).
type mkVal struct {
	T string `json:"t"`
	I int    `json:"i"`
	F int    `json:"f"`
	K int    `json:"k"`
	B bool   `json:"b"`
	S []int  `json:"s"`
	Q bool   `json:"q"`
}

func (v mkVal) MarshalJSON() ([]byte, error) {
	switch v.T {
	case "int":
		return json.Marshal(map[string]any{"t": "int", "i": v.I})
	case "big":
		return json.Marshal(map[string]any{"t": "big", "s": mkInts(v.S)})
	case "dec":
		return json.Marshal(map[string]any{"t": "dec", "i": v.I, "f": v.F, "k": v.K})
	case "bool":
		return json.Marshal(map[string]any{"t": "bool", "b": v.B})
	case "str":
		return json.Marshal(map[string]any{"t": "str", "s": mkInts(v.S), "q": v.Q})
	}
	return nil, fmt.Errorf("bad value type %q", v.T)
}

type mkProp struct {
	N []int `json:"n"`
	V mkVal `json:"v"`
}

type mkItem struct {
	K     string   `json:"k"`
	C     int      `json:"c"`
	Name  []int    `json:"name"`
	Ws    []int    `json:"ws"`
	Props []mkProp `json:"props"`
	Sh    bool     `json:"sh"`
	Raw   []int    `json:"raw"`
	Close string   `json:"close"`
	RK    string   `json:"rk"` // ropen: select | plural | ordinal
}

func mkInts(s []int) []int {
	if s == nil {
		return []int{}
	}
	return s
}

func mkProps(p []mkProp) []mkProp {
	if p == nil {
		return []mkProp{}
	}
	return p
}

func (it mkItem) MarshalJSON() ([]byte, error) {
	switch it.K {
	case "ch", "esc":
		return json.Marshal(map[string]any{"k": it.K, "c": it.C})
	case "pfx":
		return json.Marshal(map[string]any{"k": it.K, "name": mkInts(it.Name), "ws": mkInts(it.Ws)})
	case "open", "self":
		return json.Marshal(map[string]any{"k": it.K, "name": mkInts(it.Name), "props": mkProps(it.Props), "sh": it.Sh})
	case "close":
		return json.Marshal(map[string]any{"k": it.K, "name": mkInts(it.Name)})
	case "closeall":
		return json.Marshal(map[string]any{"k": it.K})
	case "select", "plural", "ordinal":
		return json.Marshal(map[string]any{"k": it.K, "props": mkProps(it.Props)})
	case "nomarkup":
		return json.Marshal(map[string]any{"k": it.K, "raw": mkInts(it.Raw), "close": it.Close})
	case "ropen":
		return json.Marshal(map[string]any{"k": it.K, "rk": it.RK, "props": mkProps(it.Props), "raw": mkInts(it.Raw), "close": it.Close})
	case "mal":
		return json.Marshal(map[string]any{"k": it.K, "raw": mkInts(it.Raw)})
	}
	return nil, fmt.Errorf("bad item kind %q", it.K)
}

func mkCps(s string) []int {
	r := []rune(s)
	res := make([]int, len(r))
	for i, c := range r {
		res[i] = int(c)
	}
	return res
}

func mkStr(c []int) string {
	var b strings.Builder
	for _, x := range c {
		b.WriteRune(rune(x))
	}
	return b.String()
}

// --------------------------------------------------------------- rendering

// mkLayout decides the free choices of the concrete syntax: whitespace inside
// brackets, spelling of booleans.  A nil rnd gives the canonical tight layout.
type mkLayout struct{ rnd *rand.Rand }

func (l mkLayout) ws(p float64) string {
	if l.rnd == nil || l.rnd.Float64() >= p {
		return ""
	}
	switch l.rnd.Intn(4) {
	case 0:
		return "\t"
	case 1:
		return "  "
	}
	return " "
}

func (l mkLayout) sep() string {
	if l.rnd == nil {
		return " "
	}
	switch l.rnd.Intn(8) {
	case 0:
		return "\t"
	case 1:
		return "  "
	}
	return " "
}

func (l mkLayout) val(v mkVal) string {
	switch v.T {
	case "int":
		return strconv.Itoa(v.I)
	case "big":
		return mkStr(v.S)
	case "dec":
		return fmt.Sprintf("%d.%0*d", v.I, v.K, v.F)
	case "bool":
		w := "false"
		if v.B {
			w = "true"
		}
		if l.rnd != nil {
			switch l.rnd.Intn(4) {
			case 0:
				w = strings.ToUpper(w)
			case 1:
				w = strings.ToUpper(w[:1]) + w[1:]
			case 2:
				b := []byte(w)
				for i := range b {
					if l.rnd.Intn(2) == 0 {
						b[i] = byte(unicode.ToUpper(rune(b[i])))
					}
				}
				w = string(b)
			}
		}
		return w
	case "str":
		if !v.Q {
			return mkStr(v.S)
		}
		return `"` + strings.ReplaceAll(mkStr(v.S), `"`, `\"`) + `"`
	}
	return "?"
}

func (l mkLayout) marker(name string, ps []mkProp, sh, self bool) string {
	var b strings.Builder
	b.WriteString("[")
	b.WriteString(l.ws(0.08))
	b.WriteString(name)
	rest := ps
	if sh && len(ps) > 0 {
		b.WriteString(l.ws(0.04) + "=" + l.ws(0.04))
		b.WriteString(l.val(ps[0].V))
		rest = ps[1:]
	}
	for _, p := range rest {
		b.WriteString(l.sep())
		b.WriteString(mkStr(p.N))
		b.WriteString(l.ws(0.04) + "=" + l.ws(0.04))
		b.WriteString(l.val(p.V))
	}
	b.WriteString(l.ws(0.15))
	if self {
		b.WriteString("/" + l.ws(0.04))
	}
	b.WriteString("]")
	return b.String()
}

func (l mkLayout) closeTag(name string) string {
	return "[" + l.ws(0.05) + "/" + l.ws(0.05) + name + l.ws(0.08) + "]"
}

func (l mkLayout) item(it mkItem) string {
	switch it.K {
	case "ch":
		return string(rune(it.C))
	case "esc":
		return `\` + string(rune(it.C))
	case "pfx":
		return mkStr(it.Name) + ":" + mkStr(it.Ws)
	case "open":
		return l.marker(mkStr(it.Name), it.Props, it.Sh, false)
	case "self":
		return l.marker(mkStr(it.Name), it.Props, it.Sh, true)
	case "select", "plural", "ordinal":
		return l.marker(it.K, it.Props, false, true)
	case "close":
		return l.closeTag(mkStr(it.Name))
	case "closeall":
		return l.closeTag("")
	case "nomarkup":
		end := l.closeTag("nomarkup")
		if it.Close == "all" {
			end = l.closeTag("")
		}
		return "[" + l.ws(0.05) + "nomarkup" + l.ws(0.08) + "]" + mkStr(it.Raw) + end
	case "ropen":
		end := l.closeTag(it.RK)
		if it.Close == "all" {
			end = l.closeTag("")
		}
		return l.marker(it.RK, it.Props, false, false) + mkStr(it.Raw) + end
	case "mal":
		return mkStr(it.Raw)
	}
	return ""
}

func (l mkLayout) line(items []mkItem) string {
	var b strings.Builder
	for _, it := range items {
		b.WriteString(l.item(it))
	}
	return b.String()
}

// ------------------------------------------------------------------ results

// mkRV is a property value as found in a parse result, in the encoding of
// Markup!NV: decimals in units of 10^-4.
type mkRV struct {
	T       string `json:"t"`
	I       int    `json:"i"`
	U       int    `json:"u"`
	B       bool   `json:"b"`
	S       []int  `json:"s"`
	Inexact bool   `json:"inexact"`
}

func (v mkRV) MarshalJSON() ([]byte, error) {
	m := map[string]any{"t": v.T}
	switch v.T {
	case "int":
		m["i"] = v.I
	case "dec":
		m["u"] = v.U
	case "bool":
		m["b"] = v.B
	case "str", "big":
		m["s"] = mkInts(v.S)
	}
	if v.Inexact {
		m["inexact"] = true
	}
	return json.Marshal(m)
}

type mkRProp struct {
	N []int `json:"n"`
	V mkRV  `json:"v"`
}

type mkAttr struct {
	Name  []int     `json:"name"`
	Pos   int       `json:"pos"`
	Len   int       `json:"len"`
	Src   int       `json:"src"`
	Props []mkRProp `json:"props"`
	Tfa   []int     `json:"tfa"` // TextForAttribute; [-1] if it panicked
}

// mkRes is what one call of the parser produced.
type mkRes struct {
	Ok      bool     `json:"ok"`
	Outcome string   `json:"outcome"` // result | error | panic | timeout
	Text    []int    `json:"text"`
	Attrs   []mkAttr `json:"attrs"`
	// Later: this is what a result that had been returned earlier looked like after the same parser
	// (or runner) had gone on to other lines - a result must stay what it was when it was returned
	Later bool `json:"later,omitempty"`
}

func mkClampInt(n int) (int, bool) {
	if n > 1_000_000_000 || n < -1_000_000_000 {
		return -1, true
	}
	return n, false
}

func mkConvertValue(v markup.Value) mkRV {
	switch v.ValueType {
	case markup.ValueTypeInteger:
		n, big := mkClampInt(v.IntegerValue)
		if big {
			// beyond TLC's integers: the value crosses as its decimal digits
			return mkRV{T: "big", S: mkCps(strconv.Itoa(v.IntegerValue))}
		}
		return mkRV{T: "int", I: n, Inexact: big}
	case markup.ValueTypeFloat:
		x := v.FloatValue * 1e4
		u := math.Round(x)
		if math.IsNaN(x) || math.IsInf(x, 0) || math.Abs(u) > 1e9 || math.Abs(x-u) > 1e-6*(1+math.Abs(u)) {
			return mkRV{T: "dec", U: -1, Inexact: true}
		}
		return mkRV{T: "dec", U: int(u)}
	case markup.ValueTypeString:
		return mkRV{T: "str", S: mkCps(v.StringValue)}
	case markup.ValueTypeBool:
		return mkRV{T: "bool", B: v.BoolValue}
	}
	return mkRV{T: "unknown", Inexact: true}
}

func mkConvertResult(res *markup.ParseResult) mkRes {
	out := mkRes{Ok: true, Outcome: "result", Text: mkCps(res.Text), Attrs: []mkAttr{}}
	for _, a := range res.Attributes {
		pos, _ := mkClampInt(a.Position)
		ln, _ := mkClampInt(a.Length)
		src, _ := mkClampInt(a.SourcePosition)
		ma := mkAttr{Name: mkCps(a.Name), Pos: pos, Len: ln, Src: src, Props: []mkRProp{}}
		for n, v := range a.Properties {
			ma.Props = append(ma.Props, mkRProp{N: mkCps(n), V: mkConvertValue(v)})
		}
		mkSortRProps(ma.Props)
		if !guarded(func() { ma.Tfa = mkCps(res.TextForAttribute(a)) }) {
			ma.Tfa = []int{-1}
		}
		out.Attrs = append(out.Attrs, ma)
	}
	return out
}

func mkSortRProps(ps []mkRProp) {
	for i := 1; i < len(ps); i++ {
		for j := i; j > 0 && mkStr(ps[j].N) < mkStr(ps[j-1].N); j-- {
			ps[j], ps[j-1] = ps[j-1], ps[j]
		}
	}
}

func mkFail(outcome string) mkRes {
	return mkRes{Ok: false, Outcome: outcome, Text: []int{}, Attrs: []mkAttr{}}
}

const mkWatchdog = 5 * time.Second

// mkParse runs one ParseMarkup call (and TextForAttribute for every attribute) under
// recover with a watchdog.
func mkParse(p *markup.LineParser, input string) mkRes {
	r, _ := mkParseKeep(p, input)
	return r
}

// mkParseKeep also hands out the result value itself (nil unless the outcome is a result).
func mkParseKeep(p *markup.LineParser, input string) (mkRes, *markup.ParseResult) {
	type both struct {
		r  mkRes
		pr *markup.ParseResult
	}
	done := make(chan both, 1)
	go func() {
		var r mkRes
		var pr *markup.ParseResult
		defer func() {
			if rec := recover(); rec != nil {
				r, pr = mkFail("panic"), nil
			}
			done <- both{r, pr}
		}()
		res, err := p.ParseMarkup(input)
		if err != nil {
			r = mkFail("error")
			return
		}
		if res == nil {
			r = mkFail("panic") // neither a result nor an error
			return
		}
		r, pr = mkConvertResult(res), res
	}()
	select {
	case b := <-done:
		return b.r, b.pr
	case <-time.After(mkWatchdog):
		return mkFail("timeout"), nil
	}
}

// ------------------------------------------------------------- characters

// Placeholder code points used by the alphabets of MC_Markup and the pools they
// (and the random generator) draw from.  Every pool member has the UTF-8 width and
// the letter-ness of its class, is not whitespace and has no meaning in markup or in
// the Yarn text grammar.
var (
	poolAsciiLetter = []rune("ABCDEGHIJKLMNOPQRSUVWXYZxyz")
	poolAsciiPunct  = []rune("!?.,;'()*+-~@&^|$")
	pool2L          = []rune("éßñøλяüЖ")
	pool2N          = []rune("§¿±×¡¶")
	pool3L          = []rune("中あ한กऄ")
	pool3N          = []rune("€★‽✓→")
	pool4L          = []rune("𝒳𐍈𠀀𝔘")
	pool4N          = []rune("😀🎉🚀🜁")
)

var mkPlaceholderPool = map[int][]rune{
	120: poolAsciiLetter, 121: poolAsciiLetter, 122: poolAsciiLetter,
	33:  poolAsciiPunct,
	233: pool2L, 167: pool2N, 20013: pool3L, 8364: pool3N, 119987: pool4L, 128512: pool4N,
}

func mkCheckPools() error {
	check := func(pool []rune, width int, letter bool) error {
		for _, c := range pool {
			if utf8.RuneLen(c) != width || unicode.IsLetter(c) != letter || unicode.IsSpace(c) ||
				strings.ContainsRune(`[]\:/#{}<>=%"`, c) {
				return fmt.Errorf("markup: pool character %q is not of its class", c)
			}
		}
		return nil
	}
	for _, e := range []struct {
		p []rune
		w int
		l bool
	}{{poolAsciiLetter, 1, true}, {poolAsciiPunct, 1, false}, {pool2L, 2, true}, {pool2N, 2, false},
		{pool3L, 3, true}, {pool3N, 3, false}, {pool4L, 4, true}, {pool4N, 4, false}} {
		if err := check(e.p, e.w, e.l); err != nil {
			return err
		}
	}
	return nil
}

// mkRenaming draws a class-preserving injective renaming of the placeholder code
// points; blanks may be swapped (space <-> tab).
func mkRenaming(rnd *rand.Rand) map[int]int {
	sigma := map[int]int{}
	used := map[rune]bool{}
	for _, ph := range []int{120, 121, 122, 33, 233, 167, 20013, 8364, 119987, 128512} {
		pool := mkPlaceholderPool[ph]
		for {
			c := pool[rnd.Intn(len(pool))]
			if !used[c] {
				used[c] = true
				sigma[ph] = int(c)
				break
			}
		}
	}
	if rnd.Intn(3) == 0 {
		sigma[32], sigma[9] = 9, 32
	}
	return sigma
}

func mkRenameCps(s []int, sigma map[int]int) []int {
	res := make([]int, len(s))
	for i, c := range s {
		if d, ok := sigma[c]; ok {
			res[i] = d
		} else {
			res[i] = c
		}
	}
	return res
}

func mkRenameItems(items []mkItem, sigma map[int]int) []mkItem {
	res := make([]mkItem, len(items))
	for i, it := range items {
		n := it
		if d, ok := sigma[it.C]; ok && it.K == "ch" {
			n.C = d
		}
		n.Name = mkRenameCps(it.Name, sigma)
		n.Ws = mkRenameCps(it.Ws, sigma)
		n.Raw = mkRenameCps(it.Raw, sigma)
		n.Props = make([]mkProp, len(it.Props))
		for j, p := range it.Props {
			n.Props[j] = mkProp{N: mkRenameCps(p.N, sigma), V: p.V}
			n.Props[j].V.S = mkRenameCps(p.V.S, sigma)
		}
		res[i] = n
	}
	return res
}

// ------------------------------------------------------- canonical results

// mkCanon renders a result (expected or observed) as a canonical string: attributes as
// a multiset, properties as maps (DESIGN appendix D).
func mkCanonAttr(name []int, pos, ln int, ps []mkRProp, tfa []int) string {
	cp := append([]mkRProp(nil), ps...)
	mkSortRProps(cp)
	var b strings.Builder
	fmt.Fprintf(&b, "%v@%d+%d%v{", name, pos, ln, tfa)
	for _, p := range cp {
		v := p.V
		switch v.T {
		case "int":
			fmt.Fprintf(&b, "%v=i%d", p.N, v.I)
		case "dec":
			fmt.Fprintf(&b, "%v=d%d", p.N, v.U)
		case "bool":
			fmt.Fprintf(&b, "%v=b%v", p.N, v.B)
		case "str":
			fmt.Fprintf(&b, "%v=s%v", p.N, v.S)
		case "big":
			fmt.Fprintf(&b, "%v=B%v", p.N, v.S)
		default:
			fmt.Fprintf(&b, "%v=?", p.N)
		}
		if v.Inexact {
			b.WriteString("~")
		}
		b.WriteString(";")
	}
	b.WriteString("}")
	return b.String()
}

func mkCanon(r mkRes) string {
	if !r.Ok {
		return "fail"
	}
	as := make([]string, len(r.Attrs))
	for i, a := range r.Attrs {
		as[i] = mkCanonAttr(a.Name, a.Pos, a.Len, a.Props, a.Tfa)
	}
	for i := 1; i < len(as); i++ {
		for j := i; j > 0 && as[j] < as[j-1]; j-- {
			as[j], as[j-1] = as[j-1], as[j]
		}
	}
	return fmt.Sprintf("%v|%s", r.Text, strings.Join(as, ","))
}

func mkRenameRes(r mkRes, sigma map[int]int) mkRes {
	n := mkRes{Ok: r.Ok, Outcome: r.Outcome, Text: mkRenameCps(r.Text, sigma), Attrs: make([]mkAttr, len(r.Attrs))}
	for i, a := range r.Attrs {
		na := mkAttr{Name: mkRenameCps(a.Name, sigma), Pos: a.Pos, Len: a.Len, Src: a.Src, Tfa: mkRenameCps(a.Tfa, sigma)}
		na.Props = make([]mkRProp, len(a.Props))
		for j, p := range a.Props {
			na.Props[j] = mkRProp{N: mkRenameCps(p.N, sigma), V: p.V}
			na.Props[j].V.S = mkRenameCps(p.V.S, sigma)
		}
		n.Attrs[i] = na
	}
	return n
}
