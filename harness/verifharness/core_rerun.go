package verifharness

import (
	"encoding/json"
	"fmt"
	"math/rand"

	ysgo "github.com/remieven/ysgo"
	"github.com/remieven/ysgo/variable"
)

// verifh core rerun --cases one.ndjson --events events.ndjson --out trace.ndjson
//
// Re-drives the INPUTS of a stored trace (one case: reset, next, hostset, snap, snapread,
// restore, restorebad events) on the current tree and records fresh observations, so that a
// stored violation can be replayed through the same trace specification.
func coreRerun(m map[string]string) error {
	cases, err := loadCases(m["cases"])
	if err != nil {
		return err
	}
	lines, err := readNDJSON(m["events"])
	if err != nil {
		return err
	}
	w, err := newNDJSON(m["out"])
	if err != nil {
		return err
	}
	meta, err := newNDJSON(m["out"] + ".meta")
	if err != nil {
		return err
	}
	c := cases[0]
	var hosts [3]*host
	var bys []*bystander
	var texts []string
	type handle struct {
		s    *ysgo.Snapshot
		from int
	}
	snaps := map[int]handle{}
	n := 0
	emit := func(e recEvent) error { n++; return w.Write(e) }
	for _, raw := range lines {
		var e recEvent
		if err := json.Unmarshal(raw, &e); err != nil {
			return err
		}
		switch e.Ev {
		case "reset":
			texts = e.Texts
			if texts == nil {
				texts = renderCase(c, canonicalLayout())
			}
			if mt := m["texts"]; mt != "" {
				var tt []string
				if err := json.Unmarshal([]byte(mt), &tt); err == nil {
					texts = tt
				}
			}
			if err := meta.Write(map[string]any{"line": n + 1, "id": c.ID, "texts": texts}); err != nil {
				return err
			}
			if err := emit(recEvent{Ev: "reset", Case: 1, ID: c.ID}); err != nil {
				return err
			}
			for i := range hosts {
				hosts[i] = nil
			}
			continue
		case "snaphand":
			snaps[e.H] = handle{&ysgo.Snapshot{CurrentNode: e.Node}, 0}
			if err := emit(recEvent{Ev: "snaphand", ID: c.ID, H: e.H, Node: e.Node}); err != nil {
				return err
			}
			continue
		case "snapread":
			if sn, ok := snaps[e.H]; ok {
				sc := hosts[sn.from].readSnap(sn.s)
				if err := emit(recEvent{Ev: "snapread", ID: c.ID, H: e.H, Snap: &sc}); err != nil {
					return err
				}
			}
			continue
		case "loadfail":
			continue
		}
		r := e.R
		if r < 1 || r > 3 {
			return fmt.Errorf("bad runner index %d", r)
		}
		if hosts[r-1] == nil {
			// bystanders (see core_run.go): one created before and one after the runner
			byRnd := rand.New(rand.NewSource(int64(len(bys)) + 1))
			bys = append(bys, newBystander(c, byRnd))
			h, err := newHost(c, texts)
			bys = append(bys, newBystander(c, byRnd))
			if err != nil {
				f := false
				if err := emit(recEvent{Ev: "loadfail", ID: c.ID, Ok: &f, Var: err.Error()}); err != nil {
					return err
				}
				break
			}
			hosts[r-1] = h
		}
		h := hosts[r-1]
		for _, b := range bys {
			b.poke()
		}
		switch e.Ev {
		case "next":
			if e.In.Done {
				h.complete(e.In.Err)
			}
			obs := h.next(e.In.Choice)
			if err := emit(recEvent{Ev: "next", ID: c.ID, R: r, In: e.In, Obs: &obs}); err != nil {
				return err
			}
		case "rebind":
			h.rebind(e.What, e.Name, e.Kind)
			if err := emit(recEvent{Ev: "rebind", ID: c.ID, R: r, What: e.What, Name: e.Name, Kind: e.Kind}); err != nil {
				return err
			}
		case "hostset":
			if h.storer != nil {
				h.hostSet(e.Var, *e.Val)
			}
			if err := emit(recEvent{Ev: "hostset", ID: c.ID, R: r, Var: e.Var, Val: e.Val}); err != nil {
				return err
			}
		case "snap":
			var s *ysgo.Snapshot
			if !guarded(func() { s = h.dr.Snapshot() }) || s == nil {
				continue
			}
			snaps[e.H] = handle{s, r - 1}
			sc := h.readSnap(s)
			if err := emit(recEvent{Ev: "snap", ID: c.ID, R: r, H: e.H, Snap: &sc}); err != nil {
				return err
			}
		case "restore":
			sn, ok := snaps[e.H]
			if !ok {
				continue
			}
			var rerr error
			panicked := !guarded(func() { rerr = h.dr.RestoreAt(sn.s) })
			okr := rerr == nil && !panicked
			if okr {
				h.pending = nil
			}
			if err := emit(recEvent{Ev: "restore", ID: c.ID, R: r, H: e.H, Ok: &okr}); err != nil {
				return err
			}
		case "restorebad":
			bogus := &ysgo.Snapshot{CurrentNode: "NoSuchNodeAtAll", Variables: map[string]variable.Value{"x": *variable.NewNumber(99)},
				VisitedNodes: map[string]int{c.Nodes[0].Title: 42}}
			var rerr error
			panicked := !guarded(func() { rerr = h.dr.RestoreAt(bogus) })
			okr := rerr == nil && !panicked
			if err := emit(recEvent{Ev: "restorebad", ID: c.ID, R: r, Ok: &okr}); err != nil {
				return err
			}
		}
	}
	if err := meta.Close(); err != nil {
		return err
	}
	return w.Close()
}
