package verifharness

import (
	"encoding/json"
	"fmt"
	"math/rand"
	"sort"
)

// code -> spec for property C16: random rows over the whole signature algebra of
// spec/HostBridge.tla; every row's observation becomes one trace event which
// spec/HostBridgeTrace.tla judges with the same table.

var bridgeBadResultsFunc = [][]string{
	{"struct"}, {"slice"}, {"chanerr"}, {"rchanerr"}, {"iface"}, {"ptr"}, {"map"}, {"func"}, {"chanint"}, {"array"},
	{"int", "int"}, {"error", "int"}, {"error", "error"}, {"int", "string"}, {"struct", "error"}, {"int", "chanerr"},
	{"int", "error", "error"}, {"int", "int", "error"}, {"error", "error", "error"},
}

var bridgeBadResultsCmd = [][]string{
	{"int"}, {"string"}, {"bool"}, {"float64"}, {"MyInt"}, {"struct"}, {"chanint"}, {"slice"}, {"iface"},
	{"int", "error"}, {"error", "error"}, {"chanerr", "error"}, {"string", "error"}, {"int", "error", "error"},
}

func pick(rnd *rand.Rand, l []string) string { return l[rnd.Intn(len(l))] }

func bridgeValueType(rnd *rand.Rand) string {
	switch rnd.Intn(4) {
	case 0:
		return pick(rnd, bridgeTI)
	case 1:
		return pick(rnd, bridgeTF)
	case 2:
		return pick(rnd, bridgeTB)
	}
	return pick(rnd, bridgeTS)
}

func bridgeYarnClass(tok string) string {
	switch bridgeClass(tok) {
	case "I", "F", "U":
		return "n"
	case "B":
		return "b"
	case "S":
		return "s"
	}
	return "none"
}

func bridgeRandomRow(rnd *rand.Rand, id int) *bridgeRow {
	row := &bridgeRow{ID: id, Ret: "nil", Salt: rnd.Int63n(1<<40) + 1, A: []string{}}
	s := bridgeSig{API: "func", Shape: "fn", Params: []string{}, Results: []string{}}
	if rnd.Intn(2) == 0 {
		s.API = "cmd"
	}
	switch r := rnd.Intn(100); {
	case r < 2:
		s.Shape = "nil"
		row.S = s
		return row
	case r < 6:
		s.Shape, s.NF = "nonfunc", pick(rnd, bridgeNF)
		row.S = s
		return row
	}
	n := rnd.Intn(4)
	if rnd.Intn(10) < 3 {
		s.Variadic = true
		n++
		if n > 3 && rnd.Intn(2) == 0 {
			n = 3
		}
	}
	flavour := rnd.Intn(100)
	for i := 0; i < n; i++ {
		s.Params = append(s.Params, bridgeValueType(rnd))
	}
	if n > 0 {
		switch {
		case flavour < 10:
			s.Params[rnd.Intn(n)] = pick(rnd, bridgeTU)
		case flavour < 22:
			s.Params[rnd.Intn(n)] = pick(rnd, bridgeTX)
		}
	}
	r := rnd.Intn(100)
	if s.API == "func" {
		switch {
		case r < 15:
		case r < 45:
			s.Results = []string{bridgeValueType(rnd)}
		case r < 60:
			s.Results = []string{"error"}
		case r < 85:
			s.Results = []string{bridgeValueType(rnd), "error"}
		case r < 90:
			s.Results = []string{pick(rnd, bridgeTU)}
			if rnd.Intn(2) == 0 {
				s.Results = append(s.Results, "error")
			}
		default:
			s.Results = append([]string{}, bridgeBadResultsFunc[rnd.Intn(len(bridgeBadResultsFunc))]...)
		}
	} else {
		switch {
		case r < 25:
		case r < 55:
			s.Results = []string{"error"}
		case r < 70:
			s.Results = []string{"chanerr"}
		case r < 85:
			s.Results = []string{"rchanerr"}
		default:
			s.Results = append([]string{}, bridgeBadResultsCmd[rnd.Intn(len(bridgeBadResultsCmd))]...)
		}
	}
	row.S = s
	if rnd.Intn(2) == 0 {
		row.Ret = "err"
	}
	// argument list: mostly matching, then possibly mutated
	classes := []string{"n", "b", "s"}
	if rnd.Intn(10) < 7 {
		fixed := bridgeFixed(s)
		for i := 0; i < fixed; i++ {
			row.A = append(row.A, bridgeYarnClass(s.Params[i]))
		}
		if s.Variadic {
			for k := rnd.Intn(4); k > 0 && len(row.A) < 4; k-- {
				row.A = append(row.A, bridgeYarnClass(s.Params[len(s.Params)-1]))
			}
		}
		for i := range row.A {
			if row.A[i] == "none" {
				row.A[i] = pick(rnd, classes)
			}
		}
		if rnd.Intn(10) < 3 {
			switch m := rnd.Intn(3); {
			case m == 0 && len(row.A) > 0:
				row.A[rnd.Intn(len(row.A))] = pick(rnd, classes)
			case m == 1 && len(row.A) > 0:
				k := rnd.Intn(len(row.A))
				row.A = append(row.A[:k], row.A[k+1:]...)
			case len(row.A) < 4:
				row.A = append(row.A, pick(rnd, classes))
			}
		}
	} else {
		for k := rnd.Intn(5); k > 0; k-- {
			row.A = append(row.A, pick(rnd, classes))
		}
	}
	// record mode observes values through the capture function, never through line text
	if s.API == "cmd" {
		row.Site = "cmd"
	} else if len(s.Results) >= 1 && bridgeClass(s.Results[0]) != "X" && !(len(s.Results) == 2 && row.Ret == "err") &&
		(len(s.Results) == 1 || (len(s.Results) == 2 && s.Results[1] == "error")) && rnd.Intn(4) != 0 {
		row.Site = "capture"
	} else {
		row.Site = "call"
	}
	return row
}

type bridgeEvent struct {
	Ev     string    `json:"ev"`
	ID     int       `json:"id"`
	S      bridgeSig `json:"s"`
	A      []string  `json:"a"`
	Ret    string    `json:"ret"`
	Site   string    `json:"site"`
	Reg    string    `json:"reg"`
	Call   string    `json:"call"`
	NCalls int       `json:"ncalls"`
	RecvT  []string  `json:"recvT"`
	RecvV  []string  `json:"recvV"`
	SentV  []string  `json:"sentV"`
	Seen   string    `json:"seen"`
	SeenT  string    `json:"seenT"`
	SeenV  string    `json:"seenV"`
	RetV   string    `json:"retV"`
	Salt   int64     `json:"-"`
}

func bridgeEventOf(row *bridgeRow, o *bridgeObs) bridgeEvent {
	e := bridgeEvent{Ev: "row", ID: row.ID, S: row.S, A: row.A, Ret: row.Ret, Site: o.Site, Reg: o.Reg, Call: o.Call,
		NCalls: o.NCalls, RecvT: []string{}, RecvV: []string{}, SentV: []string{}, Seen: o.Seen,
		SeenT: o.SeenV.T, SeenV: o.SeenV.V, RetV: o.RetV.V}
	if e.A == nil {
		e.A = []string{}
	}
	if e.S.Params == nil {
		e.S.Params = []string{}
	}
	if e.S.Results == nil {
		e.S.Results = []string{}
	}
	for _, v := range o.Recv {
		e.RecvT = append(e.RecvT, v.T)
		e.RecvV = append(e.RecvV, v.V)
	}
	for _, v := range o.Sent {
		e.SentV = append(e.SentV, v.V)
	}
	return e
}

func bridgeRecord(m map[string]string) error {
	n := argInt(m, "n", 2000)
	rnd := rand.New(rand.NewSource(Seed()*31 + 5))
	rows := make([]*bridgeRow, 0, n)
	if m["in"] != "" { // re-run given rows (replay of a stored case, binding self-test)
		lines, err := readNDJSON(m["in"])
		if err != nil {
			return err
		}
		for i, raw := range lines {
			r := &bridgeRow{}
			if err := json.Unmarshal(raw, r); err != nil {
				return err
			}
			r.ID = i + 1
			rows = append(rows, r)
		}
	} else {
		for i := 1; i <= n; i++ {
			rows = append(rows, bridgeRandomRow(rnd, i))
		}
	}
	type pair struct {
		row *bridgeRow
		ev  bridgeEvent
	}
	var all []pair
	err := runBridgeRows(rows, argInt(m, "workers", 8), func(row *bridgeRow, o *bridgeObs) error {
		all = append(all, pair{row, bridgeEventOf(row, o)})
		return nil
	})
	if err != nil {
		return err
	}
	sort.Slice(all, func(i, j int) bool { return all[i].ev.ID < all[j].ev.ID })
	w, err := newNDJSON(m["out"])
	if err != nil {
		return err
	}
	var wr *ndjsonWriter
	if m["rows"] != "" {
		if wr, err = newNDJSON(m["rows"]); err != nil {
			return err
		}
	}
	for _, p := range all {
		if err := w.Write(p.ev); err != nil {
			return err
		}
		if wr != nil {
			if err := wr.Write(p.row); err != nil {
				return err
			}
		}
	}
	if wr != nil {
		if err := wr.Close(); err != nil {
			return err
		}
	}
	fmt.Printf("{\"rows\":%d}\n", len(all))
	return w.Close()
}
