package verifharness

import (
	"encoding/json"
	"fmt"
	"math"
	"math/rand"
	"strconv"
	"strings"

	ysgo "github.com/remieven/ysgo"
	"github.com/remieven/ysgo/variable"
)

// verifh core widearith --n N --out trace.ndjson [--in events.ndjson]
//
// Property C02 beyond the window of exact rationals that TLC can compute in: "arithmetic on numbers
// as IEEE-754 doubles with % as floating remainder".  Operands are doubles with full mantissas,
// large integers, tiny and huge magnitudes; they reach the script through the storer (exactly) or
// as decimal literals that denote them exactly; what the operator table prescribes is computed with
// the host language's own IEEE-754 arithmetic and travels in the event next to what the library
// stored (both as the bit pattern of the double).  spec/WideArithTrace.tla demands equality.

type wideEvent struct {
	ID   int    `json:"id"`
	Op   string `json:"op"`
	Form string `json:"form"` // var | lit
	A    string `json:"a"`    // operands as tokens
	B    string `json:"b"`
	Src  string `json:"src"` // the expression as written
	Exp  string `json:"exp"`
	Alt  string `json:"alt"` // a second acceptable token ("" = none)
	Got  string `json:"got"`
}

// String literals with escapes (property C03: "set and declare store the expression's value, += appends"):
// the value of "a\"b" is its content as written between the quotes, or that content with \" and \\
// resolved - no property says which - and under both readings every character of the literal counts.
var wideStringLiterals = []string{`"plain"`, `""`, `"\""`, `"a\"b"`, `"\\"`, `"she said \"hi\""`, `"\"\""`, `"tail\\"`, `"\\\""`, `"x\\y"`,
	`"\"start"`, `"end\""`, `"\"both\""`, `"two \"\" inside"`, `"\\\\"`}

func wideStrTok(s string) string { return fmt.Sprintf("s%x", []byte(s)) }

func wideUnescape(raw string) string {
	var sb strings.Builder
	for i := 0; i < len(raw); i++ {
		if raw[i] == '\\' && i+1 < len(raw) && (raw[i+1] == '"' || raw[i+1] == '\\') {
			i++
		}
		sb.WriteByte(raw[i])
	}
	return sb.String()
}

// wideStringEvents: set / declare / += with each literal.
func wideStringEvents() []*wideEvent {
	var evs []*wideEvent
	for _, lit := range wideStringLiterals {
		raw := lit[1 : len(lit)-1]
		for _, op := range []string{"strset", "strdecl", "strapp"} {
			pre := ""
			if op == "strapp" {
				pre = "x"
			}
			evs = append(evs, &wideEvent{ID: len(evs) + 1, Op: op, Form: "lit", A: wideStrTok(raw), B: "", Src: lit,
				Exp: wideStrTok(pre + raw), Alt: wideStrTok(pre + wideUnescape(raw))})
		}
	}
	return evs
}

func wideRunStrings(evs []*wideEvent) {
	var sb strings.Builder
	sb.WriteString("title: Start\n---\n")
	for i, e := range evs {
		switch e.Op {
		case "strset":
			fmt.Fprintf(&sb, "<<set $r%d = %s>>\n", i, e.Src)
		case "strdecl":
			fmt.Fprintf(&sb, "<<declare $r%d = %s>>\n", i, e.Src)
		default:
			fmt.Fprintf(&sb, "<<set $r%d = \"x\">>\n<<set $r%d += %s>>\n", i, i, e.Src)
		}
	}
	sb.WriteString("done\n===\n")
	storer := variable.NewInMemoryStorer()
	for _, e := range evs {
		e.Got = "norun"
	}
	guarded(func() {
		dr, err := ysgo.NewDialogueRunner(storer, "", strings.NewReader(sb.String()))
		if err != nil {
			for _, e := range evs {
				e.Got = "loaderror"
			}
			return
		}
		for k := 0; k < 2*len(evs)+2; k++ {
			el, err := dr.Next(0)
			if err == nil && (el == nil || el.Line != nil) {
				break
			}
		}
		for i, e := range evs {
			v, ok := storer.GetValue(fmt.Sprintf("r%d", i))
			switch {
			case !ok || v == nil:
				e.Got = "err"
			case v.String != nil:
				e.Got = wideStrTok(*v.String)
			default:
				e.Got = "nostring"
			}
		}
	})
}

func wideTok(f float64) string {
	if math.IsNaN(f) {
		return "nan"
	}
	return fmt.Sprintf("f%016x", math.Float64bits(f))
}

func wideFromTok(t string) float64 {
	if t == "nan" {
		return math.NaN()
	}
	u, _ := strconv.ParseUint(strings.TrimPrefix(t, "f"), 16, 64)
	return math.Float64frombits(u)
}

var wideOps = []string{"add", "sub", "mul", "div", "mod", "lt", "le", "gt", "ge", "eq", "ne", "neg"}
var wideSyms = map[string]string{"add": "+", "sub": "-", "mul": "*", "div": "/", "mod": "%", "lt": "<", "le": "<=", "gt": ">", "ge": ">=", "eq": "==", "ne": "!="}

func wideExpected(op string, a, b float64) string {
	switch op {
	case "add":
		return wideTok(a + b)
	case "sub":
		return wideTok(a - b)
	case "mul":
		return wideTok(a * b)
	case "div":
		return wideTok(a / b)
	case "mod":
		return wideTok(math.Mod(a, b))
	case "neg":
		return wideTok(-a)
	case "lt":
		return strconv.FormatBool(a < b)
	case "le":
		return strconv.FormatBool(a <= b)
	case "gt":
		return strconv.FormatBool(a > b)
	case "ge":
		return strconv.FormatBool(a >= b)
	case "eq":
		return strconv.FormatBool(a == b)
	}
	return strconv.FormatBool(a != b)
}

func wideOperand(rnd *rand.Rand) float64 {
	fixed := []float64{0.1, 0.2, 0.3, 1.0 / 3, 2.0 / 3, 0.7, 1e15 + 1, 1e15, 9007199254740991, 9007199254740992, 9007199254740993,
		1e16, 123456789.12345679, 1.0000000000000002, 0.9999999999999999, 4.35, 2.675, 1e-7, 1e21, 5e-324, 1.7976931348623157e308,
		3, 7, 10, 0.5, 1e100, 1e-100, 2.5, 100, 1e15 + 0.5, 4503599627370497.5, 0}
	switch rnd.Intn(4) {
	case 0:
		f := fixed[rnd.Intn(len(fixed))]
		if rnd.Intn(3) == 0 {
			f = -f
		}
		return f
	case 1: // full mantissa, moderate exponent
		return math.Float64frombits(uint64(1023-20+rnd.Intn(60))<<52|uint64(rnd.Int63())&(1<<52-1)) * float64(1-2*rnd.Intn(2))
	case 2: // integers of 15 to 17 digits
		return float64(rnd.Int63n(1<<56)) * float64(1-2*rnd.Intn(2))
	}
	// short decimals (inexact in binary)
	return float64(rnd.Intn(20000)-10000) / []float64{10, 100, 1000, 7, 3}[rnd.Intn(5)]
}

// wideLiteral: a NUMBER literal of the grammar (digits, optional fraction) that denotes f exactly, if a short one exists.
func wideLiteral(f float64) (string, bool) {
	if f < 0 || math.IsInf(f, 0) || math.IsNaN(f) || (f != 0 && (f < 1e-30 || f > 1e30)) {
		return "", false
	}
	s := strconv.FormatFloat(f, 'f', -1, 64)
	if g, err := strconv.ParseFloat(s, 64); err != nil || g != f {
		return "", false
	}
	return s, true
}

func wideRunBatch(evs []*wideEvent) {
	var sb strings.Builder
	sb.WriteString("title: Start\n---\n")
	storer := variable.NewInMemoryStorer()
	for i, e := range evs {
		a, b := wideFromTok(e.A), wideFromTok(e.B)
		ta, tb := fmt.Sprintf("$a%d", i), fmt.Sprintf("$b%d", i)
		if e.Form == "lit" {
			la, _ := wideLiteral(math.Abs(a))
			lb, _ := wideLiteral(math.Abs(b))
			ta, tb = la, lb
			if a < 0 || (a == 0 && math.Signbit(a)) {
				ta = "(-" + la + ")"
			}
			if b < 0 || (b == 0 && math.Signbit(b)) {
				tb = "(-" + lb + ")"
			}
		} else {
			storer.SetNumberValue(fmt.Sprintf("a%d", i), a)
			storer.SetNumberValue(fmt.Sprintf("b%d", i), b)
		}
		if e.Op == "neg" {
			e.Src = "-" + ta
		} else {
			e.Src = ta + " " + wideSyms[e.Op] + " " + tb
		}
		fmt.Fprintf(&sb, "<<set $r%d = %s>>\n", i, e.Src)
	}
	sb.WriteString("done\n===\n")
	for _, e := range evs {
		e.Got = "norun"
	}
	guarded(func() {
		dr, err := ysgo.NewDialogueRunner(storer, "", strings.NewReader(sb.String()))
		if err != nil {
			for _, e := range evs {
				e.Got = "loaderror"
			}
			return
		}
		for k := 0; k < len(evs)+2; k++ { // a failing statement is skipped by the next call
			el, err := dr.Next(0)
			if err == nil && el != nil && el.Line != nil {
				break
			}
			if err == nil && el == nil {
				break
			}
		}
		for i, e := range evs {
			v, ok := storer.GetValue(fmt.Sprintf("r%d", i))
			switch {
			case !ok || v == nil:
				e.Got = "err"
			case v.Number != nil:
				e.Got = wideTok(*v.Number)
			case v.Boolean != nil:
				e.Got = strconv.FormatBool(*v.Boolean)
			default:
				e.Got = "string"
			}
		}
	})
}

// wideDisplayEvents (property C04: "integral numbers without a decimal point, other numbers in shortest
// round-trip decimal"): a double is shown by a line; what is shown, read back as a decimal, is that double
// again (signed zeros alike), and an integral number is shown without a decimal point.
func wideDisplayEvents(rnd *rand.Rand, n int) []*wideEvent {
	fixed := []float64{1e19, 9223372036854775808, 18446744073709551616, 1e21, 1e22, 1e300, -1e19, -9223372036854775808, 4611686018427387904 * 2,
		9007199254740993, 1e15, 1e16, 123456789012345680, math.Inf(1), math.Inf(-1), math.NaN(), 0, math.Copysign(0, -1), 0.1, 1.0 / 3, 5e-324, 1e-7, 2.5e-5}
	var evs []*wideEvent
	for i := 0; i < n; i++ {
		v := wideOperand(rnd)
		if i < len(fixed) {
			v = fixed[i]
		} else if rnd.Intn(4) == 0 {
			v = math.Trunc(v * 1e6) // big integral values
		}
		evs = append(evs, &wideEvent{ID: i + 1, Op: "disp", Form: "var", A: wideTok(v), B: ""})
	}
	return evs
}

func wideNormZero(f float64) float64 {
	if f == 0 {
		return 0
	}
	return f
}

func wideRunDisplay(evs []*wideEvent) {
	var sb strings.Builder
	sb.WriteString("title: Start\n---\n")
	storer := variable.NewInMemoryStorer()
	for i, e := range evs {
		storer.SetNumberValue(fmt.Sprintf("a%d", i), wideFromTok(e.A))
		e.Src = fmt.Sprintf("{$a%d}", i)
		e.Exp = wideTok(wideNormZero(wideFromTok(e.A)))
		e.Got = "norun"
		fmt.Fprintf(&sb, "D%d <{$a%d}>\n", i, i)
	}
	sb.WriteString("===\n")
	guarded(func() {
		dr, err := ysgo.NewDialogueRunner(storer, "", strings.NewReader(sb.String()))
		if err != nil {
			return
		}
		for i, e := range evs {
			var el *ysgo.DialogueElement
			var nerr error
			if !guarded(func() { el, nerr = dr.Next(0) }) {
				e.Got = "panic"
				return
			}
			if nerr != nil || el == nil || el.Line == nil {
				e.Got = "err"
				continue
			}
			text := el.Line.Text
			a, b := strings.Index(text, "<"), strings.LastIndex(text, ">")
			if !strings.HasPrefix(text, fmt.Sprintf("D%d ", i)) || a < 0 || b < a {
				e.Got = "desync"
				continue
			}
			shown := text[a+1 : b]
			back, perr := strconv.ParseFloat(shown, 64)
			v := wideFromTok(e.A)
			switch {
			case perr != nil:
				e.Got = "unparsable"
			case v == math.Trunc(v) && math.Abs(v) < 1<<63 && strings.Contains(shown, "."):
				// (beyond the 64-bit integers exponent notation with a mantissa point is tolerated: only the value counts there)
				e.Got = "haspoint"
			default:
				e.Got = wideTok(wideNormZero(back))
			}
		}
	})
}

func coreWideArith(m map[string]string) error {
	w, err := newNDJSON(m["out"])
	if err != nil {
		return err
	}
	if m["display"] == "1" {
		evs := wideDisplayEvents(rand.New(rand.NewSource(Seed()*37+5)), argInt(m, "n", 2000))
		const batch = 200
		nb := (len(evs) + batch - 1) / batch
		parallelFor(nb, func(bi int) {
			hi := (bi + 1) * batch
			if hi > len(evs) {
				hi = len(evs)
			}
			wideRunDisplay(evs[bi*batch : hi])
		})
		for _, e := range evs {
			if err := w.Write(e); err != nil {
				return err
			}
		}
		fmt.Printf("{\"events\":%d}\n", len(evs))
		return w.Close()
	}
	if m["strings"] == "1" {
		evs := wideStringEvents()
		wideRunStrings(evs)
		for _, e := range evs {
			if err := w.Write(e); err != nil {
				return err
			}
		}
		fmt.Printf("{\"events\":%d}\n", len(evs))
		return w.Close()
	}
	var evs []*wideEvent
	if f := m["in"]; f != "" { // replay of stored events
		raws, err := readNDJSON(f)
		if err != nil {
			return err
		}
		for _, raw := range raws {
			e := &wideEvent{}
			if err := json.Unmarshal(raw, e); err != nil {
				return err
			}
			evs = append(evs, e)
		}
	} else {
		rnd := rand.New(rand.NewSource(Seed()*71 + 29))
		n := argInt(m, "n", 4000)
		// every operator on every pair of special values first: NaN is equal to nothing (itself included) and
		// ordered with nothing, infinities absorb, zeros keep their sign (IEEE-754)
		specials := []float64{math.NaN(), math.Inf(1), math.Inf(-1), 0, math.Copysign(0, -1), 1, -2.5}
		for _, a := range specials {
			for _, b := range specials {
				for _, op := range wideOps {
					evs = append(evs, &wideEvent{ID: len(evs) + 1, Op: op, Form: "var", A: wideTok(a), B: wideTok(b), Exp: wideExpected(op, a, b)})
				}
			}
		}
		for i := len(evs); i < n; i++ {
			a, b := wideOperand(rnd), wideOperand(rnd)
			op := wideOps[rnd.Intn(len(wideOps))]
			e := &wideEvent{ID: i + 1, Op: op, Form: "var", A: wideTok(a), B: wideTok(b)}
			_, oka := wideLiteral(math.Abs(a))
			_, okb := wideLiteral(math.Abs(b))
			if oka && okb && rnd.Intn(2) == 0 {
				e.Form = "lit"
			}
			e.Exp = wideExpected(op, a, b)
			evs = append(evs, e)
		}
	}
	const batch = 100
	nb := (len(evs) + batch - 1) / batch
	parallelFor(nb, func(bi int) {
		hi := (bi + 1) * batch
		if hi > len(evs) {
			hi = len(evs)
		}
		wideRunBatch(evs[bi*batch : hi])
	})
	for _, e := range evs {
		if e.Exp == "" {
			e.Exp = wideExpected(e.Op, wideFromTok(e.A), wideFromTok(e.B))
		}
		if err := w.Write(e); err != nil {
			return err
		}
	}
	fmt.Printf("{\"events\":%d}\n", len(evs))
	return w.Close()
}
