package verifharness

import "fmt"

// The "tiny" family: a SYSTEMATIC enumeration of small programs (property C01's quantifier
// "all scripts"), complementing the seeded random families.  A program is
//
//	Start: header line; first-entry initialisation of $x; S1; S2        (S2 may be absent)
//	Beta : line; <<set $x += 1>>; <<if $x < 3>> <<jump Start>> <<endif>>
//
// where S1, S2 range over a statement alphabet built from 6 leaf statements (line, set, jump
// Beta, jump Start, stop, command) and compound statements (if / if-else with three kinds of
// conditions, option groups of one or two options, the second optionally conditional) whose
// bodies range over 10 small bodies.  The index of a program determines it (mixed radix), so any
// sample is reproducible and the full family can be swept.

type tinyGen struct {
	c      *Case
	lineNo int
}

func (t *tinyGen) leaf(k int) Stmt {
	switch k {
	case 0:
		t.lineNo++
		return Stmt{K: "line", Text: []Part{{Lit: fmt.Sprintf("L%d x=", t.lineNo)}, {E: eVar("x")}}}
	case 1:
		return Stmt{K: "set", Var: "x", Op: "+=", E: eNum(1, 1)}
	case 2:
		return Stmt{K: "jump", E: eStr("Beta")}
	case 3:
		return Stmt{K: "jump", E: eStr("Start")}
	case 4:
		return Stmt{K: "cmd", Elems: []*Expr{eStr("stop")}}
	default:
		return Stmt{K: "cmd", Elems: []*Expr{eStr("cdone"), eVar("x")}}
	}
}

const tinyBodies = 10

// body k of the 10 small bodies (0 = empty)
func (t *tinyGen) body(k int) int {
	switch {
	case k == 0:
		return 0
	case k <= 6:
		return t.c.addBody([]Stmt{t.leaf(k - 1)})
	case k == 7:
		return t.c.addBody([]Stmt{t.leaf(1), t.leaf(0)})
	case k == 8:
		return t.c.addBody([]Stmt{t.leaf(0), t.leaf(2)})
	default:
		return t.c.addBody([]Stmt{t.leaf(0), t.leaf(4)})
	}
}

func tinyCond(k int) *Expr {
	switch k {
	case 0:
		return eBin("lt", eVar("x"), eNum(1, 1))
	case 1:
		return eBool(true)
	default:
		return eBool(false)
	}
}

// alphabet sizes
const (
	tinyLeaves = 6
	tinyIf1    = 3 * tinyBodies              // if c then B
	tinyIf2    = 3 * tinyBodies * 4          // if c then B1 else B2, B2 in 4 bodies
	tinyOpt1   = tinyBodies                  // one option
	tinyOpt2   = tinyBodies * tinyBodies * 2 // two options, second optionally conditional
	tinyStmts  = tinyLeaves + tinyIf1 + tinyIf2 + tinyOpt1 + tinyOpt2
)

func (t *tinyGen) stmt(k int) Stmt {
	opt := func(body int, cond *Expr) Option {
		t.lineNo++
		return Option{Text: []Part{{Lit: fmt.Sprintf("O%d", t.lineNo)}}, Body: body, Cond: cond}
	}
	switch {
	case k < tinyLeaves:
		return t.leaf(k)
	case k < tinyLeaves+tinyIf1:
		k -= tinyLeaves
		return Stmt{K: "if", Clauses: []Clause{{Cond: tinyCond(k / tinyBodies), Body: t.body(k % tinyBodies)}}}
	case k < tinyLeaves+tinyIf1+tinyIf2:
		k -= tinyLeaves + tinyIf1
		b2 := []int{0, 1, 3, 5}[k%4] // empty, line, jump Beta, stop
		k /= 4
		return Stmt{K: "if", Clauses: []Clause{{Cond: tinyCond(k / tinyBodies), Body: t.body(k % tinyBodies)}, {Cond: eBool(true), Body: t.body(b2)}}}
	case k < tinyLeaves+tinyIf1+tinyIf2+tinyOpt1:
		k -= tinyLeaves + tinyIf1 + tinyIf2
		return Stmt{K: "opts", Opts: []Option{opt(t.body(k), nil)}}
	default:
		k -= tinyLeaves + tinyIf1 + tinyIf2 + tinyOpt1
		var cond *Expr
		if k%2 == 1 {
			cond = eBin("lt", eVar("x"), eNum(1, 1))
		}
		k /= 2
		o1 := opt(t.body(k/tinyBodies), nil)
		o2 := opt(t.body(k%tinyBodies), cond)
		return Stmt{K: "opts", Opts: []Option{o1, o2}}
	}
}

func tinyCaseCount() int { return tinyStmts * (tinyStmts + 1) }

func genTinyCase(id int) *Case {
	c := &Case{ID: id, Family: "tiny", Funcs: defaultFuncs(), Cmds: defaultCmds(), Storer: "recording", Vars: []string{"x"}}
	t := &tinyGen{c: c}
	k := id - 1
	s1, s2 := k%tinyStmts, k/tinyStmts // s2 == tinyStmts means "absent"
	c.Nodes = []Node{{Title: "Start"}, {Title: "Beta", Tracking: "always"}}
	start := []Stmt{
		{K: "line", Text: []Part{{Lit: "Start b="}, {E: eCall("visited_count", eStr("Beta"))}}},
		{K: "if", Clauses: []Clause{{Cond: eBin("eq", eCall("visited_count", eStr("Beta")), eNum(0, 1)),
			Body: c.addBody([]Stmt{{K: "set", Var: "x", Op: "=", E: eNum(0, 1)}})}}},
	}
	st1 := t.stmt(s1)
	start = append(start, st1)
	if s2 < tinyStmts {
		st2 := t.stmt(s2)
		if !(st1.K == "opts" && st2.K == "opts") { // two option groups are never placed back to back
			start = append(start, st2)
		}
	}
	c.Nodes[0].Body = c.addBody(start)
	c.Nodes[1].Body = c.addBody([]Stmt{
		{K: "line", Text: []Part{{Lit: "Beta x="}, {E: eVar("x")}}},
		{K: "set", Var: "x", Op: "+=", E: eNum(1, 1)},
		{K: "if", Clauses: []Clause{{Cond: eBin("lt", eVar("x"), eNum(3, 1)), Body: c.addBody([]Stmt{{K: "jump", E: eStr("Start")}})}}},
	})
	c.Readers = []int{2}
	if id%3 == 0 {
		c.Readers = []int{1, 1}
	}
	return c
}
