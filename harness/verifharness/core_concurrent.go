package verifharness

import (
	"encoding/json"
	"fmt"
	"math/rand"
	"sync"
)

// verifh core concurrent --cases cases.ndjson --out trace.ndjson --diffs diffs.ndjson --g G --rounds R
//
// Property C18 (meant to be built with -race): in every round G goroutines start together;
// each creates (parses) its own runner over its own program - some rounds give every
// goroutine the same program - and drives it along a seeded random path, recording its own
// events.  Afterwards the same (program, seed) pairs are run alone, one after the other: the
// two event lists must be identical.  The concurrent traces are also validated against the
// specification by spec/YarnTrace.tla (each runner's projection must be the behaviour of its
// own case).
func coreConcurrent(m map[string]string) error {
	cases, err := loadCases(m["cases"])
	if err != nil {
		return err
	}
	g := argInt(m, "g", 8)
	rounds := argInt(m, "rounds", 10)
	w, err := newNDJSON(m["out"])
	if err != nil {
		return err
	}
	meta, err := newNDJSON(m["out"] + ".meta")
	if err != nil {
		return err
	}
	dw, err := newNDJSON(m["diffs"])
	if err != nil {
		return err
	}
	rnd := rand.New(rand.NewSource(Seed()*53 + 11))
	lines, runs, diffs := 0, 0, 0
	for round := 0; round < rounds; round++ {
		gg := g
		if round%3 == 2 {
			gg = 2 + rnd.Intn(2*g)
		}
		idx := make([]int, gg)
		same := round%4 == 1
		first := rnd.Intn(len(cases))
		for i := range idx {
			if same {
				idx[i] = first
			} else {
				idx[i] = rnd.Intn(len(cases))
			}
		}
		seeds := make([]int64, gg)
		for i := range seeds {
			seeds[i] = rnd.Int63()
		}
		one := func(i int) []recEvent {
			rc := &recorder{rnd: rand.New(rand.NewSource(seeds[i])), maxCalls: 30, layouts: true}
			if err := rc.drive(idx[i]+1, cases[idx[i]], 1+i%3); err != nil {
				return nil
			}
			return rc.events
		}
		conc := make([][]recEvent, gg)
		var wg sync.WaitGroup
		start := make(chan struct{})
		for i := 0; i < gg; i++ {
			wg.Add(1)
			go func(i int) {
				defer wg.Done()
				<-start
				conc[i] = one(i)
			}(i)
		}
		close(start)
		wg.Wait()
		for i := 0; i < gg; i++ {
			runs++
			solo := one(i)
			cb, _ := json.Marshal(conc[i])
			sb, _ := json.Marshal(solo)
			if string(cb) != string(sb) {
				diffs++
				// first differing event
				k := 0
				for k < len(conc[i]) && k < len(solo) {
					a, _ := json.Marshal(conc[i][k])
					b, _ := json.Marshal(solo[k])
					if string(a) != string(b) {
						break
					}
					k++
				}
				var ce, se any
				if k < len(conc[i]) {
					ce = conc[i][k]
				}
				if k < len(solo) {
					se = solo[k]
				}
				if err := dw.Write(map[string]any{"round": round, "goroutine": i, "goroutines": gg, "case": cases[idx[i]], "event": k,
					"concurrent": ce, "alone": se}); err != nil {
					return err
				}
			}
			for _, e := range conc[i] {
				lines++
				if e.Ev == "reset" {
					if err := meta.Write(map[string]any{"line": lines, "id": e.ID, "layout": e.Layout, "texts": e.Texts}); err != nil {
						return err
					}
					e.Layout, e.Texts = nil, nil
				}
				if err := w.Write(e); err != nil {
					return err
				}
			}
		}
	}
	fmt.Printf("{\"rounds\":%d,\"runs\":%d,\"events\":%d,\"diffs\":%d}\n", rounds, runs, lines, diffs)
	if err := meta.Close(); err != nil {
		return err
	}
	if err := dw.Close(); err != nil {
		return err
	}
	return w.Close()
}
