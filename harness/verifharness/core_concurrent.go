package verifharness

import (
	"encoding/json"
	"fmt"
	"math/rand"
	"sort"
	"sync"

	ysgo "github.com/remieven/ysgo"
)

// siblingOf: the same program except that every line of the nodes that do not come from the
// first reader says something else.  Two runners whose FIRST readers are byte-identical and whose
// other readers define the same node titles with different contents are still independent.
func siblingOf(c *Case, id int) *Case {
	raw, _ := json.Marshal(c)
	s := &Case{}
	if json.Unmarshal(raw, s) != nil || len(c.Readers) < 2 {
		return nil
	}
	s.ID = id
	seen := map[int]bool{}
	var mark func(b int)
	mark = func(b int) {
		if b == 0 || seen[b] {
			return
		}
		seen[b] = true
		body := s.Bodies[b-1]
		for i := range body {
			st := &body[i]
			switch st.K {
			case "line":
				st.Text = append(st.Text, Part{Lit: " alt"})
			case "opts":
				for k := range st.Opts {
					st.Opts[k].Text = append(st.Opts[k].Text, Part{Lit: " alt"})
					mark(st.Opts[k].Body)
				}
			case "if":
				for k := range st.Clauses {
					mark(st.Clauses[k].Body)
				}
			}
		}
	}
	for i := c.Readers[0]; i < len(s.Nodes); i++ {
		mark(s.Nodes[i].Body)
	}
	if len(seen) == 0 {
		return nil
	}
	return s
}

// sharedSnapshotRun: a runner that starts from a snapshot taken by another runner.  The events
// of the runner that took the snapshot come first (runner 1), then the restore and the walk of
// the new runner (runner 2): the whole list is a trace of the case.
func sharedSnapshotRun(c *Case, ci int, prelude []recEvent, texts []string, snap *ysgo.Snapshot, seed int64) []recEvent {
	rc := &recorder{rnd: rand.New(rand.NewSource(seed)), maxCalls: 25}
	rc.events = append(rc.events, prelude...)
	h, err := newHost(c, texts)
	if err != nil {
		return nil
	}
	var rerr error
	panicked := !guarded(func() { rerr = h.dr.RestoreAt(snap) })
	ok := rerr == nil && !panicked
	rc.emit(recEvent{Ev: "restore", ID: c.ID, R: 2, H: 1, Ok: &ok})
	if ok {
		rc.walk(h, c, 2)
	}
	return rc.events
}

// snapshotPrelude drives a runner for a few calls and takes a snapshot.
func snapshotPrelude(c *Case, ci int, seed int64) (events []recEvent, texts []string, snap *ysgo.Snapshot) {
	rnd := rand.New(rand.NewSource(seed))
	rc := &recorder{rnd: rnd, maxCalls: 1 + rnd.Intn(8)}
	l := canonicalLayout()
	texts = renderCase(c, l)
	rc.emit(recEvent{Ev: "reset", Case: ci, ID: c.ID, Path: 0, Layout: l.describe(), Texts: texts})
	h, err := newHost(c, texts)
	if err != nil {
		return nil, nil, nil
	}
	rc.walk(h, c, 1)
	if !guarded(func() { snap = h.dr.Snapshot() }) || snap == nil {
		return nil, nil, nil
	}
	sc := h.readSnap(snap)
	rc.emit(recEvent{Ev: "snap", ID: c.ID, R: 1, H: 1, Snap: &sc})
	return rc.events, texts, snap
}

// verifh core concurrent --cases cases.ndjson --out trace.ndjson --diffs diffs.ndjson --g G --rounds R
//
// Property C18 (meant to be built with -race): in every round G goroutines start together;
// each creates (parses) its own runner over its own program - some rounds give every
// goroutine the same program - and drives it along a seeded random path, recording its own
// events.  Afterwards the same (program, seed) pairs are run alone, one after the other: the
// two event lists must be identical.  The concurrent traces are also validated against the
// specification by spec/YarnTrace.tla (each runner's projection must be the behaviour of its
// own case).
func coreConcurrent(m map[string]string) error {
	cases, err := loadCases(m["cases"])
	if err != nil {
		return err
	}
	g := argInt(m, "g", 8)
	rounds := argInt(m, "rounds", 10)
	w, err := newNDJSON(m["out"])
	if err != nil {
		return err
	}
	meta, err := newNDJSON(m["out"] + ".meta")
	if err != nil {
		return err
	}
	dw, err := newNDJSON(m["diffs"])
	if err != nil {
		return err
	}
	rnd := rand.New(rand.NewSource(Seed()*53 + 11))
	lines, runs, diffs := 0, 0, 0
	// sibling programs (same first reader, other readers differ) are appended to the cases
	maxID := 0
	for _, c := range cases {
		if c.ID > maxID {
			maxID = c.ID
		}
	}
	sibling := map[int]int{} // index of a case -> index of its sibling
	for i, n := 0, len(cases); i < n; i++ {
		// (any split into readers is as good as another: first readers of three nodes are wanted too -
		// a slice of three nodes has room for a fourth)
		if nn := len(cases[i].Nodes); nn == 4 || (nn > 4 && i%2 == 0) {
			cases[i].Readers = []int{3, nn - 3}
		}
		if sib := siblingOf(cases[i], maxID+1); sib != nil {
			maxID++
			sibling[i] = len(cases)
			cases = append(cases, sib)
		}
	}
	if f := m["cases-out"]; f != "" {
		cw, err := newNDJSON(f)
		if err != nil {
			return err
		}
		for _, c := range cases {
			if err := cw.Write(c); err != nil {
				return err
			}
		}
		if err := cw.Close(); err != nil {
			return err
		}
	}
	var withSibling, threeOne []int
	for i := range sibling {
		withSibling = append(withSibling, i)
		if len(cases[i].Readers) == 2 && cases[i].Readers[0] == 3 && cases[i].Readers[1] == 1 {
			threeOne = append(threeOne, i)
		}
	}
	sort.Ints(withSibling)
	sort.Ints(threeOne)
	nSib, nShared := 0, 0
	for round := 0; round < rounds; round++ {
		gg := g
		if round%3 == 2 {
			gg = 2 + rnd.Intn(2*g)
		}
		idx := make([]int, gg)
		same := round%4 == 1
		siblings := round%4 == 3 && len(withSibling) > 0
		shared := round%4 == 2
		first := rnd.Intn(len(cases))
		if siblings {
			first = withSibling[rnd.Intn(len(withSibling))]
			if len(threeOne) > 0 && rnd.Intn(2) == 0 {
				first = threeOne[rnd.Intn(len(threeOne))] // a first reader of three nodes and one more node: the slice is exactly full
			}
		}
		for i := range idx {
			switch {
			case siblings && i%2 == 1:
				idx[i] = sibling[first]
			case same || siblings || shared:
				idx[i] = first
			default:
				idx[i] = rnd.Intn(len(cases))
			}
		}
		seeds := make([]int64, gg)
		for i := range seeds {
			seeds[i] = rnd.Int63()
		}
		preludeSeed := rnd.Int63()
		var prelude []recEvent
		var ptexts []string
		var snap *ysgo.Snapshot
		if shared {
			// one snapshot value handed to every goroutine of the round
			prelude, ptexts, snap = snapshotPrelude(cases[first], first+1, preludeSeed)
			shared = snap != nil
		}
		if shared {
			nShared++
		}
		if siblings {
			nSib++
		}
		one := func(i int, alone bool) []recEvent {
			if shared {
				if alone {
					// alone: its own (equal) snapshot, taken by a replay of the same prelude
					p, t, s := snapshotPrelude(cases[first], first+1, preludeSeed)
					if s == nil {
						return nil
					}
					return sharedSnapshotRun(cases[first], first+1, p, t, s, seeds[i])
				}
				return sharedSnapshotRun(cases[first], first+1, prelude, ptexts, snap, seeds[i])
			}
			rc := &recorder{rnd: rand.New(rand.NewSource(seeds[i])), maxCalls: 30, layouts: true}
			path := 1 + i%3
			if siblings {
				path = 0 // the canonical layout: the first readers of the two programs are byte-identical
			}
			if err := rc.drive(idx[i]+1, cases[idx[i]], path); err != nil {
				return nil
			}
			return rc.events
		}
		conc := make([][]recEvent, gg)
		var wg sync.WaitGroup
		start := make(chan struct{})
		for i := 0; i < gg; i++ {
			wg.Add(1)
			go func(i int) {
				defer wg.Done()
				<-start
				conc[i] = one(i, false)
			}(i)
		}
		close(start)
		wg.Wait()
		for i := 0; i < gg; i++ {
			runs++
			solo := one(i, true)
			cb, _ := json.Marshal(conc[i])
			sb, _ := json.Marshal(solo)
			if string(cb) != string(sb) {
				diffs++
				// first differing event
				k := 0
				for k < len(conc[i]) && k < len(solo) {
					a, _ := json.Marshal(conc[i][k])
					b, _ := json.Marshal(solo[k])
					if string(a) != string(b) {
						break
					}
					k++
				}
				var ce, se any
				if k < len(conc[i]) {
					ce = conc[i][k]
				}
				if k < len(solo) {
					se = solo[k]
				}
				if err := dw.Write(map[string]any{"round": round, "goroutine": i, "goroutines": gg, "case": cases[idx[i]], "event": k,
					"concurrent": ce, "alone": se}); err != nil {
					return err
				}
			}
			for _, e := range conc[i] {
				lines++
				if e.Ev == "reset" {
					if err := meta.Write(map[string]any{"line": lines, "id": e.ID, "layout": e.Layout, "texts": e.Texts}); err != nil {
						return err
					}
					e.Layout, e.Texts = nil, nil
				}
				if err := w.Write(e); err != nil {
					return err
				}
			}
		}
	}
	fmt.Printf("{\"rounds\":%d,\"runs\":%d,\"events\":%d,\"diffs\":%d,\"sibling_rounds\":%d,\"shared_snapshot_rounds\":%d,\"siblings\":%d}\n",
		rounds, runs, lines, diffs, nSib, nShared, len(sibling))
	if err := meta.Close(); err != nil {
		return err
	}
	if err := dw.Close(); err != nil {
		return err
	}
	return w.Close()
}
