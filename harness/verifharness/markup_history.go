package verifharness

import "fmt"

// C14 recorder (being written).
func markupHistory(m map[string]string) error { return fmt.Errorf("markup history: not implemented yet") }
