package verifharness

import (
	"encoding/json"
	"fmt"
	"math/rand"
	"strings"

	ysgo "github.com/remieven/ysgo"
	"github.com/remieven/ysgo/internal/tree"
	"github.com/remieven/ysgo/markup"
	"github.com/remieven/ysgo/variable"
)

// Property C14: the result of parsing a line depends only on that line.
// Histories on one reused LineParser vs a fresh parser per call, and dialogue runs that
// reach the same lines after different prefixes (validated by MarkupHistoryTrace.tla).

type mkHistEvent struct {
	Ev      string `json:"ev"`
	B       int    `json:"b"`    // batch: line ids are local to a batch (a header event starts one)
	H       int    `json:"h"`    // history / dialogue run
	P       string `json:"p"`    // fresh | reused | runner
	Line    int    `json:"line"` // id of the line (1-based, dense)
	Outcome string `json:"outcome"`
	Got     mkRes  `json:"got"`
}

type mkLinePool struct {
	ids   map[string]int
	lines []string
}

func (p *mkLinePool) id(line string) int {
	if id, ok := p.ids[line]; ok {
		return id
	}
	p.lines = append(p.lines, line)
	p.ids[line] = len(p.lines)
	return len(p.lines)
}

// mkBreak turns a valid line into one that must fail to parse (or at least is malformed).
func mkBreak(rnd *rand.Rand, line string) string {
	switch rnd.Intn(7) {
	case 0:
		return line + "[x"
	case 1:
		return line + "[/zz9]"
	case 2:
		return "[nomarkup]" + line
	case 3:
		return line + "[select value=q /]"
	case 4:
		return line + "[a p=]"
	case 5:
		return "[/]" + line + "[a trimwhitespace=3/]"
	}
	return line + "[plural value=x one=a other=b/]"
}

// mkHistoryLines draws the lines of one batch: valid lines of the C13 region (rendered),
// failing variants, and (direct histories only) arbitrary token assemblies.
func mkHistoryLines(g *mkGen, rnd *rand.Rand, n int, runnerSafe bool) []string {
	res := []string{}
	for len(res) < n {
		items := g.line(10, runnerSafe)
		line := mkLayout{rnd: rnd}.line(items)
		switch r := rnd.Intn(15); {
		case r == 14:
			// the same property written with the same characters and another type, or with another spelling of
			// the same value - both lines join the set: what one line's marker carried says nothing about the next line's
			pair := [][2]string{{"[pause=2/]", "[pause=2.0/]"}, {"[pause=2/]", `[pause="2"/]`}, {"[a p=true/]", `[a p="true"/]`}, {"[a p=1/]", "[a p=1.0/]"},
				{`[pause=2 q="x"/]`, "[pause=2 q=x/]"}, {"[a p=TRUE/]", "[a p=true/]"}, {"[pause=02/]", "[pause=2/]"}}[rnd.Intn(7)]
			tail := []string{" wait", "", " [b]x[/b]"}[rnd.Intn(3)]
			res = append(res, pair[0]+tail, pair[1]+tail)
			continue
		case r >= 12:
			// markers whose contents are read as raw text up to their close marker, of every
			// name (what the parser keeps from one such marker must not reach the next one)
			open := []string{`[nomarkup]`, `[select value=b a="A" b="B"]`, `[plural value=2 one="% thing" other="% things"]`,
				`[ordinal value=3 one="%st" two="%nd" few="%rd" other="%th"]`}
			name := []string{"nomarkup", "select", "plural", "ordinal"}
			k := rnd.Intn(4)
			end := "[/" + name[k] + "]"
			if rnd.Intn(4) == 0 {
				end = "[/]"
			}
			line = []string{"", "so ", "[b]x[/b] "}[rnd.Intn(3)] + open[k] + []string{"raw", "a [b] c", "x y", ""}[rnd.Intn(4)] + end +
				[]string{"", " done", " [i]z[/i]"}[rnd.Intn(3)]
		case r < 6:
		case r < 9:
			line = mkBreak(rnd, line)
		case r < 10:
			if !runnerSafe {
				line = mkFuzzAssembly(rnd, 48)
			}
		default:
			// Purity is judged by comparing a reused parser with a fresh one, so lines outside the
			// region where C13 fixes the meaning are welcome here: shapes whose treatment depends on
			// what the parser remembers of the characters scanned before a marker (escaped brackets,
			// whitespace), and lines that END in whitespace or fail right after it.
			if !runnerSafe {
				switch rnd.Intn(4) {
				case 0:
					line = []string{`\[`, `\]`, `\[\]`, `\[\[`}[rnd.Intn(4)] +
						[]string{"[sigh/]", "[pause trimwhitespace=true]", "[a /]", "[b x=1/]", "[a trimwhitespace=false/]"}[rnd.Intn(5)] +
						[]string{" ", "\t", "  "}[rnd.Intn(3)] + []string{"silence", "x", "é y"}[rnd.Intn(3)] + []string{"", `\]`, " "}[rnd.Intn(3)]
				case 1:
					line = line + []string{" ", "\t", " [", " [a", "\t[/"}[rnd.Intn(5)]
				case 2:
					line = mkFuzzMarkers(rnd, 48)
				default:
					line = []string{"[a/]", "[sigh/]", "[a trimwhitespace=true]"}[rnd.Intn(3)] + []string{" ", "\t"}[rnd.Intn(2)] + line
				}
			}
		}
		if strings.TrimSpace(line) == "" {
			continue
		}
		res = append(res, line)
	}
	return res
}

// mkScenario is a dialogue in which the lines `pre` and `tail` are reached after
// different prefixes: two passes through a loop, each with a different option body.
type mkScenario struct {
	pre, tail []string
	bodies    [][]string
	// texts of the options (marked-up lines of the pool; nil: plain `choice<i>`): all options of a
	// group are parsed in a row by the runner's parser before the host sees any of them
	optTexts []string
	// the lines of `pre` begin with the inline expression {$v}; the host writes $v into its storer
	// before every pass through the loop: the same line statement is shown with another text, and is
	// parsed as that text
	hostVar bool
	// every line is preceded by a line whose inline expression fails to evaluate after some
	// text and markup have been assembled: the runner reports the error and moves on, and
	// the line shown next must still be parsed as if nothing had happened
	poison bool
}

const mkPoisonLine = `Ghost: [wave]boo [b x=1]{dice("six")} tail[/b][/wave]`

// mkRunnerSkipsFailedLines: does a runner move past a line whose expression failed?  (Only
// then is the element after an error the next line of the script.)
func mkRunnerSkipsFailedLines() (skips bool) {
	guarded(func() {
		r, err := ysgo.NewDialogueRunner(nil, "verif", strings.NewReader("title: Start\n---\n"+mkPoisonLine+"\nplain\n===\n"))
		if err != nil || r == nil {
			return
		}
		if _, err := r.Next(0); err == nil {
			return
		}
		// (judged by the shape of the run only: a line, then the end - not by the line's content)
		el, err := r.Next(0)
		if err != nil || el == nil || el.Line == nil {
			return
		}
		el, err = r.Next(0)
		skips = err == nil && el == nil
	})
	return skips
}

func (s mkScenario) script() string {
	var b strings.Builder
	b.WriteString("title: Start\n---\n")
	if s.hostVar {
		b.WriteString("{$w}\n") // a line that is nothing but one inline expression: its text is the value of the moment
	}
	for _, l := range s.pre {
		if s.poison {
			b.WriteString(mkPoisonLine + "\n")
		}
		if s.hostVar {
			b.WriteString("{$v}")
		}
		b.WriteString(l + "\n")
	}
	for i, body := range s.bodies {
		if s.optTexts != nil {
			b.WriteString("-> " + s.optTexts[i] + "\n")
		} else {
			fmt.Fprintf(&b, "-> choice%d\n", i)
		}
		for _, l := range body {
			if s.poison {
				b.WriteString("    " + mkPoisonLine + "\n")
			}
			b.WriteString("    " + l + "\n")
		}
	}
	for _, l := range s.tail {
		if s.poison {
			b.WriteString(mkPoisonLine + "\n")
		}
		b.WriteString(l + "\n")
	}
	b.WriteString("<<jump Start>>\n===\n")
	return b.String()
}

func mkLineText(st *tree.Statement) (string, bool) {
	if st == nil || st.LineStatement == nil || st.LineStatement.Text == nil || len(st.LineStatement.Tags) != 0 ||
		st.LineStatement.Condition != nil {
		return "", false
	}
	var b strings.Builder
	for _, e := range st.LineStatement.Text.Elements {
		if e.Expression != nil {
			return "", false
		}
		b.WriteString(e.Text)
	}
	return b.String(), true
}

// frontEndKeeps checks that the Yarn front end hands every line of the scenario to the
// markup parser unchanged (otherwise the scenario is not judged).
func (s mkScenario) frontEndKeeps(script string) (ok bool) {
	if s.poison || s.hostVar {
		// the lines themselves are those of the scenario without the failing lines / the {$v} prefix
		plain := s
		plain.poison, plain.hostVar = false, false
		return plain.frontEndKeeps(plain.script())
	}
	guarded(func() {
		d, err := tree.FromReaders(strings.NewReader(script))
		if err != nil || d == nil || len(d.Nodes) != 1 {
			return
		}
		sts := d.Nodes[0].Statements
		if len(sts) != len(s.pre)+1+len(s.tail)+1 {
			return
		}
		same := func(got []*tree.Statement, want []string) bool {
			if len(got) != len(want) {
				return false
			}
			for i := range got {
				if t, ok := mkLineText(got[i]); !ok || t != want[i] {
					return false
				}
			}
			return true
		}
		opts := sts[len(s.pre)].ShortcutOptionStatement
		if !same(sts[:len(s.pre)], s.pre) || opts == nil || len(opts.Options) != len(s.bodies) ||
			!same(sts[len(s.pre)+1:len(s.pre)+1+len(s.tail)], s.tail) || sts[len(sts)-1].JumpStatement == nil {
			return
		}
		for i, o := range opts.Options {
			if !same(o.Statements, s.bodies[i]) {
				return
			}
			if s.optTexts != nil {
				if t, ok := mkLineText(&tree.Statement{LineStatement: o.LineStatement}); !ok || t != s.optTexts[i] {
					return
				}
			}
		}
		ok = true
	})
	return ok
}

// run drives one dialogue run through the choices and returns what the runner yielded
// for every line reached, in order; ok=false if the dialogue did not follow the script.
func (s mkScenario) run(script string, choices []int) (lines []string, res []mkRes, ok bool) {
	var runner *ysgo.DialogueRunner
	storer := variable.NewInMemoryStorer()
	hostVals := []string{"", "ab ", "Q: "}
	hostWhole := []string{"[b]bold[/b] one", "Ann: [wave]two[/wave] and more", "three [pause/] words"}
	if !guarded(func() {
		var r *ysgo.DialogueRunner
		var err error
		if s.hostVar {
			storer.SetStringValue("v", hostVals[0])
			storer.SetStringValue("w", hostWhole[0])
			r, err = ysgo.NewDialogueRunner(storer, "verif", strings.NewReader(script))
		} else {
			r, err = ysgo.NewDialogueRunner(nil, "verif", strings.NewReader(script))
		}
		if err == nil {
			runner = r
		}
	}) || runner == nil {
		return nil, nil, false
	}
	choice := 0
	type keptRes struct {
		at int // index into lines / res
		pr *markup.ParseResult
	}
	var kept []keptRes
	expectLine := func(l string) bool {
		var r mkRes
		if s.poison {
			failed := false
			guarded(func() {
				_, err := runner.Next(choice)
				failed = err != nil
			})
			if !failed {
				return false
			}
		}
		if !guarded(func() {
			el, err := runner.Next(choice)
			switch {
			case err != nil:
				r = mkFail("error")
			case el == nil || el.Line == nil:
				r = mkFail("desync")
			default:
				kept = append(kept, keptRes{len(lines), &el.Line.ParseResult})
				r = mkConvertResult(&el.Line.ParseResult)
			}
		}) {
			r = mkFail("panic")
		}
		if r.Outcome == "desync" {
			return false
		}
		lines, res = append(lines, l), append(res, r)
		return true
	}
	for pass, c := range choices {
		v := ""
		if s.hostVar {
			v = hostVals[pass%len(hostVals)]
			storer.SetStringValue("v", v) // the host writes between two calls
			w := hostWhole[pass%len(hostWhole)]
			storer.SetStringValue("w", w)
			if !expectLine(w) {
				return nil, nil, false
			}
		}
		for _, l := range s.pre {
			if !expectLine(v + l) {
				return nil, nil, false
			}
		}
		gotOptions := false
		guarded(func() {
			el, err := runner.Next(choice)
			gotOptions = err == nil && el != nil && len(el.Options) == len(s.bodies)
			if gotOptions && s.optTexts != nil {
				for i := range el.Options {
					if el.Options[i].Line == nil {
						gotOptions = false
						return
					}
				}
				for i := range el.Options {
					pr := &el.Options[i].Line.ParseResult
					kept = append(kept, keptRes{len(lines), pr})
					lines, res = append(lines, s.optTexts[i]), append(res, mkConvertResult(pr))
				}
			}
		})
		if !gotOptions {
			return nil, nil, false
		}
		choice = c
		for _, l := range s.bodies[c] {
			if !expectLine(l) {
				return nil, nil, false
			}
		}
		for _, l := range s.tail {
			if !expectLine(l) {
				return nil, nil, false
			}
		}
	}
	// what the host was given earlier is still what it was (a result does not change afterwards)
	for _, k := range kept {
		var again mkRes
		if !guarded(func() { again = mkConvertResult(k.pr) }) {
			again = mkFail("panic")
		}
		if mkCanon(again) != mkCanon(res[k.at]) || mkStr(again.Text) != mkStr(res[k.at].Text) {
			again.Later = true
			lines, res = append(lines, lines[k.at]), append(res, again)
		}
	}
	return lines, res, true
}

func markupHistory(m map[string]string) error {
	out, err := newNDJSON(m["out"])
	if err != nil {
		return err
	}
	pool := &mkLinePool{ids: map[string]int{}}
	var events []mkHistEvent
	var lw *ndjsonWriter
	if f := m["lines"]; f != "" { // (batch, id) -> line (code points), for reports and replay files
		if lw, err = newNDJSON(f); err != nil {
			return err
		}
	}
	batch, nEvents, nLines := 1, 0, 0
	// flush writes the current batch: its header, its events, its lines
	flush := func() error {
		if len(events) == 0 {
			return nil
		}
		if err := out.Write(map[string]any{"ev": "header", "b": batch, "nlines": len(pool.lines)}); err != nil {
			return err
		}
		for _, e := range events {
			if err := out.Write(e); err != nil {
				return err
			}
		}
		if lw != nil {
			for i, l := range pool.lines {
				if err := lw.Write(map[string]any{"b": batch, "id": i + 1, "cps": mkCps(l)}); err != nil {
					return err
				}
			}
		}
		nEvents += len(events)
		nLines += len(pool.lines)
		batch++
		events = events[:0]
		pool = &mkLinePool{ids: map[string]int{}}
		return nil
	}
	var cases []map[string]any // one entry per history / dialogue run h, replayable with --cases
	cpsAll := func(ls []string) [][]int {
		r := make([][]int, len(ls))
		for i := range ls {
			r[i] = mkCps(ls[i])
		}
		return r
	}
	runnerCase := func(sc mkScenario, choices []int) map[string]any {
		bodies := make([][][]int, len(sc.bodies))
		for i := range sc.bodies {
			bodies[i] = cpsAll(sc.bodies[i])
		}
		return map[string]any{"kind": "runner", "pre": cpsAll(sc.pre), "tail": cpsAll(sc.tail), "bodies": bodies, "choices": choices,
			"poison": sc.poison, "opttexts": cpsAll(sc.optTexts), "hostvar": sc.hostVar}
	}
	h := 0
	nDirect, nRunnerRuns, nRunnerSkipped, nFailing := 0, 0, 0, 0
	record := func(p, line string, r mkRes) {
		if r.Outcome == "error" && p == "fresh" {
			nFailing++
		}
		events = append(events, mkHistEvent{Ev: "parse", B: batch, H: h, P: p, Line: pool.id(line), Outcome: r.Outcome, Got: r})
	}
	direct := func(lines []string) {
		h++
		nDirect++
		cases = append(cases, map[string]any{"kind": "direct", "lines": cpsAll(lines)})
		reused := &markup.LineParser{}
		type keptRes struct {
			line string
			pr   *markup.ParseResult
			was  mkRes
		}
		var kept []keptRes
		for _, l := range lines {
			record("fresh", l, mkParse(&markup.LineParser{}, l))
			r, pr := mkParseKeep(reused, l)
			record("reused", l, r)
			if pr != nil {
				kept = append(kept, keptRes{l, pr, r})
			}
		}
		// a result stays what it was when it was returned, whatever the parser is used for afterwards
		for _, k := range kept {
			var again mkRes
			if !guarded(func() { again = mkConvertResult(k.pr) }) {
				again = mkFail("panic")
			}
			if mkCanon(again) != mkCanon(k.was) || mkStr(again.Text) != mkStr(k.was.Text) {
				again.Later = true
				record("reused", k.line, again)
			}
		}
	}
	if f := m["cases"]; f != "" { // replay of stored histories: [{"kind":"direct","lines":[[cps]..]} | {"kind":"runner",...}]
		raws, err := readNDJSON(f)
		if err != nil {
			return err
		}
		for _, raw := range raws {
			var c struct {
				Kind    string    `json:"kind"`
				Lines   [][]int   `json:"lines"`
				Pre     [][]int   `json:"pre"`
				Tail    [][]int   `json:"tail"`
				Bodies  [][][]int `json:"bodies"`
				Choices []int     `json:"choices"`
				Poison  bool      `json:"poison"`
				OptText [][]int   `json:"opttexts"`
				HostVar bool      `json:"hostvar"`
			}
			if err := json.Unmarshal(raw, &c); err != nil {
				return err
			}
			strs := func(x [][]int) []string {
				r := make([]string, len(x))
				for i := range x {
					r[i] = mkStr(x[i])
				}
				return r
			}
			if c.Kind == "direct" {
				direct(strs(c.Lines))
				continue
			}
			sc := mkScenario{pre: strs(c.Pre), tail: strs(c.Tail), poison: c.Poison, hostVar: c.HostVar}
			if len(c.OptText) > 0 {
				sc.optTexts = strs(c.OptText)
			}
			for _, b := range c.Bodies {
				sc.bodies = append(sc.bodies, strs(b))
			}
			script := sc.script()
			h++
			cases = append(cases, runnerCase(sc, c.Choices))
			if lines, res, ok := sc.run(script, c.Choices); ok && sc.frontEndKeeps(script) {
				nRunnerRuns++
				for i := range lines {
					record("fresh", lines[i], mkParse(&markup.LineParser{}, lines[i]))
					record("runner", lines[i], res[i])
				}
			} else {
				nRunnerSkipped++
			}
		}
	} else {
		n := argInt(m, "n", 300)
		rnd := rand.New(rand.NewSource(Seed()))
		g := &mkGen{rnd: rand.New(rand.NewSource(Seed() + 11))}
		skipsFailed := mkRunnerSkipsFailedLines()
		for i := 0; i < n; i++ {
			if i%60 == 59 {
				if err := flush(); err != nil {
					return err
				}
			}
			if i%3 != 2 {
				// a history over a small set of lines, so that lines repeat at different depths
				set := mkHistoryLines(g, rnd, 2+rnd.Intn(4), false)
				hist := make([]string, 2+rnd.Intn(7))
				for k := range hist {
					hist[k] = set[rnd.Intn(len(set))]
				}
				direct(hist)
				continue
			}
			ls := mkHistoryLines(g, rnd, 8, true)
			sc := mkScenario{pre: ls[0 : 1+rnd.Intn(2)], tail: ls[2 : 3+rnd.Intn(2)],
				bodies: [][]string{ls[4 : 5+rnd.Intn(2)], ls[6 : 6+rnd.Intn(3)], {}}}
			if i == 2 {
				// scale: hundreds of distinct texts on one runner, then all of them again (whatever the runner
				// or its parser remembers about lines it has seen has been filled and emptied several times)
				var many []string
				for k := 0; k < 200; k++ {
					many = append(many, fmt.Sprintf("%s w%d", ls[k%len(ls)], k))
				}
				sc = mkScenario{pre: many, tail: ls[2:3], bodies: [][]string{{}, {}, {}}}
			}
			if rnd.Intn(2) == 0 {
				// marked-up option texts (lines of the same pool, so they also occur as lines)
				withOpts := sc
				withOpts.optTexts = []string{ls[1], ls[3], ls[5]}
				parses := true // (an option whose markup fails makes the whole group fail)
				for _, t := range withOpts.optTexts {
					parses = parses && mkParse(&markup.LineParser{}, t).Outcome == "result"
				}
				if parses && withOpts.frontEndKeeps(withOpts.script()) {
					sc = withOpts
				}
			}
			script := sc.script()
			if !sc.frontEndKeeps(script) {
				nRunnerSkipped++
				continue
			}
			for ci, choices := range [][]int{{0, 1}, {1, 0}, {2, 2, 0}, {1, 0, 2}, {2, 2, 2}} {
				sc.poison = ci == 3 && skipsFailed
				sc.hostVar = ci == 4
				script := sc.script()
				h++
				cases = append(cases, runnerCase(sc, choices))
				lines, res, ok := sc.run(script, choices)
				if !ok {
					nRunnerSkipped++
					continue
				}
				nRunnerRuns++
				for k := range lines {
					record("fresh", lines[k], mkParse(&markup.LineParser{}, lines[k]))
					record("runner", lines[k], res[k])
				}
			}
		}
	}
	if err := flush(); err != nil {
		return err
	}
	if err := out.Close(); err != nil {
		return err
	}
	if lw != nil {
		if err := lw.Close(); err != nil {
			return err
		}
	}
	if f := m["cases-out"]; f != "" {
		cw, err := newNDJSON(f)
		if err != nil {
			return err
		}
		for _, c := range cases {
			if err := cw.Write(c); err != nil {
				return err
			}
		}
		if err := cw.Close(); err != nil {
			return err
		}
	}
	stats, _ := json.Marshal(map[string]any{"histories": nDirect, "runner_runs": nRunnerRuns, "runner_skipped": nRunnerSkipped,
		"events": nEvents, "distinct_lines": nLines, "failing_line_parses": nFailing})
	fmt.Println(string(stats))
	return nil
}
