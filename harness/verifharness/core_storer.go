package verifharness

import (
	"encoding/json"
	"fmt"
	"sort"

	"github.com/remieven/ysgo/variable"
)

// verifh storer replay --in beh.ndjson --out diffs.ndjson
//
// Replays the histories enumerated by spec/Storer.tla on the real
// variable.InMemoryStorer and compares GetValue / GetValues / Contains of every name
// with the abstract one-map store (property C03: one name, one type).
func init() { register("storer", storerMain) }

type storerOp struct {
	Op   string `json:"op"`
	Name string `json:"name"`
	Val  Val    `json:"val"`
}

type storerObs struct {
	Get Val  `json:"get"`
	All Val  `json:"all"`
	Has bool `json:"has"`
}

type storerBeh struct {
	Hist []storerOp                 `json:"hist"`
	Exp  map[string]json.RawMessage `json:"exp"`
}

func storerMain(args []string) error {
	if len(args) == 0 || args[0] != "replay" {
		return fmt.Errorf("storer: unknown mode")
	}
	m := argMap(args[1:])
	lines, err := readNDJSON(m["in"])
	if err != nil {
		return err
	}
	w, err := newNDJSON(m["out"])
	if err != nil {
		return err
	}
	ops := 0
	for bi, raw := range lines {
		var b storerBeh
		if err := json.Unmarshal(raw, &b); err != nil {
			return err
		}
		st := variable.NewInMemoryStorer()
		for _, op := range b.Hist {
			ops++
			switch {
			case op.Op == "clear":
				st.Clear()
			case op.Val.T == "n":
				st.SetNumberValue(op.Name, floatOfVal(op.Val))
			case op.Val.T == "b":
				st.SetBooleanValue(op.Name, op.Val.B)
			case op.Val.T == "s":
				st.SetStringValue(op.Name, op.Val.S)
			}
		}
		names := make([]string, 0, len(b.Exp))
		for n := range b.Exp {
			names = append(names, n)
		}
		sort.Strings(names)
		all := st.GetValues()
		for _, n := range names {
			got := storerObs{Get: Val{T: "u"}, All: Val{T: "u"}, Has: st.Contains(n)}
			if v, ok := st.GetValue(n); ok {
				got.Get = valOf(v)
			}
			if v, ok := all[n]; ok {
				vv := v
				got.All = valOf(&vv)
			}
			if !jsonEqual(b.Exp[n], got) {
				if err := w.Write(map[string]any{"beh": bi, "name": n, "hist": b.Hist, "exp": b.Exp[n], "got": got}); err != nil {
					return err
				}
				break
			}
		}
	}
	fmt.Printf("{\"histories\":%d,\"ops\":%d}\n", len(lines), ops)
	return w.Close()
}
