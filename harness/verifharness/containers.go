package verifharness

import (
	"encoding/json"
	"fmt"
	"math/rand"

	"github.com/remieven/ysgo/internal/container"
)

// Property C20 (queue / stack part).
//
//	verifh containers record --n N --len L --out trace.ndjson
//	    random histories on container.Queue[int] and container.Stack[int], one event
//	    per public call (validated by spec/ContainersTrace.tla)
//	verifh containers walks --in walks.ndjson --out diffs.ndjson
//	    replays walks through the state graph of spec/RingQueue.tla on container.Queue[int]
//	verifh containers stack --in beh.ndjson --out diffs.ndjson
//	    replays the histories enumerated by spec/GenStack.tla on container.Stack[int]
func init() { register("containers", containersMain) }

type contEvent struct {
	Ev   string `json:"ev"`
	Kind string `json:"kind"`
	ID   int    `json:"id"`
	Op   string `json:"op"`
	Arg  int    `json:"arg"`
	Arg2 int    `json:"arg2"`
	Res  int    `json:"res"`
	Size int    `json:"size"`
}

func containersMain(args []string) error {
	if len(args) == 0 {
		return fmt.Errorf("containers: missing mode")
	}
	m := argMap(args[1:])
	switch args[0] {
	case "record":
		return containersRecord(m)
	case "walks":
		return containersWalks(m)
	case "stack":
		return containersStack(m)
	}
	return fmt.Errorf("containers: unknown mode %s", args[0])
}

// guarded runs f and converts a panic into ok=false.
func guarded(f func()) (ok bool) {
	defer func() {
		if r := recover(); r != nil {
			ok = false
		}
	}()
	f()
	return true
}

func containersRecord(m map[string]string) error {
	n := argInt(m, "n", 200)
	maxLen := argInt(m, "len", 400)
	w, err := newNDJSON(m["out"])
	if err != nil {
		return err
	}
	rnd := rand.New(rand.NewSource(Seed()))
	for id := 1; id <= n; id++ {
		length := 1 + rnd.Intn(maxLen)
		// bias: probability of an insertion drifts so that some histories fill the
		// buffer past one or two growths and others keep it nearly empty (wrap-around)
		pIns := 0.35 + 0.4*rnd.Float64()
		if id%10 == 1 || id%10 == 2 {
			// long histories that keep hundreds of elements pending (many growths, whatever the growth
			// policy) and then drain to empty, twice over
			length, pIns = 1500+rnd.Intn(1500), 0.5
		}
		long := length >= 1500
		if id%2 == 1 {
			q := &container.Queue[int]{}
			size := 0
			if err := w.Write(contEvent{Ev: "reset", Kind: "q", ID: id, Res: -1}); err != nil {
				return err
			}
			for k := 0; k < length; k++ {
				ev := contEvent{Ev: "op", Kind: "q", ID: id, Res: -1}
				r := rnd.Float64()
				if long { // fill, drain, fill, drain
					switch phase := (4 * k) / length; {
					case phase%2 == 0:
						pIns = 0.85
					default:
						pIns = 0.05
					}
				}
				okCall := true
				switch {
				case size == 0 || r < pIns:
					ev.Op, ev.Arg = "enq", id*1000+k
					okCall = guarded(func() { q.Enqueue(ev.Arg) })
					size++
				case r < pIns+0.15:
					ev.Op = "qpeek"
					okCall = guarded(func() { ev.Res = q.Peek() })
				default:
					ev.Op = "deq"
					okCall = guarded(func() { ev.Res = q.Dequeue() })
					size--
				}
				if !okCall {
					ev.Res = -2 // panic
				}
				if !guarded(func() { ev.Size = q.Size() }) {
					ev.Size = -2
				}
				if err := w.Write(ev); err != nil {
					return err
				}
				if !okCall {
					break
				}
			}
		} else {
			s := &container.Stack[int]{}
			size := 0
			scratch := make([]int, 0, 8)
			if long { // fill, drain, fill, drain (the phases are applied below through pIns)
				pIns = 0.6
			}
			if err := w.Write(contEvent{Ev: "reset", Kind: "s", ID: id, Res: -1}); err != nil {
				return err
			}
			for k := 0; k < length; k++ {
				ev := contEvent{Ev: "op", Kind: "s", ID: id, Res: -1}
				r := rnd.Float64()
				okCall := true
				switch {
				case (size == 0 && r < 0.5) || (size > 0 && r < pIns*0.7):
					ev.Op, ev.Arg = "push", id*1000+k
					okCall = guarded(func() { s.Push(ev.Arg) })
					size++
				case size == 0 || r < pIns:
					ev.Op, ev.Arg, ev.Arg2 = "pushall", id*1000+k, -(id*1000 + k)
					if rnd.Intn(2) == 0 {
						// the elements come from a slice the caller goes on using: what is on the stack
						// are the elements, not the caller's storage
						scratch = append(scratch[:0], ev.Arg, ev.Arg2)
						okCall = guarded(func() { s.PushAll(scratch...) })
						scratch[0], scratch[1] = 7, 7
						scratch = append(scratch, 9, 9, 9)[:2]
					} else {
						okCall = guarded(func() { s.PushAll(ev.Arg, ev.Arg2) })
					}
					size += 2
				case r < pIns+0.12:
					ev.Op = "speek"
					okCall = guarded(func() { ev.Res = s.Peek() })
				case r < pIns+0.15:
					ev.Op = "clear"
					okCall = guarded(func() { s.Clear() })
					size = 0
				default:
					ev.Op = "pop"
					okCall = guarded(func() { ev.Res = s.Pop() })
					size--
				}
				if !okCall {
					ev.Res = -2
				}
				if !guarded(func() { ev.Size = s.Size() }) {
					ev.Size = -2
				}
				if err := w.Write(ev); err != nil {
					return err
				}
				if !okCall {
					break
				}
			}
		}
	}
	return w.Close()
}

type walkStep struct {
	Op string `json:"op"` // "Enq" | "Deq" (action names of RingQueue.tla)
	Lo int    `json:"lo"` // abstract queue after the step is lo..hi-1
	Hi int    `json:"hi"`
}

type walkDiff struct {
	Walk int    `json:"walk"`
	Step int    `json:"step"`
	What string `json:"what"`
	Exp  int    `json:"exp"`
	Got  int    `json:"got"`
}

func containersWalks(m map[string]string) error {
	lines, err := readNDJSON(m["in"])
	if err != nil {
		return err
	}
	w, err := newNDJSON(m["out"])
	if err != nil {
		return err
	}
	steps := 0
	for wi, raw := range lines {
		var walk []walkStep
		if err := json.Unmarshal(raw, &walk); err != nil {
			return err
		}
		q := &container.Queue[int]{}
		for si, st := range walk {
			steps++
			var diff *walkDiff
			switch st.Op {
			case "Enq":
				if !guarded(func() { q.Enqueue(st.Hi - 1) }) {
					diff = &walkDiff{wi, si, "enqueue-panic", 0, 0}
				}
			case "Deq":
				got := 0
				if !guarded(func() { got = q.Dequeue() }) {
					diff = &walkDiff{wi, si, "dequeue-panic", st.Lo - 1, 0}
				} else if got != st.Lo-1 {
					diff = &walkDiff{wi, si, "dequeue-result", st.Lo - 1, got}
				}
			default:
				return fmt.Errorf("unknown walk op %q", st.Op)
			}
			if diff == nil {
				size := -2
				guarded(func() { size = q.Size() })
				if size != st.Hi-st.Lo {
					diff = &walkDiff{wi, si, "size", st.Hi - st.Lo, size}
				} else if st.Hi > st.Lo {
					head := -2
					if !guarded(func() { head = q.Peek() }) || head != st.Lo {
						diff = &walkDiff{wi, si, "peek", st.Lo, head}
					}
				}
			}
			if diff != nil {
				if err := w.Write(diff); err != nil {
					return err
				}
				break
			}
		}
	}
	fmt.Printf("{\"walks\":%d,\"steps\":%d}\n", len(lines), steps)
	return w.Close()
}

func containersStack(m map[string]string) error {
	lines, err := readNDJSON(m["in"])
	if err != nil {
		return err
	}
	w, err := newNDJSON(m["out"])
	if err != nil {
		return err
	}
	steps := 0
	for hi, raw := range lines {
		var hist []contEvent
		if err := json.Unmarshal(raw, &hist); err != nil {
			return err
		}
		s := &container.Stack[int]{}
		for si, e := range hist {
			steps++
			res := -1
			ok := guarded(func() {
				switch e.Op {
				case "push":
					s.Push(e.Arg)
				case "pushall":
					s.PushAll(e.Arg, e.Arg2)
				case "pop":
					res = s.Pop()
				case "speek":
					res = s.Peek()
				case "clear":
					s.Clear()
				}
			})
			size := -2
			guarded(func() { size = s.Size() })
			if !ok || res != e.Res || size != e.Size {
				what := "result"
				if !ok {
					what = "panic"
				} else if res == e.Res {
					what = "size"
				}
				if err := w.Write(map[string]any{"hist": hi, "step": si, "op": e.Op, "what": what,
					"expRes": e.Res, "gotRes": res, "expSize": e.Size, "gotSize": size, "history": hist}); err != nil {
					return err
				}
				break
			}
		}
	}
	fmt.Printf("{\"histories\":%d,\"steps\":%d}\n", len(lines), steps)
	return w.Close()
}
