package verifharness

import (
	"encoding/json"
	"fmt"
	"io"
	"math"
	"math/rand"
	"os"
	"os/exec"
	"regexp"
	"sort"
	"strconv"
	"strings"
	"sync"
	"time"

	ysgo "github.com/remieven/ysgo"
	"github.com/remieven/ysgo/internal/rng"
	"github.com/remieven/ysgo/variable"
)

// Property C09 (same script, seed and choices give the same run; random built-ins in range).
//
//	verifh rng record --n N --out trace.ndjson --cases cases.ndjson [--in cases.ndjson] [--batch B]
//	    every case (a small script using dice / random / random_range in lines, sets, if
//	    conditions and option conditions, a seed, a choice path) is executed
//	      run 1 "first", run 2 "again"   in this process, back to back
//	      run 3 "disturbed"              after and interleaved with unrelated runners with other
//	                                     seeds, with the process-wide math/rand source re-seeded and used
//	      run 4 "child"                  in a fresh child process (verifh rng child), at least a
//	                                     second later
//	    all runs are events of one trace, validated by spec/RngTrace.tla
//	verifh rng child --in cases.ndjson --out events.ndjson
//	    (internal) one run per case in this process
func init() { register("rng", rngMain) }

func rngMain(args []string) error {
	if len(args) == 0 {
		return fmt.Errorf("rng: missing mode")
	}
	m := argMap(args[1:])
	switch args[0] {
	case "record":
		return rngRecord(m)
	case "child":
		return rngChild(m)
	case "concurrent":
		return rngConcurrent(m)
	}
	return fmt.Errorf("rng: unknown mode %s", args[0])
}

// rngContract is the range contract of one draw whose value is observable.
type rngContract struct {
	Kind string `json:"kind"` // dice | range | random
	A    int64  `json:"a"`
	B    int64  `json:"b"`
	Den  int64  `json:"den"` // the bounds are A/Den and B/Den (0 means 1): random_range(0.5, 1.5) is A=1 B=3 Den=2
}

type rngCase struct {
	ID        int                    `json:"id"`
	Seed      string                 `json:"seed"`
	Script    string                 `json:"script"`
	Choices   []int                  `json:"choices"`
	Contracts map[string]rngContract `json:"contracts"` // variable name or inline tag -> contract
	Faulty    bool                   `json:"faulty"`    // the script contains a deliberate run-time fault
	Split     bool                   `json:"split"`     // every node comes from its own reader
	Family    string                 `json:"family,omitempty"`
}

type rngDraw struct {
	Var  string `json:"var"`
	Kind string `json:"kind"`
	A    int64  `json:"a"`
	B    int64  `json:"b"`
	Den  int64  `json:"den"` // bounds in units of 1/Den
	V    int64  `json:"v"`   // dice/range: the value; random: floor(v * 2^30)
	OK   bool   `json:"ok"`  // false: not an integer / not a finite number / not a number at all
	Tok  string `json:"tok"` // exact value as an opaque token
}

type rngVar struct {
	N   string `json:"n"`
	T   string `json:"t"`
	Tok string `json:"tok"`
}

type rngOpt struct {
	Text string `json:"text"`
	Dis  bool   `json:"dis"`
}

type rngRes struct {
	K    string   `json:"k"` // line | opts | end | error | panic
	Node string   `json:"node"`
	Text string   `json:"text"`
	Opts []rngOpt `json:"opts"`
	Err  string   `json:"err"` // error: its message (errors of equal runs are identical, message included)
}

func rngASCII(s string, max int) string {
	b := []byte{}
	for _, r := range s {
		if r < 32 || r > 126 || r == '"' || r == '\\' {
			b = append(b, '?')
		} else {
			b = append(b, byte(r))
		}
		if len(b) >= max {
			break
		}
	}
	return string(b)
}

type rngEvent struct {
	Ev    string    `json:"ev"` // case | run | next | endrun
	Case  int       `json:"case"`
	Run   int       `json:"run"`
	Mode  string    `json:"mode"`
	I     int       `json:"i"`
	Res   rngRes    `json:"res"`
	Draws []rngDraw `json:"draws"`
	Vars  []rngVar  `json:"vars"`
	Steps int       `json:"steps"` // endrun: number of next events of the run
	// case: the script contains a deliberate fault (an ill-typed dice argument)
	Faulty bool `json:"faulty"`
}

// no JSON null may reach the Json module of TLC
func (e *rngEvent) normalise() {
	if e.Res.Opts == nil {
		e.Res.Opts = []rngOpt{}
	}
	if e.Draws == nil {
		e.Draws = []rngDraw{}
	}
	if e.Vars == nil {
		e.Vars = []rngVar{}
	}
}

func rngNumTok(v float64) string {
	if v == math.Trunc(v) && math.Abs(v) < 1e15 {
		return strconv.FormatInt(int64(v), 10)
	}
	return fmt.Sprintf("f%016x", math.Float64bits(v))
}

var rngInlineRE = regexp.MustCompile(`([a-z][0-9]+)=<([^<>]*)>`)

func rngDrawOf(name string, c rngContract, num *float64, text string) rngDraw {
	d := rngDraw{Var: name, Kind: c.Kind, A: c.A, B: c.B, Den: c.Den, Tok: text}
	if d.Den == 0 {
		d.Den = 1
	}
	if num == nil {
		return d // not a number: OK stays false
	}
	v := *num
	d.Tok = rngNumTok(v)
	switch c.Kind {
	case "random":
		if math.IsNaN(v) {
			return d
		}
		d.OK = true
		s := math.Floor(v * (1 << 30))
		switch {
		case s < 0:
			d.V = -1
		case s >= 1<<30:
			d.V = 1 << 30
		default:
			d.V = int64(s)
		}
	default:
		if v != math.Trunc(v) || math.Abs(v) > 2147483647 {
			return d
		}
		d.OK = true
		d.V = int64(v)
	}
	return d
}

// rngRun executes a case once on the real library.  between is called before every Next
// (used by the disturbed run to interleave unrelated activity).
func rngRun(c *rngCase, run int, mode string, between func()) []rngEvent {
	events := []rngEvent{{Ev: "run", Case: c.ID, Run: run, Mode: mode}}
	emit := func(i int, res rngRes, draws []rngDraw, vars []rngVar) {
		if res.Opts == nil {
			res.Opts = []rngOpt{}
		}
		if draws == nil {
			draws = []rngDraw{}
		}
		if vars == nil {
			vars = []rngVar{}
		}
		events = append(events, rngEvent{Ev: "next", Case: c.ID, Run: run, Mode: mode, I: i, Res: res, Draws: draws, Vars: vars})
	}
	storer := variable.NewInMemoryStorer()
	var runner *ysgo.DialogueRunner
	var err error
	var pv any
	func() {
		defer func() {
			if r := recover(); r != nil {
				pv = r
			}
		}()
		if c.Split {
			var readers []io.Reader
			for _, part := range strings.SplitAfter(c.Script, "===\n") {
				if part != "" {
					readers = append(readers, strings.NewReader(part))
				}
			}
			runner, err = ysgo.NewDialogueRunner(storer, c.Seed, readers...)
			return
		}
		runner, err = ysgo.NewDialogueRunner(storer, c.Seed, strings.NewReader(c.Script))
	}()
	steps := 0
	if pv != nil || err != nil || runner == nil {
		k := "error"
		if pv != nil {
			k = "panic"
		}
		msg := ""
		if err != nil {
			msg = rngASCII(err.Error(), 300)
		}
		emit(0, rngRes{K: k, Node: "load", Err: msg}, nil, nil)
		steps = 1
	} else {
		seen := map[string]bool{}
		choice, nchoice := 0, 0
		for i := 1; i <= 80; i++ {
			if between != nil {
				between()
				// looking at the runner (taking a snapshot) is not a step of the run
				if run%2 == 1 || i%3 == 0 {
					func() {
						defer func() { recover() }()
						runner.Snapshot()
					}()
				}
			}
			var el *ysgo.DialogueElement
			var nerr error
			pv = nil
			func() {
				defer func() {
					if r := recover(); r != nil {
						pv = r
					}
				}()
				el, nerr = runner.Next(choice)
			}()
			res := rngRes{}
			var draws []rngDraw
			switch {
			case pv != nil:
				res.K = "panic"
			case nerr != nil:
				res.K, res.Err = "error", rngASCII(nerr.Error(), 300)
			case el == nil:
				res.K = "end"
			case el.Line != nil:
				res.K, res.Node, res.Text = "line", el.Node, el.Line.Text
			default:
				res.K, res.Node = "opts", el.Node
				for _, o := range el.Options {
					t := ""
					if o.Line != nil {
						t = o.Line.Text
					}
					res.Opts = append(res.Opts, rngOpt{Text: t, Dis: o.Disabled})
				}
				if len(el.Options) > 0 {
					choice = c.Choices[nchoice%len(c.Choices)] % len(el.Options)
					nchoice++
				}
			}
			// draws rendered into the text of the line / the options
			texts := []string{res.Text}
			for _, o := range res.Opts {
				texts = append(texts, o.Text)
			}
			for _, t := range texts {
				for _, mm := range rngInlineRE.FindAllStringSubmatch(t, -1) {
					if ct, ok := c.Contracts[mm[1]]; ok {
						var num *float64
						if f, perr := strconv.ParseFloat(mm[2], 64); perr == nil {
							num = &f
						}
						draws = append(draws, rngDrawOf(mm[1], ct, num, mm[2]))
					}
				}
			}
			// variable contents; a draw variable that appeared during this step is a draw
			var vars []rngVar
			var values map[string]variable.Value
			func() {
				defer func() { recover() }()
				values = storer.GetValues()
			}()
			names := make([]string, 0, len(values))
			for n := range values {
				names = append(names, n)
			}
			sort.Strings(names)
			for _, n := range names {
				v := values[n]
				rv := rngVar{N: n}
				switch {
				case v.Number != nil:
					rv.T, rv.Tok = "n", rngNumTok(*v.Number)
				case v.Boolean != nil:
					rv.T, rv.Tok = "b", strconv.FormatBool(*v.Boolean)
				case v.String != nil:
					rv.T, rv.Tok = "s", *v.String
				}
				vars = append(vars, rv)
				if ct, ok := c.Contracts[n]; ok && !seen[n] {
					seen[n] = true
					draws = append(draws, rngDrawOf(n, ct, v.Number, rv.Tok))
				}
			}
			emit(i, res, draws, vars)
			steps++
			if res.K == "end" || res.K == "panic" {
				break
			}
		}
	}
	events = append(events, rngEvent{Ev: "endrun", Case: c.ID, Run: run, Mode: mode, Steps: steps})
	for i := range events {
		if events[i].Res.Opts == nil {
			events[i].Res.Opts = []rngOpt{}
		}
		if events[i].Draws == nil {
			events[i].Draws = []rngDraw{}
		}
		if events[i].Vars == nil {
			events[i].Vars = []rngVar{}
		}
	}
	return events
}

// ---------------------------------------------------------------- case generator

const rngSeedAlphabet = "0123456789abcdefghijklmnopqrstuvwxyz"

func rngGenSeed(rnd *rand.Rand) string {
	n := 1 + rnd.Intn(16)
	switch rnd.Intn(6) {
	case 0:
		n = 1
	case 1:
		n = 13 + rnd.Intn(4) // 36^13 > 2^63: the int64 derived from the seed overflows
	}
	b := make([]byte, n)
	for i := range b {
		b[i] = rngSeedAlphabet[rnd.Intn(len(rngSeedAlphabet))]
	}
	if rnd.Intn(8) == 0 {
		for i := range b {
			b[i] = 'z'
		}
	}
	return string(b)
}

func (g *rngGen) pick(l []string) string { return l[g.rnd.Intn(len(l))] }

type rngGen struct {
	faulty    bool
	rnd       *rand.Rand
	contracts map[string]rngContract
	nvar      int
	nline     int
}

func (g *rngGen) diceN() int64 {
	switch g.rnd.Intn(8) {
	case 0:
		return 1
	case 1:
		return 2
	case 2:
		return 2147483647
	case 3:
		return int64(1) << uint(1+g.rnd.Intn(30))
	case 4:
		return 1 + g.rnd.Int63n(2147483647)
	}
	return int64(1 + g.rnd.Intn(20))
}

func (g *rngGen) rangeAB() (int64, int64) {
	switch g.rnd.Intn(7) {
	case 0:
		a := int64(g.rnd.Intn(21) - 10)
		return a, a
	case 1:
		return -2147483647, 2147483647
	case 2:
		a := g.rnd.Int63n(2147483647) - 1073741823
		return a, a + g.rnd.Int63n(1000)
	case 3:
		return -int64(g.rnd.Intn(100)) - 1, -1
	}
	a := int64(g.rnd.Intn(41) - 20)
	return a, a + int64(g.rnd.Intn(30))
}

func floorDiv4(q int64) int64 {
	if q >= 0 {
		return q / 4
	}
	return -((-q + 3) / 4)
}

func ceilDiv4(q int64) int64 { return -floorDiv4(-q) }

// an expression that draws once and whose value is observable; returns text and contract
func (g *rngGen) drawExpr() (string, rngContract) {
	if g.rnd.Intn(6) == 0 {
		// bounds that are not whole numbers: the value is still an integer between them
		// (random_range(0.5, 1.5) can only be 1, dice(2.5) is 1 or 2)
		frac := func(q int64) string { // q quarters
			s := ""
			if q < 0 {
				s, q = "-", -q
			}
			return s + strconv.FormatInt(q/4, 10) + []string{"", ".25", ".5", ".75"}[q%4]
		}
		if g.rnd.Intn(3) == 0 {
			n := int64(4 + g.rnd.Intn(40)) // 1 <= n/4
			return "dice(" + frac(n) + ")", rngContract{Kind: "dice", A: 4, B: n, Den: 4}
		}
		a := int64(g.rnd.Intn(81) - 40)
		b := a + int64(g.rnd.Intn(24))
		for ceilDiv4(a) > floorDiv4(b) { // at least one integer lies between the bounds
			b++
		}
		return "random_range(" + frac(a) + ", " + frac(b) + ")", rngContract{Kind: "range", A: a, B: b, Den: 4}
	}
	switch g.rnd.Intn(5) {
	case 0, 1:
		n := g.diceN()
		return fmt.Sprintf("dice(%d)", n), rngContract{Kind: "dice", A: 1, B: n}
	case 2, 3:
		a, b := g.rangeAB()
		return fmt.Sprintf("random_range(%d, %d)", a, b), rngContract{Kind: "range", A: a, B: b}
	}
	return "random()", rngContract{Kind: "random"}
}

func (g *rngGen) cond() string {
	switch g.rnd.Intn(4) {
	case 0:
		return "dice(2) == 1"
	case 1:
		return fmt.Sprintf("random() < 0.%d", 1+g.rnd.Intn(9))
	case 2:
		return "random_range(0, 3) >= 2"
	}
	return fmt.Sprintf("dice(6) + dice(6) > %d", 3+g.rnd.Intn(8))
}

func (g *rngGen) stmts(b *strings.Builder, indent string, depth, n int) {
	for k := 0; k < n; k++ {
		g.nline++
		switch r := g.rnd.Intn(100); {
		case r < 30:
			e, ct := g.drawExpr()
			g.nvar++
			name := fmt.Sprintf("%c%d", ct.Kind[0], g.nvar) // d.. (dice) r.. (range / random)
			if ct.Kind == "random" {
				name = fmt.Sprintf("f%d", g.nvar)
			}
			g.contracts[name] = ct
			fmt.Fprintf(b, "%s<<set $%s = %s>>\n", indent, name, e)
		case r < 50:
			// integer draws rendered in a line (their value is read back from the text)
			fmt.Fprintf(b, "%sL%d", indent, g.nline)
			for j := 0; j <= g.rnd.Intn(2); j++ {
				e, ct := g.drawExpr()
				for ct.Kind == "random" {
					e, ct = g.drawExpr()
				}
				g.nvar++
				tag := fmt.Sprintf("i%d", g.nvar)
				g.contracts[tag] = ct
				fmt.Fprintf(b, " %s=<{%s}>", tag, e)
			}
			b.WriteString("\n")
		case r < 58:
			fmt.Fprintf(b, "%sL%d plain {random()} text\n", indent, g.nline)
		case r < 66:
			fmt.Fprintf(b, "%sL%d plain\n", indent, g.nline)
		case r < 80 && depth < 2:
			// clause bodies are not indented (their nesting is given by <<endif>>)
			fmt.Fprintf(b, "%s<<if %s>>\n", indent, g.cond())
			g.stmts(b, indent, depth+1, 1+g.rnd.Intn(2))
			if g.rnd.Intn(2) == 0 {
				fmt.Fprintf(b, "%s<<else>>\n", indent)
				g.stmts(b, indent, depth+1, 1+g.rnd.Intn(2))
			}
			fmt.Fprintf(b, "%s<<endif>>\n", indent)
		case r < 94 && depth < 2:
			no := 2 + g.rnd.Intn(2)
			for o := 0; o < no; o++ {
				fmt.Fprintf(b, "%s-> O%d_%d", indent, g.nline, o)
				if g.rnd.Intn(2) == 0 {
					fmt.Fprintf(b, " <<if %s>>", g.cond())
				}
				b.WriteString("\n")
				g.stmts(b, indent+"    ", depth+1, 1+g.rnd.Intn(2))
			}
			// a line after the group keeps two groups from ever being adjacent
			g.nline++
			fmt.Fprintf(b, "%sL%d after\n", indent, g.nline)
		case r < 97:
			// a fault in the middle: the error must be reproduced as well, message included
			g.faulty = true
			switch g.rnd.Intn(6) {
			case 0:
				fmt.Fprintf(b, "%s<<set $e%d = dice(\"six\")>>\n", indent, g.nline)
			case 1: // a computed jump whose destination is a drawn number
				fmt.Fprintf(b, "%s<<jump {dice(3)}>>\n", indent)
			case 2: // a condition that is a drawn number
				fmt.Fprintf(b, "%s<<if random_range(1, 4)>>\n%sL%d never\n%s<<endif>>\n", indent, indent, g.nline, indent)
			case 3: // a line condition that is a drawn number
				fmt.Fprintf(b, "%sL%d cond <<if dice(4)>>\n", indent, g.nline)
			case 4: // a command whose name is a drawn number
				fmt.Fprintf(b, "%s<<{dice(2)} now>>\n", indent)
			default: // a drawn number where the operator wants a boolean / a string
				fmt.Fprintf(b, "%s<<set $e%d = %s>>\n", indent, g.nline, g.pick([]string{"dice(6) and true", "\"a\" + random()", "not random_range(0, 1)", "random() < \"x\""}))
			}
		default:
			fmt.Fprintf(b, "%sL%d plain\n", indent, g.nline)
		}
	}
}

func rngGenCase(rnd *rand.Rand, id int) *rngCase {
	g := &rngGen{rnd: rnd, contracts: map[string]rngContract{}}
	var b strings.Builder
	nodes := 1 + rnd.Intn(3)
	for k := 1; k <= nodes; k++ {
		title := "Start"
		if k > 1 {
			title = fmt.Sprintf("N%d", k)
		}
		fmt.Fprintf(&b, "title: %s\n---\n", title)
		g.stmts(&b, "", 0, 2+rnd.Intn(5))
		if k < nodes {
			fmt.Fprintf(&b, "<<jump N%d>>\n", k+1)
		}
		b.WriteString("===\n")
	}
	c := &rngCase{ID: id, Seed: rngGenSeed(rnd), Script: b.String(), Contracts: g.contracts, Faulty: g.faulty, Split: nodes > 1 && rnd.Intn(2) == 0}
	for i := 0; i < 8; i++ {
		c.Choices = append(c.Choices, rnd.Intn(6))
	}
	return c
}

// rngExtremeCases looks, with the library's own seeded source, for seeds whose stream holds a
// draw within 1e-6 of either end of [0,1) among its first `depth` draws, and builds for each a
// script that makes random() consume the stream up to that draw and exposes it: the range
// contract of random() at the edge of its interval (a rounding or scaling of the draw shows
// there and practically nowhere else).
func rngExtremeCases(rnd *rand.Rand, firstID, seeds, depth int) []*rngCase {
	type hit struct {
		seed string
		idx  int
		edge float64 // distance from the nearer end of [0,1)
	}
	var hits []hit
	for k := 0; k < seeds; k++ {
		seed := rngGenSeed(rnd)
		src, err := rng.NewRNG(seed)
		if err != nil || src == nil {
			continue
		}
		for i := 1; i <= depth; i++ {
			f := src.Float()
			if f >= 1e-6 && f < 1-1e-6 {
				continue
			}
			hits = append(hits, hit{seed, i, math.Min(f, 1-f)})
			break
		}
	}
	// the draws nearest to an end first (whatever a rounding or scaling of the draw does, it shows there)
	sort.Slice(hits, func(a, b int) bool { return hits[a].edge < hits[b].edge })
	if len(hits) > 40 {
		hits = hits[:40]
	}
	var cases []*rngCase
	for _, h := range hits {
		script := fmt.Sprintf("title: Start\n---\n<<set $n = 1>>\n<<jump Loop>>\n===\ntitle: Loop\n---\n"+
			"<<if $n < %d>>\n<<set $n = $n + 1>>\n<<set $w = random()>>\n<<jump Loop>>\n<<endif>>\n"+
			"<<set $f1 = random()>>\nL1 edge f2=<{floor($f1 * 100)}>\n===\n", h.idx)
		cases = append(cases, &rngCase{ID: firstID + len(cases), Seed: h.seed, Script: script, Choices: []int{0},
			Contracts: map[string]rngContract{"f1": {Kind: "random"}, "f2": {Kind: "range", A: 0, B: 99}}, Family: "extreme"})
	}
	return cases
}

// rngConcurrent (property C18, meant to be built with -race): in every round G goroutines start
// together, each creating and driving its own SEEDED runner over its own script full of draws; the
// same (script, seed, choices) were run alone before, one after the other: the event lists must be
// identical (a runner's stream belongs to that runner, whoever else is alive or drawing).
//
//	verifh rng concurrent --g G --rounds R --out diffs.ndjson
func rngConcurrent(m map[string]string) error {
	g := argInt(m, "g", 8)
	rounds := argInt(m, "rounds", 4)
	dw, err := newNDJSON(m["out"])
	if err != nil {
		return err
	}
	rnd := rand.New(rand.NewSource(Seed()*977 + 13))
	strip := func(evs []rngEvent) string {
		cp := append([]rngEvent(nil), evs...)
		for i := range cp {
			cp[i].Run, cp[i].Mode = 0, ""
		}
		b, _ := json.Marshal(cp)
		return string(b)
	}
	runs, diffs, id := 0, 0, 0
	for round := 0; round < rounds; round++ {
		cases := make([]*rngCase, g)
		for i := range cases {
			id++
			cases[i] = rngGenCase(rnd, id)
			if round%2 == 1 && i > 0 {
				cases[i].Seed = cases[0].Seed // same seed: equal streams, still one per runner
			}
		}
		alone := make([]string, g)
		for i, c := range cases {
			alone[i] = strip(rngRun(c, 1, "alone", nil))
		}
		conc := make([]string, g)
		var wg sync.WaitGroup
		start := make(chan struct{})
		for i := range cases {
			wg.Add(1)
			go func(i int) {
				defer wg.Done()
				<-start
				conc[i] = strip(rngRun(cases[i], 2, "concurrent", nil))
			}(i)
		}
		close(start)
		wg.Wait()
		for i := range cases {
			runs++
			if conc[i] != alone[i] {
				diffs++
				if diffs <= 20 {
					if err := dw.Write(map[string]any{"round": round, "goroutine": i, "goroutines": g, "case": cases[i],
						"alone": json.RawMessage(alone[i]), "concurrent": json.RawMessage(conc[i])}); err != nil {
						return err
					}
				}
			}
		}
	}
	fmt.Printf("{\"rounds\":%d,\"runs\":%d,\"diffs\":%d}\n", rounds, runs, diffs)
	return dw.Close()
}

// ---------------------------------------------------------------- disturbance

const rngOtherScript = "title: Start\n---\n<<set $a = dice(6)>>\nA {dice(100)} {random()}\n<<set $b = random_range(1, 1000)>>\nB {random_range(-5, 5)}\n<<jump Start>>\n===\n"

type rngDisturber struct {
	rnd    *rand.Rand
	others []*ysgo.DialogueRunner
}

func newRngDisturber(rnd *rand.Rand) *rngDisturber {
	d := &rngDisturber{rnd: rnd}
	for i := 0; i < 1+rnd.Intn(2); i++ {
		r, err := ysgo.NewDialogueRunner(nil, rngGenSeed(rnd), strings.NewReader(rngOtherScript))
		if err == nil {
			d.others = append(d.others, r)
		}
	}
	d.kick(3 + rnd.Intn(5))
	return d
}

func (d *rngDisturber) kick(n int) {
	rand.Seed(d.rnd.Int63()) //nolint:staticcheck // deliberately re-seeds the process-wide source
	for i := 0; i < n; i++ {
		rand.Int63()
		rand.Float64()
		rand.Intn(6)
		for _, o := range d.others {
			func() {
				defer func() { recover() }()
				o.Next(0)
			}()
		}
	}
}

// ---------------------------------------------------------------- modes

func rngChild(m map[string]string) error {
	lines, err := readNDJSON(m["in"])
	if err != nil {
		return err
	}
	w, err := newNDJSON(m["out"])
	if err != nil {
		return err
	}
	for _, raw := range lines {
		c := &rngCase{}
		if err := json.Unmarshal(raw, c); err != nil {
			return err
		}
		for _, e := range rngRun(c, 4, "child", nil) {
			e.normalise()
			if err := w.Write(e); err != nil {
				return err
			}
		}
	}
	return w.Close()
}

func rngRecord(m map[string]string) error {
	rnd := rand.New(rand.NewSource(Seed()*131 + 7))
	var cases []*rngCase
	if m["in"] != "" {
		lines, err := readNDJSON(m["in"])
		if err != nil {
			return err
		}
		for i, raw := range lines {
			c := &rngCase{}
			if err := json.Unmarshal(raw, c); err != nil {
				return err
			}
			if c.ID == 0 {
				c.ID = i + 1
			}
			cases = append(cases, c)
		}
	} else {
		n := argInt(m, "n", 300)
		for i := 1; i <= n; i++ {
			cases = append(cases, rngGenCase(rnd, i))
		}
		cases = append(cases, rngExtremeCases(rnd, n+1, argInt(m, "extreme-seeds", 0), argInt(m, "extreme-depth", 4000))...)
	}
	if shards := argInt(m, "shards", 1); shards > 1 && len(cases) >= 2*shards {
		return rngRecordSharded(m, cases, shards)
	}
	start := time.Now()
	perCase := make([][]rngEvent, len(cases))
	for i, c := range cases {
		evs := []rngEvent{{Ev: "case", Case: c.ID, Faulty: c.Faulty || strings.Contains(c.Script, "dice(\"six\")")}}
		evs = append(evs, rngRun(c, 1, "first", nil)...)
		evs = append(evs, rngRun(c, 2, "again", nil)...)
		d := newRngDisturber(rnd)
		evs = append(evs, rngRun(c, 3, "disturbed", func() { d.kick(rnd.Intn(3)) })...)
		perCase[i] = evs
	}
	// fresh processes, at least a second after the first runs (a stream keyed by the wall
	// clock in seconds would otherwise go unnoticed), cases in a different order
	if wait := 1100*time.Millisecond - time.Since(start); wait > 0 {
		time.Sleep(wait)
	}
	batch := argInt(m, "batch", 25)
	order := rnd.Perm(len(cases))
	childEvents := map[int][]rngEvent{}
	nchild := 0
	for lo := 0; lo < len(order); lo += batch {
		hi := lo + batch
		if hi > len(order) {
			hi = len(order)
		}
		in := fmt.Sprintf("%s.child%d.in", m["out"], nchild)
		out := fmt.Sprintf("%s.child%d.out", m["out"], nchild)
		w, err := newNDJSON(in)
		if err != nil {
			return err
		}
		for _, k := range order[lo:hi] {
			if err := w.Write(cases[k]); err != nil {
				return err
			}
		}
		if err := w.Close(); err != nil {
			return err
		}
		cmd := exec.Command(os.Args[0], "rng", "child", "--in", in, "--out", out)
		cmd.Env = append(os.Environ(), fmt.Sprintf("VERIF_CHILD=%d", nchild))
		if b, err := cmd.CombinedOutput(); err != nil {
			return fmt.Errorf("rng child failed: %v\n%s", err, b)
		}
		lines, err := readNDJSON(out)
		if err != nil {
			return err
		}
		for _, raw := range lines {
			var e rngEvent
			if err := json.Unmarshal(raw, &e); err != nil {
				return err
			}
			if e.Res.Opts == nil {
				e.Res.Opts = []rngOpt{}
			}
			if e.Draws == nil {
				e.Draws = []rngDraw{}
			}
			if e.Vars == nil {
				e.Vars = []rngVar{}
			}
			childEvents[e.Case] = append(childEvents[e.Case], e)
		}
		os.Remove(in)
		os.Remove(out)
		nchild++
	}
	w, err := newNDJSON(m["out"])
	if err != nil {
		return err
	}
	nev, ndraws := 0, 0
	for i, c := range cases {
		for _, e := range append(perCase[i], childEvents[c.ID]...) {
			nev++
			ndraws += len(e.Draws)
			e.normalise()
			if err := w.Write(e); err != nil {
				return err
			}
		}
	}
	if m["cases"] != "" {
		wc, err := newNDJSON(m["cases"])
		if err != nil {
			return err
		}
		for _, c := range cases {
			if err := wc.Write(c); err != nil {
				return err
			}
		}
		if err := wc.Close(); err != nil {
			return err
		}
	}
	fmt.Printf("{\"cases\":%d,\"events\":%d,\"draws\":%d,\"children\":%d}\n", len(cases), nev, ndraws, nchild)
	return w.Close()
}

// rngRecordSharded splits the cases over several `rng record` processes (parsing dominates the
// cost); each shard does its in-process runs sequentially and starts its own child processes.
func rngRecordSharded(m map[string]string, cases []*rngCase, shards int) error {
	type shard struct {
		in, out string
		cmd     *exec.Cmd
		outBuf  *strings.Builder
	}
	var all []*shard
	per := (len(cases) + shards - 1) / shards
	for k := 0; k*per < len(cases); k++ {
		lo, hi := k*per, (k+1)*per
		if hi > len(cases) {
			hi = len(cases)
		}
		sh := &shard{in: fmt.Sprintf("%s.shard%d.in", m["out"], k), out: fmt.Sprintf("%s.shard%d.out", m["out"], k), outBuf: &strings.Builder{}}
		w, err := newNDJSON(sh.in)
		if err != nil {
			return err
		}
		for _, c := range cases[lo:hi] {
			if err := w.Write(c); err != nil {
				return err
			}
		}
		if err := w.Close(); err != nil {
			return err
		}
		sh.cmd = exec.Command(os.Args[0], "rng", "record", "--in", sh.in, "--out", sh.out, "--batch", strconv.Itoa(argInt(m, "batch", 25)), "--shards", "1")
		sh.cmd.Env = append(os.Environ(), fmt.Sprintf("VERIF_SEED=%d", Seed()*100+int64(k)))
		sh.cmd.Stdout = sh.outBuf
		sh.cmd.Stderr = sh.outBuf
		if err := sh.cmd.Start(); err != nil {
			return err
		}
		all = append(all, sh)
	}
	w, err := newNDJSON(m["out"])
	if err != nil {
		return err
	}
	total := map[string]int{}
	for _, sh := range all {
		if err := sh.cmd.Wait(); err != nil {
			return fmt.Errorf("rng shard failed: %v\n%s", err, sh.outBuf.String())
		}
		var st map[string]int
		lines := strings.Split(strings.TrimSpace(sh.outBuf.String()), "\n")
		if err := json.Unmarshal([]byte(lines[len(lines)-1]), &st); err != nil {
			return fmt.Errorf("rng shard printed %q", sh.outBuf.String())
		}
		for k, v := range st {
			total[k] += v
		}
		raws, err := readNDJSON(sh.out)
		if err != nil {
			return err
		}
		for _, raw := range raws {
			if err := w.Write(raw); err != nil {
				return err
			}
		}
		os.Remove(sh.in)
		os.Remove(sh.out)
	}
	if m["cases"] != "" {
		wc, err := newNDJSON(m["cases"])
		if err != nil {
			return err
		}
		for _, c := range cases {
			if err := wc.Write(c); err != nil {
				return err
			}
		}
		if err := wc.Close(); err != nil {
			return err
		}
	}
	b, _ := json.Marshal(total)
	fmt.Println(string(b))
	return w.Close()
}
