package verifharness

import (
	"fmt"
	"math"
	"math/big"
	"math/rand"
	"strconv"
	"strings"

	ysgo "github.com/remieven/ysgo"
	"github.com/remieven/ysgo/variable"
)

// Property C19 (numeric and conversion built-ins).
//
//	verifh builtins record --n N --out trace.ndjson [--in cases.ndjson]
//	    evaluates built-ins on the real library exactly as the property's observation
//	    point says: the argument is put into the variable storer, the script runs
//	    <<call capture(f($x))>> and a host function registered with AddFunction receives
//	    the result.  One event per evaluation; spec/BuiltinsTrace.tla evaluates the
//	    contract of module Builtins on each.
func init() { register("builtins", builtinsMain) }

func builtinsMain(args []string) error {
	if len(args) == 0 {
		return fmt.Errorf("builtins: missing mode")
	}
	m := argMap(args[1:])
	switch args[0] {
	case "record":
		return builtinsRecord(m)
	}
	return fmt.Errorf("builtins: unknown mode %s", args[0])
}

// ---------------------------------------------------------------- exact values

var (
	bigLimb = new(big.Int).Lsh(big.NewInt(1), 26)
	big2p52 = new(big.Int).Lsh(big.NewInt(1), 52)
)

// floorForm is the boundary encoding of module BuiltinsRat:
// v = (hi*2^26 + lo) + f/2^k, canonical (f odd, or f = 0 and k = 0).
type floorForm struct {
	Hi int64 `json:"hi"`
	Lo int64 `json:"lo"`
	F  int64 `json:"f"`
	K  int   `json:"k"`
}

// toFloorForm converts a finite double exactly; ok=false outside the window
// (|v| <= 2^52 and at most 28 fractional bits).
func toFloorForm(v float64) (floorForm, bool) {
	if math.IsNaN(v) || math.IsInf(v, 0) {
		return floorForm{}, false
	}
	r := new(big.Rat).SetFloat64(v)
	j := new(big.Int).Div(r.Num(), r.Denom()) // Euclidean: floor for a positive divisor
	if new(big.Int).Abs(j).Cmp(big2p52) > 0 {
		return floorForm{}, false
	}
	frac := new(big.Rat).Sub(r, new(big.Rat).SetInt(j)) // in [0,1), denominator a power of two
	k := frac.Denom().BitLen() - 1
	if k > 28 {
		return floorForm{}, false
	}
	hi, lo := new(big.Int).DivMod(j, bigLimb, new(big.Int))
	ff := floorForm{Hi: hi.Int64(), Lo: lo.Int64(), F: frac.Num().Int64(), K: k}
	if ff.F == 0 {
		ff.K = 0
	}
	return ff, true
}

// toFloorFormCoarse is toFloorForm for arguments with MORE than 28 fractional bits (a hair away from an
// integer or from a half: k + 2^-35, 2.5 - 2^-40).  The fraction is replaced by one of at most 28 bits in
// the same class relative to 0 and 1/2 (zero stays zero, (0, 1/2) stays inside (0, 1/2), 1/2 stays 1/2,
// (1/2, 1) stays inside (1/2, 1)); floor(v) is kept.  Every contract of C19 whose result is an INTEGER
// (floor ceil inc dec integer round) reads of the argument only floor(v), its sign and that class, so the
// verdict of module Builtins on the projected argument is the verdict on v.  Not used for decimal().
func toFloorFormCoarse(v float64) (floorForm, bool) {
	if ff, ok := toFloorForm(v); ok {
		return ff, true
	}
	if math.IsNaN(v) || math.IsInf(v, 0) {
		return floorForm{}, false
	}
	r := new(big.Rat).SetFloat64(v)
	j := new(big.Int).Div(r.Num(), r.Denom())
	if new(big.Int).Abs(j).Cmp(big2p52) > 0 {
		return floorForm{}, false
	}
	frac := new(big.Rat).Sub(r, new(big.Rat).SetInt(j)) // in (0,1), more than 28 bits: neither 0 nor 1/2
	scaled := new(big.Rat).Mul(frac, new(big.Rat).SetInt(new(big.Int).Lsh(big.NewInt(1), 28)))
	f := new(big.Int).Div(scaled.Num(), scaled.Denom()).Int64() // floor(frac * 2^28), 0 <= f < 2^28
	if f == 0 {
		f = 1
	}
	if f == 1<<27 {
		f++ // frac > 1/2 (it is not 1/2): stay above
	}
	k := 28
	for f%2 == 0 {
		f, k = f/2, k-1
	}
	hi, lo := new(big.Int).DivMod(j, bigLimb, new(big.Int))
	return floorForm{Hi: hi.Int64(), Lo: lo.Int64(), F: f, K: k}, true
}

// decForm: R = (hi*2^26+lo) + g/10^p, the decimal a double denotes (its shortest
// representation that reads back as the same double).
type decForm struct {
	Hi int64 `json:"hi"`
	Lo int64 `json:"lo"`
	G  int64 `json:"g"`
	P  int   `json:"p"`
}

func toDecForm(v float64) (decForm, bool) {
	if math.IsNaN(v) || math.IsInf(v, 0) {
		return decForm{}, false
	}
	s := strconv.FormatFloat(v, 'f', -1, 64)
	neg := strings.HasPrefix(s, "-")
	s = strings.TrimPrefix(s, "-")
	ip, fp := s, ""
	if i := strings.IndexByte(s, '.'); i >= 0 {
		ip, fp = s[:i], s[i+1:]
	}
	if len(fp) > 8 || len(ip) > 17 {
		return decForm{}, false
	}
	I, ok := new(big.Int).SetString(ip, 10)
	if !ok {
		return decForm{}, false
	}
	g := int64(0)
	if fp != "" {
		g, _ = strconv.ParseInt(fp, 10, 64)
	}
	pow := int64(1)
	for i := 0; i < len(fp); i++ {
		pow *= 10
	}
	if neg {
		I.Neg(I)
		if g != 0 {
			I.Sub(I, big.NewInt(1))
			g = pow - g
		}
	}
	if new(big.Int).Abs(I).Cmp(big2p52) > 0 {
		return decForm{}, false
	}
	hi, lo := new(big.Int).DivMod(I, bigLimb, new(big.Int))
	return decForm{Hi: hi.Int64(), Lo: lo.Int64(), G: g, P: len(fp)}, true
}

// numTok is an opaque token for equality of numbers (signed zeros are equal numbers).
func numTok(v float64) string {
	if v == 0 {
		return "zero"
	}
	return fmt.Sprintf("%016x", math.Float64bits(v))
}

// result of one evaluation as it crosses the boundary
type builtinRes struct {
	T   string     `json:"t"` // n | dec | tok | err | panic | novalue | wrongtype | notfinite | unrep
	V   *floorForm `json:"v,omitempty"`
	D   *decForm   `json:"d,omitempty"`
	Ty  string     `json:"ty,omitempty"` // tok: n | b | s
	Tok string     `json:"tok"`          // tok: the value
}

type builtinEvent struct {
	Ev   string      `json:"ev"` // num | intdec | rp | conv | mustfail
	ID   int         `json:"id"`
	F    string      `json:"f"`
	X    *floorForm  `json:"x,omitempty"`
	N    int         `json:"n"`
	Ty   string      `json:"ty,omitempty"` // conv: expected type of the result
	Tok  string      `json:"tok"`          // conv / mustfail: the argument as a token
	Res  builtinRes  `json:"res"`
	Res2 *builtinRes `json:"res2,omitempty"`
	// not read by the trace specification: the literal case, for replay files
	Lit string `json:"lit"`
}

// ---------------------------------------------------------------- evaluation through a script

// one persistent runner per expression form; every Next is one evaluation
type builtinForm struct {
	name     string
	expr     string // argument list of capture(...)
	runner   *ysgo.DialogueRunner
	storer   *variable.InMemoryStorer
	captured []*variable.Value
	calls    int
	started  bool
}

var builtinFormExprs = map[string]string{
	"floor": "floor($x)", "ceil": "ceil($x)", "inc": "inc($x)", "dec": "dec($x)",
	"integer": "integer($x)", "decimal": "decimal($x)", "round": "round($x)",
	"intdec":     "integer($x), decimal($x)",
	"rp":         "round_places($x, $n)",
	"rt_number":  "number(string($x))",
	"id_number":  "number($x)",
	"id_string":  "string($s)",
	"id_bool":    "bool($b)",
	"rt_bool":    "bool(string($b))",
	"err_number": "number($s)",
	"err_bool":   "bool($s)",
}

func (f *builtinForm) reset() error {
	script := "title: Start\n---\n<<call capture(" + f.expr + ")>>\ntick\n<<jump Start>>\n===\n"
	f.storer = variable.NewInMemoryStorer()
	r, err := ysgo.NewDialogueRunner(f.storer, "c19", strings.NewReader(script))
	if err != nil {
		return fmt.Errorf("builtins: script for %s does not load: %v", f.name, err)
	}
	r.AddFunction("capture", func(args []*variable.Value) (*variable.Value, error) {
		f.calls++
		f.captured = args
		return nil, nil
	})
	f.runner, f.started = r, false
	f.benign()
	return nil
}

func (f *builtinForm) benign() {
	f.storer.SetNumberValue("x", 1)
	f.storer.SetNumberValue("n", 0)
	f.storer.SetBooleanValue("b", true)
	f.storer.SetStringValue("s", "1")
	if f.name == "err_bool" {
		f.storer.SetStringValue("s", "true")
	}
}

// eval runs one evaluation with the variables already set; outcome: "ok" (captured
// values), "err", "panic".
func (f *builtinForm) eval() (string, []*variable.Value, error) {
	f.captured, f.calls = nil, 0
	var el *ysgo.DialogueElement
	var err error
	var pv any
	func() {
		defer func() {
			if r := recover(); r != nil {
				pv = r
			}
		}()
		el, err = f.runner.Next(0)
	}()
	switch {
	case pv != nil:
		if rerr := f.reset(); rerr != nil {
			return "", nil, rerr
		}
		return "panic", nil, nil
	case err != nil:
		// after an error the library may skip or retry the statement (C06 leaves it
		// open): continue with benign values until the loop's line shows up again
		f.benign()
		ok := false
		for i := 0; i < 4 && !ok; i++ {
			func() {
				defer func() { recover() }()
				e2, err2 := f.runner.Next(0)
				ok = err2 == nil && e2 != nil && e2.Line != nil && e2.Line.Text == "tick"
			}()
		}
		if !ok {
			if rerr := f.reset(); rerr != nil {
				return "", nil, rerr
			}
		}
		return "err", nil, nil
	case el == nil || el.Line == nil || el.Line.Text != "tick":
		return "", nil, fmt.Errorf("builtins: form %s: unexpected element %+v", f.name, el)
	case f.calls != 1:
		return "", nil, fmt.Errorf("builtins: form %s: capture called %d times in one step", f.name, f.calls)
	}
	return "ok", f.captured, nil
}

func numRes(v *variable.Value) builtinRes {
	switch {
	case v == nil:
		return builtinRes{T: "novalue"}
	case v.Number == nil:
		return builtinRes{T: "wrongtype"}
	}
	x := *v.Number
	if math.IsNaN(x) || math.IsInf(x, 0) {
		return builtinRes{T: "notfinite"}
	}
	ff, ok := toFloorForm(x)
	if !ok {
		return builtinRes{T: "unrep", Tok: numTok(x)}
	}
	return builtinRes{T: "n", V: &ff}
}

func tokRes(v *variable.Value) builtinRes {
	switch {
	case v == nil:
		return builtinRes{T: "novalue"}
	case v.Number != nil:
		return builtinRes{T: "tok", Ty: "n", Tok: numTok(*v.Number)}
	case v.Boolean != nil:
		return builtinRes{T: "tok", Ty: "b", Tok: strconv.FormatBool(*v.Boolean)}
	case v.String != nil:
		return builtinRes{T: "tok", Ty: "s", Tok: *v.String}
	}
	return builtinRes{T: "novalue"}
}

// builtinCase is one evaluation request (generated, or read back from a replay file).
type builtinCase struct {
	F string  `json:"f"`
	X float64 `json:"-"`
	// the double as a bit pattern so that a replay file reproduces it exactly
	XBits string `json:"xbits,omitempty"`
	N     int    `json:"n"`
	B     bool   `json:"b"`
	S     string `json:"s"`
}

func (c *builtinCase) lit() string {
	switch c.F {
	case "id_string", "err_number", "err_bool":
		return fmt.Sprintf("%s(%q)", c.F, c.S)
	case "id_bool", "rt_bool":
		return fmt.Sprintf("%s(%v)", c.F, c.B)
	case "rp":
		return fmt.Sprintf("round_places(%s, %d)", strconv.FormatFloat(c.X, 'g', -1, 64), c.N)
	}
	return fmt.Sprintf("%s(%s)", c.F, strconv.FormatFloat(c.X, 'g', -1, 64))
}

func runBuiltinCase(forms map[string]*builtinForm, c *builtinCase, id int) (*builtinEvent, error) {
	f, ok := forms[c.F]
	if !ok {
		expr, known := builtinFormExprs[c.F]
		if !known {
			return nil, fmt.Errorf("builtins: unknown form %q", c.F)
		}
		f = &builtinForm{name: c.F, expr: expr}
		if err := f.reset(); err != nil {
			return nil, err
		}
		forms[c.F] = f
	}
	f.storer.SetNumberValue("x", c.X)
	f.storer.SetNumberValue("n", float64(c.N))
	f.storer.SetBooleanValue("b", c.B)
	f.storer.SetStringValue("s", c.S)
	out, vals, err := f.eval()
	if err != nil {
		return nil, err
	}
	ev := &builtinEvent{ID: id, F: c.F, N: c.N, Lit: c.lit()}
	fail := func() builtinRes { return builtinRes{T: out} } // err | panic
	want := 1
	if c.F == "intdec" {
		want = 2
	}
	if out == "ok" && len(vals) != want {
		return nil, fmt.Errorf("builtins: form %s: capture received %d values", c.F, len(vals))
	}
	switch c.F {
	case "floor", "ceil", "inc", "dec", "integer", "decimal", "round":
		ev.Ev = "num"
		x, okx := toFloorForm(c.X)
		if !okx && c.F != "decimal" {
			x, okx = toFloorFormCoarse(c.X)
		}
		if !okx {
			return nil, fmt.Errorf("builtins: generated argument %v is outside the window", c.X)
		}
		ev.X = &x
		if out == "ok" {
			ev.Res = numRes(vals[0])
		} else {
			ev.Res = fail()
		}
	case "intdec":
		ev.Ev = "intdec"
		x, okx := toFloorForm(c.X)
		if !okx {
			return nil, fmt.Errorf("builtins: generated argument %v is outside the window", c.X)
		}
		ev.X = &x
		if out == "ok" {
			ev.Res = numRes(vals[0])
			r2 := numRes(vals[1])
			ev.Res2 = &r2
		} else {
			ev.Res = fail()
			r2 := fail()
			ev.Res2 = &r2
		}
	case "rp":
		ev.Ev = "rp"
		x, okx := toFloorForm(c.X)
		if !okx || x.K > 10 {
			return nil, fmt.Errorf("builtins: generated round_places argument %v is outside the window", c.X)
		}
		ev.X = &x
		switch {
		case out != "ok":
			ev.Res = fail()
		case vals[0] == nil:
			ev.Res = builtinRes{T: "novalue"}
		case vals[0].Number == nil:
			ev.Res = builtinRes{T: "wrongtype"}
		case math.IsNaN(*vals[0].Number) || math.IsInf(*vals[0].Number, 0):
			ev.Res = builtinRes{T: "notfinite"}
		default:
			d, okd := toDecForm(*vals[0].Number)
			// the relation multiplies 2^k * 10^p: must stay below 2^30
			if okd && math.Ldexp(1, x.K)*math.Pow10(d.P) < float64(1<<30) {
				ev.Res = builtinRes{T: "dec", D: &d}
			} else {
				ev.Res = builtinRes{T: "unrep", Tok: numTok(*vals[0].Number)}
			}
		}
	case "rt_number", "id_number":
		ev.Ev, ev.Ty, ev.Tok = "conv", "n", numTok(c.X)
		if out == "ok" {
			ev.Res = tokRes(vals[0])
		} else {
			ev.Res = fail()
		}
	case "id_string":
		ev.Ev, ev.Ty, ev.Tok = "conv", "s", c.S
		if out == "ok" {
			ev.Res = tokRes(vals[0])
		} else {
			ev.Res = fail()
		}
	case "id_bool", "rt_bool":
		ev.Ev, ev.Ty, ev.Tok = "conv", "b", strconv.FormatBool(c.B)
		if out == "ok" {
			ev.Res = tokRes(vals[0])
		} else {
			ev.Res = fail()
		}
	case "err_number", "err_bool":
		ev.Ev, ev.Tok = "mustfail", c.S
		if out == "ok" {
			ev.Res = tokRes(vals[0])
		} else {
			ev.Res = fail()
		}
	}
	return ev, nil
}

// ---------------------------------------------------------------- generators

func pow2(k int) float64 { return math.Ldexp(1, k) }

// a number inside the window of the numeric contracts: |x| < 2^52, <= 28 fractional bits
func genWindowNumber(rnd *rand.Rand) float64 {
	sign := 1.0
	if rnd.Intn(2) == 0 {
		sign = -1
	}
	switch rnd.Intn(12) {
	case 0: // small integers and zero (both signs of zero)
		v := float64(rnd.Intn(9))
		if v == 0 && sign < 0 {
			return math.Copysign(0, -1)
		}
		return sign * v
	case 1: // half-way cases
		return sign * (float64(rnd.Intn(1<<uint(rnd.Intn(30)+1))) + 0.5)
	case 2: // neighbours of integers at 2^-10
		return sign * (float64(rnd.Intn(1<<20)) + []float64{pow2(-10), 1 - pow2(-10)}[rnd.Intn(2)])
	case 3: // neighbours of integers / of halves at 2^-k
		k := 1 + rnd.Intn(28)
		base := float64(rnd.Intn(1 << uint(rnd.Intn(24)+1)))
		off := []float64{pow2(-k), 1 - pow2(-k), 0.5 - pow2(-k), 0.5 + pow2(-k)}[rnd.Intn(4)]
		if k == 1 {
			off = 0.5
		}
		return sign * (base + off)
	case 4, 5: // the dyadic grid m/2^k, |m| < 2^30, k <= 10
		k := rnd.Intn(11)
		return sign * float64(rnd.Int63n(1<<30)) / pow2(k)
	case 6, 7: // random 53-bit mantissas at exponents where at most 28 fractional bits remain
		e := 24 + rnd.Intn(28) // value in [2^e, 2^(e+1)), e+1 <= 52
		m := (int64(1) << 52) | rnd.Int63n(1<<52)
		return sign * math.Ldexp(float64(m), e-52)
	case 8: // around the limb boundary 2^26 and its multiples
		j := float64(int64(1+rnd.Intn(8)) << 26)
		return sign*j + float64(rnd.Intn(5)-2) + []float64{0, 0.5, 0.25, pow2(-10), -pow2(-20)}[rnd.Intn(5)]
	case 9: // just below 2^52
		return sign * (pow2(52) - float64(1+rnd.Intn(1000)) - []float64{0, 0.5}[rnd.Intn(2)])
	case 10: // integers of every size
		return sign * float64(rnd.Int63n(1<<uint(1+rnd.Intn(52))))
	default: // short decimals that are dyadic
		return sign * (float64(rnd.Intn(1000)) + []float64{0.25, 0.75, 0.125, 0.375, 0.625, 0.875}[rnd.Intn(6)])
	}
}

// round_places: x = m/2^k with 2^k * 10^n < 2^30 and |m| * 10^n < 2^52 (then the library's
// own scaling f*10^n is exact and a correct implementation cannot be off by an ulp)
func genRoundPlaces(rnd *rand.Rand) (float64, int) {
	n := rnd.Intn(9)
	kmax := 10
	for pow2(kmax)*math.Pow10(n) >= float64(1<<30) {
		kmax--
	}
	sign := 1.0
	if rnd.Intn(2) == 0 {
		sign = -1
	}
	limit := new(big.Int).Div(big2p52, new(big.Int).Exp(big.NewInt(10), big.NewInt(int64(n)), nil)).Int64() // |m| below this
	var k int
	var m int64
	switch rnd.Intn(5) {
	case 0: // exact ties at the n-th place: x = odd / 2^(n+1)
		if n+1 <= kmax {
			k = n + 1
			bits := 1 + rnd.Intn(20)
			m = rnd.Int63n(1<<uint(bits))*2 + 1
			break
		}
		fallthrough
	case 1: // random grid point
		k = rnd.Intn(kmax + 1)
		m = rnd.Int63n(1 << uint(1+rnd.Intn(40)))
	case 2: // next to a tie
		if n+1 < kmax {
			k = kmax
			m = (rnd.Int63n(1<<12)*2+1)<<uint(kmax-n-1) + int64(rnd.Intn(3)-1)
			break
		}
		fallthrough
	case 3: // integers and halves
		k = rnd.Intn(2)
		m = rnd.Int63n(1 << uint(1+rnd.Intn(30)))
	default: // small values
		k = rnd.Intn(kmax + 1)
		m = rnd.Int63n(1 << uint(k+3))
	}
	if m >= limit {
		m %= limit
	}
	return sign * float64(m) / pow2(k), n
}

// any finite double below 2^52 in magnitude (round trip through string)
func genAnyNumber(rnd *rand.Rand) float64 {
	sign := 1.0
	if rnd.Intn(2) == 0 {
		sign = -1
	}
	switch rnd.Intn(8) {
	case 0:
		return genWindowNumber(rnd)
	case 1: // random bit pattern, any exponent below 2^52 (subnormals included)
		e := rnd.Intn(1075 + 52)
		bits := uint64(e)<<52 | uint64(rnd.Int63n(1<<52))
		v := math.Float64frombits(bits)
		if v >= pow2(52) {
			v = math.Ldexp(v, -60)
		}
		return sign * v
	case 2: // non-terminating decimals
		return sign * float64(1+rnd.Intn(1000)) / float64(3+rnd.Intn(97))
	case 3: // short decimals
		return sign * float64(rnd.Intn(1000000)) / math.Pow10(rnd.Intn(7))
	case 4: // moderate magnitudes, random mantissa
		return sign * math.Ldexp(float64((int64(1)<<52)|rnd.Int63n(1<<52)), rnd.Intn(104)-104)
	case 5: // tiny and subnormal
		return sign * math.Float64frombits(uint64(rnd.Int63n(1<<54)))
	case 6:
		return sign * float64(rnd.Int63n(1<<52))
	default:
		return sign * []float64{0, 0.1, 0.2, 0.3, 1e-7, 123456789.125, 1e15, 4503599627370495.5, 5e-324, 1e21 / 1e6, 0.000001}[rnd.Intn(11)]
	}
}

var builtinNotNumbers = []string{"abc", "", "twelve", "1.2.3", "12abc", "--5", "1,5", "one", "x1", "$3", "1 2", "ten", "e", ".", "-", "1e", "0x", "truee"}
var builtinNotBooleans = []string{"abc", "", "yes", "no", "2", "tru", "falsey", "on", "off", "10", "maybe", "0.5", "-1", "truefalse", "t r u e"}
var builtinStrings = []string{"", "a", "hello world", "True", "3.5", "with [brackets]", "UPPER lower 123", "  spaces  ", "{braces}", "$notavar", "a-b_c", "<<x>>"}

func genBuiltinCases(rnd *rand.Rand, n int) []*builtinCase {
	var cases []*builtinCase
	numeric := []string{"floor", "ceil", "inc", "dec", "integer", "decimal", "round", "intdec"}
	// a small exhaustive sweep first: every m/2^k with |m/2^k| <= 4, k <= 3, around 0 and the
	// limb boundaries, through every numeric built-in
	for _, centre := range []float64{0, pow2(26), -pow2(26), pow2(51)} {
		for k := 0; k <= 3; k++ {
			for m := -4 * (1 << uint(k)); m <= 4*(1<<uint(k)); m++ {
				if k > 0 && m%2 == 0 {
					continue
				}
				for _, f := range numeric {
					cases = append(cases, &builtinCase{F: f, X: centre + float64(m)/pow2(k)})
				}
			}
		}
	}
	// a hair away from an integer and from a half (29 to 50 fractional bits), on both sides, both signs
	for _, k := range []float64{-1000, -3, -2, -1, 0, 1, 2, 3, 7, 1000} {
		for _, j := range []int{29, 30, 31, 33, 34, 36, 40, 45, 50} {
			for _, base := range []float64{k, k + 0.5} {
				for _, x := range []float64{base + pow2(-j), base - pow2(-j)} {
					if math.Abs(base) >= pow2(52-j) || x == base {
						continue
					}
					for _, f := range []string{"floor", "ceil", "inc", "dec", "integer", "round"} {
						cases = append(cases, &builtinCase{F: f, X: x})
					}
				}
			}
		}
	}
	cases = append(cases, &builtinCase{F: "floor", X: math.Copysign(0, -1)}, &builtinCase{F: "round", X: math.Copysign(0, -1)},
		&builtinCase{F: "rt_number", X: math.Copysign(0, -1)}, &builtinCase{F: "intdec", X: math.Copysign(0, -1)})
	for _, b := range []bool{true, false} {
		cases = append(cases, &builtinCase{F: "id_bool", B: b}, &builtinCase{F: "rt_bool", B: b})
	}
	for _, s := range builtinNotNumbers {
		cases = append(cases, &builtinCase{F: "err_number", S: s})
	}
	for _, s := range builtinNotBooleans {
		cases = append(cases, &builtinCase{F: "err_bool", S: s})
	}
	for _, s := range builtinStrings {
		cases = append(cases, &builtinCase{F: "id_string", S: s})
	}
	for len(cases) < n {
		switch r := rnd.Intn(100); {
		case r < 55:
			cases = append(cases, &builtinCase{F: numeric[rnd.Intn(len(numeric))], X: genWindowNumber(rnd)})
		case r < 75:
			x, p := genRoundPlaces(rnd)
			cases = append(cases, &builtinCase{F: "rp", X: x, N: p})
		case r < 90:
			cases = append(cases, &builtinCase{F: "rt_number", X: genAnyNumber(rnd)})
		case r < 95:
			cases = append(cases, &builtinCase{F: "id_number", X: genAnyNumber(rnd)})
		case r < 97:
			cases = append(cases, &builtinCase{F: "id_string", S: builtinStrings[rnd.Intn(len(builtinStrings))] + strconv.Itoa(rnd.Intn(100))})
		case r < 98:
			cases = append(cases, &builtinCase{F: "err_number", S: builtinNotNumbers[rnd.Intn(len(builtinNotNumbers))]})
		case r < 99:
			cases = append(cases, &builtinCase{F: "err_bool", S: builtinNotBooleans[rnd.Intn(len(builtinNotBooleans))]})
		default:
			cases = append(cases, &builtinCase{F: []string{"id_bool", "rt_bool"}[rnd.Intn(2)], B: rnd.Intn(2) == 0})
		}
	}
	return cases
}
