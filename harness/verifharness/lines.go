package verifharness

import (
	"encoding/json"
	"fmt"
	"math/rand"
	"strconv"
	"strings"

	"github.com/remieven/ysgo"
)

// Property C04: line / option rendering (literal text, escapes, interpolation, tags,
// Disabled).
//
//	verifh lines replay --in beh.ndjson --out diffs.ndjson [--batch N] [--classes classes.ndjson]
//	    spec -> code: every line / option group printed by spec/LineLexerMC.tla with the
//	    result the specification prescribes is rendered (items -> characters), batched
//	    into scripts (one node, many lines, a marker line after each) and run through
//	    NewDialogueRunner + Next; Line.Text, Tags, option order and Disabled are compared.
//	    Lines the automaton does not classify as judged are not run.  With --classes
//	    every enumerated line (judged or not) is parsed alone with an independent ANTLR
//	    error listener and the automaton's valid/invalid verdict is compared with the
//	    grammar's.
//	verifh lines record --n N --out trace.ndjson
//	    code -> spec: seeded random long lines and option groups; one event per element
//	    with what Next returned, validated by spec/LineLexerTrace.tla.
//	verifh lines rerun --in events.ndjson --out trace.ndjson
//	    executes recorded events again, one script each (used by --replay).
func init() { register("lines", linesMain) }

func linesMain(args []string) error {
	if len(args) == 0 {
		return fmt.Errorf("lines: missing mode")
	}
	m := argMap(args[1:])
	switch args[0] {
	case "replay":
		return linesReplay(m)
	case "record":
		return linesRecord(m)
	case "rerun":
		return linesRerun(m)
	}
	return fmt.Errorf("lines: unknown mode %s", args[0])
}

// linesItem is one item of a line in the alphabet of spec/LineLexer.tla.
type linesItem struct {
	C  string         `json:"c"`
	Cp int            `json:"cp"`
	S  []int          `json:"s"`
	V  map[string]any `json:"v"`
}

type linesRes struct {
	Status string  `json:"status"`
	Judged bool    `json:"judged"`
	Arrow  bool    `json:"arrow"`
	Text   []int   `json:"text"`
	Tags   [][]int `json:"tags"`
	Cond   string  `json:"cond"`
	Dis    bool    `json:"dis"`
}

type linesOpt struct {
	Items []linesItem `json:"items"`
	Res   *linesRes   `json:"res,omitempty"`
}

// linesElem is one element of a script: a plain line, a single option line
// (Kind "line" with an arrow) or a group of option lines (Kind "group").
type linesElem struct {
	ID       int         `json:"id,omitempty"`
	Kind     string      `json:"kind"`
	Arrow    bool        `json:"arrow"`
	Items    []linesItem `json:"items"`
	Res      *linesRes   `json:"res,omitempty"`
	Opts     []linesOpt  `json:"opts,omitempty"`
	FormBase *int        `json:"formbase,omitempty"`
}

type linesObsElem struct {
	Text []int   `json:"text"`
	Tags [][]int `json:"tags"`
	Dis  bool    `json:"dis"`
}

type linesObs struct {
	K      string         `json:"k"` // line | opts | error | end | panic | loaderror | desync
	Elems  []linesObsElem `json:"elems"`
	Marker bool           `json:"marker"` // the line after the element came back intact
	Detail string         `json:"detail"`
	Text   string         `json:"-"` // rendered source
}

var linesNoVal = map[string]any{"t": "b", "b": false}

// linesRenderLine turns items into source characters.
func linesRenderLine(arrow bool, items []linesItem, formBase int, vars *linesVarAlloc) string {
	var sb strings.Builder
	if arrow {
		sb.WriteString("->")
		sb.WriteString([]string{" ", "", "  ", "\t"}[formBase%4])
	}
	for j, it := range items {
		form := formBase + 7*j
		switch it.C {
		case "es", "eb", "ex":
			sb.WriteByte('\\')
			sb.WriteRune(rune(it.Cp))
		case "x":
			sb.WriteString(linesBrace(linesExpr(linesValFromJSON(it.V), form, vars), form))
		case "t":
			sb.WriteByte('#')
			sb.WriteString(linesFromCps(it.S))
		case "cm":
			sb.WriteString("//")
			sb.WriteString(linesFromCps(it.S))
		case "cd":
			e := linesExpr(linesValFromJSON(it.V), form, vars)
			switch (form / 3) % 3 {
			case 0:
				sb.WriteString("<<if " + e + ">>")
			case 1:
				sb.WriteString("<< if " + e + " >>")
			default:
				sb.WriteString("<<if\t" + e + ">>")
			}
		default:
			sb.WriteRune(rune(it.Cp))
		}
	}
	return sb.String()
}

func linesRenderElem(e *linesElem, formBase int, vars *linesVarAlloc, nl string) string {
	if e.Kind == "group" {
		var sb strings.Builder
		for k, o := range e.Opts {
			sb.WriteString(linesRenderLine(true, o.Items, formBase+11*k, vars))
			sb.WriteString(nl)
		}
		return sb.String()
	}
	return linesRenderLine(e.Arrow, e.Items, formBase, vars) + nl
}

func linesTags(tags []string) [][]int {
	res := make([][]int, 0, len(tags))
	for _, t := range tags {
		res = append(res, linesCps(t))
	}
	return res
}

// linesRunBatch runs the elements in ONE script (one node, a marker line after each
// element).  ok=false: the run lost synchronisation with the script.
func linesRunBatch(elems []*linesElem, formBases []int) (obs []linesObs, ok bool) {
	vars := newLinesVarAlloc()
	obs = make([]linesObs, len(elems))
	nl := "\n"
	if len(formBases) > 0 && formBases[0]%5 == 3 {
		nl = "\r\n"
	}
	var sb strings.Builder
	sb.WriteString("title: Start" + nl + "---" + nl)
	for i, e := range elems {
		obs[i].Text = linesRenderElem(e, formBases[i], vars, nl)
		obs[i].Elems = []linesObsElem{}
		sb.WriteString(obs[i].Text)
		sb.WriteString("mk" + strconv.Itoa(i) + "z" + nl)
	}
	sb.WriteString("===" + nl)
	dr, err, panicked := linesLoad(sb.String(), vars.storer())
	if panicked || err != nil || dr == nil {
		for i := range obs {
			obs[i].K = "loaderror"
			if panicked {
				obs[i].K = "panic"
			}
			obs[i].Detail = fmt.Sprint(err)
		}
		return obs, false
	}
	ok = true
	for i := range elems {
		marker := "mk" + strconv.Itoa(i) + "z"
		if !ok {
			obs[i].K = "desync"
			continue
		}
		el, err, panicked := linesNext(dr, 0)
		switch {
		case panicked:
			obs[i].K, obs[i].Detail, ok = "panic", fmt.Sprint(err), false
			continue
		case err != nil:
			obs[i].K, obs[i].Detail, ok = "error", err.Error(), false
			continue
		case el == nil:
			obs[i].K, ok = "end", false
			continue
		case el.Line != nil:
			obs[i].K = "line"
			obs[i].Elems = append(obs[i].Elems, linesObsElem{Text: linesCps(el.Line.Text), Tags: linesTags(el.Line.Tags)})
			if el.Line.Text == marker && len(el.Line.Tags) == 0 {
				// the element vanished and its marker came instead
				obs[i].K, obs[i].Elems, ok = "missing", []linesObsElem{}, false
				continue
			}
		default:
			obs[i].K = "opts"
			for _, o := range el.Options {
				oe := linesObsElem{Dis: o.Disabled, Text: []int{}, Tags: [][]int{}}
				if o.Line != nil {
					oe.Text, oe.Tags = linesCps(o.Line.Text), linesTags(o.Line.Tags)
				}
				obs[i].Elems = append(obs[i].Elems, oe)
			}
		}
		// the next element must be the marker line, intact
		el2, err2, p2 := linesNext(dr, 0)
		if p2 || err2 != nil || el2 == nil || el2.Line == nil || el2.Line.Text != marker || len(el2.Line.Tags) != 0 {
			ok = false
			switch {
			case p2:
				obs[i].Detail = "panic after the element: " + fmt.Sprint(err2)
			case err2 != nil:
				obs[i].Detail = "error after the element: " + err2.Error()
			case el2 == nil:
				obs[i].Detail = "dialogue ended after the element"
			case el2.Line != nil:
				obs[i].Detail = "line after the element is " + strconv.Quote(el2.Line.Text)
			default:
				obs[i].Detail = "options after the element"
			}
		} else {
			obs[i].Marker = true
		}
	}
	return obs, ok
}

// linesRunAll runs elements in batches; a batch that lost synchronisation (or that the
// judge rejects) is re-run element by element.
func linesRunAll(elems []*linesElem, formBases []int, batch int, judge func(*linesElem, *linesObs) string) (obs []linesObs, batches, fallbacks int) {
	obs = make([]linesObs, len(elems))
	for lo := 0; lo < len(elems); lo += batch {
		hi := lo + batch
		if hi > len(elems) {
			hi = len(elems)
		}
		o, ok := linesRunBatch(elems[lo:hi], formBases[lo:hi])
		batches++
		bad := !ok
		if ok && judge != nil {
			for k := lo; k < hi; k++ {
				if judge(elems[k], &o[k-lo]) != "" {
					bad = true
					break
				}
			}
		}
		if bad && hi-lo > 1 {
			fallbacks++
			for k := lo; k < hi; k++ {
				o1, _ := linesRunBatch(elems[k:k+1], formBases[k:k+1])
				batches++
				obs[k] = o1[0]
			}
		} else {
			copy(obs[lo:hi], o)
		}
	}
	return obs, batches, fallbacks
}

func linesIntsEq(a, b []int) bool {
	if len(a) != len(b) {
		return false
	}
	for i := range a {
		if a[i] != b[i] {
			return false
		}
	}
	return true
}

func linesTagsEq(a, b [][]int) bool {
	if len(a) != len(b) {
		return false
	}
	for i := range a {
		if !linesIntsEq(a[i], b[i]) {
			return false
		}
	}
	return true
}

// linesExpected lists the prescribed (text, tags, disabled) of an element.
func linesExpected(e *linesElem) (kind string, want []*linesRes) {
	if e.Kind == "group" {
		for i := range e.Opts {
			want = append(want, e.Opts[i].Res)
		}
		return "opts", want
	}
	if e.Res.Arrow {
		return "opts", []*linesRes{e.Res}
	}
	return "line", []*linesRes{e.Res}
}

// linesJudge compares an observation with the prescribed result ("" = conforms).
func linesJudge(e *linesElem, o *linesObs) string {
	kind, want := linesExpected(e)
	switch o.K {
	case "panic", "error", "end", "loaderror", "desync", "missing":
		return "outcome-" + o.K
	}
	if o.K != kind {
		return "kind-" + o.K + "-instead-of-" + kind
	}
	if len(o.Elems) != len(want) {
		return "option-count"
	}
	for i, w := range want {
		g := o.Elems[i]
		if !linesIntsEq(w.Text, g.Text) {
			return "text"
		}
		if !linesTagsEq(w.Tags, g.Tags) {
			return "tags"
		}
		if kind == "opts" && w.Dis != g.Dis {
			return "disabled"
		}
	}
	if !o.Marker {
		return "following-line-corrupted"
	}
	return ""
}

func linesResString(kind string, want []*linesRes) string {
	var parts []string
	for _, w := range want {
		var tags []string
		for _, t := range w.Tags {
			tags = append(tags, linesFromCps(t))
		}
		s := fmt.Sprintf("text %q tags %q", linesFromCps(w.Text), tags)
		if kind == "opts" {
			s += fmt.Sprintf(" disabled=%v", w.Dis)
		}
		parts = append(parts, s)
	}
	return kind + " [" + strings.Join(parts, "; ") + "]"
}

func linesObsString(o *linesObs) string {
	var want []*linesRes
	for _, g := range o.Elems {
		want = append(want, &linesRes{Text: g.Text, Tags: g.Tags, Dis: g.Dis})
	}
	s := linesResString(o.K, want)
	if o.Detail != "" {
		s += " (" + o.Detail + ")"
	}
	return s
}

func linesJudgedElem(e *linesElem) bool {
	if e.Kind == "group" {
		for _, o := range e.Opts {
			if o.Res == nil || !o.Res.Judged {
				return false
			}
		}
		return len(e.Opts) > 0
	}
	return e.Res != nil && e.Res.Judged
}

func linesReplay(m map[string]string) error {
	raw, err := readNDJSON(m["in"])
	if err != nil {
		return err
	}
	batch := argInt(m, "batch", 100)
	seed := int(Seed() % 1000)
	var all []*linesElem
	for i, r := range raw {
		e := &linesElem{}
		if err := json.Unmarshal(r, e); err != nil {
			return fmt.Errorf("row %d: %w", i, err)
		}
		all = append(all, e)
	}
	// judged elements, in a seed-dependent order so that neighbours in a script vary
	var elems []*linesElem
	var formBases []int
	for i, e := range all {
		if linesJudgedElem(e) {
			elems = append(elems, e)
			fb := seed + 13*i
			if e.FormBase != nil {
				fb = *e.FormBase
			}
			formBases = append(formBases, fb)
		}
	}
	rnd := rand.New(rand.NewSource(Seed()*31 + 5))
	rnd.Shuffle(len(elems), func(i, j int) {
		elems[i], elems[j] = elems[j], elems[i]
		formBases[i], formBases[j] = formBases[j], formBases[i]
	})
	obs, batches, fallbacks := linesRunAll(elems, formBases, batch, linesJudge)
	w, err := newNDJSON(m["out"])
	if err != nil {
		return err
	}
	ndiff, nopts, nslots, nmb := 0, 0, 0, 0
	for i, e := range elems {
		if e.Kind == "group" || e.Res.Arrow {
			nopts++
		}
		for _, it := range e.Items {
			if it.C == "x" {
				nslots++
			}
			if it.C == "mb" {
				nmb++
			}
		}
		what := linesJudge(e, &obs[i])
		if what == "" {
			continue
		}
		ndiff++
		kind, want := linesExpected(e)
		fb := formBases[i]
		e.FormBase = &fb
		if err := w.Write(map[string]any{"what": what, "source": obs[i].Text, "sourcecps": linesCps(obs[i].Text),
			"exp": linesResString(kind, want), "got": linesObsString(&obs[i]), "case": e}); err != nil {
			return err
		}
	}
	if err := w.Close(); err != nil {
		return err
	}
	stats := map[string]any{"rows": len(all), "judged": len(elems), "batches": batches, "fallbacks": fallbacks, "diffs": ndiff,
		"options": nopts, "slots": nslots, "multibyte_items": nmb}
	// ---- the automaton's verdict against the grammar's own
	if path := m["classes"]; path != "" {
		cw, err := newNDJSON(path)
		if err != nil {
			return err
		}
		counts := map[string]int{}
		for i, e := range all {
			if e.Kind != "line" {
				continue
			}
			vars := newLinesVarAlloc()
			src := linesRenderLine(e.Arrow, e.Items, seed+13*i, vars)
			script := "title: Start\n---\n" + src + "\nmk\n===\n"
			n, first, panicked := linesSyntaxErrors(script)
			verdict := "clean"
			if panicked {
				verdict = "panic"
			} else if n > 0 {
				verdict = "errors"
			}
			key := e.Res.Status + "/" + verdict
			counts[key]++
			unsound := e.Res.Status == "valid" && verdict != "clean"
			conservative := e.Res.Status == "invalid" && verdict == "clean"
			if unsound || (conservative && counts[key] <= 40) {
				if err := cw.Write(map[string]any{"unsound": unsound, "status": e.Res.Status, "antlr": verdict, "first": first,
					"source": src, "sourcecps": linesCps(src)}); err != nil {
					return err
				}
			}
		}
		if err := cw.Close(); err != nil {
			return err
		}
		stats["classes"] = counts
	}
	out, _ := json.Marshal(stats)
	fmt.Println(string(out))
	return nil
}

// ------------------------------------------------------------------ random lines

var linesOrdinary = []rune("abcdefghijklmnopqrstuvwxyzABCDEFGHIJKLMNOPQRSTUVWXYZ0123456789!?.,'\"()*+;@$%&^_~|`:")
var linesEscapable = []rune("\\<>{}#/")
var linesTagChars = []rune("abcdefghijklmnopqrstuvwxyzABCDEFGHIJKLMNOPQRSTUVWXYZ0123456789:-_.")
var linesCommentChars = []rune("abc xyz 019 #{}[]<>\\/=-\"'!$:\t")

func linesRandMB(rnd *rand.Rand) rune {
	switch rnd.Intn(10) {
	case 0:
		return rune(0xC0 + rnd.Intn(0x17)) // À..Ö
	case 1:
		return rune(0xD8 + rnd.Intn(0x1F)) // Ø..ö
	case 2:
		return rune(0x391 + rnd.Intn(0x11)) // Greek capitals
	case 3:
		return rune(0x430 + rnd.Intn(0x20)) // Cyrillic
	case 4:
		return rune(0x4E00 + rnd.Intn(0x1000)) // CJK
	case 5:
		return rune(0xAC00 + rnd.Intn(0x100)) // Hangul
	case 6:
		return rune(0x1F600 + rnd.Intn(0x50)) // emoji (4 bytes)
	case 7:
		return linesPick(rnd, []rune{0x201C, 0x201D, 0x2014, 0x2026, 0x20AC, 0xBF, 0xA1})
	case 8:
		return rune(0x3041 + rnd.Intn(0x50)) // Hiragana
	}
	return rune(0x1D49C + 2*rnd.Intn(2)) // mathematical script (4 bytes)
}

func linesRandTag(rnd *rand.Rand) []int {
	n := 1 + rnd.Intn(10)
	res := make([]int, 0, n)
	for i := 0; i < n; i++ {
		if rnd.Intn(6) == 0 {
			res = append(res, int(linesRandMB(rnd)))
		} else {
			res = append(res, int(linesPick(rnd, linesTagChars)))
		}
	}
	return res
}

func linesRandValue(rnd *rand.Rand) linesVal {
	switch rnd.Intn(4) {
	case 0: // integral
		n := int64(rnd.Intn(1 << 15))
		if rnd.Intn(3) == 0 {
			n = int64(rnd.Intn(20))
		}
		if rnd.Intn(12) == 0 {
			n = 0
		}
		if rnd.Intn(3) == 0 {
			n = -n
		}
		return linesNum(n, 1)
	case 1: // dyadic fraction
		d := int64(2) << uint(rnd.Intn(8)) // 2..256
		n := int64(rnd.Intn(1<<15)) - (1 << 14)
		return linesFloatVal(float64(n) / float64(d))
	case 2:
		return linesBool(rnd.Intn(2) == 0)
	}
	// string: printable characters except [ ] and line breaks; blanks are space and tab only
	if rnd.Intn(8) == 0 {
		return linesStr(linesPick(rnd, []string{"", "#tag", "// no comment", "{1}", "<<if false>>", "->", "===", "\\", "True", "1.50", "a\\<b", " ", "\\\\"}))
	}
	n := rnd.Intn(12)
	var sb strings.Builder
	if rnd.Intn(5) == 0 {
		sb.WriteString(linesPick(rnd, []string{" ", "  ", "\t"}))
	}
	for i := 0; i < n; i++ {
		switch r := rnd.Intn(10); {
		case r < 5:
			sb.WriteRune(linesPick(rnd, linesOrdinary))
		case r < 7:
			sb.WriteRune(linesRandMB(rnd))
		case r < 8:
			sb.WriteRune(' ')
		default:
			sb.WriteRune(linesPick(rnd, []rune("#{}<>/\\-=")))
		}
	}
	if rnd.Intn(5) == 0 {
		sb.WriteString(linesPick(rnd, []string{" ", "  ", "\t"}))
	}
	return linesStr(sb.String())
}

func linesCh(c string, cp rune) linesItem {
	return linesItem{C: c, Cp: int(cp), S: []int{}, V: linesNoVal}
}

func linesRandTextItem(rnd *rand.Rand) linesItem {
	switch r := rnd.Intn(1000); {
	case r < 340:
		return linesCh("o", linesPick(rnd, linesOrdinary))
	case r < 460:
		return linesCh("mb", linesRandMB(rnd))
	case r < 610:
		if rnd.Intn(5) == 0 {
			return linesCh("sp", '\t')
		}
		return linesCh("sp", ' ')
	case r < 640:
		return linesCh("lt", '<')
	case r < 670:
		return linesCh("sl", '/')
	case r < 700:
		return linesCh("gt", '>')
	case r < 730:
		return linesCh("rb", '}')
	case r < 760:
		return linesCh("da", '-')
	case r < 790:
		return linesCh("eq", '=')
	case r < 860:
		return linesCh("es", linesPick(rnd, linesEscapable))
	case r < 890:
		return linesCh("eb", linesPick(rnd, []rune("[]")))
	case r < 893:
		return linesCh("ex", linesPick(rnd, []rune("an1\" ")))
	}
	return linesItem{C: "x", S: []int{}, V: linesRandValue(rnd)}
}

func linesRandAnyItem(rnd *rand.Rand) linesItem {
	switch rnd.Intn(12) {
	case 0:
		return linesItem{C: "t", S: linesRandTag(rnd), V: linesNoVal}
	case 1:
		return linesItem{C: "cd", S: []int{}, V: linesBool(rnd.Intn(2) == 0)}
	case 2:
		return linesItem{C: "cm", S: linesCps(" c"), V: linesNoVal}
	}
	return linesRandTextItem(rnd)
}

// linesRandLine draws the items of one line: literal head, then (options only) a
// condition, tags and a comment; now and then an arbitrary class sequence.
func linesRandLine(rnd *rand.Rand, option bool, cond int) []linesItem {
	var items []linesItem
	if rnd.Intn(12) == 0 {
		n := 1 + rnd.Intn(12)
		for i := 0; i < n; i++ {
			items = append(items, linesRandAnyItem(rnd))
		}
		return items
	}
	n := 1 + rnd.Intn(30)
	if rnd.Intn(4) == 0 {
		n = 1 + rnd.Intn(3)
	}
	if rnd.Intn(40) == 0 {
		n = 200 + rnd.Intn(300) // a line of hundreds of characters with dozens of inline expressions
	}
	for i := 0; i < n; i++ {
		it := linesRandTextItem(rnd)
		if i == 0 && !option && it.C == "sp" { // indentation belongs to another layer
			it = linesCh("o", linesPick(rnd, linesOrdinary))
		}
		items = append(items, it)
	}
	if rnd.Intn(8) == 0 {
		// literal text that looks like the index of an inline expression - escaped braces around a
		// digit - on a line that has at least that many inline expressions, some of whose values
		// look like such an index themselves
		k := rnd.Intn(3)
		seq := []linesItem{linesCh("es", '{'), linesCh("o", rune('0'+k)), linesCh("es", '}')}
		pos := rnd.Intn(len(items) + 1)
		items = append(items[:pos:pos], append(seq, items[pos:]...)...)
		for j := 0; j <= k; j++ {
			v := linesRandValue(rnd)
			if rnd.Intn(3) == 0 {
				v = linesStr(linesPick(rnd, []string{"{0}", "{1}", "{2}", "{3}"}))
			}
			items = append(items, linesCh("sp", ' '), linesItem{C: "x", S: []int{}, V: v})
		}
	}
	sp := func() {
		for k := rnd.Intn(3); k > 0; k-- {
			items = append(items, linesCh("sp", ' '))
		}
	}
	if cond > 0 {
		sp()
		items = append(items, linesItem{C: "cd", S: []int{}, V: linesBool(cond == 1)})
	}
	for k := rnd.Intn(4); k > 0; k-- {
		if rnd.Intn(10) != 0 {
			items = append(items, linesCh("sp", ' '))
		}
		sp()
		items = append(items, linesItem{C: "t", S: linesRandTag(rnd), V: linesNoVal})
	}
	if rnd.Intn(3) == 0 {
		items = append(items, linesCh("sp", ' '))
		sp()
		m := rnd.Intn(15)
		var cm []int
		for i := 0; i < m; i++ {
			cm = append(cm, int(linesPick(rnd, linesCommentChars)))
		}
		if cm == nil {
			cm = []int{}
		}
		items = append(items, linesItem{C: "cm", S: cm, V: linesNoVal})
	}
	return items
}

func linesRandElem(rnd *rand.Rand) *linesElem {
	switch r := rnd.Intn(10); {
	case r < 5:
		return &linesElem{Kind: "line", Items: linesRandLine(rnd, false, 0)}
	case r < 7:
		return &linesElem{Kind: "line", Arrow: true, Items: linesRandLine(rnd, true, rnd.Intn(3))}
	}
	e := &linesElem{Kind: "group", Arrow: true, Items: []linesItem{}}
	n := 1 + rnd.Intn(5)
	for k := 0; k < n; k++ {
		e.Opts = append(e.Opts, linesOpt{Items: linesRandLine(rnd, true, rnd.Intn(3))})
	}
	return e
}

func linesWriteEvents(path string, elems []*linesElem, formBases []int, obs []linesObs, batches, fallbacks int) error {
	w, err := newNDJSON(path)
	if err != nil {
		return err
	}
	kinds := map[string]int{}
	nitems := 0
	for i, e := range elems {
		// the grammar's own verdict on the element alone
		vars := newLinesVarAlloc()
		script := "title: Start\n---\n" + linesRenderElem(e, formBases[i], vars, "\n") + "mk\n===\n"
		errs, _, _ := linesSyntaxErrors(script)
		if errs < 0 {
			errs = 999
		}
		kinds[obs[i].K]++
		opts := e.Opts
		if opts == nil {
			opts = []linesOpt{}
		}
		for _, o := range opts {
			nitems += len(o.Items)
		}
		nitems += len(e.Items)
		if e.Items == nil {
			e.Items = []linesItem{}
		}
		if err := w.Write(map[string]any{"id": i + 1, "kind": e.Kind, "arrow": e.Arrow, "items": e.Items, "opts": opts,
			"obs": obs[i], "errs": errs, "formbase": formBases[i], "source": linesCps(obs[i].Text)}); err != nil {
			return err
		}
	}
	if err := w.Close(); err != nil {
		return err
	}
	out, _ := json.Marshal(map[string]any{"events": len(elems), "batches": batches, "fallbacks": fallbacks, "items": nitems, "observed": kinds})
	fmt.Println(string(out))
	return nil
}

func linesRecord(m map[string]string) error {
	n := argInt(m, "n", 1000)
	batch := argInt(m, "batch", 10)
	rnd := rand.New(rand.NewSource(Seed()*104729 + 3))
	elems := make([]*linesElem, n)
	formBases := make([]int, n)
	for i := range elems {
		elems[i] = linesRandElem(rnd)
		formBases[i] = rnd.Intn(10000)
	}
	obs, batches, fallbacks := linesRunAll(elems, formBases, batch, nil)
	return linesWriteEvents(m["out"], elems, formBases, obs, batches, fallbacks)
}

func linesRerun(m map[string]string) error {
	raw, err := readNDJSON(m["in"])
	if err != nil {
		return err
	}
	elems := make([]*linesElem, len(raw))
	formBases := make([]int, len(raw))
	for i, r := range raw {
		e := &linesElem{}
		if err := json.Unmarshal(r, e); err != nil {
			return fmt.Errorf("event %d: %w", i, err)
		}
		elems[i] = e
		if e.FormBase != nil {
			formBases[i] = *e.FormBase
		}
	}
	obs, batches, fallbacks := linesRunAll(elems, formBases, 1, nil)
	return linesWriteEvents(m["out"], elems, formBases, obs, batches, fallbacks)
}

var _ = ysgo.ErrWaitingForCommandCompletion
