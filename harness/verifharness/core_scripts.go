package verifharness

import (
	"encoding/json"
	"fmt"
	"os"
	"path/filepath"
	"sort"
	"strings"
)

// verifh core fromscripts --dirs d1,d2 --out cases.ndjson --texts texts.ndjson
//
// Hand-written scripts (the repository's own fixtures under testdata/, the idiom corpus under
// /verif/scripts) become cases of the runner specification: each *.yarn file is parsed by the
// library, its dialogue is converted into the case schema (caseOfDialogue) and the ORIGINAL text is
// kept in a side file, so that `core record --texts` drives the real runner over the script exactly
// as it was written while YarnTrace judges the run against the program the parser saw.  A script
// that uses something the runner specification does not model (markup or escapes in literal text,
// non-ASCII text, numbers outside the exact window, random(), round_places(), format functions) is
// skipped and counted with its reason: nothing is judged on it.

// codeOnlyFuncs: built-ins of the library that the runner specification does not model.
var codeOnlyFuncs = map[string]bool{"random": true, "round_places": true}

func litUnsupported(s string) string {
	for i := 0; i < len(s); i++ {
		switch c := s[i]; {
		case c >= 0x80:
			return "non-ascii text"
		case c < 0x20:
			return "control character in text"
		case c == '[' || c == ']':
			return "markup in text"
		case c == '\\':
			return "escape in text"
		case c == '"':
			return "quote in text"
		}
	}
	return ""
}

type scriptScan struct {
	why   string
	cmds  map[string]bool
	lcond bool
}

func (sc *scriptScan) fail(why string) {
	if sc.why == "" {
		sc.why = why
	}
}

func (sc *scriptScan) expr(e *Expr) {
	if e == nil {
		return
	}
	if e.Bad != "" {
		sc.fail(e.Bad)
	}
	switch e.K {
	case "str":
		if w := litUnsupported(e.S); w != "" {
			sc.fail(w + " (string literal)")
		}
	case "var":
		if !isASCII(e.S) || strings.ContainsAny(e.S, "\"\\") {
			sc.fail("variable name outside ASCII")
		}
	case "call":
		if codeOnlyFuncs[e.S] {
			sc.fail("built-in " + e.S + " is not in the runner specification")
		}
		if !isASCII(e.S) {
			sc.fail("function name outside ASCII")
		}
	}
	sc.expr(e.A)
	sc.expr(e.L)
	sc.expr(e.R)
	for _, a := range e.Args {
		sc.expr(a)
	}
}

func (sc *scriptScan) parts(ps []Part) {
	for _, p := range ps {
		if p.E != nil {
			sc.expr(p.E)
		} else if w := litUnsupported(p.Lit); w != "" {
			sc.fail(w)
		}
	}
}

func (sc *scriptScan) tags(ts []string) {
	for _, t := range ts {
		if w := litUnsupported(t); w != "" {
			sc.fail(w + " (tag)")
		}
	}
}

func (sc *scriptScan) scan(c *Case) {
	for _, n := range c.Nodes {
		if w := litUnsupported(n.Title); w != "" || n.Title == "" {
			sc.fail("node title: " + w)
		}
		if n.Tracking != "" && n.Tracking != "always" && n.Tracking != "never" {
			sc.fail("tracking header " + n.Tracking)
		}
	}
	for _, b := range c.Bodies {
		for _, s := range b {
			switch s.K {
			case "line":
				sc.parts(s.Text)
				sc.tags(s.Tags)
				if s.Cond != nil {
					sc.lcond = true
					sc.expr(s.Cond)
				}
			case "opts":
				for _, o := range s.Opts {
					sc.parts(o.Text)
					sc.tags(o.Tags)
					sc.expr(o.Cond)
				}
			case "if":
				for _, cl := range s.Clauses {
					sc.expr(cl.Cond)
				}
			case "set", "jump", "call":
				sc.expr(s.E)
			case "cmd":
				for _, e := range s.Elems {
					sc.expr(e)
				}
				if len(s.Elems) > 0 && s.Elems[0].K == "str" {
					sc.cmds[s.Elems[0].S] = true
				}
			}
		}
	}
}

func coreFromScripts(m map[string]string) error {
	var files []string
	for _, dir := range strings.Split(m["dirs"], ",") {
		if dir == "" {
			continue
		}
		fs, err := filepath.Glob(filepath.Join(dir, "*.yarn"))
		if err != nil {
			return err
		}
		sort.Strings(fs)
		files = append(files, fs...)
	}
	w, err := newNDJSON(m["out"])
	if err != nil {
		return err
	}
	tw, err := newNDJSON(m["texts"])
	if err != nil {
		return err
	}
	skipped := map[string]string{}
	accepted := []string{}
	id := 0
	for _, f := range files {
		raw, err := os.ReadFile(f)
		if err != nil {
			return err
		}
		name := filepath.Base(f)
		d, err := parseTexts([]string{string(raw)})
		if err != nil || d == nil || len(d.Nodes) == 0 {
			skipped[name] = fmt.Sprintf("does not load: %v", err)
			continue
		}
		c, bad := caseOfDialogue(d)
		sc := &scriptScan{cmds: map[string]bool{}}
		if len(bad) > 0 {
			sc.fail(bad[0])
		}
		sc.scan(c)
		titles := map[string]bool{}
		for _, n := range c.Nodes {
			if titles[n.Title] {
				sc.fail("two nodes with one title")
			}
			titles[n.Title] = true
		}
		if sc.cmds["wait"] {
			sc.fail("the built-in wait completes by itself (timed by the cmdrace stage of C10)")
		}
		if sc.why != "" {
			skipped[name] = sc.why
			continue
		}
		id++
		c.ID, c.Family, c.Seed, c.Storer, c.LineCond = id, "scripts", "s"+fmt.Sprint(id), "recording", sc.lcond
		c.Readers = []int{len(c.Nodes)}
		if c.Bodies == nil {
			c.Bodies = [][]Stmt{}
		}
		// every command name the script uses gets a handler; the behaviour class follows from the
		// name so that it is the same in every run: mostly completing at once, some pending, few failing
		names := make([]string, 0, len(sc.cmds))
		for n := range sc.cmds {
			names = append(names, n)
		}
		sort.Strings(names)
		for i, n := range names {
			if n == "wait" || n == "stop" || !isASCII(n) {
				continue
			}
			if _, ok := c.Cmds[n]; ok {
				continue
			}
			c.Cmds[n] = []string{"done", "done", "pend", "done", "fail"}[(i+len(n))%5]
		}
		if err := w.Write(c); err != nil {
			return err
		}
		if err := tw.Write(map[string]any{"id": id, "file": name, "texts": []string{string(raw)}}); err != nil {
			return err
		}
		accepted = append(accepted, name)
	}
	if err := tw.Close(); err != nil {
		return err
	}
	if err := w.Close(); err != nil {
		return err
	}
	out, _ := json.Marshal(map[string]any{"scripts": len(files), "accepted": accepted, "skipped": skipped})
	fmt.Println(string(out))
	return nil
}

// loadFixedTexts reads the side file of `core fromscripts` (case id -> original texts); "" -> nil.
func loadFixedTexts(path string) (map[int][]string, error) {
	if path == "" {
		return nil, nil
	}
	lines, err := readNDJSON(path)
	if err != nil {
		return nil, err
	}
	fixed := map[int][]string{}
	for _, raw := range lines {
		var t struct {
			ID    int      `json:"id"`
			Texts []string `json:"texts"`
		}
		if err := json.Unmarshal(raw, &t); err != nil {
			return nil, err
		}
		fixed[t.ID] = t.Texts
	}
	return fixed, nil
}
