package verifharness

import (
	"encoding/hex"
	"encoding/json"
	"fmt"
	"math/rand"
	"os"
	"path/filepath"
	"strings"

	"github.com/antlr4-go/antlr/v4"

	"github.com/remieven/ysgo/internal/parser"
)

// Indentation layer (properties C20 token balance, C08 layout).
//
//	verifh lex corpus --n N --out inputs.ndjson [--testdata dir]
//	    line-structured random texts, fixtures, mutated fixtures and random bytes
//	verifh lex record --in inputs.ndjson --out trace.ndjson
//	    token stream of the real lexer for every input (validated by spec/LexTrace.tla)
func init() { register("lex", lexMain) }

type lexInput struct {
	ID   int    `json:"id"`
	Kind string `json:"kind"`
	Hex  string `json:"hex"`
}

type lexRecord struct {
	ID      int      `json:"id"`
	Kind    string   `json:"kind"`
	Outcome string   `json:"outcome"`
	Toks    [][3]int `json:"toks"`
}

func lexMain(args []string) error {
	if len(args) == 0 {
		return fmt.Errorf("lex: missing mode")
	}
	m := argMap(args[1:])
	switch args[0] {
	case "corpus":
		return lexCorpus(m)
	case "record":
		return lexRecordMain(m)
	}
	return fmt.Errorf("lex: unknown mode %s", args[0])
}

const maxLexTokens = 20000

// lexTokens runs the real lexer (ref: the reference indentation layer of reflexer.go over
// the generated lexer) until the first EOF token.
func lexTokens(input string, ref bool) (toks []antlr.Token, outcome string) {
	outcome = "ok"
	defer func() {
		if r := recover(); r != nil {
			outcome = "panic"
		}
	}()
	var lexer antlr.Lexer = parser.NewYarnSpinnerLexer(antlr.NewInputStream(input))
	if ref {
		lexer = newRefIndentLexer(input)
	}
	lexer.RemoveErrorListeners()
	for {
		t := lexer.NextToken()
		if t == nil {
			return toks, "niltoken"
		}
		toks = append(toks, t)
		if t.GetTokenType() == antlr.TokenEOF {
			return toks, "ok"
		}
		if len(toks) > maxLexTokens {
			return toks, "overrun"
		}
	}
}

func newlineWidth(text string) (w int, mixed bool) {
	spaces, tabs := false, false
	for _, c := range text {
		switch c {
		case ' ':
			w++
			spaces = true
		case '\t':
			w += 8
			tabs = true
		}
	}
	return w, spaces && tabs
}

// abstractTokens maps the token stream to the alphabet of spec/LexTrace.tla.
func abstractTokens(toks []antlr.Token, input string) [][3]int {
	src := []rune(input)
	res := make([][3]int, 0, len(toks))
	for _, t := range toks {
		switch t.GetTokenType() {
		case parser.YarnSpinnerLexerNEWLINE:
			w, _ := newlineWidth(t.GetText())
			// kind of the line that follows, read off the source text itself (tokens are
			// unreliable here: characters the lexer cannot match produce no token at all):
			// nothing or only a line break after the indentation -> blank, `//` -> comment-only
			kind := 0
			p := t.GetStop() + 1
			switch {
			case p >= len(src) || src[p] == '\r' || src[p] == '\n':
				kind = 1
			case src[p] == '/' && p+1 < len(src) && src[p+1] == '/':
				kind = 2
			}
			res = append(res, [3]int{1, w, kind})
		case parser.YarnSpinnerLexerINDENT:
			res = append(res, [3]int{2, 0, 0})
		case parser.YarnSpinnerLexerDEDENT:
			res = append(res, [3]int{3, 0, 0})
		case antlr.TokenEOF:
			// PREEOF marker before the run of DEDENTs that directly precedes EOF
			k := len(res)
			for k > 0 && res[k-1][0] == 3 {
				k--
			}
			res = append(res, [3]int{})
			copy(res[k+1:], res[k:])
			res[k] = [3]int{5, 0, 0}
			res = append(res, [3]int{4, 0, 0})
		default:
			if n := len(res); n > 0 && res[n-1][0] == 0 {
				continue // collapse runs of other tokens
			}
			res = append(res, [3]int{0, 0, 0})
		}
	}
	return res
}

func lexRecordMain(m map[string]string) error {
	lines, err := readNDJSON(m["in"])
	if err != nil {
		return err
	}
	w, err := newNDJSON(m["out"])
	if err != nil {
		return err
	}
	for _, raw := range lines {
		var in lexInput
		if err := json.Unmarshal(raw, &in); err != nil {
			return err
		}
		b, err := hex.DecodeString(in.Hex)
		if err != nil {
			return err
		}
		if m["ref"] != "only" {
			toks, outcome := lexTokens(string(b), false)
			rec := lexRecord{ID: in.ID, Kind: in.Kind, Outcome: outcome, Toks: abstractTokens(toks, string(b))}
			if err := w.Write(rec); err != nil {
				return err
			}
		}
		if m["ref"] != "" && len(b) > 0 {
			// the oracle's indentation layer on the same input, as a second record
			toks, outcome := lexTokens(string(b), true)
			rec := lexRecord{ID: in.ID, Kind: "ref:" + in.Kind, Outcome: outcome, Toks: abstractTokens(toks, string(b))}
			if err := w.Write(rec); err != nil {
				return err
			}
		}
	}
	return w.Close()
}

// ---------------------------------------------------------------- corpus

var lexLineBodies = []string{
	"Hello there", "-> Option", "<<set $x to 1>>", "<<jump A>>", "<<if $x == 1>>", "<<endif>>", "<<else>>",
	"Text with {$x} inline #tag", "-> Opt <<if true>> #t", "<<cmd a b>>", "<<stop>>", "<<declare $y = 2>>",
	"Naïve: text // trailing", "\\{escaped\\}", "#onlytag",
}

func genLexText(rnd *rand.Rand) string {
	var sb strings.Builder
	nl := "\n"
	switch rnd.Intn(6) {
	case 0:
		nl = "\r\n"
	case 1:
		if rnd.Intn(3) == 0 {
			nl = "\r"
		}
	}
	tabs := rnd.Intn(4) == 0
	unit := 1 + rnd.Intn(8)
	indent := func(d int) string {
		if tabs {
			return strings.Repeat("\t", d)
		}
		return strings.Repeat(" ", d*unit)
	}
	nodes := 1 + rnd.Intn(3)
	for n := 0; n < nodes; n++ {
		if rnd.Intn(8) == 0 {
			sb.WriteString(indent(rnd.Intn(3)))
		}
		fmt.Fprintf(&sb, "title: N%d%s", n, nl)
		if rnd.Intn(3) == 0 {
			sb.WriteString("tracking: always" + nl)
		}
		sb.WriteString("---" + nl)
		depth := 0
		lines := rnd.Intn(14)
		if rnd.Intn(10) == 0 {
			lines = 60 + rnd.Intn(200) // long bodies, deep staircases
		}
		for i := 0; i < lines; i++ {
			switch r := rnd.Intn(10); {
			case r < 2: // blank or whitespace-only line of arbitrary width
				if rnd.Intn(2) == 0 {
					sb.WriteString(indent(rnd.Intn(5)))
				}
				sb.WriteString(nl)
				continue
			case r < 3: // comment-only line at any indentation
				sb.WriteString(indent(rnd.Intn(5)) + "// a comment" + nl)
				continue
			}
			switch rnd.Intn(4) {
			case 0:
				depth++
			case 1:
				if depth > 0 {
					depth -= 1 + rnd.Intn(depth)
				}
			}
			if depth > 10 {
				depth = 10
			}
			pre := indent(depth)
			if rnd.Intn(12) == 0 { // ragged indentation (between two levels)
				pre += " "
				if tabs {
					pre = strings.Repeat("\t", depth+1)
				}
			}
			sb.WriteString(pre + lexLineBodies[rnd.Intn(len(lexLineBodies))] + nl)
		}
		if rnd.Intn(6) == 0 {
			sb.WriteString(indent(rnd.Intn(3)))
		}
		sb.WriteString("===")
		if n < nodes-1 || rnd.Intn(3) > 0 {
			sb.WriteString(nl)
		}
		if rnd.Intn(5) == 0 {
			sb.WriteString(indent(rnd.Intn(4)))
			if rnd.Intn(2) == 0 {
				sb.WriteString(nl)
			}
		}
	}
	return sb.String()
}

func mutateBytes(rnd *rand.Rand, b []byte) []byte {
	out := append([]byte(nil), b...)
	n := 1 + rnd.Intn(4)
	for k := 0; k < n && len(out) > 0; k++ {
		p := rnd.Intn(len(out))
		switch rnd.Intn(5) {
		case 0: // delete a span
			q := p + rnd.Intn(12)
			if q > len(out) {
				q = len(out)
			}
			out = append(out[:p], out[q:]...)
		case 1: // duplicate a span
			q := p + rnd.Intn(20)
			if q > len(out) {
				q = len(out)
			}
			span := append([]byte(nil), out[p:q]...)
			out = append(out[:q], append(span, out[q:]...)...)
		case 2: // insert structural characters
			ins := []string{"\n", "\n    ", "\n\t", "    ", "->", "<<", ">>", "{", "}", "#", "===", "---", "//", "\r\n  ", "\n\n"}[rnd.Intn(15)]
			out = append(out[:p], append([]byte(ins), out[p:]...)...)
		case 3: // truncate
			out = out[:p]
		case 4: // flip a byte
			out[p] = byte(rnd.Intn(256))
		}
	}
	return out
}

func lexCorpus(m map[string]string) error {
	n := argInt(m, "n", 300)
	w, err := newNDJSON(m["out"])
	if err != nil {
		return err
	}
	rnd := rand.New(rand.NewSource(Seed()))
	id := 0
	emit := func(kind string, b []byte) error {
		// mixed tabs+spaces indentation is a load error (property C05), not a token stream
		id++
		return w.Write(lexInput{ID: id, Kind: kind, Hex: hex.EncodeToString(b)})
	}
	var fixtures [][]byte
	if dir := m["testdata"]; dir != "" {
		files, _ := filepath.Glob(filepath.Join(dir, "*.yarn"))
		for _, f := range files {
			b, err := os.ReadFile(f)
			if err == nil {
				fixtures = append(fixtures, b)
				if err := emit("fixture", b); err != nil {
					return err
				}
			}
		}
	}
	if err := emit("empty", nil); err != nil {
		return err
	}
	for i := 0; i < n; i++ {
		switch r := i % 10; {
		case r < 5:
			if err := emit("structured", []byte(genLexText(rnd))); err != nil {
				return err
			}
		case r < 7:
			if err := emit("mutated-structured", mutateBytes(rnd, []byte(genLexText(rnd)))); err != nil {
				return err
			}
		case r < 9 && len(fixtures) > 0:
			if err := emit("mutated-fixture", mutateBytes(rnd, fixtures[rnd.Intn(len(fixtures))])); err != nil {
				return err
			}
		default:
			b := make([]byte, rnd.Intn(200))
			alphabet := []byte(" \t\n\r-><{}#=/:abc$\"\\()")
			for k := range b {
				if rnd.Intn(4) == 0 {
					b[k] = byte(rnd.Intn(256))
				} else {
					b[k] = alphabet[rnd.Intn(len(alphabet))]
				}
			}
			if err := emit("bytes", b); err != nil {
				return err
			}
		}
	}
	return w.Close()
}
