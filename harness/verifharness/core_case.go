package verifharness

import (
	"encoding/json"
	"fmt"
	"math/big"
	"strings"
)

// The "case" schema shared with the TLA+ specifications (spec/YarnRunner.tla,
// DESIGN.md appendix A).  Everything is restricted to what TLC's Json module reads
// faithfully: objects, arrays, ASCII strings, booleans, small integers.

// Expr is an expression tree.
type Expr struct {
	K    string  // num bool str null var neg not bin call none
	N, D int     // num
	B    bool    // bool
	S    string  // str / var name / function name / operator
	Op   string  // bin
	A    *Expr   // neg / not
	L, R *Expr   // bin
	Args []*Expr // call
	Bad  string  // non-empty: something of the real AST that the schema cannot represent
}

func (e *Expr) MarshalJSON() ([]byte, error) {
	m := map[string]any{"k": e.K}
	switch e.K {
	case "num":
		m["n"], m["d"] = e.N, e.D
	case "bool":
		m["b"] = e.B
	case "str":
		m["s"] = e.S
	case "var":
		m["v"] = e.S
	case "special":
		m["c"] = e.S
	case "neg", "not":
		m["a"] = e.A
	case "bin":
		m["op"], m["l"], m["r"] = e.Op, e.L, e.R
	case "call":
		args := e.Args
		if args == nil {
			args = []*Expr{}
		}
		m["fn"], m["args"] = e.S, args
	}
	if e.Bad != "" {
		m["bad"] = e.Bad
	}
	return json.Marshal(m)
}

func (e *Expr) UnmarshalJSON(b []byte) error {
	var m struct {
		K    string  `json:"k"`
		N    int     `json:"n"`
		D    int     `json:"d"`
		B    bool    `json:"b"`
		S    string  `json:"s"`
		V    string  `json:"v"`
		Fn   string  `json:"fn"`
		Op   string  `json:"op"`
		A    *Expr   `json:"a"`
		L    *Expr   `json:"l"`
		R    *Expr   `json:"r"`
		Args []*Expr `json:"args"`
		C    string  `json:"c"`
	}
	if err := json.Unmarshal(b, &m); err != nil {
		return err
	}
	*e = Expr{K: m.K, N: m.N, D: m.D, B: m.B, S: m.S, Op: m.Op, A: m.A, L: m.L, R: m.R, Args: m.Args}
	if m.K == "var" {
		e.S = m.V
	}
	if m.K == "special" {
		e.S = m.C
	}
	if m.K == "call" {
		e.S = m.Fn
	}
	return nil
}

func eNum(n, d int) *Expr              { return &Expr{K: "num", N: n, D: d} }
func eBool(b bool) *Expr               { return &Expr{K: "bool", B: b} }
func eStr(s string) *Expr              { return &Expr{K: "str", S: s} }
func eVar(v string) *Expr              { return &Expr{K: "var", S: v} }
func eNeg(a *Expr) *Expr               { return &Expr{K: "neg", A: a} }
func eNot(a *Expr) *Expr               { return &Expr{K: "not", A: a} }
func eBin(op string, l, r *Expr) *Expr { return &Expr{K: "bin", Op: op, L: l, R: r} }
func eCall(fn string, args ...*Expr) *Expr {
	return &Expr{K: "call", S: fn, Args: args}
}
func eNone() *Expr { return &Expr{K: "none"} }

// eSpecial: a number outside the window (inf neginf nan huge neghuge big negbig), see spec/YarnExpr.tla
func eSpecial(c string) *Expr { return &Expr{K: "special", S: c} }
func eNull() *Expr            { return &Expr{K: "null"} }

// Part is one element of a line's text: a literal or an inline expression.
type Part struct {
	Lit string
	E   *Expr
	// Wrap (harness-only, ignored by the specifications): the literal is written inside a markup
	// wrapper that must not change the text of the line ("b": [b]lit[/b], "bp": with properties,
	// "nomarkup": [nomarkup]lit[/nomarkup], "nomarkupall": closed by [/], "sc": lit[pause .../])
	Wrap string
}

func (p Part) MarshalJSON() ([]byte, error) {
	if p.E != nil {
		return json.Marshal(map[string]any{"e": p.E})
	}
	if p.Wrap != "" {
		return json.Marshal(map[string]any{"lit": p.Lit, "wrap": p.Wrap})
	}
	return json.Marshal(map[string]any{"lit": p.Lit})
}

// source returns the literal as it is written in the script.
func (p Part) source() string {
	switch p.Wrap {
	case "b":
		return "[b]" + p.Lit + "[/b]"
	case "bp":
		return `[wave speed=2 big=true label="x y"]` + p.Lit + "[/wave]"
	case "nomarkup":
		return "[nomarkup]" + p.Lit + "[/nomarkup]"
	case "nomarkupall":
		return "[nomarkup]" + p.Lit + "[/]"
	case "sc":
		return p.Lit + "[pause length=500/]"
	// replacement markers in open form: marker and contents are replaced by the selected text
	case "selopen":
		return `[select value=k j="no" k="` + p.Lit + `"]dropped [b] contents[/select]`
	case "pluopen":
		return `[plural value=2 one="no" other="` + p.Lit + `"]dropped[/plural]`
	case "ordopen":
		return `[ordinal value=4 one="a" two="b" few="c" other="` + p.Lit + `"]dropped contents[/]`
	}
	return p.Lit
}

func (p *Part) UnmarshalJSON(b []byte) error {
	var m struct {
		Lit  string `json:"lit"`
		E    *Expr  `json:"e"`
		Wrap string `json:"wrap"`
	}
	if err := json.Unmarshal(b, &m); err != nil {
		return err
	}
	p.Lit, p.E, p.Wrap = m.Lit, m.E, m.Wrap
	return nil
}

// Option of an option group.
type Option struct {
	Text []Part   `json:"text"`
	Cond *Expr    `json:"cond"`
	Tags []string `json:"tags"`
	Body int      `json:"body"`
}

// Clause of an if statement.
type Clause struct {
	Cond *Expr `json:"cond"`
	Body int   `json:"body"`
}

// Stmt is a statement.
type Stmt struct {
	K       string // line opts if set jump cmd call
	Text    []Part
	Tags    []string
	Opts    []Option
	Clauses []Clause
	Var     string
	Op      string
	Decl    bool
	E       *Expr
	Elems   []*Expr
	Cond    *Expr // line: a line condition on a PLAIN line (its meaning is left open by the properties)
}

func nonNilTags(t []string) []string {
	if t == nil {
		return []string{}
	}
	return t
}

func (s Stmt) MarshalJSON() ([]byte, error) {
	m := map[string]any{"k": s.K}
	switch s.K {
	case "line":
		m["text"], m["tags"] = s.Text, nonNilTags(s.Tags)
		if s.Cond != nil {
			m["cond"] = s.Cond
		}
	case "opts":
		opts := make([]Option, len(s.Opts))
		for i, o := range s.Opts {
			o.Tags = nonNilTags(o.Tags)
			if o.Cond == nil {
				o.Cond = eNone()
			}
			opts[i] = o
		}
		m["opts"] = opts
	case "if":
		m["clauses"] = s.Clauses
	case "set":
		m["var"], m["op"], m["e"], m["decl"] = s.Var, s.Op, s.E, s.Decl
	case "jump", "call":
		m["e"] = s.E
	case "cmd":
		el := s.Elems
		if el == nil {
			el = []*Expr{}
		}
		m["elems"] = el
	}
	return json.Marshal(m)
}

func (s *Stmt) UnmarshalJSON(b []byte) error {
	var m struct {
		K       string   `json:"k"`
		Text    []Part   `json:"text"`
		Tags    []string `json:"tags"`
		Opts    []Option `json:"opts"`
		Clauses []Clause `json:"clauses"`
		Var     string   `json:"var"`
		Op      string   `json:"op"`
		Decl    bool     `json:"decl"`
		E       *Expr    `json:"e"`
		Elems   []*Expr  `json:"elems"`
		Cond    *Expr    `json:"cond"`
	}
	if err := json.Unmarshal(b, &m); err != nil {
		return err
	}
	*s = Stmt{K: m.K, Text: m.Text, Tags: m.Tags, Opts: m.Opts, Clauses: m.Clauses, Var: m.Var, Op: m.Op,
		Decl: m.Decl, E: m.E, Elems: m.Elems}
	if m.K == "line" {
		s.Cond = m.Cond
	}
	return nil
}

// Node of a dialogue.
type Node struct {
	Title    string `json:"title"`
	Tracking string `json:"tracking"` // "" | "always" | "never"
	Body     int    `json:"body"`
}

// Case is one program plus its host configuration.
type Case struct {
	ID     int               `json:"id"`
	Family string            `json:"family"`
	Vars   []string          `json:"vars"`
	Nodes  []Node            `json:"nodes"`
	Bodies [][]Stmt          `json:"bodies"` // 1-based ids; 0 = empty body
	Funcs  map[string]string `json:"funcs"`
	Cmds   map[string]string `json:"cmds"`
	// harness-only knobs (ignored by the specifications)
	Readers []int  `json:"readers"` // number of nodes per reader
	Seed    string `json:"seed"`
	Storer  string `json:"storer"` // "default" | "recording" | "inmemory"
	// LineCond: the program has plain lines with a line condition (the trace specification then
	// accepts both readings of such a line: condition ignored, or a false condition skips the line)
	LineCond bool `json:"linecond"`
	// Rebinds: the registrations the host may make between two calls of this program (names the
	// script uses); MC_Runner explores every point at which one of them may happen
	Rebinds []Rebind `json:"rebinds"`
}

// Rebind is one AddFunction ("f") / AddCommand ("c") of a handler of behaviour class Kind.
type Rebind struct {
	What string `json:"what"`
	Name string `json:"name"`
	Kind string `json:"kind"`
}

// MarshalJSON: no JSON null may reach TLC's Json module.
func (c Case) MarshalJSON() ([]byte, error) {
	type plain Case
	p := plain(c)
	if p.Rebinds == nil {
		p.Rebinds = []Rebind{}
	}
	return json.Marshal(p)
}

func (c *Case) body(id int) []Stmt {
	if id == 0 {
		return nil
	}
	return c.Bodies[id-1]
}

func (c *Case) addBody(stmts []Stmt) int {
	if len(stmts) == 0 {
		return 0
	}
	if stmts == nil {
		stmts = []Stmt{}
	}
	c.Bodies = append(c.Bodies, stmts)
	return len(c.Bodies)
}

// standard host configuration of the core cases
func defaultFuncs() map[string]string {
	return map[string]string{
		"visited": "visited", "visited_count": "visited_count",
		"string": "string", "number": "number", "bool": "bool",
		"p1": "id", "p2": "id", "boom": "boom", "noret": "noret", "bump": "bump",
		"dice": "dice", "random_range": "random_range",
		"cstr": "idstr", "cbool": "idbool", "cint": "idint", "cadd": "add2", "csum": "sumv",
		"floor": "floor", "ceil": "ceil", "round": "round", "inc": "inc", "dec": "dec", "integer": "integer", "decimal": "decimal",
	}
}

func defaultCmds() map[string]string {
	return map[string]string{"cdone": "done", "cfail": "fail", "cpend": "pend", "cother": "done"}
}

// ---------------------------------------------------------------- values

// Val is a runtime value crossing the boundary.
type Val struct {
	T string `json:"t"` // n b s u x
	N int    `json:"n"`
	D int    `json:"d"`
	B bool   `json:"b"`
	S string `json:"s"`
}

func (v Val) MarshalJSON() ([]byte, error) {
	switch v.T {
	case "n":
		return json.Marshal(map[string]any{"t": "n", "n": v.N, "d": v.D})
	case "b":
		return json.Marshal(map[string]any{"t": "b", "b": v.B})
	case "s":
		return json.Marshal(map[string]any{"t": "s", "s": v.S})
	case "x":
		return json.Marshal(map[string]any{"t": "x", "s": v.S})
	}
	return json.Marshal(map[string]any{"t": "u"})
}

func (v Val) String() string {
	switch v.T {
	case "n":
		if v.D == 1 {
			return fmt.Sprint(v.N)
		}
		return fmt.Sprintf("%d/%d", v.N, v.D)
	case "b":
		return fmt.Sprint(v.B)
	case "s":
		return fmt.Sprintf("%q", v.S)
	case "x":
		return "unrepresentable(" + v.S + ")"
	}
	return "unset"
}

const (
	maxNum = 32768
	maxDen = 256
)

// valOfFloat converts a float64 exactly; numbers outside the window of the
// specifications become t = "x" (unrepresentable) with a printable token.
func valOfFloat(f float64) Val {
	r := new(big.Rat)
	if r.SetFloat64(f) == nil { // Inf / NaN
		return Val{T: "x", S: fmt.Sprint(f)}
	}
	if !r.Num().IsInt64() || !r.Denom().IsInt64() {
		return Val{T: "x", S: fmt.Sprint(f)}
	}
	n, d := r.Num().Int64(), r.Denom().Int64()
	if d > maxDen || n > maxNum || n < -maxNum {
		return Val{T: "x", S: fmt.Sprint(f)}
	}
	return Val{T: "n", N: int(n), D: int(d)}
}

func isASCII(s string) bool {
	for i := 0; i < len(s); i++ {
		if s[i] >= 0x80 || s[i] < 0x20 && s[i] != '\t' {
			return false
		}
	}
	return true
}

func valOfString(s string) Val {
	if !isASCII(s) {
		return Val{T: "x", S: fmt.Sprintf("%+q", s)}
	}
	return Val{T: "s", S: s}
}

func floatOfVal(v Val) float64 { return float64(v.N) / float64(v.D) }

func joinStrings(ss []string) string { return strings.Join(ss, ",") }
