package verifharness

import (
	"encoding/json"
	"fmt"
	"math/rand"

	"github.com/remieven/ysgo/markup"
)

// Spec -> code for property C13: replays the lines enumerated by MC_Markup.

type mkBeh struct {
	Items []mkItem `json:"items"`
	Exp   []mkRes  `json:"exp"`
	// the results under the other consistent pairing of same-name nesting (a close pairs
	// with the most recent open marker of its name); empty when the pairing cannot matter
	Alt []mkRes `json:"alt"`
}

type mkDiff struct {
	Case    int      `json:"case"`
	Variant int      `json:"variant"`
	Input   []int    `json:"input"` // the concrete line, as code points
	Items   []mkItem `json:"items"`
	Exp     []mkRes  `json:"exp"`
	Got     mkRes    `json:"got"`
	// "": matches neither reading; "first"/"last": the line is only explained by that
	// pairing (reported when the other lines need the other one)
	Pairing string `json:"pairing,omitempty"`
}

// mkReplayOne concretises one abstract line (variant 0: as printed, tight layout;
// other variants: renamed characters, free layout) and compares the real result with
// the results the specification allows.
func mkReplayOne(b mkBeh, variant int, rnd *rand.Rand) (diff *mkDiff, line string) {
	items, exp, alt := b.Items, b.Exp, b.Alt
	layout := mkLayout{}
	if variant > 0 {
		sigma := mkRenaming(rnd)
		items = mkRenameItems(items, sigma)
		exp = make([]mkRes, len(b.Exp))
		for i := range b.Exp {
			exp[i] = mkRenameRes(b.Exp[i], sigma)
		}
		alt = make([]mkRes, len(b.Alt))
		for i := range b.Alt {
			alt[i] = mkRenameRes(b.Alt[i], sigma)
		}
		layout = mkLayout{rnd: rnd}
	}
	line = layout.line(items)
	got := mkParse(&markup.LineParser{}, line)
	g := mkCanon(got)
	first, last := false, false
	if got.Outcome == "result" || got.Outcome == "error" {
		for _, e := range exp {
			first = first || mkCanon(e) == g
		}
		for _, e := range alt {
			last = last || mkCanon(e) == g
		}
	}
	if first && (last || len(alt) == 0) {
		return nil, line
	}
	d := &mkDiff{Variant: variant, Input: mkCps(line), Items: items, Exp: exp, Got: got}
	switch {
	case first:
		d.Pairing = "first"
	case last:
		d.Pairing = "last"
		d.Exp = exp
	}
	return d, line
}

func markupReplay(m map[string]string) error {
	lines, err := readNDJSON(m["in"])
	if err != nil {
		return err
	}
	out, err := newNDJSON(m["out"])
	if err != nil {
		return err
	}
	variants := argInt(m, "variants", 2)
	rnd := rand.New(rand.NewSource(Seed()))
	nDiff, nRuns, nMulti, nEdge, nNested := 0, 0, 0, 0, 0
	// lines only explained by one pairing of same-name nesting: all of them must agree
	pairCount := map[string]int{}
	pairKept := map[string][]*mkDiff{}
	var sample string
	for ci, raw := range lines {
		var b mkBeh
		if err := json.Unmarshal(raw, &b); err != nil {
			return fmt.Errorf("case %d: %w", ci, err)
		}
		if len(b.Exp) > 1 {
			nEdge++
		}
		if len(b.Alt) > 0 {
			nNested++
		}
		for v := 0; v < variants; v++ {
			d, line := mkReplayOne(b, v, rnd)
			nRuns++
			if len(line) != len([]rune(line)) {
				nMulti++
			}
			if ci == len(lines)/2 && v == variants-1 {
				sample = line
			}
			if d != nil && d.Pairing != "" {
				d.Case = ci
				pairCount[d.Pairing]++
				if len(pairKept[d.Pairing]) < 40 {
					pairKept[d.Pairing] = append(pairKept[d.Pairing], d)
				}
				continue
			}
			if d != nil {
				d.Case = ci
				nDiff++
				if nDiff <= 400 { // the check reports classes, not every instance
					if err := out.Write(d); err != nil {
						return err
					}
				}
				break
			}
		}
	}
	// one reading must explain every line: when both are needed, the lines of the rarer one
	// (ties: the ones that need the upstream pairing) are the divergences
	if pairCount["first"] > 0 && pairCount["last"] > 0 {
		minority := "last"
		if pairCount["first"] < pairCount["last"] {
			minority = "first"
		}
		for _, d := range pairKept[minority] {
			nDiff++
			if err := out.Write(d); err != nil {
				return err
			}
		}
	}
	if err := out.Close(); err != nil {
		return err
	}
	stats, _ := json.Marshal(map[string]any{"cases": len(lines), "runs": nRuns, "diffs": nDiff,
		"multibyte_runs": nMulti, "edge_whitespace_cases": nEdge, "sample": mkCps(sample),
		"same_name_nesting_cases": nNested, "pairing_first_only": pairCount["first"], "pairing_last_only": pairCount["last"]})
	fmt.Println(string(stats))
	return nil
}
