package verifharness

import (
	"encoding/json"
	"fmt"
	"math/rand"

	"github.com/remieven/ysgo/markup"
)

// Spec -> code for property C13: replays the lines enumerated by MC_Markup.

type mkBeh struct {
	Items []mkItem `json:"items"`
	Exp   []mkRes  `json:"exp"`
}

type mkDiff struct {
	Case    int      `json:"case"`
	Variant int      `json:"variant"`
	Input   []int    `json:"input"` // the concrete line, as code points
	Items   []mkItem `json:"items"`
	Exp     []mkRes  `json:"exp"`
	Got     mkRes    `json:"got"`
}

// mkReplayOne concretises one abstract line (variant 0: as printed, tight layout;
// other variants: renamed characters, free layout) and compares the real result with
// the results the specification allows.
func mkReplayOne(b mkBeh, variant int, rnd *rand.Rand) (diff *mkDiff, line string) {
	items, exp := b.Items, b.Exp
	layout := mkLayout{}
	if variant > 0 {
		sigma := mkRenaming(rnd)
		items = mkRenameItems(items, sigma)
		exp = make([]mkRes, len(b.Exp))
		for i := range b.Exp {
			exp[i] = mkRenameRes(b.Exp[i], sigma)
		}
		layout = mkLayout{rnd: rnd}
	}
	line = layout.line(items)
	got := mkParse(&markup.LineParser{}, line)
	g := mkCanon(got)
	if got.Outcome == "result" || got.Outcome == "error" {
		for _, e := range exp {
			if mkCanon(e) == g {
				return nil, line
			}
		}
	}
	return &mkDiff{Variant: variant, Input: mkCps(line), Items: items, Exp: exp, Got: got}, line
}

func markupReplay(m map[string]string) error {
	lines, err := readNDJSON(m["in"])
	if err != nil {
		return err
	}
	out, err := newNDJSON(m["out"])
	if err != nil {
		return err
	}
	variants := argInt(m, "variants", 2)
	rnd := rand.New(rand.NewSource(Seed()))
	nDiff, nRuns, nMulti, nEdge := 0, 0, 0, 0
	var sample string
	for ci, raw := range lines {
		var b mkBeh
		if err := json.Unmarshal(raw, &b); err != nil {
			return fmt.Errorf("case %d: %w", ci, err)
		}
		if len(b.Exp) > 1 {
			nEdge++
		}
		for v := 0; v < variants; v++ {
			d, line := mkReplayOne(b, v, rnd)
			nRuns++
			if len(line) != len([]rune(line)) {
				nMulti++
			}
			if ci == len(lines)/2 && v == variants-1 {
				sample = line
			}
			if d != nil {
				d.Case = ci
				nDiff++
				if nDiff <= 400 { // the check reports classes, not every instance
					if err := out.Write(d); err != nil {
						return err
					}
				}
				break
			}
		}
	}
	if err := out.Close(); err != nil {
		return err
	}
	stats, _ := json.Marshal(map[string]any{"cases": len(lines), "runs": nRuns, "diffs": nDiff,
		"multibyte_runs": nMulti, "edge_whitespace_cases": nEdge, "sample": mkCps(sample)})
	fmt.Println(string(stats))
	return nil
}
