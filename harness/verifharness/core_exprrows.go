package verifharness

import (
	"encoding/json"
	"fmt"
	"strings"
)

// verifh core exprrows --rows rows.ndjson --out diffs.ndjson [--batch N]
//
// Property C02, spec -> code: every row printed by spec/MC_Expr.tla (an expression tree, the
// texts the precedence model prescribes for it, the value / error and the probe call log the
// specification prescribes) is evaluated by the real parser + evaluator as an inline
// expression of a line, and compared: parsed tree == the row's tree (for every text), line
// text == display form of the value or an error, probe calls == the prescribed log.

type exprRow struct {
	Tree  *Expr           `json:"tree"`
	Texts []string        `json:"texts"`
	St    string          `json:"st"`
	Text  string          `json:"text"`
	Log   json.RawMessage `json:"log"`
}

type exprDiff struct {
	Row   int             `json:"row"`
	Style int             `json:"style"`
	Src   string          `json:"src"`
	Field string          `json:"field"`
	Exp   json.RawMessage `json:"exp"`
	Got   any             `json:"got"`
	Panic string          `json:"panic,omitempty"`
	Tree  *Expr           `json:"tree"`
}

func coreExprRows(m map[string]string) error {
	lines, err := readNDJSON(m["rows"])
	if err != nil {
		return err
	}
	rows := make([]exprRow, len(lines))
	for i, raw := range lines {
		if err := json.Unmarshal(raw, &rows[i]); err != nil {
			return err
		}
	}
	batch := argInt(m, "batch", 150)
	type item struct{ row, style int }
	var items []item
	for i, r := range rows {
		for s := range r.Texts {
			items = append(items, item{i, s})
		}
	}
	nb := (len(items) + batch - 1) / batch
	results := make([][]exprDiff, nb)
	errs := make([]error, nb)
	funcs := defaultFuncs()
	funcs["pA"], funcs["pB"], funcs["pC"] = "id", "id", "id"
	parallelFor(nb, func(b int) {
		lo, hi := b*batch, (b+1)*batch
		if hi > len(items) {
			hi = len(items)
		}
		var sb strings.Builder
		sb.WriteString("title: Start\n---\n")
		for k := lo; k < hi; k++ {
			it := items[k]
			fmt.Fprintf(&sb, "R%d {%s}\n", k, rows[it.row].Texts[it.style])
		}
		sb.WriteString("===\n")
		src := sb.String()
		c := &Case{ID: b, Funcs: funcs, Cmds: map[string]string{}, Storer: "default", Nodes: []Node{{Title: "Start"}}, Vars: []string{}}
		// 1. the parsed trees
		d, perr := parseTexts([]string{src})
		if perr != nil {
			errs[b] = nil
			exp, _ := json.Marshal("loads")
			results[b] = append(results[b], exprDiff{Row: items[lo].row, Style: items[lo].style, Src: src, Field: "load", Exp: exp, Got: perr.Error()})
			return
		}
		parsed, _ := caseOfDialogue(d)
		stmts := parsed.body(parsed.Nodes[0].Body)
		for k := lo; k < hi && k-lo < len(stmts); k++ {
			it := items[k]
			st := stmts[k-lo]
			var got *Expr
			for _, p := range st.Text {
				if p.E != nil {
					got = p.E
				}
			}
			want, _ := json.Marshal(rows[it.row].Tree)
			if got == nil || !jsonEqual(want, got) {
				results[b] = append(results[b], exprDiff{Row: it.row, Style: it.style, Src: rows[it.row].Texts[it.style], Field: "ast", Exp: want, Got: got, Tree: rows[it.row].Tree})
			}
		}
		if len(stmts) != hi-lo {
			exp, _ := json.Marshal(hi - lo)
			results[b] = append(results[b], exprDiff{Row: items[lo].row, Style: items[lo].style, Src: src, Field: "line-count", Exp: exp, Got: len(stmts)})
			return
		}
		// 2. evaluation
		h, herr := newHost(c, []string{src})
		if herr != nil {
			exp, _ := json.Marshal("loads")
			results[b] = append(results[b], exprDiff{Row: items[lo].row, Style: items[lo].style, Src: src, Field: "load", Exp: exp, Got: herr.Error()})
			return
		}
		for k := lo; k < hi; k++ {
			it := items[k]
			r := rows[it.row]
			obs := h.next(0)
			var expOut map[string]any
			if r.St == "ok" {
				expOut = map[string]any{"k": "line", "node": "Start", "text": strings.TrimSpace(fmt.Sprintf("R%d %s", k, r.Text)), "tags": []string{}}
			} else {
				expOut = map[string]any{"k": "error"}
			}
			eo, _ := json.Marshal(expOut)
			switch {
			case !jsonEqual(eo, obs.Out):
				results[b] = append(results[b], exprDiff{Row: it.row, Style: it.style, Src: r.Texts[it.style], Field: "out", Exp: eo, Got: obs.Out, Panic: obs.Panic, Tree: r.Tree})
			case !jsonEqual(r.Log, obs.Fcalls):
				results[b] = append(results[b], exprDiff{Row: it.row, Style: it.style, Src: r.Texts[it.style], Field: "fcalls", Exp: r.Log, Got: obs.Fcalls, Tree: r.Tree})
			}
			if obs.Panic != "" {
				return
			}
		}
	})
	w, err := newNDJSON(m["out"])
	if err != nil {
		return err
	}
	n := 0
	for b := range results {
		for _, d := range results[b] {
			n++
			if n > 500 {
				break
			}
			if err := w.Write(d); err != nil {
				return err
			}
		}
	}
	fmt.Printf("{\"rows\":%d,\"evaluations\":%d,\"scripts\":%d,\"diffs\":%d}\n", len(rows), len(items), nb, n)
	return w.Close()
}
