package verifharness

import (
	"encoding/json"
	"fmt"
	"math/rand"
	"os"
	"strconv"
	"strings"

	"github.com/remieven/ysgo"
	"github.com/remieven/ysgo/variable"
)

// Property C17: custom commands receive exactly the arguments written in the script.
//
//	verifh cmdargs replay --in beh.ndjson --out diffs.ndjson [--batch N]
//	    spec -> code: every command printed by spec/CommandArgsMC.tla (characters +
//	    expression slots + the result the specification prescribes) is rendered into a
//	    script and executed with recording raw handlers (AddCommand) that keep the type
//	    of every argument; differences are written to diffs.ndjson.
//	verifh cmdargs record --n N --out trace.ndjson [--batch N]
//	    code -> spec: seeded random commands (more words, multi-byte names, random
//	    spacing); one event per command with what the handlers received, validated by
//	    spec/CommandArgsTrace.tla.
//	verifh cmdargs rerun --in events.ndjson --out trace.ndjson
//	    executes the commands of previously recorded events again, one script each
//	    (used by --replay).
func init() { register("cmdargs", cmdargsMain) }

func cmdargsMain(args []string) error {
	if len(args) == 0 {
		return fmt.Errorf("cmdargs: missing mode")
	}
	m := argMap(args[1:])
	switch args[0] {
	case "replay":
		return cmdargsReplay(m)
	case "record":
		return cmdargsRecord(m)
	case "rerun":
		return cmdargsRerun(m)
	case "longrun":
		return cmdargsLongRun(m)
	}
	return fmt.Errorf("cmdargs: unknown mode %s", args[0])
}

type cmdargsCall struct {
	Name []int      `json:"name"`
	Args []linesVal `json:"args"`
}

// cmdargsRow is one command: the characters between << and >> (units >= 0 are code
// points, -j is expression slot j), and for replayed rows the prescribed result.
type cmdargsRow struct {
	Name  []int            `json:"name"`
	Reg   bool             `json:"reg"`
	Pat   int              `json:"pat"`
	Units []int            `json:"units"`
	Slots []map[string]any `json:"slots"`
	Exp   *struct {
		Outcome string `json:"outcome"`
		Calls   []struct {
			Name []int            `json:"name"`
			Args []map[string]any `json:"args"`
		} `json:"calls"`
	} `json:"exp,omitempty"`
	// FormBase fixes the spelling of the expression slots (set in replay files)
	FormBase *int `json:"formbase,omitempty"`
}

type cmdargsObs struct {
	Outcome string        // call | nocall | error | end | panic | loaderror | desync | waiting
	Calls   []cmdargsCall // what the handlers recorded while this command ran
	Text    string        // the rendered command statement
	Detail  string
}

func cmdargsRender(r *cmdargsRow, formBase int, vars *linesVarAlloc) string {
	var sb strings.Builder
	sb.WriteString("<<")
	for _, u := range r.Units {
		if u >= 0 {
			sb.WriteRune(rune(u))
			continue
		}
		j := -u - 1
		form := formBase + 5*j
		sb.WriteString(linesBrace(linesExpr(linesValFromJSON(r.Slots[j]), form, vars), form))
	}
	sb.WriteString(">>")
	return sb.String()
}

// cmdargsRunBatch runs the given rows in ONE script (one node; each command is
// followed by a marker line) and returns one observation per row.  ok=false means the
// run lost synchronisation with the script (the caller re-runs the rows one by one).
func cmdargsRunBatch(rows []*cmdargsRow, formBases []int) (obs []cmdargsObs, ok bool) {
	vars := newLinesVarAlloc()
	obs = make([]cmdargsObs, len(rows))
	var sb strings.Builder
	sb.WriteString("title: Start\n---\n")
	for i, r := range rows {
		obs[i].Text = cmdargsRender(r, formBases[i], vars)
		sb.WriteString(obs[i].Text)
		sb.WriteString("\n")
		sb.WriteString("marker" + strconv.Itoa(i) + "\n")
	}
	sb.WriteString("===\n")
	dr, err, panicked := linesLoad(sb.String(), vars.storer())
	if panicked || err != nil || dr == nil {
		for i := range obs {
			obs[i].Outcome = "loaderror"
			if panicked {
				obs[i].Outcome = "panic"
			}
			obs[i].Detail = fmt.Sprint(err)
		}
		return obs, false
	}
	var log []cmdargsCall
	register := func(name string) {
		cps := linesCps(name)
		dr.AddCommand(name, func(args []*variable.Value) <-chan error {
			c := cmdargsCall{Name: cps, Args: make([]linesVal, 0, len(args))}
			for _, a := range args {
				c.Args = append(c.Args, linesFromValue(a))
			}
			log = append(log, c)
			ch := make(chan error, 1)
			ch <- nil
			return ch
		})
	}
	seen := map[string]bool{"stop": true}
	register("stop") // must never run
	for _, r := range rows {
		n := linesFromCps(r.Name)
		if r.Reg && !seen[n] {
			seen[n] = true
			register(n)
		}
	}
	ok = true
	for i := range rows {
		marker := "marker" + strconv.Itoa(i)
		if !ok {
			obs[i].Outcome = "desync"
			continue
		}
		log = nil
		el, err, panicked := linesNext(dr, 0)
		obs[i].Calls = log
		switch {
		case panicked:
			obs[i].Outcome, obs[i].Detail, ok = "panic", fmt.Sprint(err), false
		case err == ysgo.ErrWaitingForCommandCompletion:
			obs[i].Outcome, ok = "waiting", false
		case err != nil:
			obs[i].Outcome, obs[i].Detail = "error", err.Error()
			// the statement after the failing command must be its marker
			el2, err2, p2 := linesNext(dr, 0)
			obs[i].Calls = log
			if p2 || err2 != nil || el2 == nil || el2.Line == nil || el2.Line.Text != marker {
				ok = false
			}
		case el == nil:
			obs[i].Outcome, ok = "end", false
		case el.Line != nil && el.Line.Text == marker:
			obs[i].Outcome = "call"
			if len(log) == 0 {
				obs[i].Outcome = "nocall"
			}
		default:
			obs[i].Outcome, ok = "desync", false
			if el.Line != nil {
				obs[i].Detail = "got line " + strconv.Quote(el.Line.Text)
			}
		}
	}
	return obs, ok
}

// cmdargsRunAll runs rows in batches; rows of a batch that lost synchronisation (or,
// when judge != nil, contains a row the judge rejects) are re-run one by one so that
// every observation is attributed to its own command.
func cmdargsRunAll(rows []*cmdargsRow, formBases []int, batch int, judge func(*cmdargsRow, *cmdargsObs) string) (obs []cmdargsObs, batches, fallbacks int) {
	obs = make([]cmdargsObs, len(rows))
	isStop := func(r *cmdargsRow) bool { return linesFromCps(r.Name) == "stop" }
	var cur []int
	flush := func() {
		if len(cur) == 0 {
			return
		}
		rs := make([]*cmdargsRow, len(cur))
		fb := make([]int, len(cur))
		for k, i := range cur {
			rs[k], fb[k] = rows[i], formBases[i]
		}
		o, ok := cmdargsRunBatch(rs, fb)
		batches++
		bad := !ok
		if ok && judge != nil {
			for k := range rs {
				if judge(rs[k], &o[k]) != "" {
					bad = true
					break
				}
			}
		}
		if bad && len(cur) > 1 {
			fallbacks++
			for k, i := range cur {
				o1, _ := cmdargsRunBatch(rs[k:k+1], fb[k:k+1])
				batches++
				obs[i] = o1[0]
			}
		} else {
			for k, i := range cur {
				obs[i] = o[k]
			}
		}
		cur = cur[:0]
	}
	for i, r := range rows {
		if isStop(r) { // <<stop>> ends the dialogue: always alone
			flush()
			cur = append(cur, i)
			flush()
			continue
		}
		cur = append(cur, i)
		if len(cur) >= batch {
			flush()
		}
	}
	flush()
	return obs, batches, fallbacks
}

// cmdargsJudge compares an observation with the prescribed result; "" = conforms,
// otherwise the class of the difference.
func cmdargsJudge(r *cmdargsRow, o *cmdargsObs) string {
	what := cmdargsJudge1(r, o)
	if what == "" || what == "panic" {
		return what
	}
	// a tab that ended up inside a name or an argument: one class, whatever the consequence
	if strings.Contains(o.Detail, "\t") {
		return "tab-not-a-separator"
	}
	for _, c := range o.Calls {
		for _, a := range c.Args {
			if a["t"] == "s" {
				for _, cp := range a["s"].([]int) {
					if cp == '\t' {
						return "tab-not-a-separator"
					}
				}
			}
		}
	}
	return what
}

func cmdargsJudge1(r *cmdargsRow, o *cmdargsObs) string {
	switch o.Outcome {
	case "panic":
		return "panic"
	case "loaderror":
		return "load-error"
	case "waiting":
		return "waiting-on-completed-handler"
	case "desync":
		return "desync"
	}
	switch r.Exp.Outcome {
	case "stop":
		if len(o.Calls) > 0 {
			return "stop-dispatched"
		}
		if o.Outcome == "error" {
			return "stop-is-error"
		}
		return ""
	case "error":
		if len(o.Calls) > 0 {
			return "unknown-name-dispatched"
		}
		if o.Outcome != "error" {
			return "unknown-name-no-error"
		}
		return ""
	case "call":
		if o.Outcome == "error" && len(o.Calls) == 0 {
			return "registered-name-error"
		}
		if o.Outcome == "end" {
			return "dialogue-ended"
		}
		if len(o.Calls) != 1 {
			return "handler-calls-" + strconv.Itoa(len(o.Calls))
		}
		want := r.Exp.Calls[0]
		got := o.Calls[0]
		if linesFromCps(want.Name) != linesFromCps(got.Name) {
			return "wrong-handler"
		}
		if len(want.Args) != len(got.Args) {
			for _, a := range got.Args {
				if a["t"] == "s" {
					for _, c := range a["s"].([]int) {
						if c == '\t' {
							return "tab-not-a-separator"
						}
					}
				}
			}
			return "argument-count"
		}
		for i := range want.Args {
			w := linesValFromJSON(want.Args[i])
			g := got.Args[i]
			if linesValEqual(w, g) {
				continue
			}
			switch {
			case w["t"] == "s" && (g["t"] == "n" || g["t"] == "x"):
				return "word-as-number"
			case w["t"] == "s" && g["t"] == "b":
				return "word-as-boolean"
			case w["t"] == "b" && g["t"] != "b":
				return "boolean-as-" + fmt.Sprint(g["t"])
			case w["t"] == "n" && g["t"] == "s":
				return "number-as-string"
			case w["t"] == "s" && g["t"] == "s":
				for _, c := range g["s"].([]int) {
					if c == '\t' {
						return "tab-not-a-separator"
					}
				}
				return "string-value"
			}
			return "argument-value"
		}
		if o.Outcome == "error" {
			return "error-after-dispatch"
		}
		return ""
	}
	return "unknown-expectation"
}

func cmdargsCallsString(calls []cmdargsCall) string {
	var parts []string
	for _, c := range calls {
		var as []string
		for _, a := range c.Args {
			as = append(as, linesValString(a))
		}
		parts = append(parts, linesFromCps(c.Name)+"("+strings.Join(as, ", ")+")")
	}
	return "[" + strings.Join(parts, "; ") + "]"
}

func cmdargsReplay(m map[string]string) error {
	lines, err := readNDJSON(m["in"])
	if err != nil {
		return err
	}
	batch := argInt(m, "batch", 200)
	rows := make([]*cmdargsRow, len(lines))
	formBases := make([]int, len(lines))
	seed := int(Seed() % 1000)
	for i, raw := range lines {
		r := &cmdargsRow{}
		if err := json.Unmarshal(raw, r); err != nil {
			return fmt.Errorf("row %d: %w", i, err)
		}
		if r.Exp == nil {
			return fmt.Errorf("row %d has no expectation", i)
		}
		rows[i] = r
		formBases[i] = seed + 7*i
		if r.FormBase != nil {
			formBases[i] = *r.FormBase
		}
	}
	obs, batches, fallbacks := cmdargsRunAll(rows, formBases, batch, cmdargsJudge)
	w, err := newNDJSON(m["out"])
	if err != nil {
		return err
	}
	ndiff, ncalls, nslots := 0, 0, 0
	for i, r := range rows {
		ncalls += len(obs[i].Calls)
		nslots += len(r.Slots)
		what := cmdargsJudge(r, &obs[i])
		if what == "" {
			continue
		}
		ndiff++
		var wantCalls []cmdargsCall
		for _, c := range r.Exp.Calls {
			cc := cmdargsCall{Name: c.Name}
			for _, a := range c.Args {
				cc.Args = append(cc.Args, linesValFromJSON(a))
			}
			wantCalls = append(wantCalls, cc)
		}
		fb := formBases[i]
		r.FormBase = &fb
		if err := w.Write(map[string]any{
			"row": i, "what": what, "text": obs[i].Text, "textcps": linesCps(obs[i].Text),
			"expOutcome": r.Exp.Outcome, "expCalls": cmdargsCallsString(wantCalls),
			"gotOutcome": obs[i].Outcome, "gotCalls": cmdargsCallsString(obs[i].Calls), "detail": obs[i].Detail,
			"case": r,
		}); err != nil {
			return err
		}
	}
	if err := w.Close(); err != nil {
		return err
	}
	out, _ := json.Marshal(map[string]int{"rows": len(rows), "batches": batches, "fallbacks": fallbacks,
		"diffs": ndiff, "handler_calls": ncalls, "slots": nslots})
	fmt.Println(string(out))
	return nil
}

// ----------------------------------------------------------------- random commands

var cmdargsKwNeedWs = []string{"if", "elseif", "set", "call", "declare", "jump", "enum", "case", "local"}
var cmdargsKwNoWs = []string{"else", "endif", "endenum"}

var cmdargsTricky = []string{"+5", "1e3", "1E3", "2e-1", "0x10", "0x1p4", "0X1P-2", ".5", "-.5", "5.", "-5.", "nan", "NaN",
	"inf", "Inf", "-inf", "infinity", "+Inf", "1_000", "1.2.3", "--5", "-", "5-", "1,5", "1/2", "True", "FALSE", "0b11", "0o7",
	"1e", "e3", "1.5e2", "0x", "1.5.", "-true", "truefalse", "1e+2", "-nan", "Infinity", "1.", ".", "-.", "0x1.8p1", "1f", "1d"}
var cmdargsFractions = []string{"5", "25", "75", "125", "375", "625", "875", "0625", "50", "250", "0", "00", "500"}
var cmdargsAsciiWordChars = []rune("abcdefghijklmnopqrstuvwxyzABCDEFGHIJKLMNOPQRSTUVWXYZ0123456789_.-+")
var cmdargsLetters = []rune("abcdefghijklmnopqrstuvwxyzABCDEFGHIJKLMNOPQRSTUVWXYZ_")
var cmdargsMultiByte = []rune("éèüñçøßæÀÖαβγδωЖдяשלום日本語中文한국어かなカナ𝒳😀🚀ěščřžłđ")

func cmdargsRandWord(rnd *rand.Rand, multi bool) string {
	n := 1 + rnd.Intn(8)
	var sb strings.Builder
	for i := 0; i < n; i++ {
		switch {
		case multi && (i == 0 || rnd.Intn(2) == 0):
			sb.WriteRune(linesPick(rnd, cmdargsMultiByte))
		case i == 0:
			sb.WriteRune(linesPick(rnd, cmdargsLetters))
		default:
			sb.WriteRune(linesPick(rnd, cmdargsAsciiWordChars))
		}
	}
	return sb.String()
}

func cmdargsNameOK(n string) bool {
	for _, k := range cmdargsKwNeedWs {
		if n == k {
			return false
		}
	}
	for _, k := range cmdargsKwNoWs {
		if strings.HasPrefix(n, k) {
			return false
		}
	}
	return n != "wait" && n != "stop"
}

func cmdargsRandWs(rnd *rand.Rand, min int) []int {
	n := min + rnd.Intn(3)
	res := make([]int, 0, n)
	for i := 0; i < n; i++ {
		if rnd.Intn(3) == 0 {
			res = append(res, '\t')
		} else {
			res = append(res, ' ')
		}
	}
	return res
}

func cmdargsRandString(rnd *rand.Rand) string {
	switch rnd.Intn(8) {
	case 0:
		return ""
	case 1:
		return linesPick(rnd, []string{"true", "false", "12", "-1.5", "nan", "stop"})
	case 2:
		return cmdargsRandWord(rnd, true)
	case 3:
		return " " + cmdargsRandWord(rnd, false) + "  " + cmdargsRandWord(rnd, true) + " "
	case 4:
		return cmdargsRandWord(rnd, false) + "\t" + cmdargsRandWord(rnd, false)
	}
	return cmdargsRandWord(rnd, false) + " " + cmdargsRandWord(rnd, false)
}

type cmdargsItem map[string]any

// cmdargsRandom draws one command: name, items and spacing.
func cmdargsRandom(rnd *rand.Rand) (row *cmdargsRow, items []cmdargsItem) {
	var name string
	stop := false
	for {
		switch r := rnd.Intn(100); {
		case r < 55:
			name = cmdargsRandWord(rnd, false)
		case r < 72:
			name = linesPick(rnd, cmdargsKwNeedWs) + cmdargsRandWord(rnd, false)
		case r < 95:
			name = cmdargsRandWord(rnd, true)
		default:
			name, stop = "stop", true
		}
		if stop || cmdargsNameOK(name) {
			break
		}
	}
	row = &cmdargsRow{Name: linesCps(name), Reg: stop || rnd.Intn(100) < 85, Slots: []map[string]any{}}
	units := append([]int{}, cmdargsRandWs(rnd, 0)...)
	if rnd.Intn(2) == 0 {
		units = units[:0]
	}
	units = append(units, row.Name...)
	nitems := 0
	if !stop {
		nitems = rnd.Intn(13)
		if rnd.Intn(50) == 0 {
			nitems = 40 + rnd.Intn(60) // a command with dozens of arguments of every kind
		}
	}
	items = []cmdargsItem{}
	for i := 0; i < nitems; i++ {
		units = append(units, cmdargsRandWs(rnd, 1)...)
		var word string
		switch r := rnd.Intn(100); {
		case r < 8:
			word = linesPick(rnd, []string{"true", "false"})
		case r < 18:
			word = strconv.Itoa(rnd.Intn(10000))
			if rnd.Intn(4) == 0 {
				word = "00" + word
			}
			if rnd.Intn(6) == 0 {
				word = strconv.Itoa(100000 + rnd.Intn(899999999))
			}
		case r < 28:
			word = strconv.Itoa(rnd.Intn(1000)) + "." + linesPick(rnd, cmdargsFractions)
		case r < 38:
			word = "-" + strconv.Itoa(rnd.Intn(1000))
			if rnd.Intn(2) == 0 {
				word += "." + linesPick(rnd, cmdargsFractions)
			}
		case r < 52:
			word = linesPick(rnd, cmdargsTricky)
		case r < 57:
			word = linesPick(rnd, []string{"if", "set", "stop", "else", "endif", "wait", "jump", "call"})
		case r < 72:
			word = cmdargsRandWord(rnd, false)
		case r < 82:
			word = cmdargsRandWord(rnd, true)
		default: // expression slot
			var v linesVal
			switch rnd.Intn(3) {
			case 0:
				d := int64(1) << uint(rnd.Intn(4))
				n := int64(rnd.Intn(4001) - 2000)
				f := linesFloatVal(float64(n) / float64(d))
				v = f
			case 1:
				v = linesBool(rnd.Intn(2) == 0)
			default:
				v = linesStr(cmdargsRandString(rnd))
			}
			row.Slots = append(row.Slots, v)
			units = append(units, -len(row.Slots))
			items = append(items, cmdargsItem{"k": "e", "v": v})
			continue
		}
		units = append(units, linesCps(word)...)
		items = append(items, cmdargsItem{"k": "w", "w": linesCps(word)})
	}
	if rnd.Intn(2) == 0 {
		units = append(units, cmdargsRandWs(rnd, 1)...)
	}
	row.Units = units
	return row, items
}

func cmdargsRecord(m map[string]string) error {
	n := argInt(m, "n", 1000)
	batch := argInt(m, "batch", 50)
	rnd := rand.New(rand.NewSource(Seed()*7919 + 17))
	rows := make([]*cmdargsRow, n)
	items := make([][]cmdargsItem, n)
	formBases := make([]int, n)
	regByName := map[string]bool{} // commands share scripts: a name is registered or not for the whole run
	for i := range rows {
		rows[i], items[i] = cmdargsRandom(rnd)
		name := linesFromCps(rows[i].Name)
		if reg, ok := regByName[name]; ok {
			rows[i].Reg = reg
		} else {
			regByName[name] = rows[i].Reg
		}
		formBases[i] = rnd.Intn(1000)
	}
	obs, batches, fallbacks := cmdargsRunAll(rows, formBases, batch, nil)
	return cmdargsWriteEvents(m["out"], rows, items, formBases, obs, batches, fallbacks)
}

func cmdargsWriteEvents(path string, rows []*cmdargsRow, items [][]cmdargsItem, formBases []int, obs []cmdargsObs, batches, fallbacks int) error {
	w, err := newNDJSON(path)
	if err != nil {
		return err
	}
	ncalls, nwords, multi := 0, 0, 0
	for i, r := range rows {
		calls := obs[i].Calls
		if calls == nil {
			calls = []cmdargsCall{}
		}
		ncalls += len(calls)
		nwords += len(items[i])
		for _, c := range r.Name {
			if c > 127 {
				multi++
				break
			}
		}
		outcome := obs[i].Outcome
		if outcome == "nocall" {
			outcome = "call" // Next went on to the marker; the (empty) call list speaks for itself
		}
		if err := w.Write(map[string]any{
			"id": i + 1, "name": r.Name, "reg": r.Reg, "items": items[i], "units": r.Units, "slots": r.Slots,
			"outcome": outcome, "calls": calls, "text": linesCps(obs[i].Text), "formbase": formBases[i],
		}); err != nil {
			return err
		}
	}
	if err := w.Close(); err != nil {
		return err
	}
	out, _ := json.Marshal(map[string]int{"events": len(rows), "batches": batches, "fallbacks": fallbacks,
		"handler_calls": ncalls, "items": nwords, "multibyte_names": multi})
	fmt.Println(string(out))
	_ = os.Stdout.Sync()
	return nil
}

func cmdargsRerun(m map[string]string) error {
	lines, err := readNDJSON(m["in"])
	if err != nil {
		return err
	}
	rows := make([]*cmdargsRow, len(lines))
	items := make([][]cmdargsItem, len(lines))
	formBases := make([]int, len(lines))
	for i, raw := range lines {
		var ev struct {
			cmdargsRow
			Items []cmdargsItem `json:"items"`
		}
		if err := json.Unmarshal(raw, &ev); err != nil {
			return fmt.Errorf("event %d: %w", i, err)
		}
		r := ev.cmdargsRow
		rows[i], items[i] = &r, ev.Items
		if items[i] == nil {
			items[i] = []cmdargsItem{}
		}
		if r.FormBase != nil {
			formBases[i] = *r.FormBase
		}
	}
	obs, batches, fallbacks := cmdargsRunAll(rows, formBases, 1, nil)
	return cmdargsWriteEvents(m["out"], rows, items, formBases, obs, batches, fallbacks)
}
