package verifharness

import (
	"bufio"
	"encoding/json"
	"errors"
	"fmt"
	"io"
	"math"
	"math/big"
	"math/rand"
	"os"
	"os/exec"
	"reflect"
	"strconv"
	"strings"
	"sync"
	"time"

	ysgo "github.com/remieven/ysgo"
	"github.com/remieven/ysgo/variable"
)

// Property C16 (host bridge: ConvertAndAddFunction / ConvertAndAddCommand).
//
//	verifh bridge replay --in rows.ndjson --out diffs.ndjson [--workers N]
//	    runs every row printed by spec/MC_Bridge.tla on the real library and writes one
//	    line per row whose observation differs from the prescribed outcome
//	verifh bridge record --n N --out trace.ndjson [--workers N]
//	    random signatures / calls over the whole algebra, one event per row
//	    (validated by spec/HostBridgeTrace.tla)
//	verifh bridge one --in row.json
//	    runs one row in-process and prints the observation
//	verifh bridge worker
//	    (internal) rows on stdin, observations on stdout; a row that kills the process
//	    (a panic in a goroutine started by the library) is detected by the parent
func init() { register("bridge", bridgeMain) }

// Named types of the bridgeable kinds (the property: "also for named types of those kinds").
type (
	MyInt     int
	MyInt8    int8
	MyFloat   float64
	MyFloat32 float32
	MyBool    bool
	MyString  string
	MyUint    uint
)

type bridgeStruct struct{ A int }

// concrete types that implement error: a struct with a value receiver, a pointer type
type bridgeErrVal struct{ Code int }

func (e bridgeErrVal) Error() string { return "probe error (struct value)" }

type bridgeErrPtr struct{ Code int }

func (e *bridgeErrPtr) Error() string { return "probe error (pointer)" }

var bridgeErrType = reflect.TypeOf((*error)(nil)).Elem()

var bridgeTypes = map[string]reflect.Type{
	"int": reflect.TypeOf(int(0)), "int8": reflect.TypeOf(int8(0)), "int16": reflect.TypeOf(int16(0)),
	"int32": reflect.TypeOf(int32(0)), "int64": reflect.TypeOf(int64(0)),
	"MyInt": reflect.TypeOf(MyInt(0)), "MyInt8": reflect.TypeOf(MyInt8(0)),
	"float32": reflect.TypeOf(float32(0)), "float64": reflect.TypeOf(float64(0)),
	"MyFloat": reflect.TypeOf(MyFloat(0)), "MyFloat32": reflect.TypeOf(MyFloat32(0)),
	"bool": reflect.TypeOf(false), "MyBool": reflect.TypeOf(MyBool(false)),
	"string": reflect.TypeOf(""), "MyString": reflect.TypeOf(MyString("")),
	"uint": reflect.TypeOf(uint(0)), "uint8": reflect.TypeOf(uint8(0)), "uint16": reflect.TypeOf(uint16(0)),
	"uint32": reflect.TypeOf(uint32(0)), "uint64": reflect.TypeOf(uint64(0)), "MyUint": reflect.TypeOf(MyUint(0)),
	"struct": reflect.TypeOf(bridgeStruct{}), "slice": reflect.TypeOf([]int(nil)), "array": reflect.TypeOf([2]int{}),
	"map": reflect.TypeOf(map[string]int(nil)), "ptr": reflect.TypeOf((*int)(nil)),
	"iface": reflect.TypeOf((*any)(nil)).Elem(), "func": reflect.TypeOf(func() {}),
	"chan": reflect.TypeOf((chan int)(nil)), "errorp": bridgeErrType,
	"error": bridgeErrType, "chanerr": reflect.TypeOf((chan error)(nil)),
	"rchanerr": reflect.TypeOf((<-chan error)(nil)), "chanint": reflect.TypeOf((chan int)(nil)),
	"errval": reflect.TypeOf(bridgeErrVal{}), "errptr": reflect.TypeOf(&bridgeErrPtr{}),
}

// tokens in the order used by the random generator
var (
	bridgeTI = []string{"int", "int8", "int16", "int32", "int64", "MyInt", "MyInt8"}
	bridgeTF = []string{"float32", "float64", "MyFloat", "MyFloat32"}
	bridgeTB = []string{"bool", "MyBool"}
	bridgeTS = []string{"string", "MyString"}
	bridgeTU = []string{"uint", "uint8", "uint16", "uint32", "uint64", "MyUint"}
	bridgeTX = []string{"struct", "slice", "array", "map", "ptr", "iface", "func", "chan", "errorp"}
	bridgeNF = []string{"int", "string", "bool", "float", "struct", "slice", "map", "chan", "ptrfunc", "nilptr"}
)

var bridgeTokenOf = func() map[reflect.Type]string {
	m := map[reflect.Type]string{}
	for _, l := range [][]string{bridgeTI, bridgeTF, bridgeTB, bridgeTS, bridgeTU, bridgeTX} {
		for _, t := range l {
			m[bridgeTypes[t]] = t
		}
	}
	return m
}()

func bridgeClass(tok string) string {
	for c, l := range map[string][]string{"I": bridgeTI, "F": bridgeTF, "B": bridgeTB, "S": bridgeTS, "U": bridgeTU} {
		for _, t := range l {
			if t == tok {
				return c
			}
		}
	}
	return "X"
}

type bridgeSig struct {
	API      string   `json:"api"`
	Shape    string   `json:"shape"`
	NF       string   `json:"nf"`
	Params   []string `json:"params"`
	Variadic bool     `json:"variadic"`
	Results  []string `json:"results"`
}

// bridgeRow is one line printed by MC_Bridge (fields reg..vt are the prescription) or
// generated at random (then only s, a, ret are meaningful).
type bridgeRow struct {
	ID   int       `json:"id"`
	S    bridgeSig `json:"s"`
	A    []string  `json:"a"`
	Ret  string    `json:"ret"`
	Reg  string    `json:"reg,omitempty"`
	Call string    `json:"call,omitempty"`
	Recv []string  `json:"recv,omitempty"`
	Seen string    `json:"seen,omitempty"`
	VT   string    `json:"vt,omitempty"`
	// concretisation (chosen by the harness from Salt unless given by a replay file)
	Salt int64    `json:"salt"`
	Site string   `json:"site,omitempty"` // "call" | "capture" | "line" | "cmd"
	Vals []string `json:"vals,omitempty"` // script literals of the arguments
}

type bridgeVal struct {
	T string `json:"t"` // Go type token (received) or Yarn class n/b/s (sent, seen)
	V string `json:"v"` // canonical value: exact rational, true/false, the string itself
}

type bridgeObs struct {
	ID     int         `json:"id"`
	Reg    string      `json:"reg"`  // ok | refused | panic
	Call   string      `json:"call"` // invoked | error | panic | crash | hang | na | silent (no invocation and no error) | multi
	NCalls int         `json:"ncalls"`
	Recv   []bridgeVal `json:"recv"`
	Seen   string      `json:"seen"` // novalue | value | error | panic | blocked | na | crash
	SeenV  bridgeVal   `json:"seenv"`
	Sent   []bridgeVal `json:"sent"`
	RetV   bridgeVal   `json:"retv"`
	Site   string      `json:"site"`
	Script string      `json:"script"`
	Vals   []string    `json:"vals"`
	Detail string      `json:"detail"`
}

func bridgeMain(args []string) error {
	if len(args) == 0 {
		return fmt.Errorf("bridge: missing mode")
	}
	m := argMap(args[1:])
	switch args[0] {
	case "replay":
		return bridgeReplay(m)
	case "record":
		return bridgeRecord(m)
	case "one":
		return bridgeOne(m)
	case "worker":
		return bridgeWorker()
	}
	return fmt.Errorf("bridge: unknown mode %s", args[0])
}

// ---------------------------------------------------------------- canonical values

func ratString(f float64) string {
	if math.IsNaN(f) || math.IsInf(f, 0) {
		return fmt.Sprint(f)
	}
	r := new(big.Rat)
	r.SetFloat64(f)
	return r.RatString()
}

func bridgeCanon(v reflect.Value) string {
	switch {
	case v.CanInt():
		return strconv.FormatInt(v.Int(), 10)
	case v.CanUint():
		return strconv.FormatUint(v.Uint(), 10)
	case v.CanFloat():
		return ratString(v.Float())
	case v.Kind() == reflect.Bool:
		return strconv.FormatBool(v.Bool())
	case v.Kind() == reflect.String:
		return v.String()
	}
	return "?" + v.Type().String()
}

func bridgeTok(t reflect.Type) string {
	if s, ok := bridgeTokenOf[t]; ok {
		return s
	}
	return "go:" + t.String()
}

func yarnValToObs(v *variable.Value) (string, bridgeVal) {
	switch {
	case v == nil:
		return "novalue", bridgeVal{}
	case v.Number != nil:
		return "value", bridgeVal{"n", ratString(*v.Number)}
	case v.Boolean != nil:
		return "value", bridgeVal{"b", strconv.FormatBool(*v.Boolean)}
	case v.String != nil:
		return "value", bridgeVal{"s", *v.String}
	}
	return "novalue", bridgeVal{}
}

// numbers a Go type can hold exactly (integral and in range for integer kinds,
// exactly representable for float32), all with short exact decimal literals
func bridgeNumbersFor(tok string) []float64 {
	switch tok {
	case "int8", "MyInt8":
		return []float64{0, 1, -1, 7, -128, 127, 42}
	case "int16":
		return []float64{0, 3, -3, 32767, -32768, 1000}
	case "int32":
		return []float64{0, 5, -5, 2147483647, -2147483648, 65536}
	case "int", "int64", "MyInt":
		return []float64{0, 2, -2, 2147483648, -4294967296, 4503599627370496, -9007199254740991, 12}
	case "float32", "MyFloat32":
		return []float64{0, 1, -1, 0.5, -2.25, 16777216, 0.0078125, 1234.5, -3}
	case "float64", "MyFloat":
		return []float64{0, 1, -1, 0.5, -2.25, 9007199254740991, 0.0009765625, 1234.5625, -7, 0.1}
	case "uint8":
		return []float64{0, 1, 255, 42}
	case "uint16":
		return []float64{0, 1, 65535, 300}
	case "uint32":
		return []float64{0, 1, 4294967295, 70000}
	case "uint", "uint64", "MyUint":
		return []float64{0, 1, 4294967296, 4503599627370496, 9}
	}
	// the argument will be rejected (or there is no parameter): any small number
	return []float64{0, 1, -1, 7, 0.5, 100}
}

func bridgeNumLit(f float64) string {
	return strconv.FormatFloat(f, 'f', -1, 64)
}

var bridgeWords = []string{"abc", "x", "hello", "Zed", "n1", "a_b", "yes", "no", "nil", "T"}
var bridgeQuoted = []string{"two words", "", "1", "true", "3.5", "mixed Case 9", " lead"}

// ---------------------------------------------------------------- probe construction

type bridgeProbeLog struct {
	mu    sync.Mutex
	calls int
	recv  []bridgeVal
}

func sigFuncType(s bridgeSig) (reflect.Type, error) {
	in := make([]reflect.Type, 0, len(s.Params))
	for i, p := range s.Params {
		t, ok := bridgeTypes[p]
		if !ok {
			return nil, fmt.Errorf("unknown parameter type token %q", p)
		}
		if s.Variadic && i == len(s.Params)-1 {
			t = reflect.SliceOf(t)
		}
		in = append(in, t)
	}
	out := make([]reflect.Type, 0, len(s.Results))
	for _, r := range s.Results {
		t, ok := bridgeTypes[r]
		if !ok {
			return nil, fmt.Errorf("unknown result type token %q", r)
		}
		out = append(out, t)
	}
	if s.Variadic && len(in) == 0 {
		return nil, fmt.Errorf("variadic signature without parameters")
	}
	return reflect.FuncOf(in, out, s.Variadic), nil
}

// what the probe returns for a value-carrying result type
func bridgeRetFor(tok string, rnd *rand.Rand) (reflect.Value, bridgeVal) {
	t := bridgeTypes[tok]
	switch bridgeClass(tok) {
	case "I", "F", "U":
		nums := bridgeNumbersFor(tok)
		f := nums[rnd.Intn(len(nums))]
		v := reflect.ValueOf(f).Convert(t)
		return v, bridgeVal{"n", ratString(f)}
	case "B":
		b := rnd.Intn(2) == 0
		return reflect.ValueOf(b).Convert(t), bridgeVal{"b", strconv.FormatBool(b)}
	case "S":
		all := append(append([]string{}, bridgeWords...), bridgeQuoted...)
		s := all[rnd.Intn(len(all))]
		return reflect.ValueOf(s).Convert(t), bridgeVal{"s", s}
	}
	return reflect.Zero(t), bridgeVal{}
}

var errBridgeProbe = errors.New("probe error")

// buildProbe returns the value handed to ConvertAndAdd*, the log it writes to and the
// value the probe returns (for value-carrying results).
func buildProbe(row *bridgeRow, rnd *rand.Rand) (any, *bridgeProbeLog, bridgeVal, error) {
	s := row.S
	lg := &bridgeProbeLog{}
	switch s.Shape {
	case "nil":
		return nil, lg, bridgeVal{}, nil
	case "nonfunc":
		f := func() {}
		switch s.NF {
		case "int":
			return 3, lg, bridgeVal{}, nil
		case "string":
			return "probe", lg, bridgeVal{}, nil
		case "bool":
			return true, lg, bridgeVal{}, nil
		case "float":
			return 1.5, lg, bridgeVal{}, nil
		case "struct":
			return bridgeStruct{A: 1}, lg, bridgeVal{}, nil
		case "slice":
			return []int{1}, lg, bridgeVal{}, nil
		case "map":
			return map[string]int{"a": 1}, lg, bridgeVal{}, nil
		case "chan":
			return make(chan error, 1), lg, bridgeVal{}, nil
		case "ptrfunc":
			return &f, lg, bridgeVal{}, nil
		case "nilptr":
			return (*int)(nil), lg, bridgeVal{}, nil
		}
		return nil, lg, bridgeVal{}, fmt.Errorf("unknown non-function token %q", s.NF)
	}
	ft, err := sigFuncType(s)
	if err != nil {
		return nil, lg, bridgeVal{}, err
	}
	// results
	outs := make([]reflect.Value, len(s.Results))
	var retv bridgeVal
	asyncChan := row.Salt%2 == 1
	for i, r := range s.Results {
		t := bridgeTypes[r]
		switch {
		case r == "error":
			if row.Ret == "err" {
				e := reflect.New(bridgeErrType).Elem()
				e.Set(reflect.ValueOf(errBridgeProbe))
				outs[i] = e
			} else {
				outs[i] = reflect.Zero(t)
			}
		case r == "errval":
			outs[i] = reflect.ValueOf(bridgeErrVal{Code: 7})
		case r == "errptr":
			if row.Ret == "err" {
				outs[i] = reflect.ValueOf(&bridgeErrPtr{Code: 7})
			} else {
				outs[i] = reflect.Zero(t)
			}
		case r == "chanerr" || r == "rchanerr":
			outs[i] = reflect.Zero(t) // replaced per call below
		case i == 0 && bridgeClass(r) != "X":
			outs[i], retv = bridgeRetFor(r, rnd)
		default:
			outs[i] = reflect.Zero(t)
		}
	}
	fn := func(args []reflect.Value) []reflect.Value {
		lg.mu.Lock()
		lg.calls++
		var recv []bridgeVal
		for i, a := range args {
			if s.Variadic && i == len(args)-1 {
				for k := 0; k < a.Len(); k++ {
					recv = append(recv, bridgeVal{bridgeTok(a.Type().Elem()), bridgeCanon(a.Index(k))})
				}
			} else {
				recv = append(recv, bridgeVal{bridgeTok(a.Type()), bridgeCanon(a)})
			}
		}
		lg.recv = recv
		lg.mu.Unlock()
		res := make([]reflect.Value, len(outs))
		copy(res, outs)
		for i, r := range s.Results {
			if r == "chanerr" || r == "rchanerr" {
				ch := make(chan error, 1)
				var e error
				if row.Ret == "err" {
					e = errBridgeProbe
				}
				if asyncChan {
					go func() { time.Sleep(200 * time.Microsecond); ch <- e }()
				} else {
					ch <- e
				}
				res[i] = reflect.ValueOf(ch).Convert(bridgeTypes[r])
			}
		}
		return res
	}
	return reflect.MakeFunc(ft, fn).Interface(), lg, retv, nil
}

// ---------------------------------------------------------------- concretisation

func bridgeFixed(s bridgeSig) int {
	if s.Variadic {
		return len(s.Params) - 1
	}
	return len(s.Params)
}

// the parameter type argument i (0-based) would be bound to, "" if there is none
func bridgeParamAt(s bridgeSig, i int) string {
	if len(s.Params) == 0 {
		return ""
	}
	if i < bridgeFixed(s) {
		return s.Params[i]
	}
	if s.Variadic {
		return s.Params[len(s.Params)-1]
	}
	return ""
}

// concretise chooses the call site and the argument values of a row (deterministic in Salt).
func bridgeConcretise(row *bridgeRow, rnd *rand.Rand) (sent []bridgeVal) {
	s := row.S
	valueShape := s.API == "func" && len(s.Results) >= 1 && bridgeClass(s.Results[0]) != "X" &&
		(len(s.Results) == 1 || (len(s.Results) == 2 && (s.Results[1] == "error" || s.Results[1] == "errval" || s.Results[1] == "errptr")))
	if row.Site == "" {
		switch {
		case s.API == "cmd":
			row.Site = "cmd"
		case valueShape && !(len(s.Results) == 2 && row.Ret == "err"):
			// a value is produced whenever the call goes through: observe it
			row.Site = []string{"capture", "line", "capture", "call"}[rnd.Intn(4)]
			// if the call is refused for its arguments every site shows the error
		default:
			row.Site = "call"
		}
	}
	given := row.Vals != nil
	vals := make([]string, len(row.A))
	for i, c := range row.A {
		var lit, canon string
		switch c {
		case "n":
			target := bridgeParamAt(s, i)
			if bridgeClass(target) == "X" || bridgeClass(target) == "B" || bridgeClass(target) == "S" {
				target = ""
			}
			nums := bridgeNumbersFor(target)
			f := nums[rnd.Intn(len(nums))]
			lit, canon = bridgeNumLit(f), ratString(f)
			if row.Site == "cmd" && rnd.Intn(3) == 0 {
				lit = "{" + lit + "}"
			}
		case "b":
			b := rnd.Intn(2) == 0
			lit, canon = strconv.FormatBool(b), strconv.FormatBool(b)
			if row.Site == "cmd" && rnd.Intn(4) == 0 {
				lit = "{" + lit + "}"
			}
		case "s":
			if row.Site == "cmd" {
				if rnd.Intn(3) == 0 {
					canon = bridgeQuoted[rnd.Intn(len(bridgeQuoted))]
					lit = "{\"" + canon + "\"}"
				} else {
					canon = bridgeWords[rnd.Intn(len(bridgeWords))]
					lit = canon
				}
			} else {
				all := append(append([]string{}, bridgeWords...), bridgeQuoted...)
				canon = all[rnd.Intn(len(all))]
				lit = "\"" + canon + "\""
			}
		}
		if given {
			lit = row.Vals[i]
			canon = bridgeCanonOfLit(c, lit)
		}
		vals[i] = lit
		sent = append(sent, bridgeVal{c, canon})
	}
	row.Vals = vals
	return sent
}

// canonical value of a script literal written by bridgeConcretise (replay files)
func bridgeCanonOfLit(c, lit string) string {
	lit = strings.TrimSuffix(strings.TrimPrefix(lit, "{"), "}")
	switch c {
	case "n":
		f, _ := strconv.ParseFloat(lit, 64)
		return ratString(f)
	case "s":
		return strings.TrimSuffix(strings.TrimPrefix(lit, "\""), "\"")
	}
	return lit
}

func bridgeScript(row *bridgeRow) string {
	var b strings.Builder
	b.WriteString("title: Start\n---\n")
	switch row.Site {
	case "cmd":
		b.WriteString("<<probe")
		for _, v := range row.Vals {
			b.WriteString(" " + v)
		}
		b.WriteString(">>\n")
	case "call":
		b.WriteString("<<call probe(" + strings.Join(row.Vals, ", ") + ")>>\n")
	case "capture":
		b.WriteString("<<call capture(probe(" + strings.Join(row.Vals, ", ") + "))>>\n")
	case "line":
		b.WriteString("v={probe(" + strings.Join(row.Vals, ", ") + ")}.\n")
	}
	b.WriteString("done\n===\n")
	return b.String()
}

// ---------------------------------------------------------------- running one row

// runBridgeRow executes one row on the real library.  phase is called before the
// registration and before the script runs so that a parent process can attribute a crash.
func runBridgeRow(row *bridgeRow, phase func(string)) (obs bridgeObs, err error) {
	rnd := rand.New(rand.NewSource(row.Salt*7919 + 17))
	obs = bridgeObs{ID: row.ID, Reg: "?", Call: "na", Seen: "na"}
	sent := bridgeConcretise(row, rnd)
	obs.Sent, obs.Site, obs.Vals = sent, row.Site, row.Vals
	if obs.Sent == nil {
		obs.Sent = []bridgeVal{}
	}
	obs.Recv = []bridgeVal{}
	script := bridgeScript(row)
	obs.Script = script
	probe, lg, retv, err := buildProbe(row, rnd)
	if err != nil {
		return obs, err
	}
	obs.RetV = retv
	runner, err := ysgo.NewDialogueRunner(nil, "verif", strings.NewReader(script))
	if err != nil {
		return obs, fmt.Errorf("harness script does not load: %v\n%s", err, script)
	}
	var captured *variable.Value
	capturedCalls := 0
	runner.AddFunction("capture", func(args []*variable.Value) (*variable.Value, error) {
		capturedCalls++
		if len(args) == 1 {
			captured = args[0]
		}
		return nil, nil
	})
	phase("reg")
	var regErr error
	var pv any
	func() {
		defer func() {
			if r := recover(); r != nil {
				pv = r
			}
		}()
		if row.S.API == "func" {
			regErr = runner.ConvertAndAddFunction("probe", probe)
		} else {
			regErr = runner.ConvertAndAddCommand("probe", probe)
		}
	}()
	switch {
	case pv != nil:
		obs.Reg, obs.Detail = "panic", fmt.Sprint(pv)
		return obs, nil
	case regErr != nil:
		obs.Reg = "refused"
		return obs, nil
	}
	obs.Reg = "ok"
	if row.S.Shape != "fn" {
		return obs, nil // accepted something that is not a function: nothing sensible to call
	}
	phase("call")
	var el *ysgo.DialogueElement
	var nerr error
	deadline := time.Now().Add(5 * time.Second)
	for {
		pv = nil
		func() {
			defer func() {
				if r := recover(); r != nil {
					pv = r
				}
			}()
			el, nerr = runner.Next(0)
		}()
		if pv == nil && nerr != nil && errors.Is(nerr, ysgo.ErrWaitingForCommandCompletion) {
			if time.Now().After(deadline) {
				break
			}
			time.Sleep(20 * time.Microsecond)
			continue
		}
		break
	}
	lg.mu.Lock()
	obs.NCalls = lg.calls
	if lg.recv != nil {
		obs.Recv = lg.recv
	}
	lg.mu.Unlock()
	switch {
	case pv != nil:
		obs.Seen, obs.Detail = "panic", fmt.Sprint(pv)
	case nerr != nil && errors.Is(nerr, ysgo.ErrWaitingForCommandCompletion):
		obs.Seen = "blocked"
	case nerr != nil:
		obs.Seen, obs.Detail = "error", nerr.Error()
	case el == nil || el.Line == nil:
		obs.Seen, obs.Detail = "error", "harness: no line element after the call"
		return obs, fmt.Errorf("unexpected element after call (nil line) for script:\n%s", script)
	default:
		text := el.Line.Text
		switch row.Site {
		case "line":
			if !strings.HasPrefix(text, "v=") || !strings.HasSuffix(text, ".") {
				return obs, fmt.Errorf("unexpected line text %q for script:\n%s", text, script)
			}
			obs.Seen = "value"
			obs.SeenV = bridgeVal{"text", text[2 : len(text)-1]}
		case "capture":
			if text != "done" || capturedCalls != 1 {
				return obs, fmt.Errorf("unexpected line %q / %d capture calls for script:\n%s", text, capturedCalls, script)
			}
			obs.Seen, obs.SeenV = yarnValToObs(captured)
		default:
			if text != "done" {
				return obs, fmt.Errorf("unexpected line text %q for script:\n%s", text, script)
			}
			obs.Seen = "novalue"
		}
	}
	switch {
	case obs.Seen == "panic":
		obs.Call = "panic"
	case obs.NCalls == 1:
		obs.Call = "invoked"
	case obs.NCalls > 1:
		obs.Call = "multi"
	case obs.Seen == "error":
		obs.Call = "error"
	default:
		obs.Call = "silent"
	}
	return obs, nil
}

// expected display of a value in a line (DESIGN: integral -> digits, True/False, strings verbatim);
// ok=false where display is not judged here (non-integral numbers belong to C04)
func bridgeDisplay(v bridgeVal) (string, bool) {
	switch v.T {
	case "n":
		if strings.Contains(v.V, "/") {
			return "", false
		}
		return v.V, true
	case "b":
		if v.V == "true" {
			return "True", true
		}
		return "False", true
	case "s":
		// markup characters or surrounding blanks would be processed by the line parser
		if strings.ContainsAny(v.V, "[]\\") || strings.TrimSpace(v.V) != v.V {
			return "", false
		}
		return v.V, true
	}
	return "", false
}

// bridgeCompare judges an observation against the row's prescription (spec -> code).
// Returns "" if it conforms, else a short class of the difference.
func bridgeCompare(row *bridgeRow, o *bridgeObs) string {
	switch o.Reg {
	case "panic":
		return "register-panic"
	case "crash", "hang":
		return "register-" + o.Reg
	}
	switch row.Reg {
	case "refused":
		if o.Reg != "refused" {
			return "accepted-unbridgeable"
		}
		return ""
	case "ok":
		if o.Reg != "ok" {
			return "refused-bridgeable"
		}
	case "either":
		if o.Reg == "refused" {
			return ""
		}
	}
	switch o.Call {
	case "panic", "crash", "hang":
		return "call-" + o.Call
	}
	if o.Seen == "blocked" {
		return "call-never-completes"
	}
	if row.Call == "error" {
		if o.NCalls != 0 {
			return "invoked-despite-bad-arguments"
		}
		if o.Seen != "error" {
			return "bad-arguments-no-error"
		}
		return ""
	}
	// invoked
	if o.NCalls == 0 {
		if o.Seen == "error" {
			return "error-on-good-arguments"
		}
		return "not-invoked"
	}
	if o.NCalls != 1 {
		return "invoked-more-than-once"
	}
	if len(o.Recv) != len(row.Recv) {
		return "argument-count-received"
	}
	for i := range row.Recv {
		if o.Recv[i].T != row.Recv[i] {
			return "argument-type-received"
		}
		if o.Recv[i].V != o.Sent[i].V {
			return "argument-value-received"
		}
	}
	switch row.Seen {
	case "error":
		if o.Seen != "error" {
			return "probe-error-lost"
		}
	case "novalue":
		if o.Seen != "novalue" {
			return "result-" + o.Seen + "-instead-of-none"
		}
	case "value":
		switch o.Site {
		case "call", "cmd":
			if o.Seen != "novalue" {
				return "result-" + o.Seen + "-instead-of-completion"
			}
		case "capture":
			if o.Seen != "value" {
				return "result-" + o.Seen + "-instead-of-value"
			}
			if o.SeenV.T != row.VT {
				return "result-type"
			}
			if o.SeenV.V != o.RetV.V {
				return "result-value"
			}
		case "line":
			if o.Seen != "value" {
				return "result-" + o.Seen + "-instead-of-value"
			}
			if exp, ok := bridgeDisplay(o.RetV); ok && exp != o.SeenV.V {
				return "result-value"
			}
		}
	}
	return ""
}

// ---------------------------------------------------------------- worker pool

type bridgeWorkerProc struct {
	cmd    *exec.Cmd
	in     io.WriteCloser
	out    *bufio.Reader
	errBuf *strings.Builder
	errMu  sync.Mutex
}

func startBridgeWorker() (*bridgeWorkerProc, error) {
	cmd := exec.Command(os.Args[0], "bridge", "worker")
	in, err := cmd.StdinPipe()
	if err != nil {
		return nil, err
	}
	out, err := cmd.StdoutPipe()
	if err != nil {
		return nil, err
	}
	w := &bridgeWorkerProc{cmd: cmd, in: in, out: bufio.NewReaderSize(out, 1<<16), errBuf: &strings.Builder{}}
	ep, err := cmd.StderrPipe()
	if err != nil {
		return nil, err
	}
	if err := cmd.Start(); err != nil {
		return nil, err
	}
	go func() {
		buf := make([]byte, 4096)
		for {
			n, err := ep.Read(buf)
			if n > 0 {
				w.errMu.Lock()
				if w.errBuf.Len() < 4000 {
					w.errBuf.Write(buf[:n])
				}
				w.errMu.Unlock()
			}
			if err != nil {
				return
			}
		}
	}()
	return w, nil
}

func (w *bridgeWorkerProc) kill() {
	w.in.Close()
	w.cmd.Process.Kill()
	w.cmd.Wait()
}

type bridgeWorkerMsg struct {
	Phase string     `json:"phase,omitempty"`
	Obs   *bridgeObs `json:"obs,omitempty"`
	Err   string     `json:"err,omitempty"`
}

// run sends one row and waits for its observation; died=true if the worker process
// ended (crash) or had to be killed (hang) while working on the row.
func (w *bridgeWorkerProc) run(row *bridgeRow) (obs bridgeObs, died bool, err error) {
	b, _ := json.Marshal(row)
	if _, werr := w.in.Write(append(b, '\n')); werr != nil {
		return obs, true, nil
	}
	type lineRes struct {
		line []byte
		err  error
	}
	phase := "start"
	for {
		ch := make(chan lineRes, 1)
		go func() {
			l, e := w.out.ReadBytes('\n')
			ch <- lineRes{l, e}
		}()
		var lr lineRes
		select {
		case lr = <-ch:
		case <-time.After(30 * time.Second):
			w.cmd.Process.Kill()
			lr = <-ch
			obs = bridgeObs{ID: row.ID, Reg: "ok", Call: "hang", Seen: "na", Detail: "no answer within 30s in phase " + phase}
			if phase != "call" {
				obs.Reg = "hang"
			}
			return obs, true, nil
		}
		if lr.err != nil {
			w.cmd.Wait()
			time.Sleep(2 * time.Millisecond)
			w.errMu.Lock()
			detail := w.errBuf.String()
			w.errMu.Unlock()
			if i := strings.Index(detail, "\n\n"); i > 0 {
				detail = detail[:i]
			}
			if len(detail) > 600 {
				detail = detail[:600]
			}
			obs = bridgeObs{ID: row.ID, Reg: "ok", Call: "crash", Seen: "crash", Detail: "process died in phase " + phase + ": " + detail}
			if phase != "call" {
				obs.Reg = "crash"
			}
			return obs, true, nil
		}
		var m bridgeWorkerMsg
		if jerr := json.Unmarshal(lr.line, &m); jerr != nil {
			return obs, false, fmt.Errorf("bad worker line %q: %v", lr.line, jerr)
		}
		switch {
		case m.Err != "":
			return obs, false, fmt.Errorf("worker: %s", m.Err)
		case m.Phase != "":
			phase = m.Phase
		case m.Obs != nil:
			return *m.Obs, false, nil
		}
	}
}

func bridgeWorker() error {
	in := bufio.NewReaderSize(os.Stdin, 1<<16)
	out := bufio.NewWriter(os.Stdout)
	enc := func(m bridgeWorkerMsg) {
		b, _ := json.Marshal(m)
		out.Write(b)
		out.WriteByte('\n')
		out.Flush()
	}
	for {
		line, err := in.ReadBytes('\n')
		if len(line) > 1 {
			var row bridgeRow
			if jerr := json.Unmarshal(line, &row); jerr != nil {
				enc(bridgeWorkerMsg{Err: "bad row: " + jerr.Error()})
				return nil
			}
			obs, rerr := runBridgeRow(&row, func(p string) { enc(bridgeWorkerMsg{Phase: p}) })
			if rerr != nil {
				enc(bridgeWorkerMsg{Err: rerr.Error()})
				return nil
			}
			// a command handler's goroutine may still be about to die: give a pending
			// crash of this row no chance to be attributed to the next one
			if row.S.API == "cmd" && obs.Reg == "ok" && obs.Seen == "blocked" {
				time.Sleep(5 * time.Millisecond)
			}
			enc(bridgeWorkerMsg{Obs: &obs})
		}
		if err != nil {
			return nil
		}
	}
}

// runBridgeRows runs rows on a pool of worker processes and calls sink for each
// (in arbitrary order, serialised).
func runBridgeRows(rows []*bridgeRow, workers int, sink func(*bridgeRow, *bridgeObs) error) error {
	if workers < 1 {
		workers = 1
	}
	jobs := make(chan *bridgeRow, 256)
	var mu sync.Mutex
	var firstErr error
	var wg sync.WaitGroup
	fail := func(e error) {
		mu.Lock()
		if firstErr == nil {
			firstErr = e
		}
		mu.Unlock()
	}
	for k := 0; k < workers; k++ {
		wg.Add(1)
		go func() {
			defer wg.Done()
			var w *bridgeWorkerProc
			defer func() {
				if w != nil {
					w.kill()
				}
			}()
			for row := range jobs {
				mu.Lock()
				stop := firstErr != nil
				mu.Unlock()
				if stop {
					continue
				}
				if w == nil {
					var err error
					if w, err = startBridgeWorker(); err != nil {
						fail(err)
						continue
					}
				}
				obs, died, err := w.run(row)
				if err != nil {
					fail(err)
					w.kill()
					w = nil
					continue
				}
				if died {
					w.kill()
					w = nil
				}
				mu.Lock()
				if firstErr == nil {
					if err := sink(row, &obs); err != nil {
						firstErr = err
					}
				}
				mu.Unlock()
			}
		}()
	}
	for _, r := range rows {
		jobs <- r
	}
	close(jobs)
	wg.Wait()
	return firstErr
}

// ---------------------------------------------------------------- modes

func bridgeReplay(m map[string]string) error {
	lines, err := readNDJSON(m["in"])
	if err != nil {
		return err
	}
	rows := make([]*bridgeRow, 0, len(lines))
	seed := Seed()
	for i, raw := range lines {
		r := &bridgeRow{}
		if err := json.Unmarshal(raw, r); err != nil {
			return err
		}
		if r.ID == 0 {
			r.ID = i + 1
		}
		if r.Salt == 0 {
			r.Salt = seed*1000003 + int64(i)*2 + 1
			if i%2 == 0 {
				r.Salt++
			}
		}
		rows = append(rows, r)
	}
	w, err := newNDJSON(m["out"])
	if err != nil {
		return err
	}
	stats := map[string]int{}
	crashes := 0
	err = runBridgeRows(rows, argInt(m, "workers", 8), func(row *bridgeRow, o *bridgeObs) error {
		stats["rows"]++
		stats["reg_"+o.Reg]++
		if o.Call != "na" {
			stats["call_"+o.Call]++
			stats["site_"+o.Site]++
		}
		if o.Call == "crash" || o.Reg == "crash" {
			crashes++
		}
		if d := bridgeCompare(row, o); d != "" {
			stats["diffs"]++
			return w.Write(map[string]any{"diff": d, "row": row, "obs": o})
		}
		return nil
	})
	if err != nil {
		return err
	}
	b, _ := json.Marshal(stats)
	fmt.Println(string(b))
	return w.Close()
}

func bridgeOne(m map[string]string) error {
	b, err := os.ReadFile(m["in"])
	if err != nil {
		return err
	}
	row := &bridgeRow{}
	if err := json.Unmarshal(b, row); err != nil {
		return err
	}
	var obs bridgeObs
	err = runBridgeRows([]*bridgeRow{row}, 1, func(r *bridgeRow, o *bridgeObs) error { obs = *o; return nil })
	if err != nil {
		return err
	}
	out, _ := json.Marshal(map[string]any{"row": row, "obs": obs, "diff": bridgeCompare(row, &obs)})
	fmt.Println(string(out))
	return nil
}
