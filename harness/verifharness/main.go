// Package verifharness concretises abstract cases produced for / by the TLA+
// specifications into calls of the real library, and records what the library did.
// Every layer registers its sub-command in an init function.
package verifharness

import (
	"bufio"
	"encoding/json"
	"fmt"
	"os"
	"runtime"
	"sort"
	"strconv"
	"sync"
)

// parallelFor runs f(0..n-1) on a pool of workers (results must be stored by index, so the
// outcome does not depend on scheduling).  VERIF_WORKERS overrides the pool size.
func parallelFor(n int, f func(i int)) {
	workers := runtime.NumCPU()
	if v, err := strconv.Atoi(os.Getenv("VERIF_WORKERS")); err == nil && v > 0 {
		workers = v
	}
	if workers > n {
		workers = n
	}
	if workers <= 1 {
		for i := 0; i < n; i++ {
			f(i)
		}
		return
	}
	var wg sync.WaitGroup
	next := make(chan int)
	for w := 0; w < workers; w++ {
		wg.Add(1)
		go func() {
			defer wg.Done()
			for i := range next {
				f(i)
			}
		}()
	}
	for i := 0; i < n; i++ {
		next <- i
	}
	close(next)
	wg.Wait()
}

// SubCommand is one harness entry point: verifh <name> args...
type SubCommand func(args []string) error

var subCommands = map[string]SubCommand{}

func register(name string, f SubCommand) { subCommands[name] = f }

// Main dispatches to the registered sub-command.
func Main(args []string) int {
	if len(args) == 0 {
		names := make([]string, 0, len(subCommands))
		for n := range subCommands {
			names = append(names, n)
		}
		sort.Strings(names)
		fmt.Fprintln(os.Stderr, "usage: verifh <subcommand> args...; subcommands:", names)
		return 2
	}
	f, ok := subCommands[args[0]]
	if !ok {
		fmt.Fprintln(os.Stderr, "unknown subcommand", args[0])
		return 2
	}
	if err := f(args[1:]); err != nil {
		fmt.Fprintln(os.Stderr, "verifh", args[0], "failed:", err)
		return 3
	}
	return 0
}

// Seed returns VERIF_SEED (default 1).
func Seed() int64 {
	s, err := strconv.ParseInt(os.Getenv("VERIF_SEED"), 10, 64)
	if err != nil {
		return 1
	}
	return s
}

// ndjsonWriter writes one JSON value per line.
type ndjsonWriter struct {
	f *os.File
	w *bufio.Writer
	n int
}

func newNDJSON(path string) (*ndjsonWriter, error) {
	f, err := os.Create(path)
	if err != nil {
		return nil, err
	}
	return &ndjsonWriter{f: f, w: bufio.NewWriterSize(f, 1<<20)}, nil
}

func (w *ndjsonWriter) Write(v any) error {
	b, err := json.Marshal(v)
	if err != nil {
		return err
	}
	w.n++
	if _, err := w.w.Write(b); err != nil {
		return err
	}
	return w.w.WriteByte('\n')
}

func (w *ndjsonWriter) Close() error {
	if err := w.w.Flush(); err != nil {
		return err
	}
	return w.f.Close()
}

// readNDJSON reads every line of path into a slice of raw messages.
func readNDJSON(path string) ([]json.RawMessage, error) {
	f, err := os.Open(path)
	if err != nil {
		return nil, err
	}
	defer f.Close()
	sc := bufio.NewScanner(f)
	sc.Buffer(make([]byte, 1<<20), 1<<28)
	var res []json.RawMessage
	for sc.Scan() {
		b := sc.Bytes()
		if len(b) == 0 {
			continue
		}
		res = append(res, append(json.RawMessage(nil), b...))
	}
	return res, sc.Err()
}

// argMap parses --key value pairs.
func argMap(args []string) map[string]string {
	m := map[string]string{}
	for i := 0; i+1 < len(args); i += 2 {
		if len(args[i]) > 2 && args[i][:2] == "--" {
			m[args[i][2:]] = args[i+1]
		}
	}
	return m
}

func argInt(m map[string]string, k string, def int) int {
	if v, ok := m[k]; ok {
		if n, err := strconv.Atoi(v); err == nil {
			return n
		}
	}
	return def
}
