package verifharness

import (
	"fmt"
	"math"
	"math/big"
	"math/rand"
	"strconv"
	"strings"

	"github.com/antlr4-go/antlr/v4"

	"github.com/remieven/ysgo"
	"github.com/remieven/ysgo/internal/parser"
	"github.com/remieven/ysgo/variable"
)

// Helpers shared by the `lines` (property C04) and `cmdargs` (property C17)
// sub-commands.  Text crosses the Go/TLA+ boundary as arrays of Unicode code
// points only; numbers as exact fractions n/d of small integers.

// linesVal is a Yarn value in the JSON schema of spec/CommandArgs.tla and
// spec/LineLexer.tla: {"t":"n","n":3,"d":2} | {"t":"b","b":true} |
// {"t":"s","s":[code points]} | {"t":"x","why":"nan|inf|unrep|nil"}.
type linesVal map[string]any

func linesNum(n, d int64) linesVal { return linesVal{"t": "n", "n": n, "d": d} }
func linesBool(b bool) linesVal    { return linesVal{"t": "b", "b": b} }
func linesStr(s string) linesVal   { return linesVal{"t": "s", "s": linesCps(s)} }

// linesCps converts a string into its code points (never nil, so that JSON has []).
func linesCps(s string) []int {
	res := make([]int, 0, len(s))
	for _, r := range s {
		res = append(res, int(r))
	}
	return res
}

func linesFromCps(cps []int) string {
	var sb strings.Builder
	for _, c := range cps {
		sb.WriteRune(rune(c))
	}
	return sb.String()
}

// linesAnyToInts converts a decoded JSON array of numbers (or an []int).
func linesAnyToInts(v any) []int {
	if xs, ok := v.([]int); ok {
		return xs
	}
	arr, _ := v.([]any)
	res := make([]int, 0, len(arr))
	for _, x := range arr {
		res = append(res, int(linesAnyToInt64(x)))
	}
	return res
}

func linesAnyToInt64(x any) int64 {
	switch t := x.(type) {
	case float64:
		return int64(t)
	case int64:
		return t
	case int:
		return int64(t)
	}
	return 0
}

// linesFloatVal converts a float64 exactly; values outside the window that TLC
// can hold (numerator and denominator below 2^30) become {"t":"x"}.
func linesFloatVal(f float64) linesVal {
	switch {
	case math.IsNaN(f):
		return linesVal{"t": "x", "why": "nan"}
	case math.IsInf(f, 0):
		return linesVal{"t": "x", "why": "inf"}
	}
	r := new(big.Rat)
	if r.SetFloat64(f) == nil {
		return linesVal{"t": "x", "why": "unrep"}
	}
	lim := big.NewInt(1 << 30)
	if new(big.Int).Abs(r.Num()).Cmp(lim) >= 0 || r.Denom().Cmp(lim) >= 0 {
		return linesVal{"t": "x", "why": "unrep"}
	}
	return linesNum(r.Num().Int64(), r.Denom().Int64())
}

// linesFromValue converts a value received from the library.
func linesFromValue(v *variable.Value) linesVal {
	switch {
	case v == nil:
		return linesVal{"t": "x", "why": "nil"}
	case v.Number != nil:
		return linesFloatVal(*v.Number)
	case v.Boolean != nil:
		return linesBool(*v.Boolean)
	case v.String != nil:
		return linesStr(*v.String)
	}
	return linesVal{"t": "x", "why": "nil"}
}

// linesValFromJSON normalises a value object, decoded from JSON (numbers arrive as
// float64, arrays as []any) or built in Go.
func linesValFromJSON(m map[string]any) linesVal {
	switch m["t"] {
	case "n":
		return linesNum(linesAnyToInt64(m["n"]), linesAnyToInt64(m["d"]))
	case "b":
		b, _ := m["b"].(bool)
		return linesBool(b)
	case "s":
		return linesVal{"t": "s", "s": linesAnyToInts(m["s"])}
	}
	return linesVal{"t": "x", "why": fmt.Sprint(m["why"])}
}

func linesValEqual(a, b linesVal) bool {
	if a["t"] != b["t"] {
		return false
	}
	switch a["t"] {
	case "n":
		return a["n"].(int64) == b["n"].(int64) && a["d"].(int64) == b["d"].(int64)
	case "b":
		return a["b"].(bool) == b["b"].(bool)
	case "s":
		x, y := a["s"].([]int), b["s"].([]int)
		if len(x) != len(y) {
			return false
		}
		for i := range x {
			if x[i] != y[i] {
				return false
			}
		}
		return true
	}
	return false
}

// linesValString is a short human-readable form for reports.
func linesValString(v linesVal) string {
	switch v["t"] {
	case "n":
		if v["d"].(int64) == 1 {
			return fmt.Sprintf("number %d", v["n"])
		}
		return fmt.Sprintf("number %d/%d", v["n"], v["d"])
	case "b":
		return fmt.Sprintf("boolean %v", v["b"])
	case "s":
		return fmt.Sprintf("string %q", linesFromCps(v["s"].([]int)))
	}
	return fmt.Sprintf("unrepresentable(%v)", v["why"])
}

// linesDecimal renders the dyadic fraction n/d (d a power of two) as an exact
// decimal literal without sign handling surprises: "-0.75", "3", "1.5".
func linesDecimal(n, d int64) string {
	r := big.NewRat(n, d)
	if r.IsInt() {
		return r.Num().String()
	}
	// a dyadic fraction with denominator 2^k has exactly k fractional digits
	k := 0
	for x := r.Denom().Int64(); x > 1; x /= 2 {
		k++
	}
	return r.FloatString(k)
}

// linesVarAlloc hands out fresh variable names and remembers the values that
// must be present in the variable storer before the script runs.
type linesVarAlloc struct {
	n    int
	nums map[string]float64
	bls  map[string]bool
	strs map[string]string
}

func newLinesVarAlloc() *linesVarAlloc {
	return &linesVarAlloc{nums: map[string]float64{}, bls: map[string]bool{}, strs: map[string]string{}}
}

func (a *linesVarAlloc) fresh() string {
	a.n++
	return "vv" + strconv.Itoa(a.n)
}

func (a *linesVarAlloc) storer() variable.Storer {
	st := variable.NewInMemoryStorer()
	for k, v := range a.nums {
		st.SetNumberValue(k, v)
	}
	for k, v := range a.bls {
		st.SetBooleanValue(k, v)
	}
	for k, v := range a.strs {
		st.SetStringValue(k, v)
	}
	return st
}

func linesStringLiteralOK(s string) bool {
	return !strings.ContainsAny(s, "\"\\\r\n")
}

// linesExpr renders a Yarn expression (without the braces) that evaluates to v.
// form selects among literal, variable and computed spellings.
func linesExpr(v linesVal, form int, vars *linesVarAlloc) string {
	switch v["t"] {
	case "n":
		n, d := v["n"].(int64), v["d"].(int64)
		if n == 0 {
			// zero reached through a negative operand is IEEE's negative zero: still the integral number 0
			switch form % 7 {
			case 4:
				return "0 * (-1)"
			case 5:
				return "(-4) % 2"
			case 6:
				name := vars.fresh()
				vars.nums[name] = math.Copysign(0, -1)
				return "$" + name
			}
		}
		switch form % 4 {
		case 0:
			return linesDecimal(n, d)
		case 1:
			name := vars.fresh()
			vars.nums[name] = float64(n) / float64(d)
			return "$" + name
		case 2: // (v - 1) + 1
			return linesDecimal(n-d, d) + " + 1"
		default: // (2 v) / 2
			return "(" + linesDecimal(2*n, d) + ") / 2"
		}
	case "b":
		b := v["b"].(bool)
		switch form % 4 {
		case 0:
			return strconv.FormatBool(b)
		case 1:
			name := vars.fresh()
			vars.bls[name] = b
			return "$" + name
		case 2:
			if b {
				return "1 < 2"
			}
			return "2 < 1"
		default:
			if b {
				return "not false"
			}
			return "true and false"
		}
	case "s":
		s := linesFromCps(v["s"].([]int))
		f := form % 3
		if !linesStringLiteralOK(s) {
			f = 1
		}
		switch f {
		case 0:
			return "\"" + s + "\""
		case 1:
			name := vars.fresh()
			vars.strs[name] = s
			return "$" + name
		default:
			r := []rune(s)
			k := len(r) / 2
			return "\"" + string(r[:k]) + "\" + \"" + string(r[k:]) + "\""
		}
	}
	return "null"
}

// linesBrace wraps an expression into an inline {expression} with optional blanks.
func linesBrace(expr string, form int) string {
	switch (form / 4) % 3 {
	case 1:
		return "{ " + expr + " }"
	case 2:
		return "{" + expr + " }"
	}
	return "{" + expr + "}"
}

// ------------------------------------------------------------ running scripts

// linesLoad creates a runner for the script; a panic is reported as panicked.
func linesLoad(script string, storer variable.Storer) (dr *ysgo.DialogueRunner, err error, panicked bool) {
	defer func() {
		if r := recover(); r != nil {
			dr, err, panicked = nil, fmt.Errorf("panic: %v", r), true
		}
	}()
	dr, err = ysgo.NewDialogueRunner(storer, "", strings.NewReader(script))
	return dr, err, false
}

// linesNext calls Next under recover.
func linesNext(dr *ysgo.DialogueRunner, choice int) (el *ysgo.DialogueElement, err error, panicked bool) {
	defer func() {
		if r := recover(); r != nil {
			el, err, panicked = nil, fmt.Errorf("panic: %v", r), true
		}
	}()
	el, err = dr.Next(choice)
	return el, err, false
}

// linesErrCounter counts ANTLR syntax errors (lexer and parser).
type linesErrCounter struct {
	*antlr.DefaultErrorListener
	n     int
	first string
}

func (l *linesErrCounter) SyntaxError(_ antlr.Recognizer, _ interface{}, line, column int, msg string, _ antlr.RecognitionException) {
	if l.n == 0 {
		l.first = fmt.Sprintf("%d:%d %s", line, column, msg)
	}
	l.n++
}

// linesSyntaxErrors parses the script with the generated lexer and parser and an
// independent error listener: the .g4 grammar's own verdict on "syntactically valid".
func linesSyntaxErrors(script string) (n int, first string, panicked bool) {
	defer func() {
		if r := recover(); r != nil {
			n, first, panicked = -1, fmt.Sprint(r), true
		}
	}()
	cnt := &linesErrCounter{DefaultErrorListener: antlr.NewDefaultErrorListener()}
	lexer := parser.NewYarnSpinnerLexer(antlr.NewInputStream(script))
	lexer.RemoveErrorListeners()
	lexer.AddErrorListener(cnt)
	stream := antlr.NewCommonTokenStream(lexer, antlr.LexerDefaultTokenChannel)
	p := parser.NewYarnSpinnerParser(stream)
	p.RemoveErrorListeners()
	p.AddErrorListener(cnt)
	p.Dialogue()
	return cnt.n, cnt.first, false
}

// linesPick returns a pseudo-random element.
func linesPick[T any](rnd *rand.Rand, xs []T) T { return xs[rnd.Intn(len(xs))] }
