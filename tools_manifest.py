#!/usr/bin/env python3
"""Regenerates MANIFEST.json from the table below (kept here so that the manifest stays
consistent with the checks that exist under checks/)."""
import json
import os

VERIF = os.path.dirname(os.path.abspath(__file__))

CHECKS = {
    "C20": dict(
        category="model_checking",
        text="TLC checks that the ring buffer transcribed from queue.go refines the abstract FIFO for every operation sequence across two growths, "
             "and the token-balance invariants of the indentation layer for every input up to a bound; every transition of the ring model's complete "
             "state graph and every stack history up to a length is replayed on the real containers, and recorded random histories / real lexer token "
             "streams are validated against the specifications.",
        design_ref="DESIGN.md section 6 (C20)",
        note="Bounds: MaxEnq 24 (quick) / 40 (thorough) enqueues, stack histories of length 6 / 8, lexer inputs sampled (generated, mutated, random bytes). "
             "Trusted: the transcription of queue.go into RingQueue.tla is bound to the code only through the replayed transitions; TLC; the harness's token abstraction.",
        technique="TLA+ refinement check (TLC) + state-graph edge-cover replay + trace validation",
    ),
}

CORE_NOTE = "Bounds: generated program families (sizes in the evidence), paths up to MaxCalls, numbers in the exact dyadic window; literal text plain ASCII. Trusted: TLC; the Go harness's rendering of cases to Yarn text and its observation code; the refinement YarnRunner => YarnSem is checked by TLC on the same bounded family only."

CHECKS.update({
    "C01": dict(
        category="model_checking",
        text="TLC checks, for every generated program and every choice path, that the implementation-shaped stack machine (YarnRunner.tla) presents exactly "
             "what the declarative structural semantics (YarnSem.tla) prescribes, that Next's argument is ignored unless a choice is pending; every maximal "
             "behaviour TLC enumerates is replayed on the real runner and random walks of bigger programs under random layouts are trace-validated (YarnTrace.tla).",
        design_ref="DESIGN.md section 6 (C01)", note=CORE_NOTE,
        technique="TLA+ refinement check (TLC) + replay of all enumerated behaviours + trace validation",
    ),
    "C03": dict(
        category="model_checking",
        text="TLC checks type stability, failed-statement-changes-nothing and store-equals-logged-writes as action properties over all assignment histories with a host write "
             "at every position, and that the three-map storer refines a one-map store for all setter histories; all behaviours are replayed on a recording storer, the "
             "library's InMemoryStorer and an independent one-map Storer; longer random histories with host writes are trace-validated.",
        design_ref="DESIGN.md section 6 (C03)", note=CORE_NOTE,
        technique="TLA+ action properties + storer refinement (TLC) + behaviour replay + trace validation",
    ),
    "C05": dict(
        category="exploration",
        text="The load protocol (per-reader validity facts -> runner/error, never panic) is a TLA+ specification model-checked for all outcome vectors of <=3 readers; every row with "
             "concrete content is turned into bytes and loaded; generated, mutated and random inputs split over readers are loaded with the real NewDialogueRunner and each load "
             "event is judged by the trace specification, with an independent ANTLR error listener deciding syntactic validity.",
        design_ref="DESIGN.md section 6 (C05)",
        note="The input space is sampled (sizes in the evidence); the grammar itself is ANTLR's (trusted as the definition of validity); where the per-reader and whole-input "
             "readings of validity disagree only 'never panics' is judged.",
        technique="TLA+ protocol spec (TLC) + decision-table replay + trace validation of sampled loads",
    ),
    "C07": dict(
        category="model_checking",
        text="TLC enumerates every run x every save point x every state of the restore target and checks RestoreResumes (the restored runner's behavioural projection equals the "
             "original's at that node entry), ResnapshotEqual, SnapshotsImmutable, UnknownNodeChangesNothing; all behaviours are replayed with every snapshot handle re-read after "
             "every later step; three real runners with interleaved Next/Snapshot/RestoreAt are trace-validated.",
        design_ref="DESIGN.md section 6 (C07)", note=CORE_NOTE,
        technique="TLA+ action properties over snapshot/restore actions (TLC) + behaviour replay + trace validation",
    ),
    "C10": dict(
        category="model_checking",
        text="TLC enumerates every completion schedule (polls answered waiting, then nil or error) of every command of every generated script and checks PendingNextIsNoOp, "
             "DoneNeverWaits, handler-exactly-once (through refinement of YarnSem); schedules are replayed with raw handlers; converted handlers of every shape run in real goroutines "
             "behind gates under the race detector and <<wait n>> is timed, all validated by the trace specification.",
        design_ref="DESIGN.md section 6 (C10)", note=CORE_NOTE + " Data-race freedom is observed by Go's race detector on the schedules that occurred, not decided by TLC.",
        technique="TLA+ model checking of completion schedules (TLC) + schedule replay + trace validation under -race",
    ),
    "C11": dict(
        category="model_checking",
        text="TLC checks CountIsJumpsOut, VisitedIffPositive, UnknownIsZero, monotonicity and only-jumps-change-counts on all paths through generated jump graphs with every "
             "tracking header; behaviours are replayed with visited/visited_count rendered at every node entry and Snapshot().VisitedNodes read after every step; longer walks trace-validated.",
        design_ref="DESIGN.md section 6 (C11)", note=CORE_NOTE,
        technique="TLA+ invariants over a ghost jump counter (TLC) + behaviour replay + trace validation",
    ),
    "C12": dict(
        category="model_checking",
        text="TLC checks EndAbsorbing (after the end every Next with any argument reports the end, changes nothing, invokes nothing) on every path to an end of every generated "
             "program; behaviours continue 3 calls past the end with arbitrary arguments and are replayed; random walks are continued past the end and trace-validated.",
        design_ref="DESIGN.md section 6 (C12)", note=CORE_NOTE,
        technique="TLA+ invariant (TLC) + behaviour replay past the end + trace validation",
    ),
})

NOT_YET = "check not built yet in this session (work in progress; see DESIGN.md build order)"


def main():
    props = [json.loads(l)["id"] for l in open(os.path.join(VERIF, "properties.jsonl"))]
    checks = []
    for pid in props:
        if pid not in CHECKS:
            continue
        c = CHECKS[pid]
        checks.append({
            "property_id": pid,
            "quick_cmd": "python3 bin/check %s --tier quick" % pid,
            "thorough_cmd": "python3 bin/check %s --tier thorough" % pid,
            "evidence_file": "/verif/evidence/%s.json" % pid,
            "replay_cmd_template": "python3 bin/check %s --replay {path}" % pid,
            "engine": "tlc+verifh",
            "level_claimed": {"category": c["category"], "text": c["text"], "design_ref": c["design_ref"]},
            "level_note": c["note"],
            "technique": c["technique"],
        })
    na = [{"property_id": p, "reason": NOT_YET} for p in props if p not in CHECKS]
    man = {
        "version": 1,
        "setup_cmd": "python3 bin/setup",
        "hooks": {
            "guard": "verif",
            "enable": "go build -tags verif (the harness is overlaid into a scratch copy of /repo and built there)",
            "baseline_off_cmd": "cd /repo && GOFLAGS=-mod=mod GOPROXY=off GOSUMDB=off GOTOOLCHAIN=local go test -vet=off -count=1 ./...",
            "source_commits": [],
            "add_only": True,
        },
        "engines": [
            {"name": "tlc+verifh", "path": "/verif/bin/check",
             "serves_properties": sorted(CHECKS),
             "kind_free_text": "explicit TLA+ specifications (/verif/spec) checked with TLC; Go conformance harness (/verif/harness) overlaid into a scratch copy "
                               "of /repo: TLC-generated behaviours replayed on the real code and recorded traces validated by TLA+ trace specifications"},
        ],
        "checks": checks,
        "not_applicable": na,
        "notes": "Every check copies /repo's working tree to a scratch directory under /var/tmp, overlays /verif/harness, builds with -tags verif and removes the copy afterwards. "
                 "Exit 2 = machinery failure (never a verdict).",
    }
    with open(os.path.join(VERIF, "MANIFEST.json"), "w") as f:
        json.dump(man, f, indent=1)
        f.write("\n")


if __name__ == "__main__":
    main()
