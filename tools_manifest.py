#!/usr/bin/env python3
"""Regenerates MANIFEST.json from the table below (kept here so that the manifest stays
consistent with the checks that exist under checks/)."""
import json
import os

VERIF = os.path.dirname(os.path.abspath(__file__))

CHECKS = {
    "C20": dict(
        category="model_checking",
        text="TLC checks that the ring buffer transcribed from queue.go refines the abstract FIFO for every operation sequence across two growths, "
             "and the token-balance invariants of the indentation layer for every input up to a bound; every transition of the ring model's complete "
             "state graph and every stack history up to a length is replayed on the real containers, and recorded random histories / real lexer token "
             "streams are validated against the specifications.",
        design_ref="DESIGN.md section 6 (C20)",
        note="Bounds: MaxEnq 24 (quick) / 40 (thorough) enqueues, stack histories of length 6 / 8, lexer inputs sampled (generated, mutated, random bytes). "
             "Trusted: the transcription of queue.go into RingQueue.tla is bound to the code only through the replayed transitions; TLC; the harness's token abstraction.",
        technique="TLA+ refinement check (TLC) + state-graph edge-cover replay + trace validation",
    ),
}

CORE_NOTE = "Bounds: generated program families (sizes in the evidence), paths up to MaxCalls, numbers in the exact dyadic window; literal text plain ASCII. Trusted: TLC; the Go harness's rendering of cases to Yarn text and its observation code; the refinement YarnRunner => YarnSem is checked by TLC on the same bounded family only. The repository's fixtures and the hand-written corpus /verif/scripts are additionally run exactly as written and trace-validated against the dialogue the library parsed (stage `scripts`; scripts outside the modelled language are skipped and counted)."

CHECKS.update({
    "C01": dict(
        category="model_checking",
        text="TLC checks, for every generated program and every choice path, that the implementation-shaped stack machine (YarnRunner.tla) presents exactly "
             "what the declarative structural semantics (YarnSem.tla) prescribes, that Next's argument is ignored unless a choice is pending; every maximal "
             "behaviour TLC enumerates is replayed on the real runner and random walks of bigger programs under random layouts are trace-validated (YarnTrace.tla).",
        design_ref="DESIGN.md section 6 (C01)", note=CORE_NOTE,
        technique="TLA+ refinement check (TLC) + replay of all enumerated behaviours + trace validation",
    ),
    "C03": dict(
        category="model_checking",
        text="TLC checks type stability, failed-statement-changes-nothing and store-equals-logged-writes as action properties over all assignment histories with a host write "
             "at every position, and that the three-map storer refines a one-map store for all setter histories; all behaviours are replayed on a recording storer, the "
             "library's InMemoryStorer and an independent one-map Storer; longer random histories with host writes are trace-validated.",
        design_ref="DESIGN.md section 6 (C03)", note=CORE_NOTE,
        technique="TLA+ action properties + storer refinement (TLC) + behaviour replay + trace validation",
    ),
    "C05": dict(
        category="exploration",
        text="The load protocol (per-reader validity facts -> runner/error, never panic) is a TLA+ specification model-checked for all outcome vectors of <=3 readers; every row with "
             "concrete content is turned into bytes and loaded; generated, mutated and random inputs split over readers are loaded with the real NewDialogueRunner and each load "
             "event is judged by the trace specification; syntactic validity is decided by the generated ANTLR parser with an error listener, fed by the generated lexer under "
             "the specification's own indentation rule (a transcription of IndentLexer.tla that LexTrace validates in every run), not by the library's indentation layer.",
        design_ref="DESIGN.md section 6 (C05)",
        note="The input space is sampled (sizes in the evidence); the .g4 grammar as compiled by ANTLR is trusted as the definition of validity (token and parser level); where the per-reader and whole-input "
             "readings of validity disagree only 'never panics' is judged.",
        technique="TLA+ protocol spec (TLC) + decision-table replay + trace validation of sampled loads",
    ),
    "C07": dict(
        category="model_checking",
        text="TLC enumerates every run x every save point x every state of the restore target and checks RestoreResumes (the restored runner's behavioural projection equals the "
             "original's at that node entry), ResnapshotEqual, SnapshotsImmutable, UnknownNodeChangesNothing; all behaviours are replayed with every snapshot handle re-read after "
             "every later step; three real runners with interleaved Next/Snapshot/RestoreAt are trace-validated.",
        design_ref="DESIGN.md section 6 (C07)", note=CORE_NOTE,
        technique="TLA+ action properties over snapshot/restore actions (TLC) + behaviour replay + trace validation",
    ),
    "C10": dict(
        category="model_checking",
        text="TLC enumerates every completion schedule (polls answered waiting, then nil or error) of every command of every generated script and checks PendingNextIsNoOp, "
             "DoneNeverWaits, handler-exactly-once (through refinement of YarnSem); schedules are replayed with raw handlers; converted handlers of every shape run in real goroutines "
             "behind gates under the race detector and <<wait n>> is timed, all validated by the trace specification.",
        design_ref="DESIGN.md section 6 (C10)", note=CORE_NOTE + " Data-race freedom is observed by Go's race detector on the schedules that occurred, not decided by TLC.",
        technique="TLA+ model checking of completion schedules (TLC) + schedule replay + trace validation under -race",
    ),
    "C11": dict(
        category="model_checking",
        text="TLC checks CountIsJumpsOut, VisitedIffPositive, UnknownIsZero, monotonicity and only-jumps-change-counts on all paths through generated jump graphs with every "
             "tracking header; behaviours are replayed with visited/visited_count rendered at every node entry and Snapshot().VisitedNodes read after every step; longer walks trace-validated.",
        design_ref="DESIGN.md section 6 (C11)", note=CORE_NOTE,
        technique="TLA+ invariants over a ghost jump counter (TLC) + behaviour replay + trace validation",
    ),
    "C12": dict(
        category="model_checking",
        text="TLC checks EndAbsorbing (after the end every Next with any argument reports the end, changes nothing, invokes nothing) on every path to an end of every generated "
             "program; behaviours continue 3 calls past the end with arbitrary arguments and are replayed; random walks are continued past the end and trace-validated.",
        design_ref="DESIGN.md section 6 (C12)", note=CORE_NOTE,
        technique="TLA+ invariant (TLC) + behaviour replay past the end + trace validation",
    ),
})

CHECKS.update({
    "C02": dict(
        category="model_checking",
        text="TLC checks an independent statement of the typing table, short-circuiting, left-to-right single evaluation and the precedence printer on ALL expression trees of "
             "depth <= 2 over the 16 operators with logging probe leaves, and prints each with the text its precedence model prescribes (minimal / full parentheses, word spellings) "
             "and the prescribed value, error and call log; every row is evaluated by the real parser + evaluator (parsed tree, value, error-ness, probe log compared); deeper "
             "random trees inside programs are replayed and trace-validated.",
        design_ref="DESIGN.md section 6 (C02)", note=CORE_NOTE + " Outside the exact window TLC cannot compute: there doubles cross as bit-pattern tokens and the trace "
             "specification (WideArithTrace.tla) only demands equality with the token the harness computed with the host language's IEEE-754 arithmetic (trusted) for + - * / % "
             "unary minus and the comparisons; display of such numbers is C04's/C19's.",
        technique="TLA+ exhaustive tree enumeration with invariants (TLC) + row replay + trace validation",
    ),
    "C06": dict(
        category="model_checking",
        text="The runner specification carries the fault table (ill-typed operations, unknown variables / nodes / functions / commands, wrong argument counts and types, failing host code, "
             "null, value-less functions as values, out-of-domain and non-finite / beyond-int64 arguments of dice and random_range); TLC enumerates every path of generated faulty "
             "programs and one built-in call per (argument classes x statement kind x nesting position); all behaviours are replayed - a panic is a violation anywhere, a fault must "
             "surface as an error at that call, the runner must stay usable - and random walks are trace-validated.",
        design_ref="DESIGN.md section 6 (C06)", note=CORE_NOTE + " For arguments the property only lists as values to try (non-integers, spans that overflow) only 'no panic' is judged.",
        technique="TLA+ fault table in the runner spec (TLC) + behaviour replay + trace validation",
    ),
    "C08": dict(
        category="model_checking",
        text="TLC checks LayoutInvariant on the indentation specification: for every nesting profile and every layout of it (arbitrary widths per level, blank / comment lines of any "
             "width anywhere) the emitted INDENT/DEDENT/LINE structure is the canonical one; for generated programs k+1 renderings are parsed by the real parser: dialogue == generator AST "
             "and reflect.DeepEqual to the canonical rendering's; the real lexer's token streams are validated against the indentation spec; runs under random layouts are trace-validated "
             "against the same case.",
        design_ref="DESIGN.md section 6 (C08)", note=CORE_NOTE + " Layout dimensions are those the harness renders (listed in the evidence rule).",
        technique="TLA+ invariant on the indentation model (TLC) + AST equality across renderings + token / run trace validation",
    ),
    "C09": dict(
        category="exploration",
        text="The model states that a runner's random stream depends on its seed only (SameSeedSameRun, NonInterference under every interleaving with an unrelated runner, clock ticks and "
             "the process-wide source); each generated case is run four times (first, again in process, disturbed by other runners and the global math/rand, in a child process) and a "
             "trace specification that learns the first run requires identical elements, errors, variables and drawn values and checks every draw's range contract.",
        design_ref="DESIGN.md section 6 (C09)",
        note="Pairs of executions are sampled; child processes are the same binary on the same machine; generators stay in-domain (n >= 1, a <= b).",
        technique="TLA+ model of per-runner streams (TLC) + trace validation with a learned oracle",
    ),
    "C16": dict(
        category="model_checking",
        text="The registration / call decision table over an abstract signature algebra (parameter classes incl. named types, variadic tails, result shapes; functions and commands) x argument "
             "lists is a TLA+ specification; TLC checks an implementation-shaped formulation against it on every row and prints every row, which is replayed on the real bridge with "
             "reflect.FuncOf/MakeFunc probes called from scripts (refused/accepted, exact Go types and values received, value or error seen, no panic); random signatures and calls are "
             "judged by a trace specification using the same table.",
        design_ref="DESIGN.md section 6 (C16), appendix H",
        note="Enumeration pruned by symmetry (families listed in MC_Bridge.tla); named-type and uint-family signatures are 'refused, or accepted and faithful'; rows run in worker "
             "processes because a panic in the bridge's goroutine cannot be recovered in-process.",
        technique="TLA+ decision table (TLC) + exhaustive row replay + trace validation",
    ),
    "C18": dict(
        category="exploration",
        text="Rounds of 2-16 goroutines released together each parse and drive their own runner under the race detector; every run is repeated alone with the same seed and must give the "
             "identical event list, and every concurrently recorded trace is validated against the runner specification (each runner's projection is the behaviour of its own case).",
        design_ref="DESIGN.md section 6 (C18)",
        note="Schedules are sampled; data-race freedom is observed by Go's race detector on the schedules that occurred, not decided by TLC (non-interference of runners is by construction in the "
             "specification, which indexes all state by runner).",
        technique="trace validation of concurrently recorded runs (TLA+ trace spec) + race detector + solo re-run equality",
    ),
    "C19": dict(
        category="exploration",
        text="Each sentence of the property is a relation over exact rationals in a TLA+ specification; TLC checks on a grid that each relation has exactly one solution (two at ties) and that "
             "closed forms shaped like base_functions.go satisfy them; evaluations through <<call capture(f($x))>> with x supplied through the storer are judged by a trace specification "
             "evaluating the relation on each (x crosses as exact limbs).",
        design_ref="DESIGN.md section 6 (C19)",
        note="Inputs are sampled (an exhaustive small-grid sweep opens every run); decided window |x| < 2^52 with up to 28 fractional bits; full-mantissa doubles are covered only by the "
             "number(string(x)) round trip compared as opaque bit tokens.",
        technique="TLA+ relational contracts (TLC) + trace validation",
    ),
})

CHECKS.update({
    "C04": dict(
        category="model_checking",
        text="The lexer mode automaton of the .g4 (Body / Text / TextEscaped / TextCommandOrHashtag / Hashtag modes, longest match across adjacent characters, the line grammar, the "
             "listener's TEXT re-joining) is a TLA+ specification; TLC checks for every item sequence up to a length that it meets a position-independent declarative meaning "
             "(literal text with escapes resolved, expression slots, tags, comments never text, modes back to Body) and GroupKeepsOrder for all option groups with every assignment of "
             "conditions; every line the automaton judges valid and every group is rendered and run through NewDialogueRunner/Next (Text, Tags, order, Disabled compared), the "
             "automaton's validity verdict is cross-checked against ANTLR, and random long lines with inline expressions of every type are trace-validated.",
        design_ref="DESIGN.md section 6 (C04), appendix F",
        note="23 item classes, all sequences of length <= 3 (quick) / <= 4 (thorough); numbers dyadic in the exact window; no unescaped [ ] (markup is C13's); for doubles outside "
             "the exact window only this is decided (WideArithTrace, bit patterns as tokens): what the line shows reads back as the number, integral numbers below 2^63 have no decimal point; "
             "option groups re-presented while conditions change are decided on the runner specification (family optcond).",
        technique="TLA+ lexer-mode automaton vs declarative meaning (TLC) + exhaustive line replay + trace validation",
    ),
    "C17": dict(
        category="model_checking",
        text="TLC checks that an implementation-shaped pipeline (command-mode lexing with keyword/blank rules, rearrange/split, dispatch) produces exactly the property's declarative "
             "meaning (word classes -> typed arguments, keyword-prefixed names are ordinary, stop never dispatched, unknown names are errors) for every command of a bounded family; "
             "every enumerated row in every spacing pattern is run on the real library with raw handlers recording the type of each argument; random longer commands are trace-validated.",
        design_ref="DESIGN.md section 6 (C17)",
        note="15 names, 20 word classes / 67 spellings, <= 2 (quick) / 3 (thorough) arguments exhaustively, 6 spacing patterns; text glued to {expr} without whitespace, names equal "
             "to keywords and arguments after stop are excluded (left open by the property).",
        technique="TLA+ refinement of the declarative command meaning (TLC) + exhaustive row replay + trace validation",
    ),
})

CHECKS.update({
    "C13": dict(
        category="model_checking",
        text="TLC checks, over every item sequence up to a bound, that the position arithmetic shaped like parseMarkup / buildAttributesFromMarkers equals the provenance meaning "
             "(an attribute covers exactly the output characters emitted between its open and close items, clipped to what survives the trim), text = items without markers, ranges "
             "inside the text; every enumerated line is concretised (ASCII, 2/3/4-byte characters, layout inside brackets) and replayed on ParseMarkup (Text, attribute multiset, typed "
             "properties, TextForAttribute); random long lines through ParseMarkup and through the runner (Line.Attributes) are trace-validated.",
        design_ref="DESIGN.md section 6 (C13), appendices D, E",
        note="<= 4 items after each of 4 starts over a 15 (thorough 24) item alphabet; same-name nesting, unclosed markers and ambiguous self-closing adjacency are not generated "
             "(appendix D); decimal property values compared with a tolerance.",
        technique="TLA+ equivalence of two formulations (TLC) + exhaustive enumeration replay + trace validation",
    ),
    "C14": dict(
        category="model_checking",
        text="TLC checks HistoryIndependent over all histories of <= 3 calls over 72 (136) lines including failing ones (the reset-less parser is caught); one reused LineParser against a "
             "fresh one per call, and dialogue runs reaching the same lines after different prefixes, are validated by a trace specification requiring every result (text, attributes "
             "incl. SourcePosition, TextForAttribute, error-ness) to equal the first one seen on a fresh parser.",
        design_ref="DESIGN.md section 6 (C14)",
        note="The code is compared against itself (fresh parser as reference), the specification states the requirement; absolute SourcePosition values are not pinned.",
        technique="TLA+ history-independence invariant (TLC) + differential trace validation",
    ),
    "C15": dict(
        category="model_checking",
        text="The markup model extended with malformed item sequences, edge whitespace (incl. NBSP, U+3000) and unclosed / stray markers keeps RangesInsideText (TLC); every model line plus "
             "token assemblies, marker-shaped fragments, mutated valid lines and random bytes incl. invalid UTF-8 run through ParseMarkup and TextForAttribute under recover with a watchdog, "
             "each event judged by a trace specification (no panic, no timeout, ranges non-negative and inside the text, counted in characters).",
        design_ref="DESIGN.md section 6 (C15)",
        note="Model checking for the item grammar; for arbitrary bytes only the safety invariants are decidable (exploration: inputs <= 64 bytes, mutated lines <= 128).",
        technique="TLA+ safety invariants (TLC) + trace validation of fuzzed inputs",
    ),
})

NOT_YET = "check not built yet in this session (work in progress; see DESIGN.md build order)"


def main():
    props = [json.loads(l)["id"] for l in open(os.path.join(VERIF, "properties.jsonl"))]
    checks = []
    for pid in props:
        if pid not in CHECKS:
            continue
        c = CHECKS[pid]
        checks.append({
            "property_id": pid,
            "quick_cmd": "python3 bin/check %s --tier quick" % pid,
            "thorough_cmd": "python3 bin/check %s --tier thorough" % pid,
            "evidence_file": "/verif/evidence/%s.json" % pid,
            "replay_cmd_template": "python3 bin/check %s --replay {path}" % pid,
            "engine": "tlc+verifh",
            "level_claimed": {"category": c["category"], "text": c["text"], "design_ref": c["design_ref"]},
            "level_note": c["note"],
            "technique": c["technique"],
        })
    na = [{"property_id": p, "reason": NOT_YET} for p in props if p not in CHECKS]
    man = {
        "version": 1,
        "setup_cmd": "python3 bin/setup",
        "hooks": {
            "guard": "verif",
            "enable": "go build -tags verif (the harness is overlaid into a scratch copy of /repo and built there)",
            "baseline_off_cmd": "cd /repo && GOFLAGS=-mod=mod GOPROXY=off GOSUMDB=off GOTOOLCHAIN=local go test -vet=off -count=1 ./...",
            "source_commits": [],
            "add_only": True,
        },
        "engines": [
            {"name": "tlc+verifh", "path": "/verif/bin/check",
             "serves_properties": sorted(CHECKS),
             "kind_free_text": "explicit TLA+ specifications (/verif/spec) checked with TLC; Go conformance harness (/verif/harness) overlaid into a scratch copy "
                               "of /repo: TLC-generated behaviours replayed on the real code and recorded traces validated by TLA+ trace specifications"},
        ],
        "checks": checks,
        "not_applicable": na,
        "notes": "Every check copies /repo's working tree to a scratch directory under /var/tmp, overlays /verif/harness, builds with -tags verif and removes the copy afterwards. "
                 "Exit 2 = machinery failure (never a verdict).",
    }
    with open(os.path.join(VERIF, "MANIFEST.json"), "w") as f:
        json.dump(man, f, indent=1)
        f.write("\n")


if __name__ == "__main__":
    main()
