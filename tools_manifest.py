#!/usr/bin/env python3
"""Regenerates MANIFEST.json from the table below (kept here so that the manifest stays
consistent with the checks that exist under checks/)."""
import json
import os

VERIF = os.path.dirname(os.path.abspath(__file__))

CHECKS = {
    "C20": dict(
        category="model_checking",
        text="TLC checks that the ring buffer transcribed from queue.go refines the abstract FIFO for every operation sequence across two growths, "
             "and the token-balance invariants of the indentation layer for every input up to a bound; every transition of the ring model's complete "
             "state graph and every stack history up to a length is replayed on the real containers, and recorded random histories / real lexer token "
             "streams are validated against the specifications.",
        design_ref="DESIGN.md section 6 (C20)",
        note="Bounds: MaxEnq 24 (quick) / 40 (thorough) enqueues, stack histories of length 6 / 8, lexer inputs sampled (generated, mutated, random bytes). "
             "Trusted: the transcription of queue.go into RingQueue.tla is bound to the code only through the replayed transitions; TLC; the harness's token abstraction.",
        technique="TLA+ refinement check (TLC) + state-graph edge-cover replay + trace validation",
    ),
}

NOT_YET = "check not built yet in this session (work in progress; see DESIGN.md build order)"


def main():
    props = [json.loads(l)["id"] for l in open(os.path.join(VERIF, "properties.jsonl"))]
    checks = []
    for pid in props:
        if pid not in CHECKS:
            continue
        c = CHECKS[pid]
        checks.append({
            "property_id": pid,
            "quick_cmd": "python3 bin/check %s --tier quick" % pid,
            "thorough_cmd": "python3 bin/check %s --tier thorough" % pid,
            "evidence_file": "/verif/evidence/%s.json" % pid,
            "replay_cmd_template": "python3 bin/check %s --replay {path}" % pid,
            "engine": "tlc+verifh",
            "level_claimed": {"category": c["category"], "text": c["text"], "design_ref": c["design_ref"]},
            "level_note": c["note"],
            "technique": c["technique"],
        })
    na = [{"property_id": p, "reason": NOT_YET} for p in props if p not in CHECKS]
    man = {
        "version": 1,
        "setup_cmd": "python3 bin/setup",
        "hooks": {
            "guard": "verif",
            "enable": "go build -tags verif (the harness is overlaid into a scratch copy of /repo and built there)",
            "baseline_off_cmd": "cd /repo && GOFLAGS=-mod=mod GOPROXY=off GOSUMDB=off GOTOOLCHAIN=local go test -vet=off -count=1 ./...",
            "source_commits": [],
            "add_only": True,
        },
        "engines": [
            {"name": "tlc+verifh", "path": "/verif/bin/check",
             "serves_properties": sorted(CHECKS),
             "kind_free_text": "explicit TLA+ specifications (/verif/spec) checked with TLC; Go conformance harness (/verif/harness) overlaid into a scratch copy "
                               "of /repo: TLC-generated behaviours replayed on the real code and recorded traces validated by TLA+ trace specifications"},
        ],
        "checks": checks,
        "not_applicable": na,
        "notes": "Every check copies /repo's working tree to a scratch directory under /var/tmp, overlays /verif/harness, builds with -tags verif and removes the copy afterwards. "
                 "Exit 2 = machinery failure (never a verdict).",
    }
    with open(os.path.join(VERIF, "MANIFEST.json"), "w") as f:
        json.dump(man, f, indent=1)
        f.write("\n")


if __name__ == "__main__":
    main()
