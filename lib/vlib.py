"""Common machinery for the /verif checks (python3, stdlib only).

A check is a python function `run(ctx)` registered per property id in
/verif/checks/<id>.py.  It uses the Ctx object below to

  * make a scratch copy of /repo's *working tree*, overlay the Go harness
    (/verif/harness) into it and build `verifh` with `-tags verif`,
  * run harness sub-commands (generators, recorders, replayers),
  * run TLC on the specifications of /verif/spec inside the scratch directory,
  * report violations (replay files + `VIOLATION` lines), known findings,
  * write /verif/evidence/<id>.json from measured numbers.

Exit codes: 0 = property held on everything explored, 1 = violation found on the
real code, 2 = the machinery itself failed (never a verdict on the code).
"""
import hashlib
import json
import os
import re
import shutil
import subprocess
import sys
import tempfile
import time

VERIF = os.path.dirname(os.path.dirname(os.path.abspath(__file__)))
REPO = os.environ.get("VERIF_REPO", "/repo")
SPEC = os.path.join(VERIF, "spec")
HARNESS = os.path.join(VERIF, "harness")
SCRATCH_ROOT = os.environ.get("VERIF_SCRATCH", "/var/tmp")
TLA_CP = "/opt/veriftools/tla/tla2tools.jar:/opt/veriftools/tla/CommunityModules-deps.jar"

GOENV = {
    "GOFLAGS": "-mod=mod",
    "GOPROXY": "off",
    "GOSUMDB": "off",
    "GOTOOLCHAIN": "local",
}


class MachineryError(Exception):
    """Something in the checking machinery failed: exit 2, never a violation."""


class TLCResult:
    """Result of one TLC run.  The output is kept in a file (it can be gigabytes of printed
    behaviours); `out` holds only the lines TLC itself wrote (no PrintT lines)."""

    def __init__(self, out_path, rc, wall):
        self.out_path = out_path
        self.rc = rc
        self.wall = wall
        keep = []
        with open(out_path, errors="replace") as f:
            for line in f:
                if not line.startswith('<<"'):
                    keep.append(line)
                    if len(keep) > 20000:
                        del keep[:10000]
        self.out = out = "".join(keep)
        self.generated = 0
        self.distinct = 0
        self.depth = 0
        m = None
        for m in re.finditer(r"(\d+) states generated, (\d+) distinct states found", out):
            pass
        if m:
            self.generated = int(m.group(1))
            self.distinct = int(m.group(2))
        m = re.search(r"The depth of the complete state graph search is (\d+)", out)
        if m:
            self.depth = int(m.group(1))
        self.violated = re.findall(r"Error: Invariant (\S+) is violated", out)
        self.violated += re.findall(r"Error: Action property (\S+) is violated", out)
        self.violated += re.findall(r"Error: Temporal properties were violated", out)
        self.errors = [l for l in out.splitlines() if l.startswith("Error:")]
        self.finished = ("Model checking completed" in out) or ("Finished in" in out)

    @property
    def ok(self):
        return self.rc == 0 and not self.errors

    def iter_printed(self, tag):
        """JSON texts printed by PrintT(<<tag, ToJson(x)>>), one at a time (not decoded)."""
        prefix = '<<"%s", ' % tag
        with open(self.out_path, errors="replace") as f:
            for line in f:
                if line.startswith(prefix):
                    line = line.rstrip("\n")
                    if line.endswith(">>"):
                        try:
                            yield json.loads(line[len(prefix):-2])
                        except Exception as e:  # pragma: no cover
                            raise MachineryError("cannot decode TLC output line: %r (%s)" % (line[:200], e))

    def printed(self, tag):
        """Decoded values (use printed_to_file for large outputs)."""
        return [json.loads(t) for t in self.iter_printed(tag)]

    def printed_to_file(self, tag, path, mode="w"):
        """Writes the printed JSON values as ndjson without holding them in memory; returns the count."""
        n = 0
        with open(path, mode) as f:
            for t in self.iter_printed(tag):
                f.write(t)
                f.write("\n")
                n += 1
        return n

    def tail(self, n=40):
        return "\n".join(self.out.splitlines()[-n:])


class Ctx:
    def __init__(self, prop, tier, seed, level, replay=None):
        self.prop = prop
        self.tier = tier
        self.seed = seed
        self.level = level
        self.replay = replay
        self.t0 = time.time()
        self.dir = tempfile.mkdtemp(prefix="verif-%s-" % prop, dir=SCRATCH_ROOT)
        self.repo_copy = None
        self.bins = {}
        self.violations = []
        self.known_hits = []
        self.coverage = {}
        self.assumptions = []
        self.tlc_runs = []
        self.n_tlc = 0
        self.notes = []
        self.concurrency_crashes = []    # Go runtime "concurrent map ..." reports from harness runs
        self._kf = None

    # ------------------------------------------------------------------ utils
    def log(self, *a):
        print("[%s %6.1fs]" % (self.prop, time.time() - self.t0), *a, flush=True)

    def path(self, *p):
        return os.path.join(self.dir, *p)

    def cleanup(self):
        if os.environ.get("VERIF_KEEP"):
            self.log("keeping scratch", self.dir)
            return
        shutil.rmtree(self.dir, ignore_errors=True)

    # ------------------------------------------------------------ repo + build
    def copy_repo(self):
        if self.repo_copy:
            return self.repo_copy
        dst = self.path("repo")
        subprocess.run(["rsync", "-a", "--exclude", ".git", REPO + "/", dst + "/"], check=True)
        # overlay harness
        shutil.copytree(os.path.join(HARNESS, "verifharness"), os.path.join(dst, "verifharness"))
        # development aid: VERIF_HARNESS_ONLY="core_,lexer" keeps only the harness files whose
        # name starts with one of the prefixes (plus main.go / containers.go), so that a
        # half-written file of another layer cannot break this layer's build
        only = os.environ.get("VERIF_HARNESS_ONLY")
        if only:
            prefixes = tuple(x for x in only.split(",") if x) + ("main.go", "containers.go")
            for f in os.listdir(os.path.join(dst, "verifharness")):
                if not f.startswith(prefixes):
                    os.remove(os.path.join(dst, "verifharness", f))
        os.makedirs(os.path.join(dst, "cmd"), exist_ok=True)
        shutil.copytree(os.path.join(HARNESS, "cmd", "verifh"), os.path.join(dst, "cmd", "verifh"))
        self.repo_copy = dst
        return dst

    def goenv(self):
        env = dict(os.environ)
        env.update(GOENV)
        return env

    def build(self, race=False):
        """Build the harness binary from /repo's current working tree (+ overlay)."""
        key = "race" if race else "plain"
        if key in self.bins:
            return self.bins[key]
        dst = self.copy_repo()
        out = self.path("verifh-" + key)
        cmd = ["go", "build", "-tags", "verif"]
        if race:
            cmd.append("-race")
        cmd += ["-o", out, "./cmd/verifh"]
        t = time.time()
        p = subprocess.run(cmd, cwd=dst, env=self.goenv(), stdout=subprocess.PIPE, stderr=subprocess.STDOUT, text=True)
        if p.returncode != 0:
            raise MachineryError("harness build failed (does /repo compile?):\n" + p.stdout[-4000:])
        self.log("built harness (%s) in %.1fs" % (key, time.time() - t))
        self.bins[key] = out
        return out

    def harness(self, args, race=False, timeout=600, stdin=None, check=True, env=None, cwd=None):
        """Run a harness sub-command.  Returns CompletedProcess (text)."""
        binp = self.build(race=race)
        e = self.goenv()
        e["VERIF_SEED"] = str(self.seed)
        if env:
            e.update(env)
        try:
            p = subprocess.run([binp] + [str(a) for a in args], cwd=cwd or self.dir, env=e, input=stdin,
                               stdout=subprocess.PIPE, stderr=subprocess.PIPE, text=True, timeout=timeout)
        except subprocess.TimeoutExpired:
            raise MachineryError("harness timed out: %s" % " ".join(map(str, args)))
        if p.returncode != 0 and "fatal error: concurrent map" in p.stderr and e.get("VERIF_WORKERS") != "1":
            # The harness drives independent runners from several goroutines; the Go runtime has killed it
            # because the LIBRARY shares a map between them (that is property C18's subject, which reports
            # it).  For this property the same work is redone by a single worker, so that its own verdict
            # is still reached.
            i = p.stderr.index("fatal error: concurrent map")
            self.concurrency_crashes.append(p.stderr[i:i + 1500])
            self.notes.append("the harness was killed by the Go runtime (%s) while driving independent runners in parallel; "
                              "`%s` was repeated with one worker" % (p.stderr[i:i + 60].splitlines()[0], " ".join(map(str, args[:2]))))
            return self.harness(args, race=race, timeout=timeout * 8, stdin=stdin, check=check,
                                env=dict(env or {}, VERIF_WORKERS="1"), cwd=cwd)
        if check and p.returncode != 0:
            raise MachineryError("harness %s failed rc=%d\nstdout: %s\nstderr: %s" % (
                " ".join(map(str, args)), p.returncode, p.stdout[-3000:], p.stderr[-3000:]))
        return p

    # -------------------------------------------------------------------- TLC
    def tlc(self, module, cfg=None, files=(), workers=1, timeout=900, simulate=None, depth=None,
            extra=(), heap=None, must_pass=True, deadlock=None, label=None):
        """Run TLC on /verif/spec/<module>.tla with config <cfg> inside a fresh directory.

        files: iterable of (name, path_or_None) data files to place next to the spec
               (a path is copied, None means the file already lives in the run dir).
        Returns TLCResult.  If must_pass, any TLC error raises MachineryError
        (a failing *model* is a machinery problem, not a verdict on the code)."""
        self.n_tlc += 1
        d = self.path("tlc%d" % self.n_tlc)
        os.makedirs(d)
        for f in os.listdir(SPEC):
            if f.endswith(".tla") or f.endswith(".cfg"):
                shutil.copy(os.path.join(SPEC, f), d)
        for name, src in files:
            if src is not None:
                shutil.copy(src, os.path.join(d, name))
        cfg = cfg or (module + ".cfg")
        os.makedirs(os.path.join(d, "jtmp"), exist_ok=True)
        # TLC unpacks its standard modules into java.io.tmpdir on every run: keep that inside the run dir
        jopts = ["-XX:+UseParallelGC", "-Xss64m", "-Djava.io.tmpdir=" + os.path.join(d, "jtmp")]
        # (the JVM's default maximum heap is a quarter of the RAM: too much when checks run side by side)
        jopts.append("-Xmx" + (heap or os.environ.get("VERIF_TLC_HEAP", "8g")))
        cmd = ["java"] + jopts + ["-cp", TLA_CP, "tlc2.TLC", "-metadir", os.path.join(d, "meta"),
                                   "-workers", str(workers), "-config", cfg]
        if simulate:
            cmd += ["-simulate", simulate]
        if depth:
            cmd += ["-depth", str(depth)]
        cmd += list(extra)
        cmd.append(module + ".tla")
        t = time.time()
        out_path = os.path.join(d, "tlc.out")
        rc = None
        with open(out_path, "w") as outf:
            try:
                p = subprocess.run(cmd, cwd=d, stdout=outf, stderr=subprocess.STDOUT, timeout=timeout,
                                   env=dict(os.environ, LC_ALL="C.UTF-8"))
                rc = p.returncode
            except subprocess.TimeoutExpired:
                rc = 124
        if rc == 124 and must_pass:
            raise MachineryError("TLC timed out after %ss on %s/%s\n%s" % (timeout, module, cfg, TLCResult(out_path, rc, 0).tail(20)))
        res = TLCResult(out_path, rc, time.time() - t)
        res.dir = d
        self.tlc_runs.append({"module": module, "cfg": cfg, "label": label or cfg, "generated": res.generated,
                              "distinct": res.distinct, "depth": res.depth, "wall_s": round(res.wall, 2),
                              "rc": rc})
        self.log("TLC %s/%s: %d generated, %d distinct, depth %d, rc=%d, %.1fs" % (
            module, cfg, res.generated, res.distinct, res.depth, rc, res.wall))
        if must_pass and not res.ok:
            raise MachineryError("TLC failed on %s/%s (model-level failure, not a verdict on the code):\n%s" % (
                module, cfg, res.tail(60)))
        return res

    # ---------------------------------------------------------- known findings
    def known_findings(self):
        if self._kf is None:
            p = os.path.join(VERIF, "known_findings.json")
            self._kf = json.load(open(p)) if os.path.exists(p) else {"known": [], "fixed": []}
        return [k for k in self._kf.get("known", []) if k.get("property") == self.prop]

    def match_known(self, signature):
        """signature: string naming the failing class (e.g. 'markup:nomarkup-close-by-name')."""
        for k in self.known_findings():
            if k.get("signature") == signature:
                return k
        return None

    # ------------------------------------------------------------- violations
    def violation(self, payload, what, signature=None):
        """Report a violation observed on the real code.

        payload: JSON-serialisable object with everything needed to re-run the case.
        signature: class of the failure, matched against known_findings.json."""
        if signature:
            k = self.match_known(signature)
            if k is not None:
                if signature not in [h[0] for h in self.known_hits]:
                    self.known_hits.append((signature, k.get("what", what)))
                return None
        blob = json.dumps(payload, sort_keys=True)
        h = hashlib.sha1(blob.encode()).hexdigest()[:12]
        d = os.path.join(VERIF, "replays", self.prop)
        os.makedirs(d, exist_ok=True)
        path = os.path.join(d, "%s.json" % h)
        with open(path, "w") as f:
            json.dump({"property": self.prop, "what": what, "signature": signature, "payload": payload}, f, indent=1)
        if len(self.violations) < 6:
            print("VIOLATION property=%s replay=%s" % (self.prop, path), flush=True)
            print("  what: %s" % what[:1500], flush=True)
        self.violations.append(path)
        return path

    # --------------------------------------------------------------- evidence
    def cover(self, **kw):
        for k, v in kw.items():
            if isinstance(v, int) and isinstance(self.coverage.get(k), int) and k not in ("exhaustive",):
                self.coverage[k] += v
            elif isinstance(v, list) and isinstance(self.coverage.get(k), list):
                self.coverage[k] = (self.coverage[k] + v)[:12]
            else:
                self.coverage[k] = v

    def write_evidence(self):
        if os.path.realpath(REPO) != "/repo":
            # a run against another tree (a mutant, an older commit) is not evidence about /repo
            self.log("VERIF_REPO=%s: evidence file not written" % REPO)
            return
        cov = dict(self.coverage)
        cov.setdefault("tlc_runs", self.tlc_runs)
        if self.tlc_runs:
            cov.setdefault("states", sum(r["distinct"] for r in self.tlc_runs))
            cov.setdefault("transitions", sum(r["generated"] for r in self.tlc_runs))
        cov.setdefault("known_findings_hit", [h[0] for h in self.known_hits])
        if self.notes:
            cov["notes"] = self.notes
        ev = {
            "property_id": self.prop,
            "tier": self.tier,
            "seed": int(self.seed),
            "level": self.level,
            "coverage": cov,
            "assumptions": self.assumptions,
            "wall_s": round(time.time() - self.t0, 2),
            "violations": len(self.violations),
        }
        os.makedirs(os.path.join(VERIF, "evidence"), exist_ok=True)
        with open(os.path.join(VERIF, "evidence", "%s.json" % self.prop), "w") as f:
            json.dump(ev, f, indent=1, sort_keys=True)
            f.write("\n")

    def finish(self):
        for sig, what in self.known_hits:
            print("KNOWN-FINDING: property=%s %s [%s]" % (self.prop, what, sig), flush=True)
        if not self.replay:      # a replay run re-checks one stored case; it is not evidence
            self.write_evidence()
        if self.violations:
            self.log("%d violation(s)" % len(self.violations))
            return 1
        self.log("OK: no violation" + ("" if self.replay else "; evidence written"))
        return 0


def read_ndjson_lines(path, indices):
    """The 0-based lines `indices` of an ndjson file, decoded: {index: value}."""
    want = set(indices)
    res = {}
    if not want:
        return res
    with open(path) as f:
        for i, line in enumerate(f):
            if i in want:
                res[i] = json.loads(line)
                if len(res) == len(want):
                    break
    return res


def read_ndjson(path):
    res = []
    with open(path) as f:
        for line in f:
            line = line.strip()
            if line:
                res.append(json.loads(line))
    return res


def write_ndjson(path, items):
    with open(path, "w") as f:
        for it in items:
            f.write(json.dumps(it, separators=(",", ":"), ensure_ascii=True))
            f.write("\n")


def main(argv, registry):
    import argparse
    import signal
    # a terminated check still removes its scratch directory (and its children: subprocess.run kills them on the way out)
    signal.signal(signal.SIGTERM, lambda *_: sys.exit(143))
    ap = argparse.ArgumentParser()
    ap.add_argument("prop")
    ap.add_argument("--tier", default=os.environ.get("VERIF_TIER", "quick"), choices=["quick", "thorough"])
    ap.add_argument("--replay", default=None)
    ap.add_argument("--seed", default=None)
    a = ap.parse_args(argv)
    seed = a.seed if a.seed is not None else os.environ.get("VERIF_SEED", "1")
    try:
        seed = int(seed)
    except ValueError:
        seed = int(hashlib.sha1(str(seed).encode()).hexdigest()[:8], 16)
    seed = seed % (2 ** 31)
    if a.prop not in registry:
        print("unknown property %s" % a.prop, file=sys.stderr)
        return 2
    level, fn = registry[a.prop]
    ctx = Ctx(a.prop, a.tier, seed, level, replay=a.replay)
    try:
        fn(ctx)
        rc = ctx.finish()
    except MachineryError as e:
        print("MACHINERY-ERROR property=%s: %s" % (a.prop, e), file=sys.stderr, flush=True)
        rc = 2
        if ctx.violations:
            # violations already established on the real code by an earlier stage stand; the stage that
            # broke afterwards (often as a consequence of the same defect) is reported above
            print("[%s] %d violation(s) were reported before a later stage of the check failed" % (a.prop, len(ctx.violations)), flush=True)
            rc = 1
    except Exception:
        import traceback
        traceback.print_exc()
        print("MACHINERY-ERROR property=%s: unexpected exception in the check driver" % a.prop, file=sys.stderr)
        rc = 2
    finally:
        ctx.cleanup()
    return rc


# ---------------------------------------------------------------- state graphs
def parse_dot(path):
    """Parse a TLC `-dump dot,actionlabels` file.

    Returns (init_ids, nodes, edges): nodes maps id -> {var: raw TLA value string},
    edges is a list of (src, dst, action_label)."""
    nodes, edges, inits = {}, [], []
    node_re = re.compile(r'^(-?\d+) \[label="(.*?)"(,|\])')
    edge_re = re.compile(r'^(-?\d+) -> (-?\d+) \[label="([^"]*)"')
    with open(path) as f:
        for line in f:
            m = edge_re.match(line)
            if m:
                edges.append((m.group(1), m.group(2), m.group(3)))
                continue
            m = node_re.match(line)
            if m:
                label = m.group(2).replace("\\\\", "\\")
                vals = {}
                for part in label.split("\\n"):
                    part = part.strip()
                    if part.startswith("/\\"):
                        part = part[2:].strip()
                    if " = " in part:
                        k, v = part.split(" = ", 1)
                        vals[k.strip()] = v.strip()
                nodes[m.group(1)] = vals
                if "style = filled" in line:
                    inits.append(m.group(1))
    return inits, nodes, edges


def edge_cover_walks(inits, edges, max_walk=400):
    """Walks from an initial state that together traverse every edge of the graph at
    least once (shortest path to an uncovered edge, then greedily along uncovered edges)."""
    from collections import defaultdict, deque
    out = defaultdict(list)
    for idx, (s, d, a) in enumerate(edges):
        out[s].append(idx)
    # BFS tree
    parent = {}
    dq = deque()
    for i in inits:
        parent[i] = None
        dq.append(i)
    while dq:
        u = dq.popleft()
        for idx in out[u]:
            v = edges[idx][1]
            if v not in parent:
                parent[v] = idx
                dq.append(v)
    covered = [False] * len(edges)
    walks = []
    for idx in range(len(edges)):
        if covered[idx] or edges[idx][0] not in parent:
            continue
        # path from init to the source of this edge
        path = []
        u = edges[idx][0]
        while parent[u] is not None:
            path.append(parent[u])
            u = edges[parent[u]][0]
        path.reverse()
        path.append(idx)
        for e in path:
            covered[e] = True
        # extend greedily along uncovered edges
        v = edges[idx][1]
        while len(path) < max_walk:
            nxt = [e for e in out[v] if not covered[e]]
            if not nxt:
                break
            e = nxt[0]
            covered[e] = True
            path.append(e)
            v = edges[e][1]
        walks.append(path)
    return walks
