SPECIFICATION Spec
CONSTANTS
  Runners <- MCRunners
  SeedOf <- MCSeedOf
  ScriptLen = 5
  MaxClock = 3
  Bug_SharedSource = FALSE
  Bug_TimeSeed = FALSE
INVARIANT SameSeedSameRun
PROPERTY NonInterference
CHECK_DEADLOCK FALSE
