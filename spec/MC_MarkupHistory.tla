-------------------------- MODULE MC_MarkupHistory --------------------------
(* Property C14 on the model: every history of at most MaxCalls ParseMarkup   *)
(* calls on ONE parser value, over all lines of at most two items of a small  *)
(* alphabet (valid lines, lines that fail: unterminated marker, stray close). *)
(* HistoryIndependent: the result of the last call - text, attributes,        *)
(* positions and the model's own source positions - is what the same machine  *)
(* produces for that line from its initial state.  With                       *)
(* Bug_NoResetSourcePosition = TRUE (the parser keeps its source position     *)
(* counter across calls) TLC must find a two-call counterexample.             *)
EXTENDS Markup, TLC

CONSTANTS MaxCalls,   \* calls per history
          Triples     \* also lines of three items (an open marker first)

VARIABLES p,     \* the parser value: fields that survive a call
          hist,  \* lines parsed so far
          last   \* result of the last call (<<>> before the first)
vars == <<p, hist, last>>

N1 == <<120>>
A == {[k |-> "ch", c |-> 121], [k |-> "ch", c |-> 32], [k |-> "ch", c |-> 233],
      [k |-> "open", name |-> N1, props |-> <<[n |-> <<112>>, v |-> [t |-> "int", i |-> 7]]>>, sh |-> FALSE],
      [k |-> "close", name |-> N1],
      [k |-> "self", name |-> <<20013>>, props |-> <<>>, sh |-> FALSE],
      [k |-> "nomarkup", raw |-> <<121, 91>>, close |-> "name"],
      [k |-> "mal", raw |-> <<91, 120>>]}
Lines == {<<a>> : a \in A} \cup {<<a, b>> : a \in A, b \in A}
         \cup (IF Triples THEN {<<a, b, c>> : a \in {x \in A : x.k = "open"}, b \in A, c \in A} ELSE {})

Init == p = ParserInit /\ hist = <<>> /\ last = <<>>
Next == /\ Len(hist) < MaxCalls
        /\ \E ln \in Lines : LET r == ParseOn(p, ln) IN
                              p' = r.p /\ hist' = Append(hist, ln) /\ last' = <<r.res>>
Spec == Init /\ [][Next]_vars

HistoryIndependent == hist # <<>> => last[1] = ParseOn(ParserInit, hist[Len(hist)]).res
\* the histories do contain failing lines and lines with attributes
SomeFail == ~(Len(hist) = 2 /\ ~ParseOn(ParserInit, hist[1]).res.ok /\ last[1].ok /\ last[1].attrs # <<>>)
=============================================================================
