SPECIFICATION Spec
CONSTANTS
  MaxArgs = 2
  PatsPerRow = 1
  Seed = 1
  Bug_SplitSpaceOnly = TRUE
  Bug_LiberalNumbers = FALSE
INVARIANTS NamesAreGeneric HandlerOnceWithArgs StopNeverDispatched UnknownIsError LexKeepsEverything
CHECK_DEADLOCK FALSE
