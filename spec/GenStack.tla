------------------------------ MODULE GenStack ------------------------------
(* Spec -> code: enumerates EVERY history of stack operations up to MaxLen    *)
(* and prints it with the results the abstract LIFO prescribes; `verifh       *)
(* containers replay` runs each one on container.Stack[int].                  *)
EXTENDS Containers, TLC, Json
CONSTANT MaxLen
VARIABLES s, hist, n
vars == <<s, hist, n>>

Init == s = <<>> /\ hist = <<>> /\ n = 0

Rec(op, a, r, s2) == [op |-> op, arg |-> a, arg2 |-> a + 100, res |-> r, size |-> Len(s2)]

Do(op, s2, r) == /\ Len(hist) < MaxLen
                 /\ s' = s2
                 /\ n' = n + 1
                 /\ hist' = Append(hist, Rec(op, n, r, s2))

Next == \/ Do("push", SPush(s, n), -1)
        \/ Do("pushall", SPushAll(s, <<n, n + 100>>), -1)
        \/ (s # <<>> /\ Do("pop", SPop(s), STop(s)))
        \/ (s # <<>> /\ Do("speek", s, STop(s)))
        \/ Do("clear", <<>>, -1)

Spec == Init /\ [][Next]_vars

\* LIFO stated on the model itself: what Pop returns is the most recent element
\* pushed and not yet popped or cleared (checked by TLC on every history)
RECURSIVE Replay(_, _)
Replay(h, i) == IF i = 0 THEN <<>>
                ELSE LET p == Replay(h, i - 1)  e == h[i] IN
                     CASE e.op = "push" -> Append(p, e.arg)
                       [] e.op = "pushall" -> p \o <<e.arg, e.arg2>>
                       [] e.op = "pop" -> SubSeq(p, 1, Len(p) - 1)
                       [] e.op = "clear" -> <<>>
                       [] OTHER -> p
HistoryConsistent == Replay(hist, Len(hist)) = s

Emit == (Len(hist) = MaxLen) => PrintT(<<"BEH", ToJson(hist)>>)
=============================================================================
