SPECIFICATION Spec
CONSTANTS
  JMax = 3
  KMax = 2
  NMax = 0
  Bug_IncIsCeil = FALSE
  Bug_IntegerIsFloor = TRUE
  Bug_DecIsFloor = FALSE
INVARIANTS ClosedFormsSatisfy Functional RoundPlaces
CHECK_DEADLOCK FALSE
