SPECIFICATION Spec
CONSTANTS
  MaxArgs = 2
  PatsPerRow = 1
  Seed = 1
  Bug_SplitSpaceOnly = FALSE
  Bug_LiberalNumbers = FALSE
INVARIANTS NamesAreGeneric HandlerOnceWithArgs StopNeverDispatched UnknownIsError LexKeepsEverything Emit
CHECK_DEADLOCK FALSE
