SPECIFICATION Spec
CONSTANTS
  Names = {"x", "y"}
  MaxOps = 3
  KeepsOldType = TRUE
  EmitBeh = FALSE
INVARIANTS StorerOneType Emit
CHECK_DEADLOCK FALSE
