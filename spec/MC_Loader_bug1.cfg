SPECIFICATION Spec
CONSTANTS
  MaxReaders = 3
  PerReaderOnly = FALSE
  Bug_IgnoreSyntaxErrors = TRUE
  Bug_NoNodeCheck = FALSE
  Bug_MixedPanics = FALSE
INVARIANTS TypeOK NoPanic WithinAllowed StartsAtFirst
PROPERTY Terminates
CHECK_DEADLOCK TRUE
