SPECIFICATION Spec
CONSTANTS
  Bug_SplitSpaceOnly = FALSE
  Bug_LiberalNumbers = FALSE
INVARIANT Done
CHECK_DEADLOCK FALSE
