SPECIFICATION Spec
CONSTANT MaxLen = 8
INVARIANTS HistoryConsistent Emit
CHECK_DEADLOCK FALSE
