SPECIFICATION Spec
CONSTANTS
  MaxEnq = 40
  Bug = "noreset"
INVARIANT Refines
CHECK_DEADLOCK FALSE
