------------------------------- MODULE YarnSem -------------------------------
(* Yarn's sequential semantics stated DECLARATIVELY, by structural recursion   *)
(* over the program (no continuation stack, no pending state): property C01    *)
(* as a definition.                                                            *)
(*                                                                            *)
(*   statements run once each in document order; an if-chain runs only the    *)
(*   body of its first true clause; choosing option i runs exactly that       *)
(*   option's body and then continues after the group; a jump abandons         *)
(*   everything pending and continues at the first statement of the target;   *)
(*   <<stop>> or running off the end of a node ends the dialogue.              *)
(*                                                                            *)
(* SemRun(p, ch, ce) = everything a dialogue over program p presents when the  *)
(* player's choices are ch (consumed one per option group) and the i-th        *)
(* command that is not complete on return eventually reports ce[i]             *)
(* (TRUE = error): the sequence of outputs, the probe / handler invocation     *)
(* logs and the storer writes.  A failing statement presents an error and the  *)
(* dialogue goes on with the next statement.  Module MC_Runner checks that     *)
(* the stack machine of YarnRunner presents exactly this for every program of  *)
(* the bounded family and every choice sequence and completion schedule.       *)
EXTENDS YarnRunner

\* x = [limit, store, visits, node, ch, ce, outs, fcalls, ccalls, writes, target]
\* limit: stop right after the limit-th output (-1 = run until a choice or a
\* completion is needed, or the dialogue ends)
X0(p, ch, ce, limit) == [limit |-> limit, store |-> InitStore(p), visits |-> [t \in Titles(p) |-> 0],
                  node |-> p.nodes[1].title, ch |-> ch, ce |-> ce,
                  outs |-> <<>>, fcalls |-> <<>>, ccalls |-> <<>>, writes |-> <<>>, target |-> ""]

SEnv(p, x) == [store |-> x.store, visits |-> x.visits, nodes |-> Titles(p),
               funcs |-> p.funcs, probes |-> Probes(p)]

\* (calls are logged; what host functions wrote through the storer meanwhile has happened)
SLog(x, log) == IF log = <<>> THEN x
                ELSE [x EXCEPT !.fcalls = @ \o log, !.store = EffStore(@, log, 1),
                               !.writes = @ \o EffWriteLog(x.store, log, 1)]
Out(x, o, log) == [SLog(x, log) EXCEPT !.outs = Append(@, o)]
ErrOut(x, log) == Out(x, [k |-> "error"], log)
Res(status, x) == [status |-> status, x |-> x]

RECURSIVE SemBody(_, _, _, _)
SemBody(p, b, pc, x) ==
  IF pc > Len(Body(p, b)) THEN Res("normal", x)
  ELSE LET stmt == Body(p, b)[pc]
           env == SEnv(p, x)
           Continue(y) == IF y.limit >= 0 /\ Len(y.outs) >= y.limit THEN Res("limit", y)
                          ELSE SemBody(p, b, pc + 1, y) IN
    CASE stmt.k = "line" ->
           LET t == Render(stmt.text, env) IN
           IF t.st = "oos" THEN Res("oos", x)
           ELSE IF t.st = "err" THEN Continue(ErrOut(x, t.log))
           ELSE Continue(Out(x, [k |-> "line", node |-> x.node, text |-> t.text, tags |-> stmt.tags], t.log))
      [] stmt.k = "opts" ->
           LET o == RenderOpts(stmt.opts, 1, env, [opts |-> <<>>, log |-> <<>>]) IN
           IF o.st = "oos" THEN Res("oos", x)
           ELSE IF o.st = "err" THEN Continue(ErrOut(x, o.log))
           ELSE LET x1 == Out(x, [k |-> "opts", node |-> x.node, opts |-> o.opts], o.log) IN
                IF x1.ch = <<>> THEN Res("need", x1)
                ELSE LET i == Head(x1.ch)
                         r == SemBody(p, stmt.opts[i + 1].body, 1, [x1 EXCEPT !.ch = Tail(@)])
                     IN IF r.status = "normal" THEN Continue(r.x) ELSE r
      [] stmt.k = "set" ->
           LET r == EvalValue(stmt.e, env) IN
           IF r.st = "oos" THEN Res("oos", x)
           ELSE IF r.st = "err" THEN Continue(ErrOut(x, r.log))
           ELSE LET x1 == SLog(x, r.log)
                    a == Assign(stmt.op, x1.store[stmt.var], r.v) IN
                IF a.st = "oos" THEN Res("oos", x)
                ELSE IF a.st = "err" THEN Continue(ErrOut(x, r.log))
                ELSE Continue([x1 EXCEPT !.store[stmt.var] = a.v,
                                         !.writes = Append(@, [var |-> stmt.var, val |-> a.v])])
      [] stmt.k = "if" ->
           LET r == FirstTrue(stmt.clauses, 1, env, <<>>) IN
           IF r.st = "oos" THEN Res("oos", x)
           ELSE IF r.st = "err" THEN Continue(ErrOut(x, r.log))
           ELSE IF r.idx = 0 THEN Continue(SLog(x, r.log))
           ELSE LET q == SemBody(p, stmt.clauses[r.idx].body, 1, SLog(x, r.log))
                IN IF q.status = "normal" THEN Continue(q.x) ELSE q
      [] stmt.k = "jump" ->
           LET r == EvalValue(stmt.e, env) IN
           IF r.st = "oos" THEN Res("oos", x)
           ELSE IF r.st = "err" \/ ~IsStr(r.v) \/ r.v.s \notin Titles(p) THEN Continue(ErrOut(x, r.log))
           ELSE LET cur == p.nodes[NodeIdx(p, x.node)] IN
                Res("jump", [SLog(x, r.log) EXCEPT !.target = r.v.s,
                                      !.visits = IF cur.tracking = "never" THEN @
                                                 ELSE [@ EXCEPT ![cur.title] = @ + 1]])
      [] stmt.k = "cmd" ->
           LET r == EvalElems(stmt.elems, 1, env, [vals |-> <<>>, log |-> <<>>]) IN
           IF r.st = "oos" THEN Res("oos", x)
           ELSE IF r.st = "err" \/ Len(r.vals) = 0 \/ ~IsStr(r.vals[1]) THEN Continue(ErrOut(x, r.log))
           ELSE LET name == r.vals[1].s
                    x1 == SLog(x, r.log) IN
                IF name = "stop" THEN Res("stop", x1)
                ELSE IF name \notin DOMAIN p.cmds THEN Continue(ErrOut(x1, <<>>))
                ELSE LET x2 == [x1 EXCEPT !.ccalls = Append(@, [name |-> name, args |-> SubSeq(r.vals, 2, Len(r.vals))])]
                         kind == p.cmds[name] IN
                     CASE kind = "done" -> Continue(x2)
                       [] kind = "fail" -> Continue(ErrOut(x2, <<>>))
                       [] kind = "pend" ->
                            IF x2.ce = <<>> THEN Res("need", x2)     \* completion not reported yet
                            ELSE IF Head(x2.ce) THEN Continue(ErrOut([x2 EXCEPT !.ce = Tail(@)], <<>>))
                            ELSE Continue([x2 EXCEPT !.ce = Tail(@)])
                       [] kind = "pendq" ->
                            IF Len(r.vals) # 2 \/ ~IsNum(r.vals[2]) THEN Continue(ErrOut(x1, <<>>))
                            ELSE IF x1.ce = <<>> THEN Res("need", x1)
                            ELSE IF Head(x1.ce) THEN Continue(ErrOut([x1 EXCEPT !.ce = Tail(@)], <<>>))
                            ELSE Continue([x1 EXCEPT !.ce = Tail(@)])
                       [] OTHER -> Continue(ErrOut(x1, <<>>))
      [] stmt.k = "call" ->
           LET r == Eval(stmt.e, env) IN
           IF r.st = "oos" THEN Res("oos", x)
           ELSE IF r.st = "err" THEN Continue(ErrOut(x, r.log))
           ELSE Continue(SLog(x, r.log))

RECURSIVE SemNode(_, _, _, _)
SemNode(p, title, x, fuel) ==
  LET r == SemBody(p, p.nodes[NodeIdx(p, title)].body, 1, [x EXCEPT !.node = title]) IN
  CASE r.status \in {"normal", "stop"} -> Res("end", [r.x EXCEPT !.outs = Append(@, [k |-> "end"])])
    [] r.status = "jump" -> IF fuel = 0 THEN Res("oos", r.x) ELSE SemNode(p, r.x.target, r.x, fuel - 1)
    [] OTHER -> r

SemRun(p, ch, ce, limit) == SemNode(p, p.nodes[1].title, X0(p, ch, ce, limit), 50)
=============================================================================
