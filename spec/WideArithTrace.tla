--------------------------- MODULE WideArithTrace ---------------------------
(* Code -> spec for property C02 outside the window of exact rationals:       *)
(* "arithmetic on numbers as IEEE-754 doubles with % as floating remainder,   *)
(* ordering comparisons on numbers, equality on same-typed operands".         *)
(*                                                                            *)
(* TLC has no floating point numbers; a double crosses the boundary as the    *)
(* token of its bit pattern ("f" + 16 hex digits, "nan" for every NaN), a     *)
(* boolean as "true"/"false".  trace.ndjson, one event per evaluation:        *)
(*   [id, op, form |-> "var"|"lit", a, b, src, exp, alt, got]                 *)
(* `exp` is what the operator table prescribes for the operands a and b,      *)
(* computed by the harness with the host language's IEEE-754 arithmetic;      *)
(* `got` is what the library stored for <<set $r = a op b>> ("err": nothing). *)
(* The specification is the operator table read as a relation on tokens:      *)
(* the stored value IS the prescribed one, bit for bit (-0 is not 0).         *)
EXTENDS Integers, Sequences, TLC, Json

Trace == ndJsonDeserialize("trace.ndjson")

VARIABLES l, bad, nchk
vars == <<l, bad, nchk>>

Ops == {"add", "sub", "mul", "div", "mod", "lt", "le", "gt", "ge", "eq", "ne", "neg", "strset", "strdecl", "strapp", "disp"}
\* "disp" (C04): a double shown in a line; `got` is the token of the shown text read back as a decimal (signed
\* zeros alike), or "unparsable", or "haspoint" when an integral number was shown with a decimal point
Arith == {"add", "sub", "mul", "div", "mod", "neg", "disp"}
\* string literals with escapes (C03: set / declare / += store the literal's value): tokens "s" + hex of the
\* bytes; `alt` is the second reading of such a literal (escapes resolved) - either is the literal's value
StrOps == {"strset", "strdecl", "strapp"}
IsStrTok(t) == Len(t) >= 1 /\ SubSeq(t, 1, 1) = "s"
IsNumTok(t) == t = "nan" \/ (Len(t) = 17 /\ SubSeq(t, 1, 1) = "f")
IsBoolTok(t) == t \in {"true", "false"}

Init == l = 1 /\ bad = <<>> /\ nchk = 0

Step ==
  /\ l <= Len(Trace)
  /\ l' = l + 1
  /\ LET e == Trace[l]
         typed == IF e.op \in Arith THEN IsNumTok(e.exp) ELSE IF e.op \in StrOps THEN IsStrTok(e.exp) ELSE IsBoolTok(e.exp)
         what == IF e.op \notin Ops \/ ~typed THEN "malformed-event"     \* a mistake of the harness
                 ELSE IF e.got = e.exp \/ (e.alt # "" /\ e.got = e.alt) THEN "ok"
                 ELSE IF e.got \in {"err", "norun", "loaderror"} THEN "no-value"
                 ELSE IF e.op \in StrOps THEN (IF IsStrTok(e.got) THEN "wrong-value" ELSE "wrong-type")
                 ELSE IF (e.op \in Arith) # IsNumTok(e.got) THEN "wrong-type"
                 ELSE "wrong-value"
     IN /\ nchk' = nchk + 1
        /\ bad' = IF what = "ok" \/ Len(bad) >= 200 THEN bad
                  ELSE Append(bad, [line |-> l, id |-> e.id, op |-> e.op, what |-> what])

Spec == Init /\ [][Step]_vars

Done == (l = Len(Trace) + 1) =>
          PrintT(<<"RESULT", ToJson([bad |-> bad, checked |-> nchk, lines |-> l - 1])>>)
Accepted == TLCGet("stats").diameter - 1 = Len(Trace)
=============================================================================
