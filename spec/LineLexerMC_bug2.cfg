SPECIFICATION Spec
CONSTANTS
  MaxLen = 2
  FullLen = 2
  MaxOpts = 1
  Seed = 1
  Bug_LoneLtDropped = FALSE
  Bug_NoPopAfterTag = TRUE
INVARIANTS ModesWellFormed BackToBody TrailingNeverText InOrder MeetsDeclarative StepIsLexLine GroupKeepsOrder
CHECK_DEADLOCK FALSE
