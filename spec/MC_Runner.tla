------------------------------ MODULE MC_Runner ------------------------------
(* Exhaustive exploration of the runner machine over the programs of           *)
(* cases.ndjson: every choice sequence, every completion schedule of pending   *)
(* commands (not yet / done / done with error at each poll), host writes to    *)
(* the storer between calls, and further calls after the end.  One TLC state   *)
(* per public call (the library is sequential: the environment can only act    *)
(* between calls).  The history of calls with the results the specification    *)
(* prescribes is part of the state; it is what the properties are stated over, *)
(* and every maximal history is printed for replay on the real code.           *)
EXTENDS YarnSem, Json, FiniteSets

CONSTANTS MaxCalls,     \* bound on the number of Next calls per behaviour
          MaxPolls,     \* bound on consecutive polls answered "waiting"
          AfterEnd,     \* number of further calls explored after the end
          HostWrites,   \* TRUE: the host may write HostVals into case variables
          MaxHostSets,
          EmitBeh,      \* TRUE: print maximal behaviours for replay
          MaxSnaps,     \* snapshots taken per behaviour (at any point of the run)
          MaxRestores,  \* restores per behaviour (into the runner in any state)
          MaxRebinds    \* registrations made by the host between calls, per behaviour

Cases == ndJsonDeserialize("cases.ndjson")

VARIABLES c, s, hist,
          snaps     \* snapshots taken so far: <<[snap, eproj]>>; eproj = what the runner was at that node entry
vars == <<c, s, hist, snaps>>

P == Cases[c]

Init == /\ c \in 1..Len(Cases)
        /\ s = InitRunner(Cases[c])
        /\ hist = <<>>
        /\ snaps = <<>>

IsNext(h) == h.ev = "next"
Calls == SelectSeq(hist, IsNext)
NCalls == Len(Calls)
IsHostSet(h) == h.ev = "hostset"
NHost == Len(SelectSeq(hist, IsHostSet))
IsRestore(h) == h.ev = "restore"
NRestores == Len(SelectSeq(hist, IsRestore))
IsRebind(h) == h.ev = "rebind"
NRebinds == Len(SelectSeq(hist, IsRebind))
IsOos == s.out.k = "oos"

\* calls made after the first reported end
RECURSIVE CountTrailingEnds(_, _)
CountTrailingEnds(q, n) == IF n = 0 \/ q[n].ev # "next" \/ q[n].out.k # "end" THEN 0
                           ELSE 1 + CountTrailingEnds(q, n - 1)
EndsSeen == CountTrailingEnds(hist, Len(hist))
RECURSIVE TrailingWaits(_, _)
TrailingWaits(q, n) == IF n = 0 \/ q[n].out.k # "waiting" THEN 0 ELSE 1 + TrailingWaits(q, n - 1)

MayCall == ~IsOos /\ NCalls < MaxCalls /\ EndsSeen <= AfterEnd

VarsOf(st) == [i \in DOMAIN P.vars |-> st.store[P.vars[i]]]
VisitsOf(st) == [i \in DOMAIN P.nodes |-> st.visits[P.nodes[i].title]]

DoCall(in) ==
  LET t == Big(P, s, in) IN
  /\ s' = t
  /\ hist' = Append(hist, [ev |-> "next", in |-> in,
                           used |-> (s.wait # <<>> /\ ~s.ended /\ s.cmd.st = "none"),
                           pend |-> (s.cmd.st = "run"),
                           out |-> t.out, writes |-> t.writes, fcalls |-> t.fcalls, ccalls |-> t.ccalls,
                           vars |-> VarsOf(t), visits |-> VisitsOf(t)])
  /\ c' = c /\ snaps' = snaps

CallAct ==
  /\ MayCall
  /\ IF s.cmd.st = "run"
     THEN \/ (TrailingWaits(Calls, NCalls) <= MaxPolls /\ DoCall(In(0)))   \* not complete yet
          \/ DoCall(InDone(0, FALSE))
          \/ DoCall(InDone(0, TRUE))
     ELSE IF s.wait # <<>> /\ ~s.ended
          THEN \E ch \in 0..(NOpts(P, s) - 1) : DoCall(In(ch))
          ELSE DoCall(In(0))

HostVals == {IntV(7), Bool(TRUE), Str("h")}
HostAct ==
  /\ HostWrites /\ ~IsOos /\ NHost < MaxHostSets /\ NCalls < MaxCalls /\ ~s.ended
  /\ \E i \in DOMAIN P.vars, v \in HostVals :
       /\ s' = HostSet(s, P.vars[i], v)
       /\ hist' = Append(hist, [ev |-> "hostset", var |-> P.vars[i], val |-> v])
  /\ c' = c /\ snaps' = snaps

\* ---- snapshots (C07): taken at any point, restored into the runner in any state
SnapArrOf(sn) == [node |-> sn.node, vars |-> [i \in DOMAIN P.vars |-> sn.vars[P.vars[i]]],
                  visits |-> [i \in DOMAIN P.nodes |-> sn.visits[P.nodes[i].title]], extra |-> 0]
SnapAct ==
  /\ ~IsOos /\ Len(snaps) < MaxSnaps /\ NCalls < MaxCalls
  /\ snaps' = Append(snaps, [snap |-> Snapshot(s), eproj |-> s.eproj])
  /\ hist' = Append(hist, [ev |-> "snap", h |-> Len(snaps) + 1, snap |-> SnapArrOf(Snapshot(s))])
  /\ UNCHANGED <<c, s>>
\* a snapshot the host wrote by hand joins the snapshots that can be restored (at most one per behaviour)
IsSnapHand(h) == h.ev = "snaphand"
SnapHandAct ==
  /\ ~IsOos /\ MaxRestores > 0 /\ Len(snaps) < MaxSnaps /\ NCalls < MaxCalls /\ SelectSeq(hist, IsSnapHand) = <<>>
  /\ \E i \in DOMAIN P.nodes :
       LET t == P.nodes[i].title  sn == HandSnap(P, t) IN
       /\ snaps' = Append(snaps, [snap |-> sn, eproj |-> EntryProj(P, t, sn.vars, sn.visits)])
       /\ hist' = Append(hist, [ev |-> "snaphand", h |-> Len(snaps) + 1, node |-> t])
  /\ UNCHANGED <<c, s>>
RestoreAct ==
  /\ ~IsOos /\ NRestores < MaxRestores /\ NCalls < MaxCalls
  /\ \E h \in DOMAIN snaps :
       /\ s' = Restore(P, s, snaps[h].snap)
       /\ hist' = Append(hist, [ev |-> "restore", h |-> h, ok |-> RestoreOk(P, snaps[h].snap)])
  /\ UNCHANGED <<c, snaps>>

\* ---- registrations between calls: a name that was unknown becomes known, a known one is replaced
\* (the registrations explored for a program are listed in the case: names its script uses)
Registered(st, b) == LET m == IF b.what = "f" THEN st.funcs ELSE st.cmds IN b.name \in DOMAIN m /\ m[b.name] = b.kind
RebindAct ==
  /\ ~IsOos /\ NRebinds < MaxRebinds /\ NCalls < MaxCalls /\ ~s.ended
  /\ \E k \in DOMAIN P.rebinds : LET b == P.rebinds[k] IN
       /\ ~Registered(s, b)
       /\ s' = Rebind(s, b.what, b.name, b.kind)
       /\ hist' = Append(hist, [ev |-> "rebind", what |-> b.what, name |-> b.name, kind |-> b.kind])
  /\ UNCHANGED <<c, snaps>>

Next == CallAct \/ HostAct \/ SnapAct \/ SnapHandAct \/ RestoreAct \/ RebindAct
Spec == Init /\ [][Next]_vars

\* ------------------------------------------------------ C01: refinement of Sem
IsUsed(h) == h.used
IsCompletion(h) == h.pend /\ h.in.done
Presented(h) == h.out.k # "waiting"
Choices == [i \in DOMAIN SelectSeq(Calls, IsUsed) |-> SelectSeq(Calls, IsUsed)[i].in.choice]
CmdErrs == [i \in DOMAIN SelectSeq(Calls, IsCompletion) |-> SelectSeq(Calls, IsCompletion)[i].in.err]
RECURSIVE UpToFirstEnd(_, _)
UpToFirstEnd(q, i) == IF i > Len(q) THEN q
                      ELSE IF q[i].out.k = "end" THEN SubSeq(q, 1, i) ELSE UpToFirstEnd(q, i + 1)
Shown == LET q == UpToFirstEnd(SelectSeq(Calls, Presented), 1) IN [i \in DOMAIN q |-> q[i].out]
RECURSIVE Flat(_, _, _)
Flat(q, i, f) == IF i > Len(q) THEN <<>> ELSE q[i][f] \o Flat(q, i + 1, f)

\* Every program, every choice sequence, every completion schedule: the machine
\* presents exactly what the declarative semantics prescribes (no host writes).
FlowRefinesSem ==
  (NHost = 0 /\ NRestores = 0 /\ NRebinds = 0 /\ ~IsOos /\ NCalls > 0) =>
    \* the machine has presented Len(Shown) outputs; while a command is pending it
    \* has also executed everything up to that command
    LET m == SemRun(P, Choices, CmdErrs, IF s.cmd.st = "run" THEN -1 ELSE Len(Shown)) IN
    m.status = "oos" \/
      /\ Shown = m.x.outs
      /\ Flat(Calls, 1, "fcalls") = m.x.fcalls
      /\ Flat(Calls, 1, "ccalls") = m.x.ccalls      \* every executed command: handler once, with its args (C10)
      /\ Flat(Calls, 1, "writes") = m.x.writes
      /\ (m.status = "end") = s.ended
      /\ (m.status = "need") = (s.cmd.st = "run" \/ s.wait # <<>>)
      /\ m.x.store = s.store /\ m.x.visits = s.visits /\ (s.ended \/ m.x.node = s.node)

\* the argument of Next has no effect unless an option group is pending
NextArgIgnored ==
  (~IsOos /\ (s.wait = <<>> \/ s.ended \/ s.cmd.st = "run")) =>
     /\ Big(P, s, In(-1)) = Big(P, s, In(0))
     /\ Big(P, s, In(7)) = Big(P, s, In(0))

\* frames refer to existing bodies and positions
StackDiscipline ==
  \A i \in DOMAIN s.stack : s.stack[i].pc >= 1 /\ s.stack[i].pc <= Len(Body(P, s.stack[i].b)) + 1

\* ------------------------------------------------------ C12: end is absorbing
Quiet(t) == t.writes = <<>> /\ t.fcalls = <<>> /\ t.ccalls = <<>>
EndAbsorbing ==
  (s.ended /\ ~IsOos) =>
     \A a \in {-1, 0, 1, 2, 7} :
        LET t == Big(P, s, In(a)) IN t.out.k = "end" /\ Proj(t) = Proj(s) /\ Quiet(t)
EndReportedOnlyWhenEnded == (NCalls > 0 /\ Calls[NCalls].out.k = "end") => s.ended

\* ------------------------------------------------- C10: pending commands
PendingNextIsNoOp ==
  (s.cmd.st = "run" /\ ~IsOos) =>
     \A a \in {-1, 0, 3} :
        LET t == Big(P, s, In(a)) IN t.out.k = "waiting" /\ Proj(t) = Proj(s) /\ Quiet(t)
\* once completion is visible Next never answers "waiting" for that command
DoneNeverWaits ==
  (s.cmd.st = "run" /\ ~IsOos) =>
     /\ Big(P, s, InDone(0, FALSE)).out.k # "waiting" \/ Big(P, s, InDone(0, FALSE)).ccalls # <<>>
     /\ Big(P, s, InDone(0, TRUE)).out.k = "error"
     /\ Big(P, s, InDone(0, TRUE)).cmd.st = "none"
WaitingOnlyWhilePending == (NCalls > 0 /\ Calls[NCalls].out.k = "waiting") => s.cmd.st = "run"

\* ------------------------------------------------------------ C03: variables
\* (action properties over the machine state itself)
IsHostStep == Len(hist') = Len(hist) + 1 /\ hist'[Len(hist')].ev # "next"   \* host write, snapshot or restore
TypeStable == [][IsHostStep \/ \A v \in DOMAIN s.store :
                    s.store[v].t # "u" => s'.store[v].t = s.store[v].t]_vars
\* One Next call may run several statements, so "a failing statement leaves every
\* variable as it was" reads, at the granularity of calls: the store after the call is
\* the store before it with exactly the logged writes applied in order - a failing
\* statement logs no write, hence changes nothing (and the refinement of YarnSem
\* fixes WHICH writes are logged: one per successful assignment, none for a failing one).
RECURSIVE ApplyWrites(_, _, _)
ApplyWrites(st, w, i) == IF i > Len(w) THEN st
                         ELSE ApplyWrites([st EXCEPT ![w[i].var] = w[i].val], w, i + 1)
FailedStepFrozen == [][~IsHostStep => s'.store = ApplyWrites(s.store, s'.writes, 1)]_vars
\* the statement executed next, on its own: if it fails the store is untouched
NextStatementFrozen ==
  (~IsOos /\ ~s.ended /\ s.cmd.st = "none" /\ s.wait = <<>>) =>
     \* (what host functions called by the failing statement wrote through the storer is the host's doing)
     LET t == Step(P, [s EXCEPT !.mode = "run", !.out = NoOut, !.fcalls = <<>>]) IN
     t.out.k = "error" => t.store = EffStore(s.store, t.fcalls, 1)
WritesExplainStore ==   \* the store changes only through the logged writes
  [][~IsHostStep => \A v \in DOMAIN s.store :
        s'.store[v] # s.store[v] => \E i \in DOMAIN s'.writes : s'.writes[i].var = v]_vars
ReadsSeeHostWrites ==   \* by construction of Env; stated for documentation
  \A v \in DOMAIN s.store : Env(P, s).store[v] = s.store[v]

\* --------------------------------------------------------------- C11: visits
CountIsJumpsOut ==
  \A i \in DOMAIN P.nodes :
     LET n == P.nodes[i] IN
     s.visits[n.title] = IF n.tracking = "never" THEN 0 ELSE s.jout[n.title]
VisitedIffPositive ==
  ~IsOos => \A i \in DOMAIN P.nodes :
     LET t == P.nodes[i].title
         ev == Eval([k |-> "call", fn |-> "visited", args |-> <<[k |-> "str", s |-> t]>>], Env(P, s))
         ec == Eval([k |-> "call", fn |-> "visited_count", args |-> <<[k |-> "str", s |-> t]>>], Env(P, s))
     IN ev.v = Bool(s.visits[t] > 0) /\ ec.v = IntV(s.visits[t])
UnknownIsZero ==
  LET ev == Eval([k |-> "call", fn |-> "visited", args |-> <<[k |-> "str", s |-> "no such node"]>>], Env(P, s))
      ec == Eval([k |-> "call", fn |-> "visited_count", args |-> <<[k |-> "str", s |-> "no such node"]>>], Env(P, s))
  IN ev.v = Bool(FALSE) /\ ec.v = IntV(0)
VisitsMonotone == [][\A t \in DOMAIN s.visits : s'.visits[t] >= s.visits[t]]_vars
OnlyJumpsChangeVisits ==
  [][\A t \in DOMAIN s.visits : s'.visits[t] - s.visits[t] = s'.jout[t] - s.jout[t] \/ s'.visits[t] = s.visits[t]]_vars

\* ------------------------------------------------------------ C07: snapshots
IsRestoreStep == Len(hist') = Len(hist) + 1 /\ hist'[Len(hist')].ev = "restore"
\* restoring makes the runner exactly what the original was at that node entry: the machine is
\* deterministic in Proj, so equal projections give equal futures for every choice sequence
RestoreResumes == [][IsRestoreStep => Proj(s') = snaps[hist'[Len(hist')].h].eproj]_vars
\* ... and an immediately taken snapshot equals the restored one
ResnapshotEqual == [][IsRestoreStep => Snapshot(s') = snaps[hist'[Len(hist')].h].snap]_vars
\* a snapshot is a value: nothing done afterwards changes it
SnapshotsImmutable == [][\A i \in DOMAIN snaps : snaps'[i] = snaps[i]]_vars
\* restoring a snapshot that names an unknown node fails and changes nothing
UnknownNodeChangesNothing ==
  LET bogus == [vars |-> s.store, node |-> "no such node", visits |-> s.visits] IN
  ~RestoreOk(P, bogus) /\ Restore(P, s, bogus) = s
\* a snapshot taken right at a node entry restores to exactly the present state
SnapshotAtEntryIsIdentity ==
  (~IsOos /\ Proj(s) = s.eproj) => Proj(Restore(P, s, Snapshot(s))) = Proj(s)

\* ------------------------------------------------------------------ emission
Leaf == IsOos \/ NCalls >= MaxCalls \/ EndsSeen > AfterEnd
\* (a behaviour that leaves the modelled window is printed too: its last step expects "oos",
\*  i.e. no verdict except that the library must not panic there or afterwards)
Emit == (EmitBeh /\ Leaf) => PrintT(<<"BEH", ToJson([case |-> P.id, steps |-> hist])>>)
=============================================================================
