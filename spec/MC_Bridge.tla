------------------------------ MODULE MC_Bridge ------------------------------
(* Property C16, model level + spec -> code.                                  *)
(* Enumerates rows (signature, argument list, what the probe returns) of the   *)
(* host-bridge table, checks AcceptedIsTotal on the implementation-shaped     *)
(* formulation for every row, and prints every row with the outcome the table  *)
(* prescribes; `verifh bridge replay` runs each row on the real library.       *)
(*                                                                            *)
(* The full cross product of the property's quantifier (32 parameter types,   *)
(* 0-3 parameters + variadic tail, all result lists, 121 argument lists) has  *)
(* more than 10^9 rows.  Converters are chosen per parameter position, result *)
(* handling only reads the result list, the arity rule only reads the counts: *)
(* the enumeration is therefore pruned into families that each cross the      *)
(* dimensions that interact:                                                  *)
(*   NonFn : every non-function value x both registration calls               *)
(*   Reg   : every parameter type (alone, also as variadic element) x every   *)
(*           result list x both APIs, called with one matching argument list  *)
(*   Call  : every parameter list over PTcall up to MaxP (+ variadic tail)    *)
(*           x EVERY argument list up to MaxA x both APIs; the result list    *)
(*           and the probe's return rotate with the row                       *)
(*   Call3 : three fixed parameters over PT3 x every argument list            *)
(* PTcall / PT3 / MaxP / MaxA are the tier's bounds (configs MC_Bridge*.cfg). *)
EXTENDS HostBridge, TLC, Json

CONSTANTS PTcall, PT3, MaxP, MaxA, Emit

VARIABLES row
vars == <<row>>

Apis == {"func", "cmd"}
SeqsOf(S, lo, hi) == UNION {[1..n -> S] : n \in lo..hi}
ArgLists == SeqsOf({"n", "b", "s"}, 0, MaxA)

MkSig(a, sh, x, ps, v, rs) == [api |-> a, shape |-> sh, nf |-> x, params |-> ps, variadic |-> v, results |-> rs]

\* every result list of interest (accepted shapes, U, and the refusals of appendix H)
RL == {<<>>}
      \cup {<<t>> : t \in (ParamTypes \ {"errorp"}) \cup ResultOnly}   \* "errorp" is `error` as a parameter
      \cup {<<t, "error">> : t \in ValueTypes \cup TU \cup {"error", "struct", "chanerr"}}
      \cup {<<"int", "errval">>, <<"MyString", "errptr">>, <<"float64", "errptr">>, <<"errval", "error">>}
      \cup {<<"int", "int">>, <<"error", "int">>, <<"int", "string">>, <<"int", "chanerr">>, <<"error", "error">>}
      \cup {<<"int", "error", "error">>, <<"int", "int", "error">>, <<"error", "error", "error">>}

\* result lists the Call families rotate through (all accepted shapes)
RotF == << <<>>, <<"float64">>, <<"error">>, <<"MyString", "error">>, <<"int8">>, <<"bool", "error">>, <<"MyInt">>, <<"float32", "error">> >>
RotC == << <<>>, <<"error">>, <<"chanerr">>, <<"rchanerr">> >>

Count(args, c) == Cardinality({i \in 1..Len(args) : args[i] = c})
Hash(ps, args) == Len(ps) * 5 + Len(args) * 3 + Count(args, "n") + 2 * Count(args, "b")
                  + Cardinality({i \in 1..Len(ps) : Class(ps[i]) \in {"I", "S"}})
RotRes(a, ps, args) == IF a = "func" THEN RotF[(Hash(ps, args) % Len(RotF)) + 1]
                       ELSE RotC[(Hash(ps, args) % Len(RotC)) + 1]
RotRet(ps, args) == IF ((Hash(ps, args) \div 2) + Len(args)) % 3 = 0 THEN "err" ELSE "nil"

\* one argument list that matches the signature (variadic tail: two elements)
Matching(sig) ==
  LET n == Len(sig.params) IN
  IF sig.variadic THEN [i \in 1..(n + 1) |-> YarnClass(ParamAt(sig, i))]
  ELSE [i \in 1..n |-> YarnClass(sig.params[i])]
HasErrPart(sig) == ResultShape(sig.api, sig.results) \in {"error", "valueerror", "chan"}

FamNonFn == {[sig |-> MkSig(a, "nil", "", <<>>, FALSE, <<>>), args |-> <<>>, ret |-> "nil"] : a \in Apis}
            \cup {[sig |-> MkSig(a, "nonfunc", x, <<>>, FALSE, <<>>), args |-> <<>>, ret |-> "nil"] : a \in Apis, x \in NonFuncs}

RegSigs == {MkSig(a, "fn", "", ps, v, rs) : a \in Apis, ps \in SeqsOf(ParamTypes, 0, 1), v \in BOOLEAN, rs \in RL}
FamReg == {[sig |-> s, args |-> (IF Register(s) = "refused" THEN <<>> ELSE Matching(s)), ret |-> r] :
             s \in {x \in RegSigs : x.variadic => Len(x.params) = 1}, r \in {"nil", "err"}}

CallParamLists == {[ps |-> ps, v |-> FALSE] : ps \in SeqsOf(PTcall, 0, MaxP)}
                  \cup {[ps |-> ps, v |-> TRUE] : ps \in SeqsOf(PTcall, 1, MaxP + 1)}
                  \cup {[ps |-> ps, v |-> FALSE] : ps \in [1..3 -> PT3]}

IsRow(r) == \/ r \in FamNonFn
            \/ /\ r \in FamReg
               /\ (r.ret = "err" => HasErrPart(r.sig) /\ Register(r.sig) # "refused")
               \* a value of a concrete error type is an error (a struct is never nil; nil pointers are left alone)
               /\ (UsesConcreteErr(r.sig) /\ Register(r.sig) # "refused" => r.ret = "err")

Init == \/ row \in {r \in FamNonFn \cup FamReg : IsRow(r)}
        \/ \E a \in Apis, pl \in CallParamLists, args \in ArgLists :
             LET s == MkSig(a, "fn", "", pl.ps, pl.v, RotRes(a, pl.ps, args)) IN
             /\ (Register(s) = "refused" => args = <<>>)
             /\ row = [sig |-> s, args |-> args, ret |-> (IF HasErrPart(s) THEN RotRet(pl.ps, args) ELSE "nil")]

Next == UNCHANGED row
Spec == Init /\ [][Next]_vars

\* ---------------------------------------------------------------- properties
AcceptedIsTotal == AcceptedIsTotalAt(row.sig, row.args)

\* the table itself is total: every row gets exactly one of the listed outcomes
TableTotal ==
  /\ Register(row.sig) \in {"ok", "refused", "either"}
  /\ Register(row.sig) # "refused" =>
       LET c == Call(row.sig, row.args) IN
       /\ c.k \in {"invoked", "error"}
       /\ (c.k = "invoked" => /\ Len(c.recv) = Len(row.args)
                              /\ \A i \in 1..Len(row.args) : YarnClass(c.recv[i]) = row.args[i])
       /\ Seen(row.sig, row.args, row.ret).k \in {"novalue", "value", "error"}

\* ------------------------------------------------------------------ emission
Out(r) == LET reg == Register(r.sig) IN
  [s |-> r.sig, a |-> r.args, ret |-> r.ret, reg |-> reg,
   call |-> IF reg = "refused" THEN "na" ELSE Call(r.sig, r.args).k,
   recv |-> IF reg = "refused" THEN <<>> ELSE Call(r.sig, r.args).recv,
   seen |-> IF reg = "refused" THEN "na" ELSE Seen(r.sig, r.args, r.ret).k,
   vt   |-> IF reg = "refused" THEN "none" ELSE Seen(r.sig, r.args, r.ret).vt]

EmitRow == Emit => PrintT(<<"ROW", ToJson(Out(row))>>)
=============================================================================
