SPECIFICATION Spec
CONSTANTS
  MaxEnq = 40
  Bug = "growcopy"
INVARIANT Refines
CHECK_DEADLOCK FALSE
