---------------------------- MODULE LongRunTrace ----------------------------
(* Property C17 at scale.  A script dispatches n commands <<tick k>> (k = 0,   *)
(* 1, ... in order; one node of n consecutive commands, or a loop of n passes) *)
(* before its only line; no line, option group or pending command lies in      *)
(* between, so ONE call of Next runs all of them.  What the property states    *)
(* for every command holds for each of them, however far the silent run has    *)
(* got: the handler is reached once per command, with its argument, in order,  *)
(* and the call then presents the line.                                        *)
(* trace.ndjson: [kind, n, calls, firstbad, outcome] per scenario.             *)
EXTENDS Integers, Sequences, TLC, Json

Trace == ndJsonDeserialize("trace.ndjson")

VARIABLES l, bad
vars == <<l, bad>>

Init == l = 1 /\ bad = <<>>

Step ==
  /\ l <= Len(Trace)
  /\ l' = l + 1
  /\ LET e == Trace[l]
         what == IF e.outcome = "panic" THEN "panic"
                 ELSE IF e.calls < e.n THEN "commands-not-dispatched"
                 ELSE IF e.calls > e.n THEN "commands-dispatched-more-than-once"
                 ELSE IF e.firstbad >= 0 THEN "wrong-argument-or-order"
                 ELSE IF e.outcome # "line" THEN "line-after-the-commands-not-presented"
                 ELSE "ok"
     IN bad' = IF what = "ok" THEN bad ELSE Append(bad, [line |-> l, kind |-> e.kind, what |-> what])

Spec == Init /\ [][Step]_vars

Done == (l = Len(Trace) + 1) => PrintT(<<"RESULT", ToJson([bad |-> bad, lines |-> l - 1])>>)
Accepted == TLCGet("stats").diameter - 1 = Len(Trace)
=============================================================================
