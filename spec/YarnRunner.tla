----------------------------- MODULE YarnRunner -----------------------------
(* The dialogue runner (runner.go) as an abstract machine, shaped like the     *)
(* implementation: a continuation stack of (body, pc) frames, a pending option *)
(* group, a pending command, the variable store, visit counts, the current     *)
(* node, the node-entry checkpoint and the ended flag.                         *)
(*                                                                            *)
(* A program p (a "case", read from cases.ndjson) is                           *)
(*   [nodes  : <<[title, tracking, body]>>,   bodies : <<body>> (flat table,   *)
(*    vars   : <<names>>,  funcs : name -> kind,  cmds : name -> kind, ...]    *)
(*   body = <<stmt>>, body id 0 = the empty body                               *)
(*   stmt = [k: "line", text: <<part>>, tags]      part = [lit] | [e: expr]    *)
(*        | [k: "opts", opts: <<[text, cond | [k:"none"], tags, body]>>]       *)
(*        | [k: "if", clauses: <<[cond, body]>>]    (else = constant true)     *)
(*        | [k: "set", var, op, e]    op in "=" "+=" "-=" "*=" "/=" "%="       *)
(*        | [k: "jump", e] | [k: "cmd", elems: <<expr>>] | [k: "call", e]      *)
(*                                                                            *)
(* Step(p, s) executes ONE statement (or pops one exhausted frame);            *)
(* Big(p, s, in) = one public call Next(in.choice): CallNext, then Step until  *)
(* the machine yields.  The same definitions serve exhaustive exploration,     *)
(* generation of behaviours for replay, and trace validation.                  *)
(*                                                                            *)
(* This is the SPECIFIED design: end of dialogue is absorbing, <<stop>>        *)
(* discards the continuation, a consumed choice is forgotten.  The Bug record  *)
(* switches on deviations suspected in the pinned tree so that every property  *)
(* config can be shown non-vacuous.                                            *)
EXTENDS YarnExpr

Range(f) == {f[i] : i \in DOMAIN f}
Last(q) == q[Len(q)]
ButLast(q) == SubSeq(q, 1, Len(q) - 1)

Body(p, b) == IF b = 0 THEN <<>> ELSE p.bodies[b]
Titles(p) == {p.nodes[i].title : i \in DOMAIN p.nodes}
NodeIdx(p, t) == CHOOSE i \in DOMAIN p.nodes :
                   p.nodes[i].title = t /\ \A j \in 1..(i - 1) : p.nodes[j].title # t
ProbesOf(funcs) == {f \in DOMAIN funcs : funcs[f] \in {"id", "boom", "noret", "bump"}}
Probes(p) == ProbesOf(p.funcs)
\* registering name under kind (replaces an earlier registration of that name)
Ext(f, name, kind) == [n \in DOMAIN f \cup {name} |-> IF n = name THEN kind ELSE f[n]]

NoCmd == [st |-> "none", err |-> FALSE, arg |-> Unset]
NoOut == [k |-> "none"]

\* ---------------------------------------------------------------- initial state
InitStore(p) == [v \in Range(p.vars) |-> Unset]
\* everything the future of a runner depends on, for a runner that has just entered `node`
EntryProj(p, node, store, visits) ==
  [stack |-> <<[b |-> p.nodes[NodeIdx(p, node)].body, pc |-> 1]>>, wait |-> <<>>, cmd |-> NoCmd,
   store |-> store, visits |-> visits, node |-> node, entry |-> store, ended |-> FALSE]
InitRunner(p) ==
  [stack  |-> <<[b |-> p.nodes[1].body, pc |-> 1]>>,
   wait   |-> <<>>,                 \* <<>> or <<body id, index>> of the pending option group
   cmd    |-> NoCmd,
   store  |-> InitStore(p),
   visits |-> [t \in Titles(p) |-> 0],
   node   |-> p.nodes[1].title,
   entry  |-> InitStore(p),         \* variables as of the last node entry
   ended  |-> FALSE,
   \* the host's registrations (AddFunction / AddCommand may be called again at any time between
   \* calls; they belong to the runner, not to its position: RestoreAt leaves them alone)
   funcs  |-> p.funcs,
   cmds   |-> p.cmds,
   \* how a line condition on a PLAIN line is read ("show": ignored, the line is presented; "skip": a
   \* false condition skips the line).  The properties leave it open; the trace specification tries both.
   lcmode |-> "show",
   jout   |-> [t \in Titles(p) |-> 0],   \* ghost: times each node was left through a jump
   \* ghost: the behavioural projection the runner had at its last node entry
   eproj  |-> EntryProj(p, p.nodes[1].title, InitStore(p), [t \in Titles(p) |-> 0]),
   \* --- result of the current public call
   mode   |-> "idle",               \* "run" while a call is executing statements
   out    |-> NoOut,
   writes |-> <<>>,                 \* storer writes of this call: <<[var, val]>>
   fcalls |-> <<>>,                 \* probe-function invocations of this call
   ccalls |-> <<>>]                 \* command-handler invocations of this call

Env(p, s) == [store |-> s.store, visits |-> s.visits, nodes |-> Titles(p),
              funcs |-> s.funcs, probes |-> ProbesOf(s.funcs)]

Yield(s, out) == [s EXCEPT !.mode = "idle", !.out = out]
\* the calls of a (partial) evaluation are logged, and what host functions wrote through the storer
\* while it ran has happened: to the store and to the storer's write log
Log(s, log) == IF log = <<>> THEN s
               ELSE [s EXCEPT !.fcalls = @ \o log, !.store = EffStore(@, log, 1),
                              !.writes = @ \o EffWriteLog(s.store, log, 1)]
Fault(s, log) == Yield(Log(s, log), [k |-> "error"])
OutOfScope(s) == Yield(s, [k |-> "oos"])
EndOut == [k |-> "end"]

\* ------------------------------------------------------------------ line text
RECURSIVE RenderParts(_, _, _, _)
RenderParts(parts, i, env, acc) ==
  IF i > Len(parts) THEN [st |-> "ok", text |-> acc.text, log |-> acc.log]
  ELSE LET pt == parts[i] IN
       IF "lit" \in DOMAIN pt
       THEN RenderParts(parts, i + 1, env, [text |-> acc.text \o pt.lit, log |-> acc.log])
       ELSE LET r == EvalValue(pt.e, Eff(env, acc.log)) IN
            IF r.st # "ok" THEN [st |-> r.st, text |-> acc.text, log |-> acc.log \o r.log]
            ELSE RenderParts(parts, i + 1, env,
                             [text |-> acc.text \o Display(r.v), log |-> acc.log \o r.log])
Render(parts, env) == LET r == RenderParts(parts, 1, env, [text |-> "", log |-> <<>>])
                      IN [st |-> r.st, text |-> Trim(r.text), log |-> r.log]

\* ------------------------------------------------------------- option groups
RECURSIVE RenderOpts(_, _, _, _)
RenderOpts(opts, i, env, acc) ==
  IF i > Len(opts) THEN [st |-> "ok", opts |-> acc.opts, log |-> acc.log]
  ELSE LET o == opts[i]
           t == Render(o.text, Eff(env, acc.log)) IN
       IF t.st # "ok" THEN [st |-> t.st, opts |-> acc.opts, log |-> acc.log \o t.log]
       ELSE IF o.cond.k = "none"
            THEN RenderOpts(opts, i + 1, env,
                   [opts |-> Append(acc.opts, [text |-> t.text, dis |-> FALSE, tags |-> o.tags]),
                    log |-> acc.log \o t.log])
            ELSE LET c == EvalValue(o.cond, Eff(env, acc.log \o t.log)) IN
                 IF c.st # "ok" THEN [st |-> c.st, opts |-> acc.opts, log |-> acc.log \o t.log \o c.log]
                 ELSE IF ~IsBool(c.v) THEN [st |-> "err", opts |-> acc.opts, log |-> acc.log \o t.log \o c.log]
                 ELSE RenderOpts(opts, i + 1, env,
                        [opts |-> Append(acc.opts, [text |-> t.text, dis |-> ~c.v.b, tags |-> o.tags]),
                         log |-> acc.log \o t.log \o c.log])

\* ----------------------------------------------------------------- assignment
\* v op= e : the value to store, given the previous value (Unset if none)
Assign(op, prev, val) ==
  IF prev.t = "u"
  THEN (IF op = "=" THEN [st |-> "ok", v |-> val] ELSE [st |-> "err", v |-> Unset])
  ELSE IF prev.t # val.t THEN [st |-> "err", v |-> Unset]        \* type never changes
  ELSE IF op = "=" THEN [st |-> "ok", v |-> val]
  ELSE CASE IsNum(val) ->
              LET aop == CASE op = "+=" -> "add" [] op = "-=" -> "sub" [] op = "*=" -> "mul"
                           [] op = "/=" -> "div" [] op = "%=" -> "mod"
                  r == Arith(aop, prev, val, <<>>)
              IN [st |-> r.st, v |-> r.v]
         [] IsStr(val) -> IF op = "+=" THEN [st |-> "ok", v |-> Str(prev.s \o val.s)]
                          ELSE [st |-> "err", v |-> Unset]
         [] OTHER -> [st |-> "err", v |-> Unset]                    \* booleans: only "="

ExecSet(p, s, stmt) ==
  LET r == EvalValue(stmt.e, Env(p, s)) IN
  IF r.st = "oos" THEN OutOfScope(s)
  ELSE IF r.st = "err" THEN Fault(s, r.log)
  ELSE IF stmt.var \notin DOMAIN s.store THEN OutOfScope(s)
  ELSE LET a == Assign(stmt.op, EffStore(s.store, r.log, 1)[stmt.var], r.v) IN   \* (the previous value is read after e)
       IF a.st = "oos" THEN OutOfScope(s)
       ELSE IF a.st = "err"
            THEN (IF Bug.failedSetWrites
                  THEN [Fault(s, r.log) EXCEPT !.store[stmt.var] = r.v] ELSE Fault(s, r.log))
       ELSE [Log(s, r.log) EXCEPT !.store[stmt.var] = a.v,
                                  !.writes = Append(@, [var |-> stmt.var, val |-> a.v])]

\* ------------------------------------------------------------------------ if
RECURSIVE FirstTrue(_, _, _, _)
\* result [st, body (0 = none), log]
FirstTrue(clauses, i, env, log) ==
  IF i > Len(clauses) THEN [st |-> "ok", idx |-> 0, log |-> log]
  ELSE LET c == EvalValue(clauses[i].cond, Eff(env, log)) IN
       IF c.st # "ok" THEN [st |-> c.st, idx |-> 0, log |-> log \o c.log]
       ELSE IF ~IsBool(c.v) THEN [st |-> "err", idx |-> 0, log |-> log \o c.log]
       ELSE IF c.v.b THEN [st |-> "ok", idx |-> i, log |-> log \o c.log]
       ELSE FirstTrue(clauses, i + 1, env, log \o c.log)

ExecIf(p, s, stmt) ==
  LET r == FirstTrue(stmt.clauses, 1, Env(p, s), <<>>) IN
  IF r.st = "oos" THEN OutOfScope(s)
  ELSE IF r.st = "err" THEN Fault(s, r.log)
  ELSE IF r.idx = 0 THEN Log(s, r.log)
  ELSE LET pushed == [Log(s, r.log) EXCEPT !.stack = Append(@, [b |-> stmt.clauses[r.idx].body, pc |-> 1])]
       IN IF Bug.secondClauseAlsoRuns /\ r.idx < Len(stmt.clauses)
          THEN [pushed EXCEPT !.stack = Append(@, [b |-> stmt.clauses[r.idx + 1].body, pc |-> 1])]
          ELSE pushed

\* ---------------------------------------------------------------------- jump
ExecJump(p, s, stmt) ==
  LET r == EvalValue(stmt.e, Env(p, s)) IN
  IF r.st = "oos" THEN OutOfScope(s)
  ELSE IF r.st = "err" THEN Fault(s, r.log)
  ELSE IF ~IsStr(r.v) \/ r.v.s \notin Titles(p) THEN Fault(s, r.log)
  ELSE LET tgt == p.nodes[NodeIdx(p, r.v.s)]
           cur == p.nodes[NodeIdx(p, s.node)]
           counted == IF Bug.visitOnEntry THEN tgt ELSE cur
           s1 == Log(s, r.log)
           newVisits == IF counted.tracking = "never" THEN s.visits
                        ELSE [s.visits EXCEPT ![counted.title] = @ + 1]
       IN [s1 EXCEPT
             \* a visit is completed when the node is LEFT through a jump (C11)
             !.visits = newVisits,
             !.eproj = EntryProj(p, tgt.title, s1.store, newVisits),
             !.jout = [@ EXCEPT ![cur.title] = @ + 1],
             !.entry = s1.store,
             !.stack = IF Bug.jumpKeepsStack THEN Append(@, [b |-> tgt.body, pc |-> 1])
                       ELSE <<[b |-> tgt.body, pc |-> 1]>>,
             !.node = tgt.title]

\* ------------------------------------------------------------------ commands
RECURSIVE EvalElems(_, _, _, _)
EvalElems(elems, i, env, acc) ==
  IF i > Len(elems) THEN [st |-> "ok", vals |-> acc.vals, log |-> acc.log]
  ELSE LET r == EvalValue(elems[i], Eff(env, acc.log)) IN
       IF r.st # "ok" THEN [st |-> r.st, vals |-> acc.vals, log |-> acc.log \o r.log]
       ELSE EvalElems(elems, i + 1, env, [vals |-> Append(acc.vals, r.v), log |-> acc.log \o r.log])

\* command kinds (p.cmds[name]):
\*   "done"  handler complete on return, no error    "fail"  complete on return with an error
\*   "pend"  handler not complete on return: completion is an environment action
\*   "pendq" the built-in wait: like "pend", started by the runner itself
\*   anything else / absent: not registered -> error
ExecCmd(p, s, stmt) ==
  LET r == EvalElems(stmt.elems, 1, Env(p, s), [vals |-> <<>>, log |-> <<>>]) IN
  IF r.st = "oos" THEN OutOfScope(s)
  ELSE IF r.st = "err" THEN Fault(s, r.log)
  ELSE IF Len(r.vals) = 0 \/ ~IsStr(r.vals[1]) THEN Fault(s, r.log)
  ELSE LET name == r.vals[1].s
           args == SubSeq(r.vals, 2, Len(r.vals))
           s1 == Log(s, r.log)
       IN IF name = "stop"                                 \* never dispatched (C17)
          THEN Yield([s1 EXCEPT !.ended = TRUE,
                                !.stack = IF Bug.stopKeepsStack THEN @ ELSE <<>>], EndOut)
          ELSE IF name \notin DOMAIN s.cmds THEN Fault(s1, <<>>)
          ELSE LET kind == s.cmds[name]
                   s2 == [s1 EXCEPT !.ccalls = Append(@, [name |-> name, args |-> args])]
               IN CASE kind = "done" -> s2
                    [] kind = "fail" -> Fault(s2, <<>>)
                    [] kind = "pend" -> Yield([s2 EXCEPT !.cmd = [st |-> "run", err |-> FALSE, arg |-> Unset]],
                                              [k |-> "waiting"])
                    \* the built-in <<wait n>>: pending, no host handler to log; the number
                    \* of seconds is remembered (completion no earlier than n s after the start)
                    [] kind = "pendq" ->
                         IF Len(args) # 1 \/ ~IsNum(args[1]) THEN Fault(s1, <<>>)
                         ELSE Yield([s1 EXCEPT !.cmd = [st |-> "run", err |-> FALSE, arg |-> args[1]]],
                                    [k |-> "waiting"])
                    [] OTHER -> Fault(s1, <<>>)

ExecCall(p, s, stmt) ==
  LET r == Eval(stmt.e, Env(p, s)) IN
  IF r.st = "oos" THEN OutOfScope(s)
  ELSE IF r.st = "err" THEN Fault(s, r.log)
  ELSE Log(s, r.log)

\* ---------------------------------------------------------------------- Step
Step(p, s) ==
  IF s.stack = <<>> THEN Yield([s EXCEPT !.ended = TRUE], EndOut)
  ELSE LET top == Last(s.stack)
           body == Body(p, top.b) IN
       IF top.pc > Len(body) THEN [s EXCEPT !.stack = ButLast(@)]      \* pop exhausted frame
       ELSE LET stmt == body[top.pc]
                \* (wait is already empty here in the specified design; the reset only
                \*  matters under Bug.staleChoiceAfterEnd, mirroring `lastStatement = next`)
                s1 == [s EXCEPT !.stack[Len(s.stack)].pc = @ + 1, !.wait = <<>>]
                env == Env(p, s1) IN
         CASE stmt.k = "line" ->
                LET t == Render(stmt.text, env)
                    skipIt == IF s1.lcmode = "skip" /\ "cond" \in DOMAIN stmt
                              THEN LET cv == EvalValue(stmt.cond, env) IN cv.st = "ok" /\ IsBool(cv.v) /\ ~cv.v.b
                              ELSE FALSE
                IN
                IF skipIt THEN s1
                ELSE IF t.st = "oos" THEN OutOfScope(s1)
                ELSE IF t.st = "err" THEN Fault(s1, t.log)
                ELSE Yield(Log(s1, t.log),
                           [k |-> "line", node |-> s1.node, text |-> t.text, tags |-> stmt.tags])
           [] stmt.k = "opts" ->
                LET o == RenderOpts(stmt.opts, 1, env, [opts |-> <<>>, log |-> <<>>]) IN
                IF o.st = "oos" THEN OutOfScope(s1)
                ELSE IF o.st = "err" THEN Fault(s1, o.log)
                ELSE Yield([Log(s1, o.log) EXCEPT !.wait = <<top.b, top.pc>>],
                           [k |-> "opts", node |-> s1.node, opts |-> o.opts])
           [] stmt.k = "set"  -> ExecSet(p, s1, stmt)
           [] stmt.k = "if"   -> ExecIf(p, s1, stmt)
           [] stmt.k = "jump" -> ExecJump(p, s1, stmt)
           [] stmt.k = "cmd"  -> ExecCmd(p, s1, stmt)
           [] stmt.k = "call" -> ExecCall(p, s1, stmt)

\* ------------------------------------------------------------------ CallNext
\* in = [choice, done, err]: `done` = the pending command's completion became
\* visible before this call (environment), `err` = it reported an error.
NOpts(p, s) == Len(Body(p, s.wait[1])[s.wait[2]].opts)

CallNext(p, s, in) ==
  LET s0 == [s EXCEPT !.mode = "run", !.out = NoOut, !.writes = <<>>, !.fcalls = <<>>, !.ccalls = <<>>] IN
  IF s.cmd.st = "run" /\ ~in.done
  THEN (IF Bug.pendingPollReruns THEN [s0 EXCEPT !.cmd = NoCmd, !.stack[Len(s.stack)].pc = @ - 1]
        ELSE Yield(s0, [k |-> "waiting"]))                      \* nothing else changes (C10)
  ELSE IF s.cmd.st = "run" /\ in.err
  THEN Yield([s0 EXCEPT !.cmd = NoCmd], [k |-> "error"])       \* surfaced exactly once
  ELSE LET s1 == [s0 EXCEPT !.cmd = NoCmd] IN
       IF s1.ended /\ ~(Bug.staleChoiceAfterEnd /\ s1.wait # <<>>) /\ ~Bug.stopKeepsStack
       THEN Yield(s1, EndOut)                                   \* absorbing (C12)
       ELSE IF s1.wait = <<>> THEN s1                           \* argument ignored (C01)
       ELSE IF in.choice < 0 \/ in.choice >= NOpts(p, s1) THEN OutOfScope(s1)
       ELSE LET b == Body(p, s1.wait[1])[s1.wait[2]].opts[in.choice + 1].body
                s2 == [s1 EXCEPT !.wait = IF Bug.staleChoiceAfterEnd THEN @ ELSE <<>>]
            IN IF b = 0 THEN s2
               ELSE [s2 EXCEPT !.stack = Append(@, [b |-> b, pc |-> 1])]

RECURSIVE Run(_, _, _)
Run(p, s, fuel) == IF s.mode = "idle" THEN s
                   ELSE IF fuel = 0 THEN OutOfScope(s)
                   ELSE Run(p, Step(p, s), fuel - 1)

Fuel == 400
Big(p, s, in) == Run(p, CallNext(p, s, in), Fuel)

In(choice) == [choice |-> choice, done |-> FALSE, err |-> FALSE]
InDone(choice, err) == [choice |-> choice, done |-> TRUE, err |-> err]

\* ------------------------------------------------------- host / environment
HostSet(s, var, val) == [s EXCEPT !.store[var] = val]

\* AddFunction / AddCommand between two calls
Rebind(s, what, name, kind) == IF what = "f" THEN [s EXCEPT !.funcs = Ext(@, name, kind)]
                               ELSE [s EXCEPT !.cmds = Ext(@, name, kind)]

Snapshot(s) == [vars |-> s.entry, node |-> s.node, visits |-> s.visits]

\* a snapshot written by the host itself (the fields are public): the named node, no variables, no
\* visits - the natural way of starting a dialogue somewhere else than in its first node
HandSnap(p, node) == [vars |-> InitStore(p), node |-> node, visits |-> [t \in Titles(p) |-> 0]]

\* restoring a snapshot that names an unknown node fails and changes nothing
RestoreOk(p, snap) == snap.node \in Titles(p)
Restore(p, s, snap) ==
  IF ~RestoreOk(p, snap) THEN s
  ELSE [s EXCEPT !.store = snap.vars, !.entry = snap.vars, !.visits = snap.visits,
                 !.node = snap.node,
                 !.stack = <<[b |-> p.nodes[NodeIdx(p, snap.node)].body, pc |-> 1]>>,
                 !.wait = IF Bug.restoreKeepsWaiting THEN @ ELSE <<>>,
                 !.cmd = IF Bug.restoreKeepsWaiting THEN @ ELSE NoCmd,
                 !.ended = FALSE,
                 !.eproj = EntryProj(p, snap.node, snap.vars, snap.visits),
                 !.jout = [t \in DOMAIN s.jout |->
                             IF p.nodes[NodeIdx(p, t)].tracking = "never" THEN s.jout[t] ELSE snap.visits[t]],
                 !.mode = "idle", !.out = NoOut, !.writes = <<>>, !.fcalls = <<>>, !.ccalls = <<>>]

\* the behavioural projection of a runner: everything its future depends on
Proj(s) == [stack |-> s.stack, wait |-> s.wait, cmd |-> s.cmd, store |-> s.store,
            visits |-> s.visits, node |-> s.node, entry |-> s.entry, ended |-> s.ended]
=============================================================================
