---------------------------- MODULE LineLexerMC ----------------------------
(* MC_Line of DESIGN.md: exhaustive exploration of the line lexer automaton    *)
(* (property C04) over every class sequence of at most MaxLen items, at the    *)
(* line start and after an option arrow; lengths up to FullLen use the full    *)
(* alphabet (each escapable character its own class), longer ones the merged   *)
(* alphabet (one class per kind of escape; the character is drawn by seed).    *)
(* One TLC state per automaton step.  Checked:                                 *)
(*   ModesWellFormed   the mode stack is Body, Body Text or Body TCH           *)
(*   BackToBody        after the line break of a valid line the stack is Body  *)
(*   TrailingNeverText tags, comments and conditions never contribute to text; *)
(*                     every contribution is what its item stands for          *)
(*   InOrder           contributions are concatenated in source order          *)
(*   MeetsDeclarative  on valid lines text, tags and condition are the         *)
(*                     position-independent declarative meaning                *)
(* plus every option group of at most MaxOpts options with every assignment    *)
(* of {no condition, true, false} (GroupKeepsOrder).  The final state of every *)
(* behaviour prints the line / group with the result the specification         *)
(* prescribes; `verifh lines replay` runs each on the real library.            *)
EXTENDS LineLexer, TLC, Json

CONSTANTS MaxLen, FullLen, MaxOpts, Seed

NoVal == [t |-> "b", b |-> FALSE]
Ch(c, cp)  == [c |-> c, cp |-> cp, s |-> <<>>, v |-> NoVal]
ExprI(v)   == [c |-> "x", cp |-> 0, s |-> <<>>, v |-> v]
TagI(s)    == [c |-> "t", cp |-> 0, s |-> s, v |-> NoVal]
CommI(s)   == [c |-> "cm", cp |-> 0, s |-> s, v |-> NoVal]
CondI(b)   == [c |-> "cd", cp |-> 0, s |-> <<>>, v |-> [t |-> "b", b |-> b]]
N(n, d) == [t |-> "n", n |-> n, d |-> d]
S(s)    == [t |-> "s", s |-> s]

\* a b c X Y Z 0 9 ! ? . , ' " ( ) * + ; @ $ % & ^ _ ~ | ` :
OPool  == << Ch("o", 97), Ch("o", 98), Ch("o", 99), Ch("o", 88), Ch("o", 89), Ch("o", 90), Ch("o", 48), Ch("o", 57),
             Ch("o", 33), Ch("o", 63), Ch("o", 46), Ch("o", 44), Ch("o", 39), Ch("o", 34), Ch("o", 40), Ch("o", 41),
             Ch("o", 42), Ch("o", 43), Ch("o", 59), Ch("o", 64), Ch("o", 36), Ch("o", 37), Ch("o", 38), Ch("o", 94),
             Ch("o", 95), Ch("o", 126), Ch("o", 124), Ch("o", 96), Ch("o", 58) >>
MbPool == << Ch("mb", 233), Ch("mb", 223), Ch("mb", 1046), Ch("mb", 26085), Ch("mb", 54620), Ch("mb", 128512),
             Ch("mb", 119987), Ch("mb", 241) >>
SpPool == << Ch("sp", 32), Ch("sp", 9), Ch("sp", 32) >>
EsPool == << Ch("es", 92), Ch("es", 60), Ch("es", 62), Ch("es", 123), Ch("es", 125), Ch("es", 35), Ch("es", 47) >>
EbPool == << Ch("eb", 91), Ch("eb", 93) >>
ExPool == << Ch("ex", 97), Ch("ex", 110), Ch("ex", 34), Ch("ex", 49) >>
XPool  == << ExprI(N(3, 1)), ExprI([t |-> "b", b |-> TRUE]), ExprI(S(<<97, 98, 99>>)), ExprI(N(3, 2)),
             ExprI(N(-2, 1)), ExprI([t |-> "b", b |-> FALSE]), ExprI(S(<<97, 32, 98>>)), ExprI(N(1, 4)),
             ExprI(N(0, 1)), ExprI(S(<<32, 112, 97, 100, 32>>)), ExprI(N(-5, 8)), ExprI(S(<<>>)),
             ExprI(N(10, 1)), ExprI(S(<<35, 104>>)), ExprI(N(255, 256)), ExprI(S(<<123, 98, 125>>)),
             ExprI(N(1000, 1)), ExprI(S(<<47, 47, 99>>)), ExprI(N(-1, 2)), ExprI(S(<<60, 60, 120, 62, 62>>)),
             ExprI(N(7, 4)), ExprI(S(<<233, 26085>>)), ExprI(S(<<84, 114, 117, 101>>)), ExprI(S(<<49, 50>>)) >>
TPool  == << TagI(<<116, 97, 103>>), TagI(<<97, 49>>), TagI(<<108, 105, 110, 101, 58, 97, 98, 49, 50>>),
             TagI(<<116, 45, 49>>), TagI(<<233, 26085>>), TagI(<<120, 46, 121, 95, 122>>) >>
CmPool == << CommI(<<32, 110, 111, 116, 101>>), CommI(<<>>),
             CommI(<<120, 32, 35, 110, 111, 32, 123, 49, 125, 32, 60, 60, 105, 102, 32, 102, 97, 108, 115, 101, 62, 62, 32, 92>>),
             CommI(<<47, 32, 51>>) >>
CdPool == << CondI(TRUE), CondI(FALSE) >>

Single(it) == << it >>
Common == << OPool, MbPool, SpPool, Single(Ch("lt", 60)), Single(Ch("sl", 47)), Single(Ch("gt", 62)),
             Single(Ch("rb", 125)), Single(Ch("da", 45)), Single(Ch("eq", 61)) >>
Tail4 == << ExPool, XPool, TPool, CmPool, CdPool >>
AlphaFull == Common \o << Single(EsPool[1]), Single(EsPool[2]), Single(EsPool[3]), Single(EsPool[4]),
                          Single(EsPool[5]), Single(EsPool[6]), Single(EsPool[7]),
                          Single(EbPool[1]), Single(EbPool[2]) >> \o Tail4
AlphaMerged == Common \o << EsPool, EbPool >> \o Tail4
Alpha(n) == IF n <= FullLen THEN AlphaFull ELSE AlphaMerged

RECURSIVE WSum(_, _)
WSum(idx, j) == IF j > Len(idx) THEN 0 ELSE (j + 1) * idx[j] + WSum(idx, j + 1)

\* (built with \o so that TLC holds evaluated tuples, not lazy functions)
RECURSIVE MkItems(_, _, _, _)
MkItems(alpha, idx, h, i) ==
  IF i > Len(idx) THEN <<>>
  ELSE LET pool == alpha[idx[i]] IN << pool[((h + 5 * i) % Len(pool)) + 1] >> \o MkItems(alpha, idx, h, i + 1)

\* ------------------------------------------------------------ option groups
OptText(k) == << Ch("o", 111), Ch("o", 112), Ch("o", 116), Ch("o", 48 + k) >>      \* opt1, opt2, ...
OptItems(k, cnd, h) ==
  OptText(k)
  \o (IF cnd = "none" THEN <<>> ELSE << Ch("sp", 32), CondI(cnd = "true") >>)
  \o (IF (h + k) % 3 = 0 THEN << Ch("sp", 32), TPool[((h + k) % Len(TPool)) + 1] >> ELSE <<>>)
  \o (IF (h + k) % 4 = 1 THEN << Ch("sp", 32), CmPool[1] >> ELSE <<>>)
RECURSIVE MkGroup(_, _, _)
MkGroup(conds, h, k) == IF k > Len(conds) THEN <<>> ELSE << OptItems(k, conds[k], h) >> \o MkGroup(conds, h, k + 1)

\* ------------------------------------------------------------------ machine
VARIABLES kind,    \* "line" | "group"
          arrow0,  \* the line follows an option arrow
          items,   \* the line
          st,      \* automaton state
          group    \* <<items of option 1, ...>> for kind = "group"
vars == <<kind, arrow0, items, st, group>>

Init ==
  \/ /\ kind = "line" /\ group = <<>>
     /\ \E a \in BOOLEAN, n \in 0..MaxLen :
          \E idx \in [1..n -> 1..Len(Alpha(n))] :
             /\ arrow0 = a
             /\ items = MkItems(Alpha(n), idx, Seed + (IF a THEN 1 ELSE 0) + WSum(idx, 1), 1)
             /\ st = Start(a)
  \/ /\ kind = "group" /\ arrow0 = TRUE /\ items = <<>>
     /\ \E n \in 1..MaxOpts : \E conds \in [1..n -> {"none", "true", "false"}] :
          group = MkGroup(conds, Seed + n, 1)
     /\ st = [Start(TRUE) EXCEPT !.done = TRUE]

Next == /\ kind = "line" /\ ~st.done
        /\ st' = StepItem(st, items)
        /\ UNCHANGED <<kind, arrow0, items, group>>

Spec == Init /\ [][Next]_vars

\* --------------------------------------------------------------- properties
Modes == {"Body", "Text", "TCH"}
ModesWellFormed ==
  /\ Len(st.stack) \in 1..2
  /\ st.stack[1] = "Body"
  /\ \A j \in 2..Len(st.stack) : st.stack[j] \in {"Text", "TCH"}

Valid == kind = "line" /\ st.done /\ st.status = "ok"

BackToBody == Valid => st.stack = <<"Body">>

TrailingNeverText ==
  (kind = "line") =>
    \A j \in 1..Len(st.parts) :
       /\ items[st.parts[j].src].c \notin {"t", "cm", "cd"}
       /\ st.parts[j].cps = Lit(items[st.parts[j].src])

InOrder == (kind = "line") =>
             \A j \in 1..Len(st.parts), k \in 1..Len(st.parts) : j < k => st.parts[j].src < st.parts[k].src

MeetsDeclarative ==
  Valid => LET r == Result(st)  d == Decl(arrow0, items) IN
           /\ r.text = d.text /\ r.tags = d.tags /\ r.cond = d.cond /\ r.dis = d.dis

\* stepping the automaton one item at a time is the function LexLine
StepIsLexLine == (kind = "line" /\ st.done) => Result(st) = LexLine(arrow0, items)

GroupResults == [k \in 1..Len(group) |-> LexLine(TRUE, group[k])]
GroupKeepsOrder ==
  (kind = "group") =>
     \A k \in 1..Len(group) :
        LET r == GroupResults[k]  d == Decl(TRUE, group[k]) IN
        /\ r.judged
        /\ r.text = <<111, 112, 116, 48 + k>>            \* option k is still option k
        /\ r.dis = d.dis /\ r.tags = d.tags

\* ---------------------------------------------------- spec -> code emission
RECURSIVE GroupOut(_)
GroupOut(k) == IF k > Len(group) THEN <<>>
               ELSE << [items |-> group[k], res |-> LexLine(TRUE, group[k])] >> \o GroupOut(k + 1)
Emit ==
  /\ (kind = "line" /\ st.done) =>
        PrintT(<<"BEH", ToJson([kind |-> "line", arrow |-> arrow0, items |-> items, res |-> Result(st)])>>)
  /\ (kind = "group") =>
        PrintT(<<"BEH", ToJson([kind |-> "group", opts |-> GroupOut(1)])>>)
=============================================================================
