SPECIFICATION Spec
CONSTANTS
  JMax = 3
  KMax = 2
  NMax = 0
  Bug_IncIsCeil = FALSE
  Bug_IntegerIsFloor = FALSE
  Bug_DecIsFloor = TRUE
INVARIANTS ClosedFormsSatisfy Functional RoundPlaces
CHECK_DEADLOCK FALSE
