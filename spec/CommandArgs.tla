---------------------------- MODULE CommandArgs ----------------------------
(* Property C17: a generic command <<name arg ...>> reaches the handler       *)
(* registered under `name`, once, with its arguments in order and typed as    *)
(* the property states.                                                       *)
(*                                                                            *)
(* The module contains two formulations of what a command statement means:    *)
(*                                                                            *)
(*  * the DECLARATIVE one (`Expected`): the command is a name followed by     *)
(*    items; an item is a whitespace-delimited word or an {expression};       *)
(*    words are typed by `TypedWord` exactly as the property says             *)
(*    (true/false -> booleans, decimal literals optionally negative ->        *)
(*    numbers, every other word -> string), expressions arrive as their       *)
(*    value; `stop` is never dispatched; an unregistered name is an error;    *)
(*                                                                            *)
(*  * the IMPLEMENTATION-SHAPED one (`Pipeline`): the character sequence      *)
(*    between << and >> is lexed as YarnSpinnerLexer.g4 prescribes for        *)
(*    CommandMode / CommandTextMode (leading blanks hidden, keyword tokens    *)
(*    need trailing white space except else/endif/endenum, first character    *)
(*    is COMMAND_TEXT on its own, then maximal runs, {..} are expressions),   *)
(*    the listener's element list is re-arranged as tree.go does (adjacent    *)
(*    texts are accumulated and split into words at an expression or at the   *)
(*    end), the first element is the name, `stop` ends the dialogue, unknown  *)
(*    names are reported, otherwise the handler is invoked.                   *)
(*                                                                            *)
(* CommandArgsMC checks that the pipeline meets the declarative meaning for   *)
(* every command of a bounded family and every spacing; CommandArgsTrace      *)
(* validates what real handlers received.                                     *)
(*                                                                            *)
(* Text is a sequence of Unicode code points (integers) everywhere: nothing   *)
(* non-ASCII ever crosses the TLA+/JSON boundary as a string.  A command      *)
(* text is a sequence of integers `units`: u >= 0 is the character u, u < 0   *)
(* is the expression slot number -u whose value is slots[-u].                 *)
EXTENDS Integers, Sequences, FiniteSets

CONSTANTS Bug_SplitSpaceOnly,   \* words are split at single spaces only
          Bug_LiberalNumbers    \* anything a C-like float parser accepts is a number

-----------------------------------------------------------------------------
\* printable ASCII, position i holds the character with code 31 + i
AsciiTable == " !\"#$%&'()*+,-./0123456789:;<=>?@ABCDEFGHIJKLMNOPQRSTUVWXYZ[\\]^_`abcdefghijklmnopqrstuvwxyz{|}~"
Ord(c) == 31 + CHOOSE i \in 1..Len(AsciiTable) : SubSeq(AsciiTable, i, i) = c
\* (built with Append so that TLC holds an evaluated tuple, not a lazy function)
RECURSIVE CpsFrom(_, _)
CpsFrom(s, i) == IF i > Len(s) THEN <<>> ELSE <<Ord(SubSeq(s, i, i))>> \o CpsFrom(s, i + 1)
Cps(s) == CpsFrom(s, 1)

\* (every Cps("...") used by an operator is a named constant: TLC evaluates a
\* constant definition once, whereas Ord creates and interns strings on every call)
W_true  == Cps("true")
W_false == Cps("false")
W_stop  == Cps("stop")
W_liberal == {Cps("nan"), Cps("inf"), Cps("1e3")}

SPACE == 32
TAB   == 9
WS    == {SPACE, TAB}                 \* the grammar's WS : [ \t]+

\* ------------------------------------------------------------------ values
NumV(n, d) == [t |-> "n", n |-> n, d |-> d]
BoolV(b)   == [t |-> "b", b |-> b]
StrV(s)    == [t |-> "s", s |-> s]

RECURSIVE Gcd(_, _)
Gcd(a, b) == IF b = 0 THEN a ELSE Gcd(b, a % b)
Abs(x) == IF x < 0 THEN -x ELSE x
Norm(n, d) == LET g == Gcd(Abs(n), d) IN IF n = 0 THEN NumV(0, 1) ELSE NumV(n \div g, d \div g)
\* NB: \div floors, but g divides n exactly so the sign is preserved.

\* ------------------------------------------------- the property's word rule
IsDigit(c) == c >= 48 /\ c <= 57
AllDigits(w) == Len(w) > 0 /\ \A i \in 1..Len(w) : IsDigit(w[i])
\* NUMBER : INT | INT '.' INT  (YarnSpinnerLexer.g4), i.e. a decimal literal
IsUnsignedDecimal(w) ==
  \/ AllDigits(w)
  \/ \E k \in 2..(Len(w) - 1) : /\ w[k] = 46
                                /\ AllDigits(SubSeq(w, 1, k - 1))
                                /\ AllDigits(SubSeq(w, k + 1, Len(w)))
IsDecimal(w) == \/ IsUnsignedDecimal(w)
                \/ (Len(w) > 1 /\ w[1] = 45 /\ IsUnsignedDecimal(Tail(w)))

RECURSIVE DigitsVal(_)
DigitsVal(ds) == IF ds = <<>> THEN 0
                 ELSE 10 * DigitsVal(SubSeq(ds, 1, Len(ds) - 1)) + (ds[Len(ds)] - 48)
RECURSIVE Pow10(_)
Pow10(k) == IF k = 0 THEN 1 ELSE 10 * Pow10(k - 1)

UnsignedValue(w) ==
  IF AllDigits(w) THEN NumV(DigitsVal(w), 1)
  ELSE LET k  == CHOOSE j \in 2..(Len(w) - 1) : w[j] = 46
           ip == SubSeq(w, 1, k - 1)
           fp == SubSeq(w, k + 1, Len(w))
       IN Norm(DigitsVal(ip) * Pow10(Len(fp)) + DigitsVal(fp), Pow10(Len(fp)))
DecimalValue(w) == IF w[1] = 45 THEN LET v == UnsignedValue(Tail(w)) IN NumV(-v.n, v.d)
                   ELSE UnsignedValue(w)

\* what a liberal float parser (strconv.ParseFloat) additionally accepts, as far
\* as the non-vacuity switch needs it: missing integer or fraction digits.  The
\* value is irrelevant for the switch (it only has to be a number).
IsLiberalNumber(w) ==
  LET u == IF Len(w) > 1 /\ w[1] = 45 THEN Tail(w) ELSE w IN
  \/ (Len(u) > 1 /\ u[1] = 46 /\ AllDigits(Tail(u)))                      \* .5
  \/ (Len(u) > 1 /\ u[Len(u)] = 46 /\ AllDigits(SubSeq(u, 1, Len(u) - 1))) \* 5.
  \/ u \in W_liberal

\* the property's rule
TypedWord(w) ==
  IF w = W_true THEN BoolV(TRUE)
  ELSE IF w = W_false THEN BoolV(FALSE)
  ELSE IF IsDecimal(w) THEN DecimalValue(w)
  ELSE StrV(w)

\* the rule the pipeline applies (the same, unless the switch is on)
PipelineTypedWord(w) ==
  IF Bug_LiberalNumbers /\ ~IsDecimal(w) /\ IsLiberalNumber(w) THEN NumV(0, 1) ELSE TypedWord(w)

\* ------------------------------------------------------- declarative meaning
\* an item is [k |-> "w", w |-> code points] or [k |-> "e", v |-> value]
ItemValue(it) == IF it.k = "w" THEN TypedWord(it.w) ELSE it.v

\* keyword tokens of CommandMode
KwNeedWs == {Cps("if"), Cps("elseif"), Cps("set"), Cps("call"), Cps("declare"),
             Cps("jump"), Cps("enum"), Cps("case"), Cps("local")}
KwNoWs   == {Cps("else"), Cps("endif"), Cps("endenum")}
StartsWith(w, p) == Len(w) >= Len(p) /\ SubSeq(w, 1, Len(p)) = p

\* Is <<name ...>> a generic command at all?  (`followedByWs`: the character
\* after the name is a blank rather than >> .)
NameIsGeneric(name, followedByWs) ==
  /\ ~ \E p \in KwNoWs : StartsWith(name, p)
  /\ ~ (followedByWs /\ name \in KwNeedWs)

Stop == W_stop

\* result of executing one command statement
\*   outcome "call": the handler `name` is invoked once with `args`
\*           "stop": nothing is dispatched
\*           "error": Next reports an error, nothing is dispatched
Expected(name, items, registered) ==
  IF name = Stop THEN [outcome |-> "stop", calls |-> <<>>]
  ELSE IF name \notin registered THEN [outcome |-> "error", calls |-> <<>>]
  ELSE [outcome |-> "call",
        calls |-> << [name |-> name, args |-> [i \in 1..Len(items) |-> ItemValue(items[i])]] >>]

\* -------------------------------------------------- implementation-shaped
IsWsUnit(u) == u \in WS
SplitSet == IF Bug_SplitSpaceOnly THEN {SPACE} ELSE WS

RECURSIVE SkipWs(_, _)
SkipWs(us, i) == IF i <= Len(us) /\ IsWsUnit(us[i]) THEN SkipWs(us, i + 1) ELSE i

\* the word that starts at i (up to the next blank, slot or the end)
RECURSIVE WordEnd(_, _)
WordEnd(us, i) == IF i <= Len(us) /\ us[i] >= 0 /\ ~IsWsUnit(us[i]) THEN WordEnd(us, i + 1) ELSE i

\* CommandTextMode: maximal runs of characters become one COMMAND_TEXT, a slot
\* becomes an expression element
RECURSIVE Elems(_, _, _)
Elems(us, i, acc) ==
  LET flush == IF acc = <<>> THEN <<>> ELSE << [k |-> "t", s |-> acc] >> IN
  IF i > Len(us) THEN flush
  ELSE IF us[i] >= 0 THEN Elems(us, i + 1, Append(acc, us[i]))
  ELSE flush \o << [k |-> "e", j |-> -us[i]] >> \o Elems(us, i + 1, <<>>)

\* CommandMode: blanks hidden, keyword check, first character on its own
Lex(us) ==
  LET i == SkipWs(us, 1) IN
  IF i > Len(us) THEN [generic |-> TRUE, elems |-> <<>>]
  ELSE IF us[i] < 0 THEN [generic |-> FALSE, elems |-> <<>>]   \* '{' right after << is COMMAND_TEXT "{": not modelled
  ELSE LET e    == WordEnd(us, i)
           name == SubSeq(us, i, e - 1)
           fws  == e <= Len(us) /\ IsWsUnit(us[e])
       IN [generic |-> NameIsGeneric(name, fws),
           elems   |-> << [k |-> "t", s |-> <<us[i]>>] >> \o Elems(us, i + 1, <<>>)]

\* strings.Split-like: maximal runs of non-separator characters
RECURSIVE SplitWords(_, _, _)
SplitWords(s, i, acc) ==
  LET flush == IF acc = <<>> THEN <<>> ELSE <<acc>> IN
  IF i > Len(s) THEN flush
  ELSE IF s[i] \in SplitSet THEN flush \o SplitWords(s, i + 1, <<>>)
  ELSE SplitWords(s, i + 1, Append(acc, s[i]))

WordsToValues(ws) == [i \in 1..Len(ws) |-> PipelineTypedWord(ws[i])]

\* CommandStatement.rearrange: accumulate adjacent texts; at an expression or at
\* the end split the accumulated text into words
RECURSIVE Rearrange(_, _, _, _)
Rearrange(elems, slots, i, acc) ==
  IF i > Len(elems) THEN WordsToValues(SplitWords(acc, 1, <<>>))
  ELSE IF elems[i].k = "t" THEN Rearrange(elems, slots, i + 1, acc \o elems[i].s)
  ELSE WordsToValues(SplitWords(acc, 1, <<>>)) \o << slots[elems[i].j] >>
       \o Rearrange(elems, slots, i + 1, <<>>)

\* executeCommandStatement
Dispatch(values, registered) ==
  IF values = <<>> THEN [outcome |-> "error", calls |-> <<>>]
  ELSE IF values[1].t # "s" THEN [outcome |-> "error", calls |-> <<>>]
  ELSE IF values[1].s = Stop THEN [outcome |-> "stop", calls |-> <<>>]
  ELSE IF values[1].s \notin registered THEN [outcome |-> "error", calls |-> <<>>]
  ELSE [outcome |-> "call", calls |-> << [name |-> values[1].s, args |-> Tail(values)] >>]

Pipeline(us, slots, registered) ==
  LET lx == Lex(us) IN
  IF ~lx.generic THEN [outcome |-> "notgeneric", calls |-> <<>>]
  ELSE Dispatch(Rearrange(lx.elems, slots, 1, <<>>), registered)

\* ------------------------------------------------ rendering items -> units
\* seps[i] is the blank run before item i; lead / trail are the blank runs
\* after << and before >>.
RECURSIVE RenderItems(_, _, _, _)
RenderItems(items, seps, i, nslot) ==
  IF i > Len(items) THEN [us |-> <<>>, slots |-> <<>>]
  ELSE IF items[i].k = "w"
       THEN LET r == RenderItems(items, seps, i + 1, nslot) IN
            [us |-> seps[i] \o items[i].w \o r.us, slots |-> r.slots]
       ELSE LET r == RenderItems(items, seps, i + 1, nslot + 1) IN
            [us |-> seps[i] \o << -(nslot + 1) >> \o r.us, slots |-> <<items[i].v>> \o r.slots]

Render(name, items, lead, seps, trail) ==
  LET r == RenderItems(items, seps, 1, 0) IN
  [us |-> lead \o name \o r.us \o trail, slots |-> r.slots]
=============================================================================
