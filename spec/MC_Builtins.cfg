SPECIFICATION Spec
CONSTANTS
  JMax = 8
  KMax = 3
  NMax = 2
  Bug_IncIsCeil = FALSE
  Bug_IntegerIsFloor = FALSE
  Bug_DecIsFloor = FALSE
INVARIANTS ClosedFormsSatisfy Functional RoundPlaces
CHECK_DEADLOCK FALSE
