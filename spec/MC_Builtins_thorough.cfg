SPECIFICATION Spec
CONSTANTS
  JMax = 40
  KMax = 5
  NMax = 3
  Bug_IncIsCeil = FALSE
  Bug_IntegerIsFloor = FALSE
  Bug_DecIsFloor = FALSE
INVARIANTS ClosedFormsSatisfy Functional RoundPlaces
CHECK_DEADLOCK FALSE
