SPECIFICATION Spec
CONSTANTS
  Runners <- MCRunners
  SeedOf <- MCSeedOf
  ScriptLen = 2
  MaxClock = 1
  Bug_SharedSource = TRUE
  Bug_TimeSeed = FALSE
INVARIANT SameSeedSameRun
PROPERTY NonInterference
CHECK_DEADLOCK FALSE
