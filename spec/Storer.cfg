SPECIFICATION Spec
CONSTANTS
  Names = {"x", "y"}
  MaxOps = 3
  KeepsOldType = FALSE
  EmitBeh = TRUE
INVARIANTS StorerOneType Emit
CHECK_DEADLOCK FALSE
