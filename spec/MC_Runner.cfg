SPECIFICATION Spec
CONSTANTS
  MaxCalls = 12
  MaxPolls = 1
  AfterEnd = 2
  HostWrites = FALSE
  MaxHostSets = 0
  EmitBeh = TRUE
  MaxSnaps = 0
  MaxRestores = 0
  MaxRebinds = 0
  Bug <- NoBugs
INVARIANTS NextStatementFrozen FlowRefinesSem NextArgIgnored StackDiscipline EndAbsorbing EndReportedOnlyWhenEnded
           PendingNextIsNoOp DoneNeverWaits WaitingOnlyWhilePending CountIsJumpsOut VisitedIffPositive
           UnknownIsZero Emit
PROPERTIES TypeStable FailedStepFrozen WritesExplainStore VisitsMonotone OnlyJumpsChangeVisits
CHECK_DEADLOCK FALSE
