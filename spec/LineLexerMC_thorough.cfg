SPECIFICATION Spec
CONSTANTS
  MaxLen = 4
  FullLen = 4
  MaxOpts = 4
  Seed = 1
  Bug_LoneLtDropped = FALSE
  Bug_NoPopAfterTag = FALSE
INVARIANTS ModesWellFormed BackToBody TrailingNeverText InOrder MeetsDeclarative StepIsLexLine GroupKeepsOrder Emit
CHECK_DEADLOCK FALSE
