--------------------------- MODULE HostBridgeTrace ---------------------------
(* Property C16, code -> spec: validates recorded observations of random      *)
(* signatures / calls (trace.ndjson written by `verifh bridge record`) against *)
(* the table of module HostBridge.                                            *)
(*                                                                            *)
(* event = [ev: "row", id, s: signature, a: argument classes, ret,            *)
(*          site: "call"|"capture"|"cmd" ("line" only when a stored case is   *)
(*                re-run: the rendered text is then not judged here),         *)
(*          reg: "ok"|"refused"|"panic"|"crash"|"hang",                       *)
(*          call: "invoked"|"error"|"panic"|"crash"|"hang"|"silent"|"multi"|"na", *)
(*          ncalls, recvT (type tokens the probe received), recvV, sentV      *)
(*          (canonical values, opaque strings), seen: "novalue"|"value"|      *)
(*          "error"|"panic"|"blocked"|"crash"|"na", seenT, seenV, retV]       *)
(* One TLC state per event; never blocks; mismatches are collected in `bad`.  *)
EXTENDS HostBridge, TLC, Json

Trace == ndJsonDeserialize("trace.ndjson")

VARIABLES l, bad, nacc, ninv
vars == <<l, bad, nacc, ninv>>

Init == l = 1 /\ bad = <<>> /\ nacc = 0 /\ ninv = 0

\* "" if the event conforms, else the class of the difference
Judge(e) ==
  LET t == Register(e.s) IN
  IF e.reg \notin {"ok", "refused"} THEN "register-" \o e.reg
  ELSE IF t = "refused" THEN (IF e.reg = "refused" THEN "" ELSE "accepted-unbridgeable")
  ELSE IF t = "ok" /\ e.reg # "ok" THEN "refused-bridgeable"
  ELSE IF e.reg = "refused" THEN ""          \* "either"
  ELSE
  LET c == Call(e.s, e.a)  sn == Seen(e.s, e.a, e.ret) IN
  IF e.call \in {"panic", "crash", "hang"} THEN "call-" \o e.call
  ELSE IF e.seen = "blocked" THEN "call-never-completes"
  ELSE IF c.k = "error" THEN
         (IF e.ncalls # 0 THEN "invoked-despite-bad-arguments"
          ELSE IF e.seen # "error" THEN "bad-arguments-no-error" ELSE "")
  ELSE IF e.ncalls = 0 THEN (IF e.seen = "error" THEN "error-on-good-arguments" ELSE "not-invoked")
  ELSE IF e.ncalls # 1 THEN "invoked-more-than-once"
  ELSE IF Len(e.recvT) # Len(c.recv) THEN "argument-count-received"
  ELSE IF \E i \in 1..Len(c.recv) : e.recvT[i] # c.recv[i] THEN "argument-type-received"
  ELSE IF \E i \in 1..Len(c.recv) : e.recvV[i] # e.sentV[i] THEN "argument-value-received"
  ELSE IF sn.k = "error" THEN (IF e.seen = "error" THEN "" ELSE "probe-error-lost")
  ELSE IF sn.k = "novalue" THEN (IF e.seen = "novalue" THEN "" ELSE "result-" \o e.seen \o "-instead-of-none")
  ELSE \* a value is produced
    IF e.site = "line" THEN (IF e.seen = "value" THEN "" ELSE "result-" \o e.seen \o "-instead-of-value")
    ELSE IF e.site # "capture" THEN (IF e.seen = "novalue" THEN "" ELSE "result-" \o e.seen \o "-instead-of-completion")
    ELSE IF e.seen # "value" THEN "result-" \o e.seen \o "-instead-of-value"
    ELSE IF e.seenT # sn.vt THEN "result-type"
    ELSE IF e.seenV # e.retV THEN "result-value"
    ELSE ""

Named == {"MyInt", "MyInt8", "MyFloat", "MyFloat32", "MyBool", "MyString", "MyUint"}
Feature(s) == IF s.shape # "fn" THEN s.shape
              ELSE IF \E i \in 1..Len(s.params) : s.params[i] \in Named THEN "named-param"
              ELSE IF s.variadic THEN "variadic" ELSE "plain"
\* at most 25 reports per (difference, feature) class
Room(j, f) == Cardinality({i \in 1..Len(bad) : bad[i].diff = j /\ bad[i].feature = f}) < 25

Step ==
  /\ l <= Len(Trace)
  /\ l' = l + 1
  /\ LET e == Trace[l]  j == Judge(e) IN
     /\ bad' = IF j # "" /\ Room(j, Feature(e.s))
               THEN Append(bad, [line |-> l, id |-> e.id, diff |-> j, feature |-> Feature(e.s)]) ELSE bad
     /\ nacc' = nacc + (IF e.reg = "ok" THEN 1 ELSE 0)
     /\ ninv' = ninv + (IF e.call = "invoked" THEN 1 ELSE 0)

Spec == Init /\ [][Step]_vars

Done == (l = Len(Trace) + 1) =>
          PrintT(<<"RESULT", ToJson([bad |-> bad, lines |-> l - 1, accepted |-> nacc, invoked |-> ninv])>>)
Accepted == TLCGet("stats").diameter - 1 = Len(Trace)
=============================================================================
