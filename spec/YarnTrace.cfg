SPECIFICATION Spec
CONSTANT Bug <- NoBugs
INVARIANT Done
CHECK_DEADLOCK FALSE
