-------------------------------- MODULE Rng --------------------------------
(* Property C09, model level: the design that makes "same script, seed and    *)
(* choices give the same run" true is that the random built-ins of a runner   *)
(* read a stream that is a function of that runner's seed only and is         *)
(* consumed by that runner only.                                              *)
(*                                                                            *)
(* Runners execute the same straight-line script of ScriptLen draws (control  *)
(* flow that depends on drawn values is covered because equal prefixes of     *)
(* the stream imply equal decisions).  The elements of the stream are         *)
(* abstract: element k of the stream of seed s is the pair <<s, k>>; what a   *)
(* built-in makes of an element (dice, random, random_range) is a function of *)
(* the element and the bounds, so equal elements give equal values.           *)
(* Environment: runners are created at arbitrary times, their steps           *)
(* interleave arbitrarily with each other and with an unrelated runner, the   *)
(* wall clock advances, other code draws from the process-wide source.        *)
(* Switches reproduce the dependencies the property excludes:                 *)
(*   Bug_SharedSource : draws come from the process-wide source               *)
(*   Bug_TimeSeed     : the stream is keyed by the creation time, not the seed *)
EXTENDS Integers, Sequences, FiniteSets, TLC

CONSTANTS Runners,          \* e.g. {"a", "b", "c"}
          SeedOf,           \* runner -> seed
          ScriptLen,
          MaxClock,
          Bug_SharedSource, Bug_TimeSeed

VARIABLES created, born, pos, log, gpos, clock
vars == <<created, born, pos, log, gpos, clock>>

Init == /\ created = [r \in Runners |-> FALSE]
        /\ born = [r \in Runners |-> 0]
        /\ pos = [r \in Runners |-> 0]
        /\ log = [r \in Runners |-> <<>>]
        /\ gpos = 0 /\ clock = 0

Create(r) == /\ ~created[r]
             /\ created' = [created EXCEPT ![r] = TRUE]
             /\ born' = [born EXCEPT ![r] = clock]
             /\ UNCHANGED <<pos, log, gpos, clock>>

\* the stream element runner r reads next
Element(r) == IF Bug_SharedSource THEN <<"process", gpos>>
              ELSE IF Bug_TimeSeed THEN <<"time", born[r], pos[r]>>
              ELSE <<"seed", SeedOf[r], pos[r]>>

Draw(r) == /\ created[r] /\ pos[r] < ScriptLen
           /\ log' = [log EXCEPT ![r] = Append(@, Element(r))]
           /\ pos' = [pos EXCEPT ![r] = @ + 1]
           /\ gpos' = IF Bug_SharedSource THEN gpos + 1 ELSE gpos
           /\ UNCHANGED <<created, born, clock>>

\* the environment: time passes, unrelated code uses the process-wide source
Tick == clock < MaxClock /\ clock' = clock + 1 /\ UNCHANGED <<created, born, pos, log, gpos>>
Disturb == gpos < ScriptLen * Cardinality(Runners) /\ gpos' = gpos + 1
           /\ UNCHANGED <<created, born, pos, log, clock>>

Next == (\E r \in Runners : Create(r) \/ Draw(r)) \/ Tick \/ Disturb
Spec == Init /\ [][Next]_vars

Min(a, b) == IF a < b THEN a ELSE b
\* runners with the same seed (and script) have seen the same stream so far
SameSeedSameRun ==
  \A a, b \in Runners : SeedOf[a] = SeedOf[b] =>
    \A i \in 1..Min(Len(log[a]), Len(log[b])) : log[a][i] = log[b][i]
\* a step of one runner leaves every other runner's state alone
NonInterference ==
  [][\A r \in Runners : (pos'[r] # pos[r]) => \A q \in Runners \ {r} : pos'[q] = pos[q] /\ log'[q] = log[q]]_vars
=============================================================================
