----------------------------- MODULE MC_Markup -----------------------------
(* Exhaustive exploration of the markup model over ALL item sequences of at   *)
(* most MaxLen items drawn from an alphabet (optionally after a `Name: `      *)
(* prefix).                                                                   *)
(*                                                                            *)
(* Model level (properties of the specification itself):                      *)
(*   ArithmeticEqualsProvenance  the position arithmetic (A) yields exactly   *)
(*                               the ranges of the provenance definition (B)  *)
(*   TextIsItemsWithoutMarkers   text = the characters of the items, markers  *)
(*                               removed, escapes unescaped, replacements in  *)
(*   RangesInsideText            C15: every range lies inside the text        *)
(*   SortedStable                (A) orders attributes like the code does     *)
(*   RegionNeverFails            a line of the C13 region always parses       *)
(* Spec -> code: every line of the C13 region (Alpha "q"/"t") resp. every     *)
(* enumerated line (Alpha "s", C15) is printed, with the results a correct    *)
(* parser may return, for `verifh markup replay`.                             *)
EXTENDS Markup, TLC, Json

CONSTANTS MaxLen,     \* items after the optional prefix
          Alpha,      \* "q" | "t" : C13 alphabets; "s" : C15 alphabet (edge whitespace, malformed)
          EmitBeh     \* print the lines for replay

VARIABLE items
vars == <<items>>

\* ------------------------------------------------------------- alphabets
\* Code points standing for "some character of this class" (the harness renames them,
\* class-preserving and injectively, per replay): x y z ASCII letters, 233 a 2-byte
\* letter, 167 2-byte non-letter, 20013 3-byte letter, 8364 3-byte non-letter,
\* 119987 4-byte letter, 128512 4-byte non-letter, 33 ASCII punctuation, 32 blank.
Ch(c) == [k |-> "ch", c |-> c]
N1 == <<120>>              \* x
N2 == <<233, 121>>         \* 2-byte letter + y
N3 == <<20013>>            \* 3-byte letter
VInt(i) == [t |-> "int", i |-> i]
VDec(i, f, k) == [t |-> "dec", i |-> i, f |-> f, k |-> k]
VBool(b) == [t |-> "bool", b |-> b]
VStr(s, q) == [t |-> "str", s |-> s, q |-> q]
P(n, v) == [n |-> n, v |-> v]
Open(n, ps, sh) == [k |-> "open", name |-> n, props |-> ps, sh |-> sh]
Self(n, ps) == [k |-> "self", name |-> n, props |-> ps, sh |-> FALSE]
Close(n) == [k |-> "close", name |-> n]

OpenA == Open(N1, <<P(<<112>>, VInt(7)), P(<<113>>, VDec(1, 5, 2))>>, FALSE)            \* [x p=7 q=1.05]
OpenB == Open(N2, <<P(N2, VStr(<<122, 32, 233>>, TRUE))>>, TRUE)                        \* [éy="z é"]
OpenC == Open(N3, <<P(<<98>>, VBool(TRUE)), P(<<103>>, VStr(<<122, 122>>, FALSE)), P(<<106>>, VDec(0, 7, 3))>>, FALSE)
SelfC == Self(N3, <<>>)                                                                \* [中/]
SelfCNoTrim == Self(N3, <<P(S_trimwhitespace, VBool(FALSE)), P(<<98>>, VInt(12))>>)      \* [中 trimwhitespace=false b=12/]
Select == [k |-> "select", props |-> <<P(S_value, VStr(<<103>>, FALSE)),                \* [select value=g g="h%" j=zz/]
                                        P(<<103>>, VStr(<<104, 37>>, TRUE)), P(<<106>>, VStr(<<122, 122>>, FALSE))>>]
Plural1 == [k |-> "plural", props |-> <<P(S_value, VInt(1)), P(S_one, VStr(<<37, 32, 121>>, TRUE)),
                                         P(S_other, VStr(<<37, 32, 121, 122>>, TRUE))>>]  \* -> "1 y"
Plural5 == [k |-> "plural", props |-> <<P(S_value, VInt(5)), P(S_one, VStr(<<121>>, FALSE)),
                                         P(S_other, VStr(<<37, 233>>, TRUE))>>]           \* -> "5é"
Ordinal(n) == [k |-> "ordinal", props |-> <<P(S_value, VInt(n)), P(S_one, VStr(<<37, 115, 116>>, TRUE)),
                 P(S_two, VStr(<<37, 110, 100>>, TRUE)), P(S_few, VStr(<<37, 114, 100>>, TRUE)),
                 P(S_other, VStr(<<37, 116, 104>>, TRUE))>>]
NoMarkupN == [k |-> "nomarkup", raw |-> <<121, 91, 120, 93, 233>>, close |-> "name"]   \* y[x]é
NoMarkupA == [k |-> "nomarkup", raw |-> <<91, 122, 32>>, close |-> "all"]
\* open forms: [select value=g g="h%" j=zz]z[/select] and [plural value=5 one=y other="%é"]y[x][/]
SelectOpen == [k |-> "ropen", rk |-> "select", props |-> Select.props, raw |-> <<122>>, close |-> "name"]
PluralOpenA == [k |-> "ropen", rk |-> "plural", props |-> Plural5.props, raw |-> <<121, 91, 120, 93>>, close |-> "all"]
SelectBad == [k |-> "select", props |-> <<P(S_value, VStr(<<103>>, FALSE)), P(<<106>>, VStr(<<122>>, FALSE))>>]

AlphaQ == {Ch(121), Ch(32), Ch(233), Ch(128512), [k |-> "esc", c |-> 91],
           OpenA, Close(N1), OpenB, Close(N2), [k |-> "closeall"],
           SelfC, SelfCNoTrim, Select, NoMarkupN, Plural1, SelectOpen}
AlphaT == AlphaQ \cup {Ch(8364), Ch(9), [k |-> "esc", c |-> 93], OpenC, Close(N3),
                       Plural5, Ordinal(22), Ordinal(113), NoMarkupA, PluralOpenA}
\* C15: whitespace of every kind at the edges and inside markers, unclosed and stray
\* markers, failing replacement, malformed fragments (end of input inside a marker,
\* missing '=', missing value)
Mal(raw) == [k |-> "mal", raw |-> raw]
AlphaS == {Ch(121), Ch(32), Ch(9), Ch(160), Ch(12288), Ch(233),
           OpenA, Close(N1), OpenB, Close(N2), [k |-> "closeall"], SelfC, Select, SelectBad, NoMarkupN,
           Mal(<<91, 120>>), Mal(<<91, 120, 32, 112, 93>>), Mal(<<91, 120, 32, 112, 61, 93>>), Mal(<<91, 47>>)}

\* "n": adjacency - markers directly after markers, replacements and swallowed blanks
\* (rule 5 looks at the character before the marker, not through markers);
\* "m": a name opened while it is open (two markers of one name told apart by their
\* properties) under a third marker: same-name nesting and three-way overlaps
OpenA2 == Open(N1, <<P(<<112>>, VInt(8))>>, FALSE)                                      \* [x p=8]
AlphaN == {Ch(121), Ch(32), [k |-> "esc", c |-> 93], OpenA, Close(N1), SelfC, [k |-> "closeall"], Plural1}
AlphaM == {Ch(121), OpenA, OpenA2, Close(N1), OpenB, Close(N2), [k |-> "closeall"]}

Alphabet == IF Alpha = "q" THEN AlphaQ ELSE IF Alpha = "t" THEN AlphaT
            ELSE IF Alpha = "n" THEN AlphaN ELSE IF Alpha = "m" THEN AlphaM ELSE AlphaS

Pfx(n, ws) == [k |-> "pfx", name |-> n, ws |-> ws]
Starts == IF Alpha = "s" THEN {<<>>, <<Pfx(<<120, 233>>, <<32>>)>>}
          ELSE IF Alpha \in {"n", "m"} THEN {<<>>}
          ELSE {<<>>, <<Pfx(<<120, 233>>, <<32>>)>>, <<Pfx(<<20013, 33, 119987>>, <<>>)>>,
                <<Pfx(<<121>>, <<32, 32>>)>>}

NBody == IF items # <<>> /\ items[1].k = "pfx" THEN Len(items) - 1 ELSE Len(items)

\* alphabet "n" prunes prefixes that cannot become a line of the region: a close needs
\* an open marker of its name, and something open needs room for an item that closes it
RECURSIVE OpenCount(_, _, _)
OpenCount(its, i, open) ==            \* -1: a close without an open marker of its name
  IF i > Len(its) THEN Len(open)
  ELSE LET it == its[i] IN
    CASE it.k = "open" -> OpenCount(its, i + 1, Append(open, it.name))
      [] it.k = "close" -> IF InSeq(open, it.name) THEN OpenCount(its, i + 1, RemoveOne(open, it.name)) ELSE -1
      [] it.k = "closeall" -> OpenCount(its, i + 1, <<>>)
      [] OTHER -> OpenCount(its, i + 1, open)
Completable(its) == Alpha \notin {"n", "m"} \/ LET n == OpenCount(its, 1, <<>>) IN n = 0 \/ (n > 0 /\ Len(its) < MaxLen)

Init == items \in Starts
Next == NBody < MaxLen /\ \E it \in Alphabet : Completable(Append(items, it)) /\ items' = Append(items, it)
Spec == Init /\ [][Next]_vars

\* ------------------------------------------------------------ invariants
ArithmeticEqualsProvenance ==
  NoSameNameNesting(items, 1, {}) =>
    LET a == ResA(items)  b == ResB(items) IN
    /\ a.ok = b.ok
    /\ a.ok => /\ a.v1.text = b.v1.text /\ SameBag(a.v1.attrs, b.v1.attrs)
               /\ a.v2.text = b.v2.text /\ SameBag(a.v2.attrs, b.v2.attrs)

TextIsItemsWithoutMarkers ==
  LET r == RawA(items, 0) IN
  r.ok => r.text = Flat([i \in DOMAIN items |-> EmitB(items, i)])

RangesInsideText ==
  LET a == ResA(items) IN a.ok => InRange(a.v1) /\ InRange(a.v2)

SortedStable ==
  LET r == RawA(items, 0) IN
  r.ok => \A i, j \in 1..r.nMarkerAttrs :
             i < j => \/ r.attrs[i].pos < r.attrs[j].pos
                      \/ r.attrs[i].pos = r.attrs[j].pos /\ r.attrs[i].ord < r.attrs[j].ord

RegionNeverFails == WellFormedC13(items) => ResA(items).ok

\* the other consistent reading of same-name nesting (a close pairs with the most recent
\* open marker of its name); a parser must follow ONE of the two readings on all lines
Alt == INSTANCE Markup WITH PairLast <- TRUE
AltSeq == IF NoSameNameNesting(items, 1, {}) THEN <<>> ELSE Alt!ExpectedSeq(items)
\* where no name is nested in itself the reading does not matter
PairingOnlyMattersWhenNested == NoSameNameNesting(items, 1, {}) => Alt!ExpectedSeq(items) = ExpectedSeq(items)

Emit ==
  (EmitBeh /\ items # <<>> /\ (Alpha = "s" \/ WellFormedC13(items)))
    => PrintT(<<"BEH", ToJson([items |-> items, exp |-> ExpectedSeq(items), alt |-> AltSeq])>>)
=============================================================================
