----------------------------- MODULE HostBridge -----------------------------
(* Property C16: the host bridge (ConvertAndAddFunction / ConvertAndAddCommand). *)
(*                                                                            *)
(* Decision table of DESIGN.md appendix H over an abstract signature algebra. *)
(* Go types are tokens; what the table reads of a type is its class           *)
(*   I signed integer kinds (and named types of those kinds)                  *)
(*   F float kinds (and named)        B bool (and named)   S string (named)    *)
(*   U unsigned integer kinds (the property does not settle them)             *)
(*   X everything that cannot carry a Yarn value                              *)
(* A signature is [api, shape, nf, params, variadic, results]:                *)
(*   api      "func" (ConvertAndAddFunction) | "cmd" (ConvertAndAddCommand)   *)
(*   shape    "fn" a Go function | "nil" the nil interface | "nonfunc"        *)
(*   nf       for "nonfunc": which kind of value is handed over               *)
(*   params   sequence of type tokens; if `variadic` the last one is the      *)
(*            element type of the variadic tail                               *)
(*   results  sequence of result type tokens                                  *)
(* An argument list is a sequence over {"n","b","s"} (number, boolean,        *)
(* string); values are chosen by the harness (integral and in range for       *)
(* integer kinds, exactly representable for float32) so that "converted       *)
(* faithfully" means: same value, declared type.                              *)
EXTENDS Integers, Sequences, FiniteSets

TI == {"int", "int8", "int16", "int32", "int64", "MyInt", "MyInt8"}
TF == {"float32", "float64", "MyFloat", "MyFloat32"}
TB == {"bool", "MyBool"}
TS == {"string", "MyString"}
TU == {"uint", "uint8", "uint16", "uint32", "uint64", "MyUint"}
TX == {"struct", "slice", "array", "map", "ptr", "iface", "func", "chan", "errorp"}
ValueTypes == TI \cup TF \cup TB \cup TS
ParamTypes == ValueTypes \cup TU \cup TX
\* result-only tokens: error, chan error, <-chan error, chan int
\* "errval" / "errptr": concrete types that implement error (a struct with a value receiver, a pointer type)
ResultOnly == {"error", "chanerr", "rchanerr", "chanint", "errval", "errptr"}
ErrToks    == {"error", "errval", "errptr"}
NonFuncs   == {"int", "string", "bool", "float", "struct", "slice", "map", "chan", "ptrfunc", "nilptr"}

Class(t) == CASE t \in TI -> "I" [] t \in TF -> "F" [] t \in TB -> "B" [] t \in TS -> "S"
              [] t \in TU -> "U" [] OTHER -> "X"

\* the Yarn type a Go type of that class corresponds to
YarnClass(t) == CASE Class(t) \in {"I", "F", "U"} -> "n"
                  [] Class(t) = "B" -> "b"
                  [] Class(t) = "S" -> "s"
                  [] OTHER -> "none"

\* the predeclared type of the same kind (what a converter chosen by Kind yields)
KindOf(t) == CASE t = "MyInt" -> "int" [] t = "MyInt8" -> "int8" [] t = "MyFloat" -> "float64"
               [] t = "MyFloat32" -> "float32" [] t = "MyBool" -> "bool" [] t = "MyString" -> "string"
               [] t = "MyUint" -> "uint" [] OTHER -> t

-----------------------------------------------------------------------------
(* Result shapes *)
Carrier(t) == t \in ValueTypes \cup TU      \* can carry a Yarn value (U: unsettled)

ResultShape(api, rs) ==
  IF api = "func"
  THEN CASE Len(rs) = 0 -> "none"
         [] Len(rs) = 1 /\ Carrier(rs[1]) -> "value"
         [] Len(rs) = 1 /\ rs[1] \in ErrToks -> "error"
         [] Len(rs) = 2 /\ Carrier(rs[1]) /\ rs[2] \in ErrToks -> "valueerror"
         [] OTHER -> "bad"
  ELSE CASE Len(rs) = 0 -> "none"
         [] Len(rs) = 1 /\ rs[1] \in ErrToks -> "error"
         [] Len(rs) = 1 /\ rs[1] \in {"chanerr", "rchanerr"} -> "chan"
         [] OTHER -> "bad"

UsesU(sig) == \/ \E i \in 1..Len(sig.params) : Class(sig.params[i]) = "U"
              \/ (sig.api = "func" /\ Len(sig.results) >= 1 /\ Class(sig.results[1]) = "U")
NamedTypes == {"MyInt", "MyInt8", "MyFloat", "MyFloat32", "MyBool", "MyString", "MyUint"}
UsesNamed(sig) == \/ \E i \in 1..Len(sig.params) : sig.params[i] \in NamedTypes
                  \/ (sig.api = "func" /\ Len(sig.results) >= 1 /\ sig.results[1] \in NamedTypes)

\* an error component declared as a concrete type: the property does not say whether that can be bridged
\* ("refused, or accepted and faithful": the error such a function returns is an error of the call)
UsesConcreteErr(sig) == \E i \in 1..Len(sig.results) : sig.results[i] \in {"errval", "errptr"}

(* Registration: "ok" must be accepted, "refused" must be refused with an     *)
(* error, "either" = refused, or accepted and then faithful.  A panic is      *)
(* never allowed.  "either" covers what the property does not settle: the     *)
(* uint family, and named types - the property is conditional there ("if      *)
(* registering succeeds then ... also for named types"): a library that       *)
(* refuses func(MyInt) outright satisfies it, one that accepts it must        *)
(* deliver a MyInt.                                                           *)
Register(sig) ==
  IF sig.shape # "fn" THEN "refused"
  ELSE IF \E i \in 1..Len(sig.params) : Class(sig.params[i]) = "X" THEN "refused"
  ELSE IF ResultShape(sig.api, sig.results) = "bad" THEN "refused"
  ELSE IF UsesU(sig) \/ UsesNamed(sig) \/ UsesConcreteErr(sig) THEN "either"
  ELSE "ok"

-----------------------------------------------------------------------------
(* Calls on an accepted signature *)
Fixed(sig) == IF sig.variadic THEN Len(sig.params) - 1 ELSE Len(sig.params)
ParamAt(sig, i) == IF i <= Fixed(sig) THEN sig.params[i] ELSE sig.params[Len(sig.params)]

ArityOK(sig, args) == IF sig.variadic THEN Len(args) >= Fixed(sig) ELSE Len(args) = Len(sig.params)
TypesOK(sig, args) == \A i \in 1..Len(args) : args[i] = YarnClass(ParamAt(sig, i))

\* recv[i] = declared type under which argument i must arrive (value preserved)
Call(sig, args) ==
  IF ArityOK(sig, args) /\ TypesOK(sig, args)
  THEN [k |-> "invoked", recv |-> [i \in 1..Len(args) |-> ParamAt(sig, i)]]
  ELSE [k |-> "error", recv |-> <<>>]

(* What the script sees.  ret = what the probe returns where the shape has an *)
(* error / channel component: "nil" or "err".                                 *)
(*   "novalue" : call completes, no value (fine for <<call>> and commands)    *)
(*   "value"   : a Yarn value of class vt equal to what the probe returned    *)
(*   "error"   : the Next that executes the call reports an error             *)
Seen(sig, args, ret) ==
  LET c == Call(sig, args)  sh == ResultShape(sig.api, sig.results) IN
  IF c.k = "error" THEN [k |-> "error", vt |-> "none"]
  ELSE CASE sh = "none" -> [k |-> "novalue", vt |-> "none"]
         [] sh = "value" -> [k |-> "value", vt |-> YarnClass(sig.results[1])]
         [] sh \in {"error", "chan"} -> IF ret = "nil" THEN [k |-> "novalue", vt |-> "none"]
                                       ELSE [k |-> "error", vt |-> "none"]
         [] sh = "valueerror" -> IF ret = "nil" THEN [k |-> "value", vt |-> YarnClass(sig.results[1])]
                                 ELSE [k |-> "error", vt |-> "none"]

-----------------------------------------------------------------------------
(* Implementation-shaped formulation (function_storer.go / command_storer.go): *)
(* a gate that inspects reflect.TypeOf, per-parameter converters looked up by  *)
(* Kind, reflect.Call.  reflect.Call panics when a value's type is not the     *)
(* parameter's type.  The switches reproduce suspected defects so that         *)
(* AcceptedIsTotal can be shown non-vacuous.                                   *)
CONSTANTS Bug_NoNilCheck,        \* reflect.TypeOf(nil).Kind() -> nil dereference
          Bug_ConvertByKind,     \* converter output is of the predeclared type of the Kind
          Bug_NoTooManyCheck,    \* non-variadic: surplus arguments are passed on
          AcceptU                \* policy for the uint family (both are allowed)

ConverterKinds == {"int", "int8", "int16", "int32", "int64", "float32", "float64", "bool", "string"}
                    \cup (IF AcceptU THEN {"uint", "uint8", "uint16", "uint32", "uint64"} ELSE {})

ImplRegister(sig) ==
  IF sig.shape = "nil" THEN (IF Bug_NoNilCheck THEN "panic" ELSE "refused")
  ELSE IF sig.shape = "nonfunc" THEN "refused"
  ELSE IF ResultShape(sig.api, sig.results) = "bad" THEN "refused"
  ELSE IF sig.api = "func" /\ Len(sig.results) >= 1 /\ Class(sig.results[1]) = "U" /\ ~AcceptU THEN "refused"
  ELSE IF \E i \in 1..Len(sig.params) : KindOf(sig.params[i]) \notin ConverterKinds THEN "refused"
  ELSE "ok"

ImplCall(sig, args) ==
  LET tooFew  == Len(args) < Fixed(sig)
      tooMany == ~sig.variadic /\ Len(args) > Len(sig.params) /\ ~Bug_NoTooManyCheck
      n       == IF sig.variadic THEN Len(args) ELSE Len(sig.params)   \* arguments converted
  IN IF tooFew \/ tooMany THEN [k |-> "error", recv |-> <<>>]
     ELSE IF \E i \in 1..n : args[i] # YarnClass(ParamAt(sig, i)) THEN [k |-> "error", recv |-> <<>>]
     ELSE LET conv == [i \in 1..n |-> IF Bug_ConvertByKind THEN KindOf(ParamAt(sig, i)) ELSE ParamAt(sig, i)]
          IN \* reflect.Call: argument count and exact types must match
             IF (~sig.variadic /\ Len(args) # Len(sig.params)) \/ \E i \in 1..n : conv[i] # ParamAt(sig, i)
             THEN [k |-> "panic", recv |-> <<>>]
             ELSE [k |-> "invoked", recv |-> conv]

(* The property on one row of the table *)
AcceptedIsTotalAt(sig, args) ==
  LET r == ImplRegister(sig)  t == Register(sig) IN
  /\ r \in {"ok", "refused"}
  /\ (t = "ok" => r = "ok")
  /\ (t = "refused" => r = "refused")
  /\ (r = "ok" => /\ ImplCall(sig, args).k \in {"invoked", "error"}
                  /\ ImplCall(sig, args) = Call(sig, args))
=============================================================================
