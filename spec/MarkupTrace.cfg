SPECIFICATION Spec
CONSTANTS
  Bug_BytePositions = FALSE
  Bug_NoTrimAdjust = FALSE
  Bug_CloseAllClosesLast = FALSE
  Bug_NoSwallow = FALSE
  Bug_NoResetSourcePosition = FALSE
  PairLast = FALSE
INVARIANT Done
POSTCONDITION Accepted
CHECK_DEADLOCK FALSE
