--------------------------- MODULE LineLexerTrace ---------------------------
(* LineTrace of DESIGN.md: code -> spec for property C04.  Validates what     *)
(* Next returned for seeded random long lines and option groups.              *)
(*                                                                            *)
(* trace.ndjson: one line per script element                                  *)
(*   [id, kind: "line" | "group", arrow, items (kind line),                   *)
(*    opts: <<[items]>> (kind group),                                         *)
(*    errs: number of syntax errors an independent ANTLR error listener       *)
(*          counted on the element alone,                                     *)
(*    obs: [k: "line" | "opts" | "error" | "end" | "panic" | ...,             *)
(*          elems: <<[text, tags, dis]>>, marker: the following line of the   *)
(*          script came back intact]]                                         *)
(* One TLC state per element.  `LexLine` (module LineLexer) decides: if it    *)
(* classifies every line of the element as judged, the observation must be    *)
(* exactly the prescribed text / tags / Disabled in order; otherwise the      *)
(* element is skipped (counted).  Elements the automaton calls valid although *)
(* the grammar reported syntax errors (or invalid although it reported none)  *)
(* go to `modelbad`: the transcription of the .g4 is wrong (machinery error). *)
EXTENDS LineLexer, TLC, Json

Trace == ndJsonDeserialize("trace.ndjson")

VARIABLES l, bad, modelbad, njudged, nskipped, nopts
vars == <<l, bad, modelbad, njudged, nskipped, nopts>>

Init == l = 1 /\ bad = <<>> /\ modelbad = <<>> /\ njudged = 0 /\ nskipped = 0 /\ nopts = 0

Cap(lst, x) == IF Len(lst) < 60 THEN Append(lst, x) ELSE lst

Want(r) == [text |-> r.text, tags |-> r.tags, dis |-> r.dis]
RECURSIVE Results(_, _)
Results(opts, k) == IF k > Len(opts) THEN <<>> ELSE <<LexLine(TRUE, opts[k].items)>> \o Results(opts, k + 1)

\* plain lines have no Disabled flag: the recorder writes dis = FALSE, the model too
ObsMatches(obs, kind, rs) ==
  /\ obs.k = kind
  /\ Len(obs.elems) = Len(rs)
  /\ \A k \in 1..Len(rs) : /\ obs.elems[k].text = rs[k].text
                           /\ obs.elems[k].tags = rs[k].tags
                           /\ (kind = "opts" => obs.elems[k].dis = rs[k].dis)
  /\ obs.marker

Step ==
  /\ l <= Len(Trace)
  /\ LET e  == Trace[l]
         rs == IF e.kind = "group" THEN Results(e.opts, 1) ELSE <<LexLine(e.arrow, e.items)>>
         judged  == \A k \in 1..Len(rs) : rs[k].judged
         allval  == \A k \in 1..Len(rs) : rs[k].status = "valid"
         someinv == \E k \in 1..Len(rs) : rs[k].status = "invalid"
         kind == IF e.kind = "group" \/ rs[1].arrow THEN "opts" ELSE "line"
         ok == ObsMatches(e.obs, kind, rs)
         wrongModel == (allval /\ e.errs > 0) \/ (someinv /\ e.errs = 0)
     IN /\ bad' = IF judged /\ ~wrongModel /\ ~ok
                  THEN Cap(bad, [id |-> e.id, kind |-> kind, exp |-> [k \in 1..Len(rs) |-> Want(rs[k])]])
                  ELSE bad
        /\ modelbad' = IF wrongModel THEN Cap(modelbad, [id |-> e.id, errs |-> e.errs,
                                                         status |-> [k \in 1..Len(rs) |-> rs[k].status]])
                       ELSE modelbad
        /\ njudged' = njudged + (IF judged THEN 1 ELSE 0)
        /\ nskipped' = nskipped + (IF judged THEN 0 ELSE 1)
        /\ nopts' = nopts + (IF judged /\ kind = "opts" THEN Len(rs) ELSE 0)
  /\ l' = l + 1

Spec == Init /\ [][Step]_vars

Done == (l = Len(Trace) + 1) =>
          PrintT(<<"RESULT", ToJson([bad |-> bad, modelbad |-> modelbad, events |-> l - 1, judged |-> njudged,
                                     skipped |-> nskipped, options |-> nopts])>>)
=============================================================================
