SPECIFICATION Spec
CONSTANTS
  Bug_NoNilCheck = FALSE
  Bug_ConvertByKind = FALSE
  Bug_NoTooManyCheck = FALSE
  AcceptU = FALSE
INVARIANT Done
POSTCONDITION Accepted
CHECK_DEADLOCK FALSE
