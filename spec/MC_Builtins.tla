----------------------------- MODULE MC_Builtins -----------------------------
(* Property C19, model level: on a grid of exact numbers the contracts of      *)
(* module Builtins are satisfiable and functional - each determines exactly    *)
(* one result among all candidates near x, except round and round_places at a  *)
(* tie, where the property ("within 0.5") admits both neighbours - and the     *)
(* closed forms shaped like base_functions.go satisfy them.  With a Bug_*      *)
(* switch on, TLC must report a counterexample.                                *)
EXTENDS Builtins, TLC

CONSTANTS JMax, KMax, NMax

VARIABLES x, n
vars == <<x, n>>

\* floor form of the integer j
IntVal(j) == [hi |-> j \div B, lo |-> j % B, f |-> 0, k |-> 0]
\* grid points around 0 and around the limb boundaries +-2^26 (carry / borrow between hi and lo)
Centres == {0, B, -B}
Grid == {[hi |-> IntVal(c + j).hi, lo |-> IntVal(c + j).lo, f |-> f, k |-> k] :
           c \in Centres, j \in -JMax..JMax, k \in 0..KMax, f \in 0..(2^KMax - 1)}
GridC == {v \in Grid : WellFormed(v)}          \* canonical members only

Init == x \in GridC /\ n \in 0..NMax
Next == UNCHANGED vars
Spec == Init /\ [][Next]_vars

J(v) == v.hi * B + v.lo                        \* small on this grid
IntCands == {IntVal(j) : j \in (J(x) - 3)..(J(x) + 3)}
Tie == 2 * x.f = 2^x.k

Sat(Rel(_, _)) == {r \in IntCands : Rel(x, r)}

ClosedFormsSatisfy ==
  /\ FloorRel(x, FloorOf(x)) /\ CeilRel(x, CeilOf(x))
  /\ IncRel(x, IncOf(x)) /\ DecRel(x, DecOf(x))
  /\ IntegerRel(x, TruncOf(x)) /\ SumRel(x, TruncOf(x), DecimalOf(x))
  /\ RoundRel(x, RoundOf(x))

Functional ==
  /\ Cardinality(Sat(FloorRel)) = 1 /\ Cardinality(Sat(CeilRel)) = 1
  /\ Cardinality(Sat(IncRel)) = 1 /\ Cardinality(Sat(DecRel)) = 1
  /\ Cardinality(Sat(IntegerRel)) = 1
  /\ Cardinality(Sat(RoundRel)) = (IF Tie THEN 2 ELSE 1)
  \* decimal: exactly one d with integer + d = x, for the one admissible integer part
  /\ \A i \in Sat(IntegerRel) :
       Cardinality({d \in {[hi |-> h, lo |-> (IF h = 0 THEN 0 ELSE B - 1), f |-> x.f, k |-> x.k] : h \in {-1, 0}}
                      \cup {[hi |-> 0, lo |-> 1, f |-> x.f, k |-> x.k]} : SumRel(x, i, d)}) = 1

\* ---- round_places: candidates are all n-place decimals near x
XS == ((J(x) * 2^x.k + x.f) * 10^n) \div 2^x.k           \* floor(x * 10^n), small here
DecVal(c) == LET j == c \div 10^n IN                      \* c / 10^n in decimal floor form
             [hi |-> IntVal(j).hi, lo |-> IntVal(j).lo, g |-> c % 10^n, p |-> n]
RPCands == {DecVal(c) : c \in (XS - 3)..(XS + 3)}
RPTie == ((J(x) * 2^x.k + x.f) * 10^n * 2) % (2^x.k * 2) = 2^x.k     \* frac(x*10^n) = 1/2
\* math.Round(f * 10^n) / 10^n (half away from zero)
RPOf == LET num == (J(x) * 2^x.k + x.f) * 10^n  den == 2^x.k
            fl == num \div den  r2 == 2 * (num % den)
            c == IF r2 > den THEN fl + 1 ELSE IF r2 < den THEN fl
                 ELSE IF num < 0 THEN fl ELSE fl + 1
        IN DecVal(c)
RoundPlaces == Abs(J(x)) <= JMax + 1 =>      \* scaled values stay small only around 0
  /\ \A R \in RPCands : InRPWindow(x, R)
  /\ RoundPlacesRel(x, n, RPOf)
  /\ Cardinality({R \in RPCands : RoundPlacesRel(x, n, R)}) = (IF RPTie THEN 2 ELSE 1)
=============================================================================
