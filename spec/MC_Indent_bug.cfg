SPECIFICATION Spec
CONSTANTS
  Widths = {0, 1, 2, 3, 4, 8, 16}
  MaxLines = 6
  BlankCounts = TRUE
INVARIANTS NeverNegative BalancedAtEof SingleEof OpenLevels StackOK LayoutInvariant
CHECK_DEADLOCK FALSE
