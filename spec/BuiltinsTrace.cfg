SPECIFICATION Spec
CONSTANTS
  Bug_IncIsCeil = FALSE
  Bug_IntegerIsFloor = FALSE
  Bug_DecIsFloor = FALSE
INVARIANT Done
POSTCONDITION Accepted
CHECK_DEADLOCK FALSE
