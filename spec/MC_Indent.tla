----------------------------- MODULE MC_Indent -----------------------------
(* Exhaustive exploration of the indentation layer over all inputs of at most *)
(* MaxLines line breaks with widths in Widths and every line kind.            *)
(*   Balanced / NeverNegative / SingleEof : property C20 (token balance)      *)
(*   LayoutInvariant                      : property C08 (layout never        *)
(*     changes the block structure): the input is generated as a nesting      *)
(*     profile (content lines going one level deeper, staying, or going back  *)
(*     to an open level) rendered with arbitrary widths per level, with       *)
(*     blank / comment lines of arbitrary width in between; the emitted       *)
(*     INDENT/DEDENT/LINE structure must be the canonical one of the profile. *)
EXTENDS IndentLexer, FiniteSets, TLC

CONSTANTS Widths, MaxLines, BlankCounts

VARIABLES stk,      \* indent stack of the lexer
          nIn, nDe, \* INDENT / DEDENT tokens emitted so far
          eofs,     \* EOF tokens emitted
          lines,    \* line breaks consumed
          out,      \* emitted structure tokens: "L" (content line), "IN", "DE"
          canon,    \* canonical structure of the profile generated so far
          depth     \* current nesting depth of the profile
vars == <<stk, nIn, nDe, eofs, lines, out, canon, depth>>

Count(s, t) == Cardinality({i \in DOMAIN s : s[i] = t})

Init == /\ stk = <<>> /\ nIn = 0 /\ nDe = 0 /\ eofs = 0 /\ lines = 0
        /\ out = <<>> /\ canon = <<>> /\ depth = 0

Emit(r, isContent) ==
  /\ stk' = r.stk
  /\ nIn' = nIn + Count(r.toks, "IN")
  /\ nDe' = nDe + Count(r.toks, "DE")
  /\ out' = out \o r.toks \o (IF isContent THEN <<"L">> ELSE <<>>)

\* a content line one level deeper than the previous content line: any width
\* greater than the enclosing level
Deeper(w) ==
  /\ eofs = 0 /\ lines < MaxLines /\ w > Top(stk)
  /\ Emit(NewlineStep(stk, w, "content", BlankCounts), TRUE)
  /\ canon' = canon \o <<"IN", "L">>
  /\ depth' = depth + 1
  /\ lines' = lines + 1 /\ UNCHANGED eofs

\* a content line at an already open level j (0 = column of the node body)
Back(j) ==
  /\ eofs = 0 /\ lines < MaxLines /\ j \in 0..depth
  \* the profile's own stack is the lexer's stack only while the design holds;
  \* the width is the one the profile opened level j with
  /\ Len(stk) >= j
  /\ LET w == IF j = 0 THEN 0 ELSE stk[j] IN
     /\ Emit(NewlineStep(stk, w, "content", BlankCounts), TRUE)
     /\ canon' = canon \o Rep("DE", depth - j) \o <<"L">>
  /\ depth' = j
  /\ lines' = lines + 1 /\ UNCHANGED eofs

\* a blank or comment-only line of any width: never part of the profile
Junk(w, k) ==
  /\ eofs = 0 /\ lines < MaxLines
  /\ Emit(NewlineStep(stk, w, k, BlankCounts), FALSE)
  /\ lines' = lines + 1 /\ UNCHANGED <<eofs, canon, depth>>

Eof ==
  /\ eofs = 0
  /\ Emit(EofStep(stk), FALSE)
  /\ eofs' = 1
  /\ canon' = canon \o Rep("DE", depth)
  /\ depth' = 0
  /\ UNCHANGED lines

Next == \/ \E w \in Widths : Deeper(w)
        \/ \E j \in 0..3 : Back(j)
        \/ \E w \in Widths, k \in {"blank", "comment"} : Junk(w, k)
        \/ Eof

Spec == Init /\ [][Next]_vars

\* --------------------------------------------------------------- C20 (tokens)
NeverNegative == nDe <= nIn
BalancedAtEof == (eofs = 1) => (nIn = nDe /\ stk = <<>>)
SingleEof     == eofs <= 1
OpenLevels    == (eofs = 0) => (nIn - nDe = Len(stk))
StackOK       == StrictlyIncreasing(stk)
\* ------------------------------------------------------------------------ C08
LayoutInvariant == (eofs = 1) => (out = canon)
=============================================================================
