------------------------------- MODULE Loader -------------------------------
(* The load protocol of ysgo.NewDialogueRunner(storer, seed, readers...)       *)
(* (runner.go, internal/tree/creator.go FromReaders/FromReader,               *)
(* internal/rng/seed.go), property C05.                                       *)
(*                                                                            *)
(* The Yarn grammar itself is not re-implemented: what ANTLR says about a     *)
(* byte string parsed on its own is abstracted to a record of facts           *)
(*   [errs     : syntax errors reported by an error listener (lexer+parser),  *)
(*    mixed    : 0 no indentation mixes tabs and spaces,                      *)
(*               1 only indentations in front of blank/comment-only lines do, *)
(*               2 the indentation of a content line does,                    *)
(*    nodes    : nodes in the parse tree,                                     *)
(*    consumed : the parser stopped at the end of the input (the rule         *)
(*               `dialogue` has no EOF, so a parse may stop early silently),  *)
(*    opanic   : the facts could not be established (oracle failed),         *)
(*    blank    : the bytes are empty or white space only]                     *)
(*                                                                            *)
(* Declarative part (the property):  Allowed(rs, whole, seed) is the set of   *)
(* outcomes C05 permits for readers rs (facts per reader, each parsed on its  *)
(* own as FromReaders does), `whole` (facts of the concatenation) and the     *)
(* class of the seed string.  Outcomes "panic" / "timeout" are never allowed. *)
(*                                                                            *)
(* Operational part: the protocol as a small state machine (parse reader by   *)
(* reader, collect nodes, take the first node, create the RNG), shown by TLC  *)
(* (MC_Loader) to be total, terminating and to stay inside Allowed.           *)
EXTENDS Integers, Sequences

CONSTANT PerReaderOnly   \* TRUE: validity is asked per reader only (strict reading)
                         \* FALSE: an outcome is only prescribed where the per-reader
                         \*        reading and the whole-input reading agree

SeedClasses == {"empty", "valid", "invalid"}   \* "valid" = non-empty, over [0-9a-z]

\* ------------------------------------------------------------ reader classes
\* "invalid": certainly not a syntactically valid script
\* "valid"  : certainly valid
\* "open"   : the property does not settle it (tabs+spaces only in front of a blank or
\*            comment-only line) or the facts are unknown
Class(r) ==
  IF r.mixed = 2 THEN "invalid"
  ELSE IF r.opanic THEN "open"
  ELSE IF r.errs > 0 \/ ~r.consumed \/ r.nodes = 0 THEN "invalid"
  ELSE IF r.mixed = 1 THEN "open"
  ELSE "valid"

\* why a reader is invalid (only used to label a rejected trace event)
Reason(r) ==
  IF r.mixed = 2 THEN "mixed-indent"
  ELSE IF r.errs > 0 THEN "syntax-error"
  ELSE IF r.nodes = 0 THEN "no-node"
  ELSE IF ~r.consumed THEN "trailing-input"
  ELSE "none"

SomeInvalid(rs) == \E i \in DOMAIN rs : Class(rs[i]) = "invalid"
AllValid(rs)    == rs # <<>> /\ \A i \in DOMAIN rs : Class(rs[i]) = "valid"
\* A blank reader is invalid on its own ("empty input"), but next to other readers an
\* implementation may as well skip it; it only forces an error when there is nothing else.
AllBlank(rs)    == \A i \in DOMAIN rs : rs[i].blank            \* includes rs = <<>>
SomeInvalidNonBlank(rs) == \E i \in DOMAIN rs : Class(rs[i]) = "invalid" /\ ~rs[i].blank

MustError(rs, whole) ==
  IF PerReaderOnly THEN rs = <<>> \/ SomeInvalid(rs)
  ELSE (AllBlank(rs) \/ SomeInvalidNonBlank(rs)) /\ Class(whole) = "invalid"

MustRunner(rs, whole, seed) ==
  /\ AllValid(rs)
  /\ PerReaderOnly \/ Class(whole) = "valid"
  /\ seed \in {"empty", "valid"}

Allowed(rs, whole, seed) ==
  IF MustError(rs, whole) THEN {"error"}
  ELSE IF MustRunner(rs, whole, seed) THEN {"runner"}
  ELSE {"runner", "error"}

\* start node of a runner the property prescribes: first node of the first reader
StartOf(rs) == <<1, 1>>

\* ------------------------------------------------------- protocol (machine)
CONSTANTS Bug_IgnoreSyntaxErrors,  \* errors are only printed; the tree is used anyway
          Bug_NoNodeCheck,         \* Nodes[0] taken without looking
          Bug_MixedPanics          \* mixed indentation panics inside the lexer

VARIABLES rs, whole, seed,   \* the input (chosen initially, never changed)
          pc,                \* "parse" | "first" | "rng" | "done"
          i,                 \* reader being parsed
          acc,               \* collected nodes, as <<reader, index>> pairs
          outcome,           \* "none" | "runner" | "error" | "panic"
          start              \* start node of the runner
vars == <<rs, whole, seed, pc, i, acc, outcome, start>>

NodesOf(k, n) == [j \in 1..n |-> <<k, j>>]

Finish(o) == /\ pc' = "done" /\ outcome' = o /\ UNCHANGED <<i, acc, start>>

Parse ==
  /\ pc = "parse"
  /\ IF i > Len(rs)
     THEN \* FromReaders refuses an empty reader list itself
          IF rs = <<>> THEN Finish("error")
          ELSE pc' = "first" /\ UNCHANGED <<i, acc, outcome, start>>
     ELSE LET r == rs[i]  c == Class(r)
              accept == /\ pc' = "parse" /\ i' = i + 1
                        /\ acc' = acc \o NodesOf(i, r.nodes)
                        /\ UNCHANGED <<outcome, start>>
          IN IF r.mixed = 2 /\ Bug_MixedPanics THEN Finish("panic")
             ELSE IF c = "invalid"
                  THEN IF Bug_IgnoreSyntaxErrors /\ r.mixed # 2 THEN accept ELSE Finish("error")
             ELSE IF c = "open" THEN Finish("error") \/ accept
             ELSE accept
  /\ UNCHANGED <<rs, whole, seed>>

First ==
  /\ pc = "first"
  /\ IF acc = <<>>
     THEN IF Bug_NoNodeCheck THEN Finish("panic") ELSE Finish("error")
     ELSE /\ start' = acc[1] /\ pc' = "rng" /\ UNCHANGED <<i, acc, outcome>>
  /\ UNCHANGED <<rs, whole, seed>>

Rng ==
  /\ pc = "rng"
  /\ IF seed = "invalid"
     THEN outcome' \in {"error", "runner"}   \* the property leaves it open
     ELSE outcome' = "runner"
  /\ pc' = "done" /\ UNCHANGED <<i, acc, start>>
  /\ UNCHANGED <<rs, whole, seed>>

Done == pc = "done" /\ UNCHANGED vars

Next == Parse \/ First \/ Rng \/ Done

\* ---------------------------------------------------------------- properties
NoPanic       == outcome # "panic"
WithinAllowed == pc = "done" => outcome \in Allowed(rs, whole, seed)
\* a prescribed runner starts at the first node of the first reader
StartsAtFirst == (pc = "done" /\ outcome = "runner" /\ AllValid(rs)) => start = StartOf(rs)
\* deterministic where the property determines the outcome: |Allowed| = 1 there, so
\* WithinAllowed already forces the single value; totality = no deadlock before "done";
\* termination = <>(pc = "done") under weak fairness (MC_Loader).
=============================================================================
