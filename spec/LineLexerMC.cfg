SPECIFICATION Spec
CONSTANTS
  MaxLen = 3
  FullLen = 3
  MaxOpts = 3
  Seed = 1
  Bug_LoneLtDropped = FALSE
  Bug_NoPopAfterTag = FALSE
INVARIANTS ModesWellFormed BackToBody TrailingNeverText InOrder MeetsDeclarative StepIsLexLine GroupKeepsOrder Emit
CHECK_DEADLOCK FALSE
