------------------------------ MODULE Builtins ------------------------------
(* Property C19: relational contracts of the numeric built-ins, on exact      *)
(* numbers in the floor form of module BuiltinsRat (|x| < 2^52, at most 28    *)
(* fractional bits).  Each contract is the sentence of the property, written  *)
(* on the difference D = r - x (H = comparison with half-integers c/2).       *)
(* Arguments with more than 28 fractional bits (a hair away from an integer   *)
(* or a half) reach the contracts whose result is an INTEGER through the      *)
(* class-preserving projection of the harness (toFloorFormCoarse): floor(x)   *)
(* and the sign are kept, the fraction is replaced by one of 28 bits on the   *)
(* same side of 0 and of 1/2.  FloorRel .. RoundRel read nothing else of x    *)
(* when r is integral: Twice(D) = 2*dj*d - 2*f compared with c*d, c in -2..2, *)
(* depends on dj and on whether f/d is 0, below, at or above 1/2.             *)
EXTENDS BuiltinsRat, FiniteSets

\* floor(x) <= x < floor(x)+1              <=>  -1 < r - x <= 0, r integral
FloorRel(x, r) == IsInt(r) /\ LET D == Diff(r, x) IN LeH(D, 0) /\ GtH(D, -2)
\* ceil(x)-1 < x <= ceil(x)                <=>  0 <= r - x < 1
CeilRel(x, r)  == IsInt(r) /\ LET D == Diff(r, x) IN GeH(D, 0) /\ LtH(D, 2)
\* inc(x) is the least integer greater than x  <=>  0 < r - x <= 1
IncRel(x, r)   == IsInt(r) /\ LET D == Diff(r, x) IN GtH(D, 0) /\ LeH(D, 2)
\* dec(x) is the greatest integer less than x  <=>  -1 <= r - x < 0
DecRel(x, r)   == IsInt(r) /\ LET D == Diff(r, x) IN LtH(D, 0) /\ GeH(D, -2)
\* integer(x) truncates toward zero: an integer between 0 and x, less than 1 away from x
IntegerRel(x, r) == IsInt(r) /\ LET D == Diff(r, x) IN
                    IF IsNeg(x) THEN GeH(D, 0) /\ LtH(D, 2)      \* x < 0:  x <= r < x+1
                    ELSE LeH(D, 0) /\ GtH(D, -2)                 \* x >= 0: x-1 < r <= x
\* integer(x) + decimal(x) = x   (i integral, so: frac(d) = frac(x) and floor(x) - i = floor(d))
SumRel(x, i, d) == /\ IsInt(i)
                   /\ d.f = x.f /\ d.k = x.k
                   /\ DJ(x, i) # 99 /\ DJ(d, [hi |-> 0, lo |-> 0, f |-> 0, k |-> 0]) = DJ(x, i)
\* round(x) is an integer within 0.5 of x (both neighbours are allowed at a tie)
RoundRel(x, r) == IsInt(r) /\ LET D == Diff(r, x) IN GeH(D, -1) /\ LeH(D, 1)

(* round_places(x, n): the result, read as the decimal it denotes             *)
(*      R = (hi*2^26 + lo) + g / 10^p      (0 <= g < 10^p),                   *)
(* is within half a unit of the n-th decimal place of x:                      *)
(*      |R - x| <= 1 / (2 * 10^n).                                            *)
(* With M = 2^k * 10^p (the caller keeps M < 2^30):                           *)
(*      (R - x) * M = dj*M + g*2^k - f*10^p =: A ,  |A| < 2M < 2^31           *)
(*      |A| * 2 * 10^n <= M   <=>   |A| <= M \div (2*10^n)   (A is an integer) *)
InRPWindow(x, R) == x.k <= 10 /\ R.p <= 8 /\ 2^x.k * 10^R.p < 1073741824
RoundPlacesRel(x, n, R) ==
  LET dj == DJ(R, x) IN
  /\ dj # 99 /\ Abs(dj) <= 1
  /\ LET M == 2^x.k * 10^R.p
         A == dj * M + R.g * 2^x.k - x.f * 10^R.p
     IN Abs(A) <= M \div (2 * 10^n)

-----------------------------------------------------------------------------
(* Closed forms shaped like base_functions.go, for the model-level check that *)
(* the contracts are satisfiable and functional, with switches for            *)
(* non-vacuity.                                                               *)
CONSTANTS Bug_IncIsCeil, Bug_IntegerIsFloor, Bug_DecIsFloor

FloorOf(x) == AddJ(x, 0)
CeilOf(x)  == IF IsInt(x) THEN AddJ(x, 0) ELSE AddJ(x, 1)
IncOf(x)   == IF Bug_IncIsCeil THEN CeilOf(x) ELSE AddJ(FloorOf(x), 1)        \* floor(f) + 1
DecOf(x)   == IF Bug_DecIsFloor THEN FloorOf(x) ELSE AddJ(CeilOf(x), -1)      \* ceil(f) - 1
TruncOf(x) == IF IsNeg(x) /\ ~Bug_IntegerIsFloor THEN CeilOf(x) ELSE FloorOf(x)
\* math.Round: half away from zero
RoundOf(x) == LET twice == 2 * x.f  half == 2^x.k IN
              IF twice > half THEN AddJ(x, 1)
              ELSE IF twice < half THEN AddJ(x, 0)
              ELSE IF IsNeg(x) THEN AddJ(x, 0) ELSE AddJ(x, 1)
\* x - trunc(x)
DecimalOf(x) == IF IsInt(x) THEN [hi |-> 0, lo |-> 0, f |-> 0, k |-> 0]
                ELSE IF IsNeg(x) /\ ~Bug_IntegerIsFloor THEN [hi |-> -1, lo |-> B - 1, f |-> x.f, k |-> x.k]
                ELSE [hi |-> 0, lo |-> 0, f |-> x.f, k |-> x.k]
=============================================================================
