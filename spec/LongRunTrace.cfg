SPECIFICATION Spec
INVARIANT Done
POSTCONDITION Accepted
CHECK_DEADLOCK FALSE
