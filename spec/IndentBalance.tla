--------------------------- MODULE IndentBalance ---------------------------
(* Unbounded-input lemma behind the token balance of property C20, proved with  *)
(* TLAPS: the indentation layer only ever PUSHES one level and emits one INDENT, *)
(* or POPS one level and emits one DEDENT (handleNewLineToken pops in a loop,    *)
(* handleEndOfFileToken pops until the stack is empty: both are sequences of    *)
(* Pop steps).  Hence, for inputs of any length,                                *)
(*     #INDENT - #DEDENT = number of open levels  (in particular #DEDENT <=     *)
(*     #INDENT on every prefix of the token stream), and once the stack has     *)
(*     been emptied at the end of input the two counts are equal.               *)
(* (MC_Indent.tla checks the same statements, and the layout invariance, by      *)
(* exhaustive exploration of bounded inputs; LexTrace.tla binds them to the real *)
(* lexer.)                                                                       *)
EXTENDS Integers, Sequences, TLAPS

VARIABLES stk, nIn, nDe
vars == <<stk, nIn, nDe>>

Init == stk = <<>> /\ nIn = 0 /\ nDe = 0

Push(w) == /\ stk' = Append(stk, w)
           /\ nIn' = nIn + 1
           /\ nDe' = nDe

Pop == /\ stk # <<>>
       /\ stk' = SubSeq(stk, 1, Len(stk) - 1)
       /\ nDe' = nDe + 1
       /\ nIn' = nIn

Next == (\E w \in Nat : Push(w)) \/ Pop

Spec == Init /\ [][Next]_vars

TypeOK == stk \in Seq(Nat) /\ nIn \in Nat /\ nDe \in Nat
Balance == nIn - nDe = Len(stk)
Inv == TypeOK /\ Balance

NeverNegative == nDe <= nIn
BalancedWhenClosed == (stk = <<>>) => (nIn = nDe)

LEMMA InitInv == Init => Inv
  BY DEF Init, Inv, TypeOK, Balance

LEMMA NextInv == Inv /\ [Next]_vars => Inv'
<1> SUFFICES ASSUME Inv, [Next]_vars PROVE Inv'
  OBVIOUS
<1>1. ASSUME NEW w \in Nat, Push(w) PROVE Inv'
  BY <1>1 DEF Inv, TypeOK, Balance, Push
<1>2. ASSUME Pop PROVE Inv'
  <2>1. Len(stk) >= 1
    BY <1>2 DEF Pop, Inv, TypeOK
  <2>2. stk' \in Seq(Nat) /\ Len(stk') = Len(stk) - 1
    BY <1>2, <2>1 DEF Pop, Inv, TypeOK
  <2>3. nDe' \in Nat /\ nIn' \in Nat
    BY <1>2 DEF Pop, Inv, TypeOK
  <2> QED
    BY <1>2, <2>1, <2>2, <2>3 DEF Pop, Inv, TypeOK, Balance
<1>3. ASSUME UNCHANGED vars PROVE Inv'
  BY <1>3 DEF Inv, TypeOK, Balance, vars
<1> QED
  BY <1>1, <1>2, <1>3 DEF Next

THEOREM Invariance == Spec => []Inv
  BY InitInv, NextInv, PTL DEF Spec

THEOREM Consequences == Inv => NeverNegative /\ BalancedWhenClosed
  BY DEF Inv, TypeOK, Balance, NeverNegative, BalancedWhenClosed
=============================================================================
