------------------------------ MODULE LineLexer ------------------------------
(* Property C04: the text / tags / Disabled flag of a returned line or option. *)
(*                                                                            *)
(* A physical line (after its indentation) is a sequence of ITEMS             *)
(*   [c |-> class, cp |-> code point, s |-> code points, v |-> value]         *)
(* of the classes                                                             *)
(*   "o"  ordinary ASCII character without any lexical meaning       (cp)     *)
(*   "mb" multi-byte character, not white space                      (cp)     *)
(*   "sp" blank: space or tab                                        (cp)     *)
(*   "lt" <   "sl" /   "gt" >   "rb" }   "da" -   "eq" =            (cp)     *)
(*   "es" backslash + one of the escapable characters \ < > { } # /  (cp)     *)
(*   "eb" backslash + [ or ]  (kept by the lexer, resolved by markup) (cp)    *)
(*   "ex" backslash + a character that cannot be escaped             (cp)     *)
(*   "x"  inline expression {e} whose value is v                              *)
(*   "t"  hashtag # followed by the tag text s                                *)
(*   "cm" comment // followed by the text s (to the end of the line)          *)
(*   "cd" line condition <<if e>> whose value is the boolean v                *)
(* A line may be preceded by the option arrow ->.                             *)
(*                                                                            *)
(* Two formulations:                                                          *)
(*  * the mode AUTOMATON (`StepItem`, `LexLine`): BodyMode / TextMode /       *)
(*    TextEscapedMode / TextCommandOrHashtagMode / HashtagMode of             *)
(*    YarnSpinnerLexer.g4 with ANTLR's longest-match rule (-> , << , // and   *)
(*    === arise from adjacent single characters), the line grammar of         *)
(*    YarnSpinnerParser.g4 (text first, at most one condition, then tags)     *)
(*    and the listener's re-joining of adjacent TEXT tokens; the mode stack   *)
(*    is explicit.  It classifies the line                                    *)
(*      "valid"   a line statement of the grammar                             *)
(*      "invalid" a syntax error (property C05 owns it)                       *)
(*      "notline" something else than a line (command, comment only, ===)     *)
(*      "open"    the grammar is fine but C04 does not fix the meaning        *)
(*                (text glued to a tag, indentation at the line start,        *)
(*                characters that may spell a keyword after <<)               *)
(*  * the DECLARATIVE meaning (`Decl`): the literal text is the concatenation *)
(*    of what each item before the trailing part stands for, position         *)
(*    independent; the trailing part (condition, tags, comment) never         *)
(*    contributes.                                                            *)
(* LineLexerMC checks that the automaton yields the declarative meaning on    *)
(* every line it classifies valid; both directions of the conformance check   *)
(* use `LexLine` as the oracle.  Text is a sequence of code points.           *)
EXTENDS Integers, Sequences, FiniteSets

CONSTANTS Bug_LoneLtDropped,    \* TextMode forgets the alternative  TEXT : ... | '<'
          Bug_NoPopAfterTag     \* HASHTAG_TEXT does not pop HashtagMode

-----------------------------------------------------------------------------
IsBlank(c) == c = 32 \/ c = 9

\* --------------------------------------------------------------- Display(v)
\* values: [t |-> "n", n, d] (d a power of two), [t |-> "b", b], [t |-> "s", s]
RECURSIVE NatDigits(_)
NatDigits(n) == IF n < 10 THEN <<48 + n>> ELSE NatDigits(n \div 10) \o <<48 + (n % 10)>>

\* exact decimal expansion of r/d, 0 < r < d, d a power of two (terminates)
RECURSIVE FracDigits(_, _)
FracDigits(r, d) == IF r = 0 THEN <<>>
                    ELSE <<48 + ((r * 10) \div d)>> \o FracDigits((r * 10) % d, d)

Display(v) ==
  CASE v.t = "b" -> IF v.b THEN <<84, 114, 117, 101>> ELSE <<70, 97, 108, 115, 101>>   \* True / False
    [] v.t = "s" -> v.s
    [] v.t = "n" -> LET a    == IF v.n < 0 THEN -v.n ELSE v.n
                        sign == IF v.n < 0 THEN <<45>> ELSE <<>>
                    IN IF a % v.d = 0 THEN sign \o NatDigits(a \div v.d)          \* integral: no decimal point
                       ELSE sign \o NatDigits(a \div v.d) \o <<46>> \o FracDigits(a % v.d, v.d)

\* ------------------------------------------------------------------ trimming
RECURSIVE DropBlanks(_)
DropBlanks(s) == IF s # <<>> /\ IsBlank(Head(s)) THEN DropBlanks(Tail(s)) ELSE s
RECURSIVE DropBlanksRight(_)
DropBlanksRight(s) == IF s # <<>> /\ IsBlank(s[Len(s)]) THEN DropBlanksRight(SubSeq(s, 1, Len(s) - 1)) ELSE s
Trim(s) == DropBlanksRight(DropBlanks(s))

\* ------------------------------------------------------------ item classes
PlainClasses == {"o", "mb", "gt", "rb"}           \* TEXT wherever they stand
TextFragClasses == PlainClasses \cup {"da", "eq", "sp"}
\* characters that extend a HASHTAG_TEXT ( ~[ \t\r\n#$<]+ ) when glued to a tag
GlueClasses == {"o", "mb", "gt", "rb", "da", "eq", "sl", "cm", "es", "eb", "ex", "x"}

ClassAt(items, i) == IF i <= Len(items) THEN items[i].c ELSE "nl"
StartsComment(items, i) == \/ ClassAt(items, i) = "cm"
                           \/ (ClassAt(items, i) = "sl" /\ ClassAt(items, i + 1) \in {"sl", "cm"})

\* what a text item stands for
Lit(it) == IF it.c = "x" THEN Display(it.v) ELSE <<it.cp>>

\* ----------------------------------------------------------------- automaton
\* st: [i       next item,
\*      stack   mode stack, top last,
\*      arrow   an option arrow has been read,
\*      parts   <<[src |-> item index, cps |-> contribution]>> literal contributions,
\*      tags    <<tag text>>,
\*      cond    "none" | "true" | "false",
\*      status  "ok" | "invalid" | "notline" | "open",
\*      incomment, done]
Start(arrow) == [i |-> 1, stack |-> <<"Body">>, arrow |-> arrow, parts |-> <<>>, tags |-> <<>>,
                 cond |-> "none", status |-> "ok", incomment |-> FALSE, done |-> FALSE]

Top(st) == st.stack[Len(st.stack)]
Push(stack, m) == Append(stack, m)
Pop(stack) == SubSeq(stack, 1, Len(stack) - 1)
SwitchTop(stack, m) == Append(Pop(stack), m)

Fail(st, why) == [st EXCEPT !.status = why, !.done = TRUE]
Adv(st, k) == [st EXCEPT !.i = st.i + k]
Contribute(st, i, cps) == [st EXCEPT !.parts = Append(st.parts, [src |-> i, cps |-> cps])]

\* a hashtag: HASHTAG, push HashtagMode, HASHTAG_TEXT, pop
TagStep(st, items, stackAfterHash) ==
  LET i == st.i
      afterText == IF Bug_NoPopAfterTag THEN Push(stackAfterHash, "Hashtag") ELSE stackAfterHash
      s1 == [st EXCEPT !.tags = Append(st.tags, items[i].s), !.stack = afterText, !.i = i + 1]
  IN IF items[i].s = <<>> THEN Fail(st, "invalid")                         \* '#' without text
     ELSE IF ClassAt(items, i + 1) \in GlueClasses THEN Fail(s1, "open")   \* glued: would extend the tag
     ELSE s1

StepBody(st, items) ==
  LET i == st.i  it == items[i]  c == it.c  nx == ClassAt(items, i + 1) IN
  CASE c = "sp" -> IF st.arrow THEN Adv(st, 1)                   \* BODY_WS, hidden
                   ELSE Fail(st, "open")                         \* indentation: another layer
    [] c = "da" /\ nx = "gt" ->                                   \* SHORTCUT_ARROW
         IF st.arrow THEN Fail(st, "invalid") ELSE Adv([st EXCEPT !.arrow = TRUE], 2)
    [] c = "eq" /\ nx = "eq" /\ ClassAt(items, i + 2) = "eq" ->   \* BODY_END
         Fail(st, IF st.arrow THEN "invalid" ELSE "notline")
    [] c = "lt" /\ nx \in {"lt", "cd"} ->                         \* COMMAND_START
         Fail(st, IF st.arrow THEN "invalid" ELSE "notline")
    [] c = "cd" -> Fail(st, IF st.arrow THEN "invalid" ELSE "notline")
    [] StartsComment(items, i) ->                                 \* BODY_COMMENT: nothing but a comment
         Fail(st, IF st.arrow THEN "open" ELSE "notline")         \* (a bare arrow takes the NEXT line as its text)
    [] c = "t" ->                                                 \* BODY_HASHTAG: tags without text
         Fail([st EXCEPT !.stack = Push(st.stack, "TCH")], "invalid")
    [] c = "x" ->                                                 \* EXPRESSION_START: push Text, push Expression; } pops
         Adv(Contribute([st EXCEPT !.stack = Push(st.stack, "Text")], i, Lit(it)), 1)
    [] c = "es" ->                                                \* ESCAPED_ANY: push Text, push TextEscaped; TEXT; pop
         Adv(Contribute([st EXCEPT !.stack = Push(st.stack, "Text")], i, Lit(it)), 1)
    [] c \in {"eb", "ex"} ->                                      \* ESCAPED_ANY then UNESCAPABLE_CHARACTER
         Fail([st EXCEPT !.stack = Push(st.stack, "Text")], "invalid")
    [] OTHER ->                                                   \* ANY: one character of TEXT, push Text
         Adv(Contribute([st EXCEPT !.stack = Push(st.stack, "Text")], i, Lit(it)), 1)

StepText(st, items) ==
  LET i == st.i  it == items[i]  c == it.c  nx == ClassAt(items, i + 1) IN
  CASE c \in TextFragClasses -> Adv(Contribute(st, i, Lit(it)), 1)          \* TEXT_FRAG
    [] c = "lt" /\ nx = "lt" -> Fail(st, "open")      \* TEXT_COMMAND_START; what follows may spell anything
    [] c = "lt" /\ nx = "cd" -> Fail(st, "invalid")   \* <<<if : COMMAND_START, then '<' in CommandMode
    [] c = "lt" /\ nx \notin {"lt", "cd"} -> IF Bug_LoneLtDropped THEN Adv(st, 1) ELSE Adv(Contribute(st, i, Lit(it)), 1)   \* TEXT : '<'
    [] StartsComment(items, i) -> [st EXCEPT !.incomment = TRUE, !.i = i + 1]   \* TEXT_COMMENT
    [] c = "sl" /\ ~StartsComment(items, i) -> Adv(Contribute(st, i, Lit(it)), 1)   \* TEXT : '/'
    [] c = "es" -> Adv(Contribute(st, i, Lit(it)), 1)    \* TEXT_ESCAPE skip, push TextEscaped, TEXT, pop
    [] c = "eb" -> Adv(Contribute(st, i, Lit(it)), 1)    \* TEXT_ESCAPED_MARKUP_BRACKET; markup drops the backslash
    [] c = "ex" -> Fail(st, "invalid")                   \* UNESCAPABLE_CHARACTER
    [] c = "x"  -> Adv(Contribute(st, i, Lit(it)), 1)    \* TEXT_EXPRESSION_START ... EXPRESSION_END
    [] c = "t"  -> TagStep(st, items, SwitchTop(st.stack, "TCH"))            \* TEXT_HASHTAG: mode(TCH), push Hashtag
    [] c = "cd" ->                                                           \* TEXT_COMMAND_START: mode(TCH), push Command
         [st EXCEPT !.cond = IF it.v.b THEN "true" ELSE "false", !.stack = SwitchTop(st.stack, "TCH"), !.i = i + 1]

StepTCH(st, items) ==
  LET i == st.i  it == items[i]  c == it.c IN
  CASE c = "sp" -> Adv(st, 1)                                               \* hidden
    [] c = "t"  -> TagStep(st, items, st.stack)
    [] StartsComment(items, i) -> [st EXCEPT !.incomment = TRUE, !.i = i + 1]
    [] OTHER -> Fail(st, "invalid")   \* a second condition, a condition after a tag, an error token

\* the line break
Newline(st) ==
  IF Top(st) = "Body" THEN Fail(st, IF st.arrow THEN "open" ELSE "notline")      \* nothing on the line
  ELSE [st EXCEPT !.stack = Pop(st.stack), !.done = TRUE]   \* TEXT_NEWLINE / TEXT_COMMANDHASHTAG_NEWLINE: popMode

StepItem(st, items) ==
  IF st.i > Len(items) THEN Newline(st)
  ELSE IF st.incomment THEN Adv(st, 1)
  ELSE CASE Top(st) = "Body" -> StepBody(st, items)
         [] Top(st) = "Text" -> StepText(st, items)
         [] Top(st) = "TCH"  -> StepTCH(st, items)
         [] OTHER -> Fail(st, "invalid")               \* a mode in which no rule of the line applies

RECURSIVE Run(_, _)
Run(st, items) == IF st.done THEN st ELSE Run(StepItem(st, items), items)

RECURSIVE FlatParts(_)
FlatParts(parts) == IF parts = <<>> THEN <<>> ELSE Head(parts).cps \o FlatParts(Tail(parts))

\* the observable result of a line
Result(st) ==
  LET valid == st.done /\ st.status = "ok" IN
  [status |-> IF valid THEN "valid" ELSE st.status,
   \* C04 speaks of lines and of options; a plain line that carries a condition is left open
   judged |-> valid /\ (st.arrow \/ st.cond = "none"),
   arrow  |-> st.arrow,
   text   |-> IF valid THEN Trim(FlatParts(st.parts)) ELSE <<>>,
   tags   |-> IF valid THEN st.tags ELSE <<>>,
   cond   |-> st.cond,
   dis    |-> valid /\ st.cond = "false"]

LexLine(arrow, items) == Result(Run(Start(arrow), items))

\* -------------------------------------------------------- declarative meaning
\* (meaningful for lines the automaton classifies valid)
RECURSIVE SkipArrow(_, _)
SkipArrow(items, i) ==      \* blanks, then possibly da gt, then blanks
  IF ClassAt(items, i) = "sp" THEN SkipArrow(items, i + 1) ELSE i

\* first item of the trailing part: a condition, a tag or the start of a comment
RECURSIVE Cut(_, _)
Cut(items, i) == IF i > Len(items) THEN i
                 ELSE IF items[i].c \in {"t", "cd"} \/ StartsComment(items, i) THEN i
                 ELSE Cut(items, i + 1)

RECURSIVE Concat(_, _, _)
Concat(items, i, j) == IF i >= j THEN <<>> ELSE Lit(items[i]) \o Concat(items, i + 1, j)

RECURSIVE TailTags(_, _)
TailTags(items, i) == IF i > Len(items) \/ StartsComment(items, i) THEN <<>>
                      ELSE IF items[i].c = "t" THEN <<items[i].s>> \o TailTags(items, i + 1)
                      ELSE TailTags(items, i + 1)
RECURSIVE TailCond(_, _)
TailCond(items, i) == IF i > Len(items) \/ StartsComment(items, i) THEN "none"
                      ELSE IF items[i].c = "cd" THEN (IF items[i].v.b THEN "true" ELSE "false")
                      ELSE TailCond(items, i + 1)

Decl(arrow, items) ==
  LET a == SkipArrow(items, 1)
      hasArrow == ~arrow /\ ClassAt(items, a) = "da" /\ ClassAt(items, a + 1) = "gt"
      b == IF hasArrow THEN a + 2 ELSE 1
      k == Cut(items, b)
  IN [text |-> Trim(Concat(items, b, k)), tags |-> TailTags(items, k), cond |-> TailCond(items, k),
      dis |-> TailCond(items, k) = "false"]
=============================================================================
