SPECIFICATION Spec
CONSTANT MaxLen = 6
INVARIANTS HistoryConsistent Emit
CHECK_DEADLOCK FALSE
