----------------------------- MODULE Containers -----------------------------
(* Abstract FIFO queue and LIFO stack: the sequential meaning that             *)
(* internal/container.Queue / Stack have to implement (property C20).          *)
EXTENDS Integers, Sequences

\* ---- queue
QEnq(q, x) == Append(q, x)
QDeq(q)    == Tail(q)
QHead(q)   == Head(q)

\* ---- stack
SPush(s, x)    == Append(s, x)
SPushAll(s, xs) == s \o xs
SPop(s)        == SubSeq(s, 1, Len(s) - 1)
STop(s)        == s[Len(s)]
=============================================================================
