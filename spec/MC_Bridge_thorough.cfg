SPECIFICATION Spec
CONSTANTS
  PTcall = {"int", "int8", "int64", "MyInt", "float32", "MyFloat", "bool", "MyBool", "string", "MyString", "uint", "struct"}
  PT3 = {"MyInt", "int16", "MyFloat32", "bool", "MyString", "uint8"}
  MaxP = 2
  MaxA = 4
  Emit = TRUE
  Bug_NoNilCheck = FALSE
  Bug_ConvertByKind = FALSE
  Bug_NoTooManyCheck = FALSE
  AcceptU = FALSE
INVARIANTS AcceptedIsTotal TableTotal EmitRow
CHECK_DEADLOCK FALSE
