SPECIFICATION Spec
CONSTANTS
  Runners <- MCRunners
  SeedOf <- MCSeedOf
  ScriptLen = 3
  MaxClock = 2
  Bug_SharedSource = FALSE
  Bug_TimeSeed = FALSE
INVARIANT SameSeedSameRun
PROPERTY NonInterference
CHECK_DEADLOCK FALSE
