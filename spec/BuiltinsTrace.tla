---------------------------- MODULE BuiltinsTrace ----------------------------
(* Property C19, code -> spec: every recorded evaluation of a built-in        *)
(* (trace.ndjson written by `verifh builtins record`: the argument was put in *)
(* the variable storer, the script ran <<call capture(f($x))>>, a host        *)
(* function received the result) is judged by the contract of module Builtins. *)
(*                                                                            *)
(* events (numbers in the floor form of BuiltinsRat, res.t first):            *)
(*  [ev:"num",   f, x, res]          floor ceil inc dec integer decimal round *)
(*  [ev:"intdec", x, res, res2]      integer(x) and decimal(x) of the same x  *)
(*  [ev:"rp",    x, n, res]          res = [t:"dec", d:[hi,lo,g,p]] the decimal *)
(*                                   the result denotes (shortest form)       *)
(*  [ev:"conv",  f, ty, tok, res]    round trips / identities: the result     *)
(*                                   must be of type ty and equal to tok      *)
(*  [ev:"mustfail", f, tok, res]     number/bool of a string that is neither  *)
(*  res.t: "n" number in the window | "dec" | "tok" | "err" | "panic" |       *)
(*         "novalue" | "wrongtype" | "notfinite" | "unrep" (outside window)   *)
EXTENDS Builtins, Sequences, TLC, Json

Trace == ndJsonDeserialize("trace.ndjson")

VARIABLES l, bad, nchk, nund
vars == <<l, bad, nchk, nund>>
Init == l = 1 /\ bad = <<>> /\ nchk = 0 /\ nund = 0

Zero == [hi |-> 0, lo |-> 0, f |-> 0, k |-> 0]

\* "" conforms, "?" undecided (outside what TLC can evaluate exactly), else the class
NumJudge(f, x, res) ==
  IF res.t # "n" THEN "result-" \o res.t      \* any acceptable result is a number inside the window
  ELSE LET r == res.v IN
    IF ~WellFormed(r) THEN "malformed"
    ELSE CASE f = "floor"   -> IF FloorRel(x, r) THEN "" ELSE "contract"
           [] f = "ceil"    -> IF CeilRel(x, r) THEN "" ELSE "contract"
           [] f = "inc"     -> IF IncRel(x, r) THEN "" ELSE "contract"
           [] f = "dec"     -> IF DecRel(x, r) THEN "" ELSE "contract"
           [] f = "integer" -> IF IntegerRel(x, r) THEN "" ELSE "contract"
           [] f = "round"   -> IF RoundRel(x, r) THEN "" ELSE "contract"
           \* decimal alone: x - decimal(x) must be the truncation of x, i.e. some integer i with
           \* IntegerRel(x, i) and i + d = x; i is determined: floor(x) - floor(d)
           [] f = "decimal" -> IF DJ(r, Zero) = 99 THEN "contract"
                               ELSE LET i == AddJ(x, 0 - DJ(r, Zero)) IN
                                    IF IntegerRel(x, i) /\ SumRel(x, i, r) THEN "" ELSE "contract"
           [] OTHER -> "unknown-function"

Judge(e) ==
  CASE e.ev = "num" -> NumJudge(e.f, e.x, e.res)
    [] e.ev = "intdec" ->
         IF e.res.t # "n" THEN "result-" \o e.res.t
         ELSE IF e.res2.t # "n" THEN "result-" \o e.res2.t
         ELSE IF ~WellFormed(e.res.v) \/ ~WellFormed(e.res2.v) THEN "malformed"
         ELSE IF ~IntegerRel(e.x, e.res.v) THEN "contract-integer"
         ELSE IF ~SumRel(e.x, e.res.v, e.res2.v) THEN "contract-sum"
         ELSE ""
    [] e.ev = "rp" ->
         IF e.res.t = "unrep" THEN "?"
         ELSE IF e.res.t # "dec" THEN "result-" \o e.res.t
         ELSE IF ~InRPWindow(e.x, e.res.d) THEN "?"
         ELSE IF RoundPlacesRel(e.x, e.n, e.res.d) THEN "" ELSE "contract"
    [] e.ev = "conv" ->
         IF e.res.t # "tok" THEN "result-" \o e.res.t
         ELSE IF e.res.ty # e.ty THEN "result-type"
         ELSE IF e.res.tok # e.tok THEN "not-equal"
         ELSE ""
    [] e.ev = "mustfail" -> IF e.res.t = "err" THEN "" ELSE "no-error-" \o e.res.t
    [] OTHER -> "unknown-event"

Room(f, j) == Cardinality({i \in 1..Len(bad) : bad[i].f = f /\ bad[i].what = j}) < 20

Step ==
  /\ l <= Len(Trace)
  /\ l' = l + 1
  /\ LET e == Trace[l]  j == Judge(e) IN
     /\ bad' = IF j \notin {"", "?"} /\ Room(e.f, j)
               THEN Append(bad, [line |-> l, id |-> e.id, f |-> e.f, what |-> j]) ELSE bad
     /\ nchk' = nchk + (IF j = "?" THEN 0 ELSE 1)
     /\ nund' = nund + (IF j = "?" THEN 1 ELSE 0)

Spec == Init /\ [][Step]_vars

Done == (l = Len(Trace) + 1) =>
          PrintT(<<"RESULT", ToJson([bad |-> bad, lines |-> l - 1, checked |-> nchk, undecided |-> nund])>>)
Accepted == TLCGet("stats").diameter - 1 = Len(Trace)
=============================================================================
