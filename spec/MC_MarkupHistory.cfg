SPECIFICATION Spec
CONSTANTS
  MaxCalls = 3
  Triples = FALSE
  Bug_BytePositions = FALSE
  Bug_NoTrimAdjust = FALSE
  Bug_CloseAllClosesLast = FALSE
  Bug_NoSwallow = FALSE
  Bug_NoResetSourcePosition = FALSE
  PairLast = FALSE
INVARIANT HistoryIndependent
CHECK_DEADLOCK FALSE
