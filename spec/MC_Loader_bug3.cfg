SPECIFICATION Spec
CONSTANTS
  MaxReaders = 3
  PerReaderOnly = FALSE
  Bug_IgnoreSyntaxErrors = FALSE
  Bug_NoNodeCheck = FALSE
  Bug_MixedPanics = TRUE
INVARIANTS TypeOK NoPanic WithinAllowed StartsAtFirst
PROPERTY Terminates
CHECK_DEADLOCK TRUE
