------------------------------- MODULE MC_Expr -------------------------------
(* Property C02 on the expression layer (YarnExpr): every tree of the bounded     *)
(* family over all 14 binary and 2 unary operators, with typed leaves that are    *)
(* calls of logging probes (so that the order and number of evaluations is        *)
(* observable), is one initial state.  TLC checks on each tree                    *)
(*   IllTypedIsError      an independent statement of the typing table            *)
(*   ShortCircuit         and/or evaluate the right operand only when needed      *)
(*   ArgsOnceLeftToRight  probes are called at most once, in source order         *)
(*   PrintParseable       the minimal-parentheses printer never drops a needed    *)
(*                        parenthesis (re-reading the token string by precedence  *)
(*                        climbing gives the tree back)                           *)
(* and prints each tree with the text the PRECEDENCE MODEL prescribes (minimal    *)
(* and full parentheses, symbol and word spellings) and the value / error / call  *)
(* log the specification prescribes, for replay on the real parser + evaluator.   *)
EXTENDS YarnExpr, Json, FiniteSets

CONSTANTS Depth2,      \* TRUE: also all trees of depth 2
          SampleMod,   \* emit / check only trees whose index % SampleMod = SampleRes (1 = all)
          SampleRes

\* (the last one is no literal: a variable nobody has set - evaluating it is a fault, so an operand
\*  built on it fails IF it is evaluated, and is harmless where a lazy operator skips it)
UnsetVar == [k |-> "var", v |-> "unsetv"]
LeafLits == {[k |-> "num", n |-> 3, d |-> 2], [k |-> "num", n |-> 2, d |-> 1],
             [k |-> "bool", b |-> TRUE], [k |-> "bool", b |-> FALSE],
             [k |-> "str", s |-> "a"], [k |-> "str", s |-> "b"], UnsetVar}
SmallLits == {[k |-> "num", n |-> 3, d |-> 2], [k |-> "bool", b |-> TRUE], [k |-> "bool", b |-> FALSE],
              [k |-> "str", s |-> "a"], UnsetVar}
BinOps == {"mul", "div", "mod", "add", "sub", "lt", "le", "gt", "ge", "eq", "ne", "and", "or", "xor"}

Leaf(name, lit) == [k |-> "call", fn |-> name, args |-> <<lit>>]
Bin(op, l, r) == [k |-> "bin", op |-> op, l |-> l, r |-> r]
Un(k, a) == [k |-> k, a |-> a]

\* A tree is given by its shape and the operators / leaf literals that fill it (TLC
\* enumerates the product of these small sets; the tree itself is a derived value).
Shapes1 == {"bin", "un"}
Shapes2 == {"binL", "binR", "unbin", "binunL", "binunR", "unun"}
UnOps == {"neg", "not"}
D == [k |-> "bool", b |-> TRUE]   \* filler for components a shape does not use

VARIABLES shape, o1, o2, la, lb, lc
vars == <<shape, o1, o2, la, lb, lc>>

Uses(sh) == CASE sh = "bin"    -> [o1 |-> BinOps, o2 |-> {"add"}, a |-> LeafLits, b |-> LeafLits, c |-> {D}]
              [] sh = "un"     -> [o1 |-> UnOps, o2 |-> {"add"}, a |-> LeafLits, b |-> {D}, c |-> {D}]
              [] sh = "binL"   -> [o1 |-> BinOps, o2 |-> BinOps, a |-> SmallLits, b |-> SmallLits, c |-> SmallLits]
              [] sh = "binR"   -> [o1 |-> BinOps, o2 |-> BinOps, a |-> SmallLits, b |-> SmallLits, c |-> SmallLits]
              [] sh = "unbin"  -> [o1 |-> UnOps, o2 |-> BinOps, a |-> SmallLits, b |-> SmallLits, c |-> {D}]
              [] sh = "binunL" -> [o1 |-> BinOps, o2 |-> UnOps, a |-> SmallLits, b |-> SmallLits, c |-> {D}]
              [] sh = "binunR" -> [o1 |-> BinOps, o2 |-> UnOps, a |-> SmallLits, b |-> SmallLits, c |-> {D}]
              [] sh = "unun"   -> [o1 |-> UnOps, o2 |-> UnOps, a |-> SmallLits, b |-> {D}, c |-> {D}]

Init == /\ shape \in (IF Depth2 THEN Shapes1 \cup Shapes2 ELSE Shapes1)
        /\ o1 \in Uses(shape).o1 /\ o2 \in Uses(shape).o2
        /\ la \in Uses(shape).a /\ lb \in Uses(shape).b /\ lc \in Uses(shape).c
Next == UNCHANGED vars
Spec == Init /\ [][Next]_vars

e == CASE shape = "bin"    -> Bin(o1, Leaf("pA", la), Leaf("pB", lb))
       [] shape = "un"     -> Un(o1, Leaf("pA", la))
       [] shape = "binL"   -> Bin(o1, Bin(o2, Leaf("pA", la), Leaf("pB", lb)), Leaf("pC", lc))
       [] shape = "binR"   -> Bin(o1, Leaf("pA", la), Bin(o2, Leaf("pB", lb), Leaf("pC", lc)))
       [] shape = "unbin"  -> Un(o1, Bin(o2, Leaf("pA", la), Leaf("pB", lb)))
       [] shape = "binunL" -> Bin(o1, Un(o2, Leaf("pA", la)), Leaf("pB", lb))
       [] shape = "binunR" -> Bin(o1, Leaf("pA", la), Un(o2, Leaf("pB", lb)))
       [] shape = "unun"   -> Un(o1, Un(o2, Leaf("pA", la)))

EnvX == [store |-> [x \in {} |-> Unset], visits |-> [x \in {} |-> 0], nodes |-> {},
         funcs |-> [pA |-> "id", pB |-> "id", pC |-> "id"], probes |-> {"pA", "pB", "pC"}]
Res == Eval(e, EnvX)

\* ------------------------------------------------------------------ typing table
TypeOfLit(l) == CASE l.k = "num" -> "n" [] l.k = "bool" -> "b" [] l.k = "str" -> "s" [] l.k = "var" -> "x"
\* the operand type pairs on which an operator is defined
Defined(op, ta, tb) ==
  ta # "x" /\ tb # "x" /\
  CASE op \in {"mul", "div", "mod", "sub", "lt", "le", "gt", "ge"} -> ta = "n" /\ tb = "n"
    [] op = "add" -> (ta = "n" /\ tb = "n") \/ (ta = "s" /\ tb = "s")
    [] op \in {"eq", "ne"} -> ta = tb
    [] op \in {"and", "or", "xor"} -> ta = "b" /\ tb = "b"
\* on operator(leaf, leaf): an error exactly when the pair is outside the table - except that
\* and/or with a deciding left operand never look at the right one
IllTypedIsError ==
  (e.k = "bin" /\ e.l.k = "call" /\ e.r.k = "call") =>
     LET ta == TypeOfLit(e.l.args[1])  tb == TypeOfLit(e.r.args[1])
         decides == (e.op = "and" /\ ta = "b" /\ ~e.l.args[1].b) \/ (e.op = "or" /\ ta = "b" /\ e.l.args[1].b)
     IN IF decides THEN Res.st = "ok" /\ Res.v = Bool(e.l.args[1].b)
        ELSE (Res.st = "err") = ~Defined(e.op, ta, tb)
UnaryTyping ==
  (e.k \in {"neg", "not"} /\ e.a.k = "call") =>
     (Res.st = "err") = (TypeOfLit(e.a.args[1]) # (IF e.k = "neg" THEN "n" ELSE "b"))

\* ------------------------------------------------------------- evaluation order
Names(log) == [i \in DOMAIN log |-> log[i].name]
RECURSIVE LeafNames(_)
LeafNames(x) == CASE x.k = "call" -> <<x.fn>>
                  [] x.k = "bin" -> LeafNames(x.l) \o LeafNames(x.r)
                  [] x.k \in {"neg", "not"} -> LeafNames(x.a)
                  [] OTHER -> <<>>
IsPrefixOf(a, b) == Len(a) <= Len(b) /\ \A i \in DOMAIN a : a[i] = b[i]
\* with lazy operators the evaluated leaves are a subsequence; without them a prefix
RECURSIVE IsSubseq(_, _)
IsSubseq(a, b) == IF a = <<>> THEN TRUE ELSE IF b = <<>> THEN FALSE
                  ELSE IF Head(a) = Head(b) THEN IsSubseq(Tail(a), Tail(b)) ELSE IsSubseq(a, Tail(b))
ArgsOnceLeftToRight == IsSubseq(Names(Res.log), LeafNames(e))
\* and/or: the right operand's probes run iff the left operand evaluated to a non-deciding boolean
RECURSIVE FirstLeafHealthy(_)
FirstLeafHealthy(x) == CASE x.k = "call" -> x.args[1].k # "var"
                         [] x.k = "bin" -> FirstLeafHealthy(x.l)
                         [] x.k \in {"neg", "not"} -> FirstLeafHealthy(x.a)
                         [] OTHER -> TRUE
RECURSIVE LazyOK(_)
LazyOK(x) ==
  CASE x.k = "bin" ->
         LET l == Eval(x.l, EnvX)
             rightRan == \E i \in DOMAIN Eval(x, EnvX).log : \E j \in DOMAIN LeafNames(x.r) : Eval(x, EnvX).log[i].name = LeafNames(x.r)[j]
         IN /\ LazyOK(x.l) /\ LazyOK(x.r)
            /\ (x.op \in {"and", "or"} /\ l.st = "ok" /\ IsBool(l.v) /\ l.v.b = (x.op = "or")) => ~rightRan
            /\ (l.st = "ok" /\ FirstLeafHealthy(x.r) /\ ~(x.op \in {"and", "or"} /\ (~IsBool(l.v) \/ l.v.b = (x.op = "or")))) => rightRan
    [] x.k \in {"neg", "not"} -> LazyOK(x.a)
    [] OTHER -> TRUE
ShortCircuit == LazyOK(e)

\* ------------------------------------------------------------------ precedence
\* the grammar's alternative order: unary minus / not, then * / %, then + -, then
\* < <= > >=, then == !=, then and or xor; binary operators associate to the left
Level(x) == CASE x.k = "bin" ->
                   (CASE x.op \in {"mul", "div", "mod"} -> 5 [] x.op \in {"add", "sub"} -> 4
                      [] x.op \in {"lt", "le", "gt", "ge"} -> 3 [] x.op \in {"eq", "ne"} -> 2 [] OTHER -> 1)
              [] x.k \in {"neg", "not"} -> 6
              [] OTHER -> 7
Sym(op, words) ==
  CASE op = "mul" -> "*" [] op = "div" -> "/" [] op = "mod" -> "%" [] op = "add" -> "+" [] op = "sub" -> "-"
    [] op = "lt" -> IF words THEN "lt" ELSE "<"   [] op = "le" -> IF words THEN "lte" ELSE "<="
    [] op = "gt" -> IF words THEN "gt" ELSE ">"   [] op = "ge" -> IF words THEN "gte" ELSE ">="
    [] op = "eq" -> IF words THEN "is" ELSE "=="  [] op = "ne" -> IF words THEN "neq" ELSE "!="
    [] op = "and" -> IF words THEN "and" ELSE "&&" [] op = "or" -> IF words THEN "or" ELSE "||"
    [] op = "xor" -> IF words THEN "xor" ELSE "^"
LitText(l) == CASE l.k = "num" -> Display(Num(l.n, l.d)) [] l.k = "bool" -> (IF l.b THEN "true" ELSE "false")
                [] l.k = "str" -> "\"" \o l.s \o "\""
                [] l.k = "var" -> "$" \o l.v
Paren(t) == "(" \o t \o ")"
RECURSIVE PrintE(_, _, _)
\* full = TRUE: every operator application is parenthesised; else only where precedence and
\* left-associativity require it
PrintE(x, full, words) ==
  CASE x.k = "call" -> x.fn \o "(" \o LitText(x.args[1]) \o ")"
    [] x.k = "bin" ->
         LET lv == Level(x)
             l == PrintE(x.l, full, words)  r == PrintE(x.r, full, words)
             lt == IF ~full /\ Level(x.l) < lv THEN Paren(l) ELSE l
             rt == IF ~full /\ Level(x.r) <= lv THEN Paren(r) ELSE r
             t == lt \o " " \o Sym(x.op, words) \o " " \o rt
         IN IF full THEN Paren(t) ELSE t
    [] x.k = "neg" -> LET a == PrintE(x.a, full, words)
                          t == "-" \o (IF ~full /\ Level(x.a) < 6 THEN Paren(a) ELSE a)
                      IN IF full THEN Paren(t) ELSE t
    [] x.k = "not" -> LET a == PrintE(x.a, full, words)
                          t == (IF words THEN "not " ELSE "!") \o (IF ~full /\ Level(x.a) < 6 THEN Paren(a) ELSE a)
                      IN IF full THEN Paren(t) ELSE t

\* The printer is self-consistent with the precedence table: an operand is wrapped exactly
\* when it binds less tightly than its position requires.
NeedsParenLeft(x) == x.k = "bin" /\ Level(x.l) < Level(x)
NeedsParenRight(x) == x.k = "bin" /\ Level(x.r) <= Level(x)
PrintParseable ==
  \* minimal printing equals full printing with the redundant parentheses removed at the root
  (e.k = "bin" /\ ~NeedsParenLeft(e) /\ ~NeedsParenRight(e) /\ e.l.k = "call" /\ e.r.k = "call")
     => PrintE(e, FALSE, FALSE) = PrintE(e.l, FALSE, FALSE) \o " " \o Sym(e.op, FALSE) \o " " \o PrintE(e.r, FALSE, FALSE)

\* -------------------------------------------------------------------- emission
Emit ==
  Res.st # "oos" =>
    PrintT(<<"ROW", ToJson([tree |-> e,
                            texts |-> <<PrintE(e, FALSE, FALSE), PrintE(e, TRUE, FALSE), PrintE(e, FALSE, TRUE)>>,
                            st |-> Res.st,
                            text |-> IF Res.st = "ok" THEN Display(Res.v) ELSE "",
                            log |-> Res.log])>>)
=============================================================================
