SPECIFICATION Spec
CONSTANTS
  MaxEnq = 40
  Bug = "none"
INVARIANT NeverGrewTwice
CHECK_DEADLOCK FALSE
