-------------------------- MODULE MarkupSafetyTrace --------------------------
(* Code -> spec for property C15: markup parsing is total and its results are *)
(* safe to use.  One event per ParseMarkup call on an arbitrary string:       *)
(*   [ev |-> "fuzz", id, kind, hex, outcome |-> "result"|"error"|"panic"|     *)
(*    "timeout", textLen (characters), attrs |-> <<<<pos, len>>...>>,         *)
(*    tfa |-> <<0|1...>> (1: TextForAttribute panicked for that attribute)]   *)
(* No functional oracle exists for arbitrary strings; the invariants of       *)
(* Markup!InRange (0 <= pos, 0 <= len, pos + len <= Len(text)) and the        *)
(* absence of panics / non-termination are evaluated on every event.          *)
EXTENDS Integers, Sequences, TLC, Json

Trace == ndJsonDeserialize("trace.ndjson")

VARIABLES l, bad, nres
vars == <<l, bad, nres>>

Init == l = 1 /\ bad = <<>> /\ nres = 0

Verdict(e) ==
  IF e.outcome \notin {"result", "error"} THEN e.outcome
  ELSE IF \E i \in DOMAIN e.attrs : e.attrs[i][1] < 0 \/ e.attrs[i][2] < 0 THEN "negative-range"
  ELSE IF \E i \in DOMAIN e.attrs : e.attrs[i][1] + e.attrs[i][2] > e.textLen THEN "range-outside-text"
  ELSE IF \E i \in DOMAIN e.tfa : e.tfa[i] # 0 THEN "text-for-attribute-panics"
  ELSE "ok"

Step ==
  /\ l <= Len(Trace)
  /\ l' = l + 1
  /\ LET e == Trace[l]  v == Verdict(e) IN
     /\ nres' = nres + (IF e.outcome = "result" THEN 1 ELSE 0)
     /\ bad' = IF v = "ok" \/ Len(bad) >= 1000 THEN bad ELSE Append(bad, [line |-> l, id |-> e.id, what |-> v])

Spec == Init /\ [][Step]_vars

Done == (l = Len(Trace) + 1) =>
          PrintT(<<"RESULT", ToJson([bad |-> bad, results |-> nres, lines |-> l - 1])>>)
Accepted == TLCGet("stats").diameter - 1 = Len(Trace)
=============================================================================
