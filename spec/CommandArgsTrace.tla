-------------------------- MODULE CommandArgsTrace --------------------------
(* Code -> spec for property C17: validates what real command handlers        *)
(* (registered with AddCommand) received for seeded random commands.          *)
(*                                                                            *)
(* trace.ndjson: one line per executed command statement                      *)
(*   [id, name: code points, reg: was a handler registered under the name,    *)
(*    items: <<[k |-> "w", w |-> code points] | [k |-> "e", v |-> value]>>,   *)
(*    units, slots: the characters written between << and >>,                 *)
(*    outcome: "call" (Next went on to the following line), "error" (Next     *)
(*             reported an error), "end" (the dialogue ended), "panic", ...,  *)
(*    calls: <<[name, args: <<value>>]>> every handler invocation observed    *)
(*           while Next executed the statement]                               *)
(* One TLC state per event.  The declarative meaning (`Expected`) decides; a  *)
(* mismatch is appended to `bad`.  As a check of the model itself the         *)
(* implementation-shaped `Pipeline` is run on the very characters written:    *)
(* where it disagrees with the declarative meaning the event goes to          *)
(* `modelbad` (machinery error, never a verdict on the code).                 *)
EXTENDS CommandArgs, TLC, Json

Trace == ndJsonDeserialize("trace.ndjson")

VARIABLES l, bad, modelbad, ncalls, nargs
vars == <<l, bad, modelbad, ncalls, nargs>>

Init == l = 1 /\ bad = <<>> /\ modelbad = <<>> /\ ncalls = 0 /\ nargs = 0

Cap(lst, x) == IF Len(lst) < 60 THEN Append(lst, x) ELSE lst

\* the library reports <<stop>> by ending the dialogue
OutcomeMatches(exp, got) == \/ exp = got
                            \/ (exp = "stop" /\ got = "end")

Step ==
  /\ l <= Len(Trace)
  /\ LET e    == Trace[l]
         regs == IF e.reg THEN {e.name} ELSE {}
         exp  == Expected(e.name, e.items, regs)
         pipe == Pipeline(e.units, e.slots, regs)
         ok   == OutcomeMatches(exp.outcome, e.outcome) /\ e.calls = exp.calls
     IN /\ bad' = IF ok THEN bad
                  ELSE Cap(bad, [id |-> e.id, expOutcome |-> exp.outcome, expCalls |-> exp.calls])
        /\ modelbad' = IF pipe = exp THEN modelbad ELSE Cap(modelbad, [id |-> e.id, pipe |-> pipe, exp |-> exp])
        /\ ncalls' = ncalls + Len(exp.calls)
        /\ nargs' = nargs + Len(e.items)
  /\ l' = l + 1

Spec == Init /\ [][Step]_vars

Done == (l = Len(Trace) + 1) =>
          PrintT(<<"RESULT", ToJson([bad |-> bad, modelbad |-> modelbad, events |-> l - 1,
                                     calls |-> ncalls, args |-> nargs])>>)
=============================================================================
