SPECIFICATION Spec
CONSTANTS
  PerReaderOnly = FALSE
INVARIANT Done
CHECK_DEADLOCK FALSE
