------------------------------ MODULE YarnTrace ------------------------------
(* Code -> spec: validates traces recorded from the real DialogueRunner          *)
(* (trace.ndjson, one event per public call or host action, written by           *)
(* `verifh core record`) against the runner machine of YarnRunner.              *)
(*                                                                              *)
(*   reset    [case]                 start of a case: Cases[case] is the program, *)
(*                                   NR fresh runners                            *)
(*   next     [r, in, obs]           DialogueRunner.Next(in.choice) on runner r;  *)
(*                                   in.done/in.err: the harness completed the   *)
(*                                   pending command's channel before the call   *)
(*                                   obs = [out, writes, fcalls, ccalls, vars,   *)
(*                                          visits] as observed                  *)
(*   hostset  [r, var, val]          the host wrote the storer                   *)
(*   snap     [r, h, snap]           Snapshot() taken, contents read at once     *)
(*   snapread [h, snap]              the same snapshot value read again later    *)
(*   restore  [r, h, ok]             RestoreAt(snapshot h) and its success       *)
(*   snaphand [h, node]              the host writes snapshot h by hand          *)
(*   rebind   [r, what, name, kind]  AddFunction ("f") / AddCommand ("c") of a   *)
(*                                   handler of behaviour class `kind`           *)
(*   restorebad [r, ok, obs...]      RestoreAt(a snapshot naming an unknown node)*)
(*                                                                              *)
(* The spec never blocks: the model step is driven by the logged INPUTS, the     *)
(* logged observations are compared with what the model prescribes, the first   *)
(* mismatch of a case is appended to `bad` (with the model's expectation) and   *)
(* the rest of that case is skipped.  One TLC state per event.                   *)
EXTENDS YarnRunner, Json

Cases == ndJsonDeserialize("cases.ndjson")
Trace == ndJsonDeserialize("trace.ndjson")

NR == 3

VARIABLES l, ci, rs, snaps, skip, bad, stats,
          disp      \* per runner: t0 (microseconds) of the Next call that started the pending command
vars == <<l, ci, rs, snaps, skip, bad, stats, disp>>

P == Cases[ci]

Init == /\ l = 1 /\ ci = 1 /\ rs = <<>> /\ snaps = <<>> /\ skip = TRUE /\ bad = <<>>
        /\ stats = [checked |-> 0, oos |-> 0, skipped |-> 0, cases |-> 0, waits |-> 0]
        /\ disp = [r \in 1..NR |-> 0]

VarsArr(p, store) == [i \in DOMAIN p.vars |-> store[p.vars[i]]]
VisitsArr(p, visits) == [i \in DOMAIN p.nodes |-> visits[p.nodes[i].title]]
SnapArr(p, sn) == [node |-> sn.node, vars |-> VarsArr(p, sn.vars), visits |-> VisitsArr(p, sn.visits), extra |-> 0]

Observes(p, what) ==   \* which observations the host configuration of the case provides
  CASE what = "writes" -> p.storer \in {"recording", "map"}
    [] what = "vars"   -> p.storer # "default"
    [] OTHER -> TRUE

\* The storer write log is compared by EFFECT: a write that stores the value the variable already
\* has changes nothing and is not part of any property (the property fixes what variables hold and
\* that a failing statement changes none, not how often the same value is written).
RECURSIVE EffWrites(_, _, _)
EffWrites(st, w, i) ==
  IF i > Len(w) THEN <<>>
  ELSE IF w[i].var \in DOMAIN st /\ st[w[i].var] = w[i].val THEN EffWrites(st, w, i + 1)
  ELSE <<w[i]>> \o EffWrites(IF w[i].var \in DOMAIN st THEN [st EXCEPT ![w[i].var] = w[i].val] ELSE st, w, i + 1)

Report(e, field, fields, exp, got, pre) ==
  IF Len(bad) < 40
  THEN Append(bad, [line |-> l, id |-> P.id, ev |-> e.ev, field |-> field, fields |-> fields,
                    exp |-> exp, got |-> got,
                    ended |-> pre.ended, pend |-> (pre.cmd.st = "run"), waitc |-> (pre.wait # <<>>)])
  ELSE bad

Bump(f) == [stats EXCEPT ![f] = @ + 1]

StepNext(e) ==
  LET pre == rs[e.r]
      t0 == Big(P, pre, e.in)
      o == e.obs
      \* The built-in <<wait n>> sleeps in a goroutine of the library: for a small n its completion
      \* may already be visible when the dispatching call looks ("a handler may be complete on
      \* return"): if the model's call ends waiting on a wait command and the library's did not,
      \* the legal schedule is the one where the completion was consumed by the same call.
      doneOnReturn == t0.out.k = "waiting" /\ t0.cmd.st = "run" /\ t0.cmd.arg.t = "n" /\ o.out.k # "waiting"
                      /\ pre.cmd.st = "none"
      \* (what the dispatching call had written and logged before it reached the wait is part of the same call)
      t1 == IF doneOnReturn
            THEN LET u == Big(P, t0, InDone(0, FALSE)) IN
                 [u EXCEPT !.writes = t0.writes \o @, !.fcalls = t0.fcalls \o @, !.ccalls = t0.ccalls \o @]
            ELSE t0
      \* a plain line with a line condition: the other reading (a false condition skips the line) is
      \* accepted as well; the machine continues in whichever state explains the observation
      tSkip == [Big(P, [pre EXCEPT !.lcmode = "skip"], e.in) EXCEPT !.lcmode = "show"]
      t == IF P.linecond /\ o.out # t1.out /\ o.out = tSkip.out THEN tSkip ELSE t1
      mism == (IF o.out # t.out THEN <<"out">> ELSE <<>>)
           \o (IF o.ccalls # t.ccalls THEN <<"ccalls">> ELSE <<>>)
           \o (IF o.fcalls # t.fcalls THEN <<"fcalls">> ELSE <<>>)
           \o (IF Observes(P, "writes") /\ EffWrites(pre.store, o.writes, 1) # EffWrites(pre.store, t.writes, 1)
               THEN <<"writes">> ELSE <<>>)
           \o (IF Observes(P, "vars") /\ o.vars # VarsArr(P, t.store) THEN <<"vars">> ELSE <<>>)
           \o (IF o.visits # VisitsArr(P, t.visits) THEN <<"visits">> ELSE <<>>)
      expOf(f) == CASE f = "out" -> t.out [] f = "ccalls" -> t.ccalls [] f = "fcalls" -> t.fcalls
                    [] f = "writes" -> t.writes [] f = "vars" -> VarsArr(P, t.store)
                    [] f = "visits" -> VisitsArr(P, t.visits)
      \* <<wait n>> reports completion no earlier than n seconds after it started (C10):
      \* the call that resumes ended at t1, the call that dispatched began at disp[r]
      isWaitDone == pre.cmd.st = "run" /\ pre.cmd.arg.t = "n" /\ e.in.done
      \* (elapsed times of 4 s and more are never early for the waits used; the bound keeps products below 2^31)
      early == \/ isWaitDone /\ e.t1 - disp[e.r] < 4000000 /\ (e.t1 - disp[e.r]) * pre.cmd.arg.d < pre.cmd.arg.n * 1000000
               \/ doneOnReturn /\ e.t1 - e.t0 < 4000000 /\ (e.t1 - e.t0) * t0.cmd.arg.d < t0.cmd.arg.n * 1000000
  IN IF t.out.k = "oos"
     THEN \* outside the modelled window: no verdict, except that a panic is never acceptable
          /\ skip' = TRUE /\ stats' = Bump("oos") /\ UNCHANGED <<rs, snaps>>
          /\ bad' = IF o.out.k = "panic" THEN Report(e, "out", <<"out">>, [k |-> "anything but a panic"], o.out, pre) ELSE bad
     ELSE IF early
     THEN /\ skip' = TRUE /\ stats' = Bump("checked")
          /\ bad' = LET w == IF doneOnReturn THEN t0.cmd.arg ELSE pre.cmd.arg IN
                    Report(e, "wait-too-early", <<"wait-too-early">>,
                           [seconds |-> w, atLeastMicros |-> (w.n * 1000000) \div w.d],
                           [elapsedMicros |-> IF doneOnReturn THEN e.t1 - e.t0 ELSE e.t1 - disp[e.r]], pre)
          /\ UNCHANGED <<rs, snaps>>
     ELSE IF mism # <<>>
     THEN /\ skip' = TRUE /\ stats' = Bump("checked")
          /\ bad' = Report(e, mism[1], mism, expOf(mism[1]), o[mism[1]], pre)
          /\ UNCHANGED <<rs, snaps>>
     ELSE /\ rs' = [rs EXCEPT ![e.r] = t]
          /\ stats' = [stats EXCEPT !.checked = @ + 1, !.waits = @ + (IF isWaitDone THEN 1 ELSE 0)]
          /\ UNCHANGED <<snaps, skip, bad>>

StepSnap(e) ==
  LET sn == Snapshot(rs[e.r])
      exp == SnapArr(P, sn)
  IN /\ stats' = Bump("checked")
     /\ IF e.snap # exp
        THEN /\ skip' = TRUE /\ bad' = Report(e, "snapshot", <<"snapshot">>, exp, e.snap, rs[e.r])
             /\ UNCHANGED <<rs, snaps>>
        ELSE /\ snaps' = [h \in (DOMAIN snaps) \cup {e.h} |-> IF h = e.h THEN sn ELSE snaps[h]]
             /\ UNCHANGED <<rs, skip, bad>>

\* a snapshot written by the host: &Snapshot{CurrentNode: node} (no variables, no visits)
StepSnapHand(e) ==
  /\ snaps' = [h \in (DOMAIN snaps) \cup {e.h} |-> IF h = e.h THEN HandSnap(P, e.node) ELSE snaps[h]]
  /\ UNCHANGED <<rs, skip, bad, stats>>

\* a snapshot is a self-contained value: nothing done afterwards changes it
StepSnapRead(e) ==
  /\ stats' = Bump("checked")
  /\ IF e.h \in DOMAIN snaps /\ e.snap # SnapArr(P, snaps[e.h])
     THEN /\ skip' = TRUE
          /\ bad' = Report(e, "snapshot-changed", <<"snapshot-changed">>, SnapArr(P, snaps[e.h]), e.snap, rs[1])
          /\ UNCHANGED <<rs, snaps>>
     ELSE UNCHANGED <<rs, snaps, skip, bad>>

StepRestore(e) ==
  IF e.h \notin DOMAIN snaps THEN /\ skip' = TRUE /\ stats' = Bump("skipped") /\ UNCHANGED <<rs, snaps, bad>>
  ELSE LET sn == snaps[e.h]
           ok == RestoreOk(P, sn)
       IN /\ stats' = Bump("checked")
          /\ IF e.ok # ok
             THEN /\ skip' = TRUE
                  /\ bad' = Report(e, "restore-result", <<"restore-result">>, ok, e.ok, rs[e.r])
                  /\ UNCHANGED <<rs, snaps>>
             ELSE /\ rs' = [rs EXCEPT ![e.r] = Restore(P, rs[e.r], sn)]
                  /\ UNCHANGED <<snaps, skip, bad>>

\* restoring a snapshot that names an unknown node fails and changes nothing
\* (the unchanged state is checked by the events that follow)
StepRestoreBad(e) ==
  /\ stats' = Bump("checked")
  /\ IF e.ok
     THEN /\ skip' = TRUE
          /\ bad' = Report(e, "restore-unknown-node", <<"restore-unknown-node">>, FALSE, TRUE, rs[e.r])
          /\ UNCHANGED <<rs, snaps>>
     ELSE UNCHANGED <<rs, snaps, skip, bad>>

TraceStep ==
  /\ l <= Len(Trace)
  /\ l' = l + 1
  /\ LET e == Trace[l] IN
     \* remember when a command was dispatched (the pre-state had none pending)
     disp' = IF e.ev = "next" /\ ~skip /\ rs[e.r].cmd.st = "none" THEN [disp EXCEPT ![e.r] = e.t0] ELSE disp
  /\ LET e == Trace[l] IN
     IF e.ev = "reset"
     THEN /\ ci' = e.case
          /\ rs' = [r \in 1..NR |-> InitRunner(Cases[e.case])]
          /\ snaps' = <<>> /\ skip' = FALSE /\ stats' = Bump("cases") /\ bad' = bad
     ELSE /\ ci' = ci
          /\ IF skip THEN stats' = Bump("skipped") /\ UNCHANGED <<rs, snaps, skip, bad>>
             ELSE CASE e.ev = "next" -> StepNext(e)
                    [] e.ev = "hostset" ->
                         /\ rs' = [rs EXCEPT ![e.r] = HostSet(rs[e.r], e.var, e.val)]
                         /\ UNCHANGED <<snaps, skip, bad, stats>>
                    [] e.ev = "rebind" ->      \* AddFunction / AddCommand between two calls
                         /\ rs' = [rs EXCEPT ![e.r] = Rebind(rs[e.r], e.what, e.name, e.kind)]
                         /\ UNCHANGED <<snaps, skip, bad, stats>>
                    [] e.ev = "snap" -> StepSnap(e)
                    [] e.ev = "snaphand" -> StepSnapHand(e)
                    [] e.ev = "snapread" -> StepSnapRead(e)
                    [] e.ev = "restore" -> StepRestore(e)
                    [] e.ev = "restorebad" -> StepRestoreBad(e)
                    [] e.ev = "loadfail" ->      \* NewDialogueRunner refused or panicked on a generated script
                         /\ skip' = TRUE /\ stats' = Bump("checked")
                         /\ bad' = Report(e, "load", <<"load">>, "runner", e.var, rs[1])
                         /\ UNCHANGED <<rs, snaps>>

Spec == Init /\ [][TraceStep]_vars

Done == (l = Len(Trace) + 1) =>
          PrintT(<<"RESULT", ToJson([bad |-> bad, stats |-> stats, lines |-> l - 1])>>)
=============================================================================
