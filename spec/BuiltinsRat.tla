---------------------------- MODULE BuiltinsRat ----------------------------
(* Exact arithmetic for property C19 inside TLC's 32-bit integers.            *)
(*                                                                            *)
(* A number of magnitude below 2^52 with at most 28 fractional bits crosses   *)
(* the Go/TLA+ boundary in FLOOR FORM  v = [hi, lo, f, k]:                    *)
(*        v = (hi * 2^26 + lo) + f / 2^k                                      *)
(*   hi in -2^26..2^26, lo in 0..2^26-1 (so J = hi*2^26+lo = floor(v)),       *)
(*   0 <= f < 2^k, k <= 28, canonical: f odd, or f = 0 and k = 0.             *)
(* Every contract of C19 constrains the DIFFERENCE result - x, which is small *)
(* for any acceptable result; Diff computes it as a mixed number i + n/d with *)
(* |i| <= 2, |n| < d <= 2^28, and reports `far` otherwise.  All products      *)
(* below stay under 2^31 (checked by the bounds in the comments).             *)
EXTENDS Integers

B == 67108864          \* 2^26
Abs(a) == IF a < 0 THEN -a ELSE a
Max(a, b) == IF a > b THEN a ELSE b

IsInt(v)  == v.f = 0
IsZero(v) == v.hi = 0 /\ v.lo = 0 /\ v.f = 0
IsNeg(v)  == v.hi < 0                       \* floor form: v < 0 iff floor(v) < 0
WellFormed(v) == /\ v.hi \in -B..B /\ v.lo \in 0..(B - 1) /\ v.k \in 0..28
                 /\ v.f \in 0..(2^v.k - 1)
                 /\ (v.f = 0 => v.k = 0) /\ (v.f # 0 => v.f % 2 = 1)
SameVal(a, b) == a.hi = b.hi /\ a.lo = b.lo /\ a.f = b.f /\ a.k = b.k   \* canonical forms

\* floor(v) + c for a small integer c, as an integer value in floor form
AddJ(v, c) == LET s == v.lo + c IN
              IF s >= B THEN [hi |-> v.hi + 1, lo |-> s - B, f |-> 0, k |-> 0]
              ELSE IF s < 0 THEN [hi |-> v.hi - 1, lo |-> s + B, f |-> 0, k |-> 0]
              ELSE [hi |-> v.hi, lo |-> s, f |-> 0, k |-> 0]

FarDiff == [far |-> TRUE, i |-> 0, n |-> 0, d |-> 1]

\* floor(r) - floor(x) if it is within -2..2, else 99
DJ(r, x) == IF Abs(r.hi - x.hi) > 1 THEN 99
            ELSE LET dj == (r.hi - x.hi) * B + (r.lo - x.lo)     \* |.| < 2^27 + 2^26
                 IN IF Abs(dj) > 2 THEN 99 ELSE dj

\* r - x = i + n/d
Diff(r, x) ==
  LET dj == DJ(r, x) IN
  IF dj = 99 THEN FarDiff
  ELSE LET K == Max(r.k, x.k) IN
       [far |-> FALSE, i |-> dj,
        n |-> r.f * 2^(K - r.k) - x.f * 2^(K - x.k),               \* each term < 2^28
        d |-> 2^K]

\* comparisons of a difference D with c/2 (c a small integer, |c| <= 2):
\* 2*i*d + 2*n  versus  c*d ;  |2*i*d| <= 2^30, |2*n| < 2^29, |c*d| <= 2^29
Twice(D) == 2 * D.i * D.d + 2 * D.n
LeH(D, c) == ~D.far /\ Twice(D) <= c * D.d
LtH(D, c) == ~D.far /\ Twice(D) <  c * D.d
GeH(D, c) == ~D.far /\ Twice(D) >= c * D.d
GtH(D, c) == ~D.far /\ Twice(D) >  c * D.d
=============================================================================
