------------------------------ MODULE LexTrace ------------------------------
(* Code -> spec for the indentation layer: validates token streams recorded   *)
(* from the real lexer (parser.NewYarnSpinnerLexer(...).NextToken until EOF)  *)
(* against module IndentLexer.                                                *)
(*                                                                            *)
(* trace.ndjson: one line per input                                           *)
(*   [id, outcome: "ok"|"panic"|"overrun", toks: <<tok, ...>>]                *)
(*   tok = <<type, w, kind>>                                                  *)
(*     type 0 = any other token (runs are collapsed by the recorder)          *)
(*          1 = NEWLINE with width w; kind of the line that follows:          *)
(*              0 content, 1 blank, 2 comment-only                            *)
(*          2 = INDENT, 3 = DEDENT, 4 = EOF                                   *)
(*          5 = PREEOF marker inserted by the recorder immediately before the *)
(*              run of DEDENT tokens that directly precedes EOF (purely       *)
(*              syntactic; lets the model emit its end-of-input DEDENTs)      *)
(* One TLC state per token.  The model is driven by the observed NEWLINE      *)
(* widths; the INDENT/DEDENT tokens it prescribes are queued in `expq` and    *)
(* must be exactly the synthetic tokens the real lexer emitted (Conform,      *)
(* property C08/C20); the balance statements of C20 are evaluated on the      *)
(* observed stream itself, independently of the model.                        *)
EXTENDS IndentLexer, TLC, Json

Trace == ndJsonDeserialize("trace.ndjson")

VARIABLES l, i,        \* current input, current token
          stk, expq,   \* model: indent stack, synthetic tokens still expected
          nIn, nDe,    \* observed INDENT / DEDENT so far in this input
          eofs,        \* observed EOF tokens in this input
          skip,        \* conformance of this input already failed
          bad,         \* violations of the balance statements (C20)
          mis,         \* inputs whose synthetic tokens differ from the model (C08)
          ntok
vars == <<l, i, stk, expq, nIn, nDe, eofs, skip, bad, mis, ntok>>

Init == /\ l = 1 /\ i = 1 /\ stk = <<>> /\ expq = <<>> /\ nIn = 0 /\ nDe = 0
        /\ eofs = 0 /\ skip = FALSE /\ bad = <<>> /\ mis = <<>> /\ ntok = 0

Kind(k) == IF k = 0 THEN "content" ELSE IF k = 1 THEN "blank" ELSE "comment"

Report(lst, what, t) == IF Len(lst) < 50
                        THEN Append(lst, [id |-> Trace[l].id, tok |-> i, what |-> what, t |-> t])
                        ELSE lst

NextInput == /\ l' = l + 1 /\ i' = 1 /\ stk' = <<>> /\ expq' = <<>>
             /\ nIn' = 0 /\ nDe' = 0 /\ eofs' = 0 /\ skip' = FALSE

Step ==
  /\ l <= Len(Trace)
  /\ LET e == Trace[l] IN
     IF i > Len(e.toks)
     THEN \* end of this input: the stream must be balanced and closed by one EOF
          /\ NextInput
          /\ ntok' = ntok /\ mis' = mis
          /\ bad' = IF e.outcome = "ok" /\ (eofs # 1 \/ nIn # nDe)
                    THEN Report(bad, "unbalanced-or-no-single-eof", <<nIn, nDe, eofs>>)
                    ELSE IF e.outcome \in {"overrun", "niltoken"} THEN Report(bad, "token-stream-does-not-end", <<>>)
                    ELSE bad
     ELSE LET t == e.toks[i]  ty == t[1] IN
          /\ i' = i + 1 /\ l' = l /\ ntok' = ntok + 1
          /\ nIn' = nIn + (IF ty = 2 THEN 1 ELSE 0)
          /\ nDe' = nDe + (IF ty = 3 THEN 1 ELSE 0)
          /\ eofs' = eofs + (IF ty = 4 THEN 1 ELSE 0)
          /\ LET \* --- C20 on the observed stream
                 neg   == ty = 3 /\ nDe + 1 > nIn
                 after == eofs > 0            \* any token after EOF
                 \* --- conformance with the model
                 r == IF ty = 1 THEN NewlineStep(stk, t[2], Kind(t[3]), FALSE)
                      ELSE IF ty = 5 THEN EofStep(stk)
                      ELSE [stk |-> stk, toks |-> <<>>]
                 synth == IF ty = 2 THEN "IN" ELSE "DE"
                 mism == IF skip THEN FALSE
                         ELSE IF ty \in {2, 3} THEN (expq = <<>> \/ Head(expq) # synth)
                         ELSE IF ty = 5 THEN FALSE
                         ELSE expq # <<>>
             IN /\ stk' = r.stk
                /\ expq' = IF ty \in {2, 3} THEN (IF expq = <<>> THEN expq ELSE Tail(expq))
                           ELSE IF ty = 5 THEN expq \o r.toks
                           ELSE r.toks
                /\ skip' = (skip \/ mism)
                /\ bad' = IF neg THEN Report(bad, "dedent-without-indent", t)
                          ELSE IF after THEN Report(bad, "token-after-eof", t)
                          ELSE bad
                /\ mis' = IF mism THEN Report(mis, "model-mismatch", <<t, expq>>) ELSE mis

Spec == Init /\ [][Step]_vars

Done == (l = Len(Trace) + 1) =>
          PrintT(<<"RESULT", ToJson([bad |-> bad, mis |-> mis, tokens |-> ntok, inputs |-> l - 1])>>)
Consumed == TLCGet("stats").diameter >= Len(Trace)
=============================================================================
