----------------------------- MODULE MarkupTrace -----------------------------
(* Code -> spec for property C13: validates recorded calls of                 *)
(* markup.LineParser.ParseMarkup and of the dialogue runner (Line.Attributes) *)
(* against module Markup.                                                     *)
(*                                                                            *)
(* trace.ndjson, one event per call:                                          *)
(*   [ev |-> "parse", id, via |-> "direct"|"runner", items |-> <<item...>>,   *)
(*    input |-> cps, outcome |-> "result"|"error"|"panic"|"timeout",          *)
(*    got |-> [ok, text |-> cps, attrs |-> <<[name, pos, len, src, props |->  *)
(*             <<[n, v]...>>, tfa |-> cps (<<-1>>: TextForAttribute panicked) *)
(*             ]...>>]]                                                       *)
(* One TLC state per event.  The expected results (one, or two when the text  *)
(* has whitespace at an edge) are recomputed from the items; a mismatch is    *)
(* appended to `bad` together with what the specification expected.  Lines    *)
(* outside the C13 region (a generator mistake) are listed in `notwf` and are *)
(* a failure of the machinery, never a verdict.                               *)
EXTENDS Markup, TLC, Json

Trace == ndJsonDeserialize("trace.ndjson")

VARIABLES l, bad, notwf, nchk
vars == <<l, bad, notwf, nchk>>

Init == l = 1 /\ bad = <<>> /\ notwf = <<>> /\ nchk = 0

ToSet(s) == {s[i] : i \in DOMAIN s}
GotAttr(a) == [name |-> a.name, pos |-> a.pos, len |-> a.len, props |-> ToSet(a.props), tfa |-> a.tfa]
Got(e) == [ok |-> e.got.ok, text |-> e.got.text, attrs |-> [i \in DOMAIN e.got.attrs |-> GotAttr(e.got.attrs[i])]]

Step ==
  /\ l <= Len(Trace)
  /\ l' = l + 1
  /\ LET e == Trace[l] IN
     IF ~WellFormedC13(e.items)
     THEN /\ notwf' = (IF Len(notwf) < 20 THEN Append(notwf, e.id) ELSE notwf)
          /\ UNCHANGED <<bad, nchk>>
     ELSE /\ nchk' = nchk + 1
          /\ UNCHANGED notwf
          /\ IF e.outcome \in {"result", "error"} /\ Accepts(e.items, Got(e))
             THEN UNCHANGED bad
             ELSE bad' = IF Len(bad) < 60
                         THEN Append(bad, [line |-> l, id |-> e.id, via |-> e.via, exp |-> ExpectedSeq(e.items)])
                         ELSE bad

Spec == Init /\ [][Step]_vars

Done == (l = Len(Trace) + 1) =>
          PrintT(<<"RESULT", ToJson([bad |-> bad, notwf |-> notwf, checked |-> nchk, lines |-> l - 1])>>)
Accepted == TLCGet("stats").diameter - 1 = Len(Trace)
=============================================================================
