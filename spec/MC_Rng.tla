------------------------------- MODULE MC_Rng -------------------------------
(* Property C09, model level: two runners with the same seed and script and a  *)
(* third, unrelated one, under every interleaving of creations, draws, clock   *)
(* ticks and uses of the process-wide source (configs MC_Rng*.cfg).            *)
EXTENDS Rng
MCRunners == {"a", "b", "c"}
MCSeedOf == [r \in MCRunners |-> IF r = "c" THEN "other" ELSE "same"]
=============================================================================
