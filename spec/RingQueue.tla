---------------------------- MODULE RingQueue ----------------------------
(* The ring buffer of internal/container/queue.go, transcribed action by     *)
(* action, together with the abstract FIFO it has to implement.  Elements are *)
(* sequence numbers (the k-th enqueued element is k), so the abstract queue   *)
(* is the interval lo..hi-1 and every observation is determined by counters.  *)
(*                                                                            *)
(*   base, first, nxt : the fields of container.Queue (first = -1 is the      *)
(*                      "empty" sentinel, cap = Len(base), 0 before first use)*)
(*   lo, hi           : abstract FIFO = <<lo, lo+1, ..., hi-1>>               *)
EXTENDS Integers, Sequences, TLC

CONSTANTS MaxEnq,        \* bound on the number of Enqueue calls in a history
          Bug            \* "none" | "growcopy" | "noreset" (non-vacuity switches)

VARIABLES base, first, nxt, lo, hi

vars == <<base, first, nxt, lo, hi>>

Cap == Len(base)

\* 0-based read/write of the Go slice
At(b, i) == b[i + 1]
Put(b, i, v) == [b EXCEPT ![i + 1] = v]

Init == /\ base = <<>>
        /\ first = 0
        /\ nxt = 0
        /\ lo = 0
        /\ hi = 0

\* --- Size() as computed by the code
ImplSize == IF Cap = 0 \/ first = -1 THEN 0
            ELSE IF nxt = first THEN Cap
            ELSE (nxt - first + Cap) % Cap

\* --- Enqueue(hi)
Enq ==
  /\ hi < MaxEnq
  /\ LET b0 == IF Cap = 0 THEN [i \in 1..8 |-> -1] ELSE base
         f0 == IF Cap = 0 THEN -1 ELSE first
         c0 == Len(b0)
     IN IF nxt # f0
        THEN /\ first' = (IF f0 = -1 THEN nxt ELSE f0)
             /\ base' = Put(b0, nxt, hi)
             /\ nxt' = (nxt + 1) % c0
        ELSE \* full: grow by doubling, copy [first:] then [:first]
             LET tail == c0 - f0
                 grown == [i \in 1..(2 * c0) |->
                             IF i <= tail THEN b0[f0 + i]
                             ELSE IF i <= c0
                                  THEN (IF Bug = "growcopy" THEN b0[i] ELSE b0[i - tail])
                                  ELSE -1]
             IN /\ base' = Put(grown, c0, hi)
                /\ first' = 0
                /\ nxt' = c0 + 1
  /\ hi' = hi + 1
  /\ lo' = lo

\* --- Dequeue(): enabled only when the abstract queue is non-empty (the code
\*     panics on an empty queue; callers never do that)
Deq ==
  /\ lo < hi
  /\ LET f1 == (first + 1) % Cap
     IN IF f1 = nxt /\ Bug # "noreset"
        THEN first' = -1 /\ nxt' = 0
        ELSE first' = f1 /\ nxt' = nxt
  /\ lo' = lo + 1
  \* the slot that was read is garbage from now on: the code leaves the old
  \* element there and never reads it again before overwriting it; the model
  \* normalises garbage to -1 so that equal live contents are equal states
  /\ base' = Put(base, first, -1)
  /\ hi' = hi

Next == Enq \/ Deq

Spec == Init /\ [][Next]_vars

\* ----------------------------------------------------------------- properties
\* the element the code would return from Dequeue()/Peek()
ImplHead == At(base, first)

\* Refinement of the abstract FIFO: every observation agrees.
SizeAgrees == ImplSize = hi - lo
HeadAgrees == (lo < hi) => (first >= 0 /\ first < Cap /\ ImplHead = lo)
\* the whole content, read in ring order, is lo..hi-1
ContentAgrees ==
  \A k \in 0..(hi - lo - 1) : At(base, (first + k) % Cap) = lo + k
Refines == SizeAgrees /\ HeadAgrees /\ ContentAgrees

\* the history really forces growth with a wrapped buffer (used for non-vacuity:
\* TLC must find this "violated" when checked as an invariant)
NeverGrewTwice == Cap < 32
=============================================================================
