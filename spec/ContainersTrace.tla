-------------------------- MODULE ContainersTrace --------------------------
(* Code -> spec: validates a recorded history of container.Queue/Stack calls  *)
(* (trace.ndjson, one event per public call, written by `verifh containers    *)
(* record`) against the abstract FIFO / LIFO of module Containers.            *)
(*                                                                            *)
(* event = [ev: "reset"|"op", kind: "q"|"s", op, arg, arg2, res, size, id]    *)
(*   res  : value returned by Dequeue/Pop/Peek (-1 for calls returning none)  *)
(*   size : Size() observed right after the call                              *)
(* The spec never blocks: the abstract step is driven by the logged inputs,   *)
(* the logged results are compared, a mismatch is recorded in `bad` and the   *)
(* rest of that history (up to the next reset) is skipped.                    *)
EXTENDS Containers, TLC, Json

Trace == ndJsonDeserialize("trace.ndjson")

VARIABLES l, c, skip, bad, nchk
vars == <<l, c, skip, bad, nchk>>

Init == l = 1 /\ c = <<>> /\ skip = FALSE /\ bad = <<>> /\ nchk = 0

\* expected [c', res] of an operation on abstract container c
Expect(e) ==
  CASE e.op = "enq"     -> [c |-> QEnq(c, e.arg), res |-> -1]
    [] e.op = "deq"     -> [c |-> QDeq(c), res |-> QHead(c)]
    [] e.op = "qpeek"   -> [c |-> c, res |-> QHead(c)]
    [] e.op = "push"    -> [c |-> SPush(c, e.arg), res |-> -1]
    [] e.op = "pushall" -> [c |-> SPushAll(c, <<e.arg, e.arg2>>), res |-> -1]
    [] e.op = "pop"     -> [c |-> SPop(c), res |-> STop(c)]
    [] e.op = "speek"   -> [c |-> c, res |-> STop(c)]
    [] e.op = "clear"   -> [c |-> <<>>, res |-> -1]
    [] e.op = "size"    -> [c |-> c, res |-> -1]

Step ==
  /\ l <= Len(Trace)
  /\ l' = l + 1
  /\ LET e == Trace[l] IN
     IF e.ev = "reset"
     THEN c' = <<>> /\ skip' = FALSE /\ UNCHANGED <<bad, nchk>>
     ELSE IF skip THEN UNCHANGED <<c, skip, bad, nchk>>
     ELSE LET x == Expect(e)
              good == x.res = e.res /\ Len(x.c) = e.size
          IN /\ c' = x.c
             /\ nchk' = nchk + 1
             /\ IF good THEN UNCHANGED <<skip, bad>>
                ELSE /\ skip' = TRUE
                     /\ bad' = IF Len(bad) < 50
                               THEN Append(bad, [line |-> l, id |-> e.id, op |-> e.op,
                                                 expRes |-> x.res, gotRes |-> e.res,
                                                 expSize |-> Len(x.c), gotSize |-> e.size])
                               ELSE bad

Spec == Init /\ [][Step]_vars

\* printed once, when the whole trace has been consumed
Done == (l = Len(Trace) + 1) => PrintT(<<"RESULT", ToJson([bad |-> bad, checked |-> nchk, lines |-> l - 1])>>)
Accepted == TLCGet("stats").diameter - 1 = Len(Trace)
=============================================================================
