SPECIFICATION Spec
CONSTANTS
  Bug_LoneLtDropped = FALSE
  Bug_NoPopAfterTag = FALSE
INVARIANT Done
CHECK_DEADLOCK FALSE
