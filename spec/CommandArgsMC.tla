--------------------------- MODULE CommandArgsMC ---------------------------
(* MC_CmdArgs of DESIGN.md: exhaustive exploration of the command-argument     *)
(* layer (property C17) over every command of at most MaxArgs arguments drawn  *)
(* from the word classes below, every name class and a set of spacings.        *)
(*                                                                            *)
(* One behaviour per command: written -> lexed -> arranged -> done, following  *)
(* the implementation-shaped pipeline of module CommandArgs one stage per TLC  *)
(* state.  In the final state the pipeline's result must be the declarative    *)
(* meaning of the command:                                                     *)
(*   HandlerOnceWithArgs  a registered name is invoked exactly once with the   *)
(*                        typed arguments in order                             *)
(*   StopNeverDispatched  <<stop>> invokes nothing                             *)
(*   UnknownIsError       an unregistered name is an error, nothing invoked    *)
(*   NamesAreGeneric      keyword-prefixed names are ordinary commands         *)
(* The same final state prints the command (as characters + slots) together    *)
(* with the prescribed result: `verifh cmdargs replay` runs each one on the    *)
(* real library (spec -> code).                                                *)
EXTENDS CommandArgs, TLC, Json

CONSTANTS MaxArgs,      \* 2 (quick) or 3 (thorough)
          PatsPerRow,   \* spacings per command with >= 2 arguments
          Seed

\* ------------------------------------------------------------------- names
\* [n |-> code points, reg |-> is a handler registered under it]
NameTable == <<
  [n |-> Cps("walk"),      reg |-> TRUE ],
  [n |-> Cps("cmd2"),      reg |-> TRUE ],
  [n |-> Cps("iffy"),      reg |-> TRUE ],   \* keyword-prefixed
  [n |-> Cps("settings"),  reg |-> TRUE ],
  [n |-> Cps("jumpy"),     reg |-> TRUE ],
  [n |-> Cps("calling"),   reg |-> TRUE ],
  [n |-> Cps("declared"),  reg |-> TRUE ],
  [n |-> Cps("enumerate"), reg |-> TRUE ],
  [n |-> Cps("cases"),     reg |-> TRUE ],
  [n |-> Cps("localize"),  reg |-> TRUE ],
  [n |-> <<104, 233, 108, 108, 111>>, reg |-> TRUE ],   \* h e-acute l l o
  [n |-> <<26085, 26412, 35486>>,     reg |-> TRUE ],   \* three CJK characters
  [n |-> Cps("stop"),      reg |-> TRUE ],   \* a handler IS registered under stop: it must never run
  [n |-> Cps("nope"),      reg |-> FALSE],
  [n |-> Cps("setter"),    reg |-> FALSE]    \* keyword-prefixed and unregistered
>>
Names == 1..Len(NameTable)
Registered == {NameTable[i].n : i \in {j \in Names : NameTable[j].reg}}

\* ------------------------------------------------------------ word classes
W(s) == [k |-> "w", w |-> Cps(s)]
E(v) == [k |-> "e", v |-> v]
ClassTable == <<
  << W("true") >>,
  << W("false") >>,
  << W("7"), W("42"), W("0"), W("007") >>,                  \* integer
  << W("1.5"), W("0.25"), W("12.50"), W("3.0") >>,          \* decimal
  << W("-3"), W("-0.75"), W("-10.5") >>,                    \* negative
  << W("+5"), W("+1.5") >>,
  << W("1e3"), W("1E3"), W("2e-1") >>,
  << W("0x10"), W("0x1p4"), W("0X1P-2") >>,
  << W(".5"), W("-.5") >>,
  << W("5."), W("-5.") >>,
  << W("nan"), W("NaN") >>,
  << W("inf"), W("Inf"), W("-inf"), W("infinity"), W("+Inf") >>,
  << W("abc"), W("door_1"), W("a.b"), W("x") >>,            \* identifiers
  << [k |-> "w", w |-> <<119, 246, 114, 108, 100>>],        \* w o-umlaut r l d
     [k |-> "w", w |-> <<26085, 26412>>],
     [k |-> "w", w |-> <<128512>>] >>,                      \* 4-byte character
  << W("if"), W("stop"), W("set"), W("else"), W("endif"), W("wait") >>,  \* keywords as arguments
  << W("True"), W("FALSE"), W("tRue") >>,
  << W("1_000"), W("1.2.3"), W("--5"), W("-"), W("5-"), W("1,5"), W("1/2"), W("1.") >>,
  << E(NumV(3, 1)), E(NumV(-2, 1)), E(NumV(3, 2)), E(NumV(1, 4)) >>,
  << E(BoolV(TRUE)), E(BoolV(FALSE)) >>,
  << E(StrV(Cps("abc"))), E(StrV(Cps("a b"))), E(StrV(Cps("true"))), E(StrV(Cps("12"))),
     E(StrV(<<>>)), E(StrV(<<233, 116, 233>>)), E(StrV(Cps(" x  y "))) >>
>>
Classes == 1..Len(ClassTable)

\* -------------------------------------------------------------- spacings
\* [lead, sep (cycled), trail]
PatTable == <<
  [lead |-> <<>>,             seps |-> << <<SPACE>> >>,                         trail |-> <<>>],
  [lead |-> <<>>,             seps |-> << <<SPACE, SPACE>>, <<SPACE, SPACE, SPACE>> >>, trail |-> <<>>],
  [lead |-> <<>>,             seps |-> << <<TAB>> >>,                           trail |-> <<>>],
  [lead |-> <<>>,             seps |-> << <<SPACE, TAB, SPACE>>, <<TAB, TAB>>, <<SPACE>> >>, trail |-> <<>>],
  [lead |-> <<SPACE, SPACE>>, seps |-> << <<SPACE>> >>,                         trail |-> <<SPACE>>],
  [lead |-> <<TAB>>,          seps |-> << <<SPACE>>, <<TAB>> >>,                trail |-> <<TAB, SPACE>>]
>>
Pats == 1..Len(PatTable)
\* (sequences are built with \o so that TLC holds evaluated tuples, not lazy functions)
RECURSIVE SepsFrom(_, _, _)
SepsFrom(p, i, n) == IF i > n THEN <<>>
                     ELSE << PatTable[p].seps[((i - 1) % Len(PatTable[p].seps)) + 1] >> \o SepsFrom(p, i + 1, n)
SepsFor(p, n) == SepsFrom(p, 1, n)

\* ------------------------------------------------------------------- rows
Hash(n, cs) == Seed + 31 * n + (IF Len(cs) >= 1 THEN 7 * cs[1] ELSE 0)
                      + (IF Len(cs) >= 2 THEN 13 * cs[2] ELSE 0)
                      + (IF Len(cs) >= 3 THEN 17 * cs[3] ELSE 0)
Pick(c, h) == ClassTable[c][(h % Len(ClassTable[c])) + 1]
RECURSIVE SeededFrom(_, _, _)
SeededFrom(n, cs, i) == IF i > Len(cs) THEN <<>>
                        ELSE << Pick(cs[i], Hash(n, cs) + 3 * i) >> \o SeededFrom(n, cs, i + 1)
SeededItems(n, cs) == SeededFrom(n, cs, 1)
SeededPats(n, cs) == {((Hash(n, cs) + j) % Len(PatTable)) + 1 : j \in 0..(PatsPerRow - 1)}

Row(n, items, p) == [name |-> n, items |-> items, pat |-> p]
\* (stated as nested quantifiers rather than as one big set: TLC enumerates a
\* union of set comprehensions in quadratic time)
\* "<<stop>> is never dispatched": the property speaks of the bare statement, so the
\* name stop is enumerated without arguments only (what <<stop now>> means is left open)
NamesWithArgs == {n \in Names : NameTable[n].n # Stop}
IsRow(r) ==
  \/ \E n \in Names, p \in Pats : r = Row(n, <<>>, p)
  \/ \E n \in NamesWithArgs, c \in Classes, p \in Pats : \E k \in 1..Len(ClassTable[c]) :
        r = Row(n, <<ClassTable[c][k]>>, p)
  \/ \E n \in NamesWithArgs, c1 \in Classes, c2 \in Classes : \E p \in SeededPats(n, <<c1, c2>>) :
        r = Row(n, SeededItems(n, <<c1, c2>>), p)
  \/ /\ MaxArgs >= 3
     /\ \E n \in NamesWithArgs, c1 \in Classes, c2 \in Classes, c3 \in Classes : \E p \in SeededPats(n, <<c1, c2, c3>>) :
           r = Row(n, SeededItems(n, <<c1, c2, c3>>), p)

\* ---------------------------------------------------------------- machine
VARIABLES row, phase, units, slots, lexed, values, result
vars == <<row, phase, units, slots, lexed, values, result>>

None == [none |-> TRUE]

Init == /\ IsRow(row)
        /\ phase = "chosen"
        /\ units = <<>> /\ slots = <<>> /\ lexed = None /\ values = <<>> /\ result = None

Write == /\ phase = "chosen"
         /\ LET pt == PatTable[row.pat]
                r  == Render(NameTable[row.name].n, row.items, pt.lead,
                             SepsFor(row.pat, Len(row.items)), pt.trail)
            IN units' = r.us /\ slots' = r.slots
         /\ phase' = "written"
         /\ UNCHANGED <<row, lexed, values, result>>

DoLex == /\ phase = "written"
         /\ lexed' = Lex(units)
         /\ phase' = "lexed"
         /\ UNCHANGED <<row, units, slots, values, result>>

Arrange == /\ phase = "lexed"
           /\ values' = IF lexed.generic THEN Rearrange(lexed.elems, slots, 1, <<>>) ELSE <<>>
           /\ phase' = "arranged"
           /\ UNCHANGED <<row, units, slots, lexed, result>>

Run == /\ phase = "arranged"
       /\ result' = IF lexed.generic THEN Dispatch(values, Registered)
                    ELSE [outcome |-> "notgeneric", calls |-> <<>>]
       /\ phase' = "done"
       /\ UNCHANGED <<row, units, slots, lexed, values>>

Next == Write \/ DoLex \/ Arrange \/ Run
Spec == Init /\ [][Next]_vars

\* ------------------------------------------------------------- properties
Want == Expected(NameTable[row.name].n, row.items, Registered)

NamesAreGeneric == (phase \in {"lexed", "arranged", "done"}) => lexed.generic

HandlerOnceWithArgs ==
  (phase = "done" /\ NameTable[row.name].reg /\ NameTable[row.name].n # Stop) =>
     /\ result.outcome = "call"
     /\ Len(result.calls) = 1
     /\ result.calls[1].name = NameTable[row.name].n
     /\ result.calls[1].args = Want.calls[1].args

StopNeverDispatched ==
  (phase = "done" /\ NameTable[row.name].n = Stop) => (result.outcome = "stop" /\ result.calls = <<>>)

UnknownIsError ==
  (phase = "done" /\ ~NameTable[row.name].reg) => (result.outcome = "error" /\ result.calls = <<>>)

\* the element list never loses or reorders a character or a slot
LexKeepsEverything ==
  (phase = "lexed" /\ lexed.generic) =>
     LET RECURSIVE Flat(_)
         Flat(i) == IF i > Len(lexed.elems) THEN <<>>
                    ELSE (IF lexed.elems[i].k = "t" THEN lexed.elems[i].s ELSE << -lexed.elems[i].j >>) \o Flat(i + 1)
     IN Flat(1) = SubSeq(units, SkipWs(units, 1), Len(units))

\* -------------------------------------------------- spec -> code emission
Emit == (phase = "done") =>
  PrintT(<<"BEH", ToJson([name  |-> NameTable[row.name].n,
                          reg   |-> NameTable[row.name].reg,
                          pat   |-> row.pat,
                          units |-> units,
                          slots |-> slots,
                          exp   |-> Want])>>)
=============================================================================
