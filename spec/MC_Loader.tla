------------------------------ MODULE MC_Loader ------------------------------
(* Exhaustive check of the load protocol (module Loader) over every vector of *)
(* at most MaxReaders readers drawn from representative kinds of reader       *)
(* contents, every class of the whole input and every seed class:             *)
(*   - totality: no deadlock before pc = "done" (CHECK_DEADLOCK TRUE; the     *)
(*     terminal state stutters explicitly),                                   *)
(*   - termination: <>(pc = "done"),                                          *)
(*   - NoPanic, WithinAllowed (deterministic wherever the property            *)
(*     prescribes the outcome), StartsAtFirst.                                *)
(* Each initial (readers, seed) vector is also printed as a decision-table    *)
(* row ("BEH"), which the harness concretises into real reader contents and   *)
(* loads with the real library (spec -> code).                                *)
EXTENDS Loader, TLC, Json

CONSTANT MaxReaders

Kinds == {"V1", "V2", "SE", "MX", "MS", "EM", "TR", "UN"}

F(k, e, m, n, c, p) == [k |-> k, errs |-> e, mixed |-> m, nodes |-> n, consumed |-> c, opanic |-> p,
                        blank |-> (k = "EM")]
Facts(k) ==
  CASE k = "V1" -> F(k, 0, 0, 1, TRUE, FALSE)    \* valid, one node
    [] k = "V2" -> F(k, 0, 0, 2, TRUE, FALSE)    \* valid, two nodes
    [] k = "SE" -> F(k, 1, 0, 1, TRUE, FALSE)    \* syntax error
    [] k = "MX" -> F(k, 0, 2, 1, TRUE, FALSE)    \* tabs+spaces in front of a content line
    [] k = "MS" -> F(k, 0, 1, 1, TRUE, FALSE)    \* tabs+spaces only in front of a blank line
    [] k = "EM" -> F(k, 1, 0, 0, TRUE, FALSE)    \* empty / blank / no node
    [] k = "TR" -> F(k, 0, 0, 1, FALSE, FALSE)   \* valid prefix, parser stops early
    [] k = "UN" -> F(k, 0, 0, 0, FALSE, TRUE)    \* facts unknown

WholeKinds == {"V1", "SE", "MS"}   \* a valid, an invalid and an open whole input

Init ==
  /\ rs \in UNION {[1..n -> {Facts(k) : k \in Kinds}] : n \in 0..MaxReaders}
  /\ whole \in (IF Len(rs) = 1 THEN {rs[1]}
                ELSE IF Len(rs) = 0 THEN {Facts("EM")}
                ELSE {Facts(k) : k \in WholeKinds})
  /\ seed \in SeedClasses
  /\ pc = "parse" /\ i = 1 /\ acc = <<>> /\ outcome = "none" /\ start = <<0, 0>>

Spec == Init /\ [][Next]_vars /\ WF_vars(Next)

Terminates == <>(pc = "done")

TypeOK == /\ pc \in {"parse", "first", "rng", "done"}
          /\ outcome \in {"none", "runner", "error", "panic"}
          /\ (pc = "done") <=> (outcome # "none")

\* one decision-table row per initial (readers, seed) vector
Row == (pc = "parse" /\ i = 1 /\ (Len(rs) <= 1 \/ whole.k = "SE")) =>
         PrintT(<<"BEH", ToJson([kinds |-> [j \in DOMAIN rs |-> rs[j].k], seed |-> seed])>>)
=============================================================================
