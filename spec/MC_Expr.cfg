SPECIFICATION Spec
CONSTANTS
  Depth2 = FALSE
  SampleMod = 1
  SampleRes = 0
  Bug <- NoBugs
INVARIANTS IllTypedIsError UnaryTyping ArgsOnceLeftToRight ShortCircuit PrintParseable Emit
CHECK_DEADLOCK FALSE
