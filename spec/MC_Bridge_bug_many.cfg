SPECIFICATION Spec
CONSTANTS
  PTcall = {"MyInt", "int8", "float32", "MyBool", "string", "uint", "struct"}
  PT3 = {}
  MaxP = 1
  MaxA = 2
  Emit = FALSE
  Bug_NoNilCheck = FALSE
  Bug_ConvertByKind = FALSE
  Bug_NoTooManyCheck = TRUE
  AcceptU = FALSE
INVARIANTS AcceptedIsTotal TableTotal EmitRow
CHECK_DEADLOCK FALSE
