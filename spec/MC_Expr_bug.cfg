SPECIFICATION Spec
CONSTANTS
  Depth2 = FALSE
  SampleMod = 1
  SampleRes = 0
  Bug <- Bug_eagerAnd
INVARIANTS IllTypedIsError UnaryTyping ArgsOnceLeftToRight ShortCircuit PrintParseable
CHECK_DEADLOCK FALSE
