SPECIFICATION Spec
CONSTANTS
  JMax = 3
  KMax = 2
  NMax = 0
  Bug_IncIsCeil = TRUE
  Bug_IntegerIsFloor = FALSE
  Bug_DecIsFloor = FALSE
INVARIANTS ClosedFormsSatisfy Functional RoundPlaces
CHECK_DEADLOCK FALSE
