------------------------------ MODULE YarnExpr ------------------------------
(* Expression evaluation (property C02) over the expression trees of a case.   *)
(*                                                                            *)
(* expr = [k: "num", n, d] | [k: "bool", b] | [k: "str", s] | [k: "null"]      *)
(*      | [k: "var", v] | [k: "neg", a] | [k: "not", a]                        *)
(*      | [k: "bin", op, l, r]     op in add sub mul div mod lt le gt ge eq ne *)
(*                                       and or xor                            *)
(*      | [k: "call", fn, args]                                                *)
(*      | [k: "special", c]  a number outside the window (see Special)          *)
(*                                                                            *)
(* Eval(e, env) = [st, v, log]                                                 *)
(*   st  : "ok" | "err" (a script-level fault: the statement yields an error)  *)
(*         | "oos" (outside the modelled window: no verdict)                   *)
(*   v   : the value (Unset when st # "ok", or when a function returned none)  *)
(*   log : host-function invocations in the order they happened, each          *)
(*         [name, args]; only functions listed in env.probes are logged        *)
(* env = [store  : variable -> value or Unset,                                 *)
(*        visits : node title -> count,  nodes : set of node titles,           *)
(*        funcs  : function name -> behaviour (see CallFn),                    *)
(*        probes : set of logged function names]                               *)
(*                                                                            *)
(* Evaluation order is the one the property fixes: operands left to right,     *)
(* `and`/`or` evaluate the right operand only when the left does not decide,   *)
(* call arguments left to right exactly once, then the call.                   *)
EXTENDS YarnValues

\* Deviations from the specified design, switched on only to show that a property's
\* configuration is not vacuous (TLC must then find a counterexample).
CONSTANT Bug    \* record of BOOLEAN switches, see NoBugs

NoBugs == [stopKeepsStack |-> FALSE, staleChoiceAfterEnd |-> FALSE,
           restoreKeepsWaiting |-> FALSE, visitOnEntry |-> FALSE,
           secondClauseAlsoRuns |-> FALSE, jumpKeepsStack |-> FALSE,
           pendingPollReruns |-> FALSE, failedSetWrites |-> FALSE,
           eagerAnd |-> FALSE]

Bug_stopKeepsStack == [NoBugs EXCEPT !.stopKeepsStack = TRUE]
Bug_staleChoiceAfterEnd == [NoBugs EXCEPT !.staleChoiceAfterEnd = TRUE]
Bug_restoreKeepsWaiting == [NoBugs EXCEPT !.restoreKeepsWaiting = TRUE]
Bug_visitOnEntry == [NoBugs EXCEPT !.visitOnEntry = TRUE]
Bug_secondClauseAlsoRuns == [NoBugs EXCEPT !.secondClauseAlsoRuns = TRUE]
Bug_jumpKeepsStack == [NoBugs EXCEPT !.jumpKeepsStack = TRUE]
Bug_pendingPollReruns == [NoBugs EXCEPT !.pendingPollReruns = TRUE]
Bug_failedSetWrites == [NoBugs EXCEPT !.failedSetWrites = TRUE]

Bug_eagerAnd == [NoBugs EXCEPT !.eagerAnd = TRUE]


R(st, v, log) == [st |-> st, v |-> v, log |-> log]
Ok(v, log)  == R("ok", v, log)
Err(log)    == R("err", Unset, log)
Oos(log)    == R("oos", Unset, log)

FromNorm(r, log) == IF r.ok THEN Ok(r.v, log) ELSE Oos(log)

\* Numbers outside the window that the domain checks of the random built-ins need (C06):
\* [t |-> "n", n |-> code, d |-> 0]; they only ever travel from a literal to a call argument,
\* every other use is out of scope.
\*   code 1 +Inf, -1 -Inf, 0 NaN, 3 / -3 finite beyond int64, 2 / -2 = +-2^62 (fits int64)
Special(c) == [t |-> "n", n |-> c, d |-> 0]
SpecialCode(name) == CASE name = "inf" -> 1 [] name = "neginf" -> -1 [] name = "nan" -> 0
                       [] name = "huge" -> 3 [] name = "neghuge" -> -3 [] name = "big" -> 2 [] name = "negbig" -> -2
IsSpecial(v) == v.t = "n" /\ v.d = 0
NotInt64(v) == IsSpecial(v) /\ v.n \in {1, -1, 0, 3, -3}

\* ---- the operator table on two values already known to be of the same type
Arith(op, a, b, log) ==
  CASE op = "add" -> FromNorm(RAdd(a, b), log)
    [] op = "sub" -> FromNorm(RSub(a, b), log)
    [] op = "mul" -> FromNorm(RMul(a, b), log)
    [] op = "div" -> IF b.n = 0 THEN Oos(log)          \* +-Inf / NaN: outside the window
                     ELSE FromNorm(RDiv(a, b), log)
    [] op = "mod" -> IF b.n = 0 THEN Oos(log) ELSE FromNorm(RMod(a, b), log)

BinOp(op, a, b, log) ==
  IF IsSpecial(a) \/ IsSpecial(b) THEN Oos(log)
  ELSE IF a.t # b.t THEN Err(log)                            \* operands of different types
  ELSE CASE op \in {"add", "sub", "mul", "div", "mod"} ->
              IF IsNum(a) THEN Arith(op, a, b, log)
              ELSE IF IsStr(a) /\ op = "add" THEN Ok(Str(a.s \o b.s), log)
              ELSE Err(log)
         [] op \in {"lt", "le", "gt", "ge"} ->
              IF ~IsNum(a) THEN Err(log)
              ELSE Ok(Bool(CASE op = "lt" -> RLt(a, b) [] op = "le" -> RLe(a, b)
                             [] op = "gt" -> RLt(b, a) [] op = "ge" -> RLe(b, a)), log)
         [] op = "eq" -> Ok(Bool(a = b), log)
         [] op = "ne" -> Ok(Bool(a # b), log)
         [] op \in {"and", "or", "xor"} ->
              IF ~IsBool(a) THEN Err(log)
              ELSE Ok(Bool(CASE op = "and" -> a.b /\ b.b [] op = "or" -> a.b \/ b.b
                             [] op = "xor" -> a.b # b.b), log)

\* ---- host functions that WRITE variables -------------------------------------
\* A host function may write the storer while an expression is being evaluated (the storer is
\* shared between host and runner).  "bump" adds 1 to the number variable BumpVar and returns the
\* new value.  The effect of a call is a function of the call log, so the store seen after a
\* sub-expression has been evaluated is EffStore(store, its log): operands evaluated later see
\* the write, operands evaluated earlier keep the value they had when they were read (C02).
BumpVar == "x"
Bumpable(st) == BumpVar \in DOMAIN st /\ st[BumpVar].t = "n" /\ st[BumpVar].d # 0
                /\ st[BumpVar].n + st[BumpVar].d <= MaxNum /\ st[BumpVar].n > -MaxNum
Bumped(v) == RAdd(v, IntV(1)).v
RECURSIVE EffStore(_, _, _)
EffStore(st, log, i) ==
  IF i > Len(log) THEN st
  ELSE IF log[i].name = "bump" /\ log[i].args = <<>> /\ Bumpable(st)
       THEN EffStore([st EXCEPT ![BumpVar] = Bumped(@)], log, i + 1)
       ELSE EffStore(st, log, i + 1)
\* the storer writes these effects are, in order
RECURSIVE EffWriteLog(_, _, _)
EffWriteLog(st, log, i) ==
  IF i > Len(log) THEN <<>>
  ELSE IF log[i].name = "bump" /\ log[i].args = <<>> /\ Bumpable(st)
       THEN <<[var |-> BumpVar, val |-> Bumped(st[BumpVar])]>>
            \o EffWriteLog([st EXCEPT ![BumpVar] = Bumped(@)], log, i + 1)
       ELSE EffWriteLog(st, log, i + 1)
Eff(env, log) == IF log = <<>> THEN env ELSE [env EXCEPT !.store = EffStore(@, log, 1)]

\* ---- host and built-in functions ------------------------------------------
\* behaviour classes of env.funcs[name]:
\*   "id"     raw probe: returns its single argument (any type); error if not 1 arg
\*   "boom"   raw probe: always returns an error
\*   "noret"  raw probe: returns nothing (no value, no error)
\*   "visited", "visited_count"  the runner's own functions (one string argument)
\*   "string", "number", "bool"  conversions (identity on the own type is all the
\*                               core cases use; richer contracts are Builtins')
\*   "unreg"  not registered: error
RECURSIVE SumVals(_, _)
\* sum of the integers args[i..]: a Norm record ([ok, v]); outside the window it is not ok
SumVals(args, i) == IF i = Len(args) THEN [ok |-> TRUE, v |-> args[i]]
                    ELSE LET rest == SumVals(args, i + 1) IN
                         IF ~rest.ok THEN rest ELSE RAdd(args[i], rest.v)
CallFn(kind, args, env, log) ==
  CASE kind = "id" -> IF Len(args) = 1 THEN Ok(args[1], log) ELSE Err(log)
    [] kind = "boom" -> Err(log)
    [] kind = "noret" -> Ok(Unset, log)
    \* (env already reflects the effects of evaluating the arguments; `log` already ends with this call)
    [] kind = "bump" -> IF Len(args) # 0 THEN Err(log)
                        ELSE IF BumpVar \notin DOMAIN env.store \/ env.store[BumpVar].t # "n" THEN Err(log)
                        ELSE IF ~Bumpable(env.store) THEN Oos(log)
                        ELSE Ok(Bumped(env.store[BumpVar]), log)
    \* host functions registered through the converting registration with parameters of NAMED
    \* string / bool / int types: typed identities (wrong type or count: error, never a panic)
    [] kind = "idstr" -> IF Len(args) = 1 /\ IsStr(args[1]) THEN Ok(args[1], log) ELSE Err(log)
    [] kind = "idbool" -> IF Len(args) = 1 /\ IsBool(args[1]) THEN Ok(args[1], log) ELSE Err(log)
    [] kind = "idint" -> IF Len(args) # 1 \/ ~IsNum(args[1]) THEN Err(log)
                         ELSE IF IsSpecial(args[1]) \/ args[1].d # 1 THEN Oos(log)     \* conversion of non-integers: not modelled
                         ELSE Ok(args[1], log)
    \* converted functions of several integer parameters: func(a, b Count) int and func(first Count, rest ...Count) int.
    \* A call refused for an argument (wrong type at any position, wrong count) leaves nothing behind: the next
    \* call of the same function gets exactly its own arguments (every call is judged on its own, whatever came before)
    [] kind \in {"add2", "sumv"} ->
         IF (kind = "add2" /\ Len(args) # 2) \/ (kind = "sumv" /\ Len(args) < 1) THEN Err(log)
         ELSE IF \E i \in 1..Len(args) : ~IsNum(args[i]) THEN Err(log)
         ELSE IF \E i \in 1..Len(args) : IsSpecial(args[i]) \/ args[i].d # 1 THEN Oos(log)
         ELSE FromNorm(SumVals(args, 1), log)
    [] kind = "visited" ->
         IF Len(args) # 1 \/ ~IsStr(args[1]) THEN Err(log)
         ELSE Ok(Bool(args[1].s \in env.nodes /\ env.visits[args[1].s] > 0), log)
    [] kind = "visited_count" ->
         IF Len(args) # 1 \/ ~IsStr(args[1]) THEN Err(log)
         ELSE Ok(IntV(IF args[1].s \in env.nodes THEN env.visits[args[1].s] ELSE 0), log)
    \* the numeric built-ins (their contracts for all doubles are property C19's; here: their
    \* values on the exact window, so that scripts using them stay inside the model)
    [] kind \in {"floor", "ceil", "round", "inc", "dec", "integer", "decimal"} ->
         IF Len(args) # 1 \/ ~IsNum(args[1]) THEN Err(log)
         ELSE IF IsSpecial(args[1]) THEN Oos(log)
         ELSE LET a == args[1] IN
             (CASE kind = "floor"   -> Ok(IntV(RFloorI(a)), log)
                [] kind = "ceil"    -> Ok(IntV(RCeilI(a)), log)
                [] kind = "round"   -> Ok(IntV(RRoundI(a)), log)
                [] kind = "inc"     -> Ok(IntV(RFloorI(a) + 1), log)
                [] kind = "dec"     -> Ok(IntV(RCeilI(a) - 1), log)
                [] kind = "integer" -> Ok(IntV(RTruncI(a)), log)
                [] kind = "decimal" -> FromNorm(RSub(a, IntV(RTruncI(a))), log))
    [] kind = "string" ->
         IF Len(args) # 1 \/ args[1].t = "u" THEN Err(log)
         ELSE IF IsSpecial(args[1]) THEN Oos(log) ELSE Ok(Str(Display(args[1])), log)
    \* dice(n): an integer in 1..n.  Out of domain (n < 1, NaN, +-Inf, beyond int64, not a
    \* number, wrong count) is a script-level fault; in domain the drawn value is not
    \* predictable (C09 bounds it), and for arguments the property only lists as values to
    \* try (non-integers) either outcome is fine: no verdict beyond "no panic".
    [] kind = "dice" ->
         IF Len(args) # 1 \/ ~IsNum(args[1]) THEN Err(log)
         ELSE LET a == args[1] IN
              IF NotInt64(a) THEN Err(log)
              ELSE IF IsSpecial(a) THEN (IF a.n < 0 THEN Err(log) ELSE Oos(log))
              ELSE IF a.d # 1 THEN (IF RFloorI(a) < 1 THEN Err(log) ELSE Oos(log))   \* no integer in [1, 0.5]
              ELSE IF a.n < 1 THEN Err(log) ELSE Oos(log)
    \* random_range(a, b): an integer in a..b; a > b is out of domain
    [] kind = "random_range" ->
         IF Len(args) # 2 \/ ~IsNum(args[1]) \/ ~IsNum(args[2]) THEN Err(log)
         ELSE LET a == args[1]  b == args[2] IN
              IF NotInt64(a) \/ NotInt64(b) THEN Err(log)
              ELSE IF IsSpecial(a) \/ IsSpecial(b) THEN
                     (IF IsSpecial(a) /\ a.n > 0 /\ ~(IsSpecial(b) /\ b.n > 0) THEN Err(log)    \* 2^62 > b
                      ELSE IF IsSpecial(b) /\ b.n < 0 /\ ~(IsSpecial(a) /\ a.n < 0) THEN Err(log) \* a > -2^62
                      ELSE Oos(log))
              \* bounds that are not whole numbers: the value is an integer BETWEEN them (C09), so
              \* random_range(0.25, 0.75) has nothing to draw from and is out of domain like (5, 1)
              ELSE IF a.d # 1 \/ b.d # 1 THEN (IF RCeilI(a) > RFloorI(b) THEN Err(log) ELSE Oos(log))
              ELSE IF a.n > b.n THEN Err(log) ELSE Oos(log)
    [] kind = "number" ->
         IF Len(args) = 1 /\ IsNum(args[1]) THEN Ok(args[1], log)
         ELSE IF Len(args) = 1 /\ IsBool(args[1]) THEN Ok(IntV(IF args[1].b THEN 1 ELSE 0), log)
         ELSE IF Len(args) # 1 THEN Err(log) ELSE Oos(log)   \* string parsing: Builtins'
    [] kind = "bool" ->
         IF Len(args) = 1 /\ IsBool(args[1]) THEN Ok(args[1], log)
         ELSE IF Len(args) = 1 /\ IsNum(args[1]) THEN Ok(Bool(args[1].n # 0), log)
         ELSE IF Len(args) # 1 THEN Err(log) ELSE Oos(log)
    [] OTHER -> Err(log)                                   \* "unreg"

FnKind(fn, env) == IF fn \in DOMAIN env.funcs THEN env.funcs[fn] ELSE "unreg"

RECURSIVE Eval(_, _)
RECURSIVE EvalArgs(_, _, _, _)

\* evaluates args[i..] left to right; acc = values so far; log = calls so far
EvalArgs(args, i, env, acc) ==
  IF i > Len(args) THEN [st |-> "ok", vals |-> acc.vals, log |-> acc.log]
  ELSE LET r == Eval(args[i], Eff(env, acc.log)) IN
       IF r.st # "ok" THEN [st |-> r.st, vals |-> acc.vals, log |-> acc.log \o r.log]
       \* a function that returned nothing cannot be passed on as a value (C06)
       ELSE IF r.v.t = "u" THEN [st |-> "err", vals |-> acc.vals, log |-> acc.log \o r.log]
       ELSE EvalArgs(args, i + 1, env, [vals |-> Append(acc.vals, r.v), log |-> acc.log \o r.log])

Eval(e, env) ==
  CASE e.k = "num"  -> FromNorm(Norm(e.n, e.d), <<>>)
    [] e.k = "special" -> Ok(Special(SpecialCode(e.c)), <<>>)
    [] e.k = "bool" -> Ok(Bool(e.b), <<>>)
    [] e.k = "str"  -> Ok(Str(e.s), <<>>)
    [] e.k = "null" -> Err(<<>>)                     \* the null literal has no value (C06)
    [] e.k = "var"  -> IF e.v \in DOMAIN env.store /\ env.store[e.v].t # "u"
                       THEN Ok(env.store[e.v], <<>>) ELSE Err(<<>>)
    [] e.k = "neg"  -> LET a == Eval(e.a, env) IN
                       IF a.st # "ok" THEN a
                       ELSE IF ~IsNum(a.v) THEN Err(a.log)
                       ELSE IF IsSpecial(a.v) THEN Oos(a.log) ELSE Ok(RNeg(a.v), a.log)
    [] e.k = "not"  -> LET a == Eval(e.a, env) IN
                       IF a.st # "ok" THEN a
                       ELSE IF ~IsBool(a.v) THEN Err(a.log) ELSE Ok(Bool(~a.v.b), a.log)
    [] e.k = "bin"  ->
         LET l == Eval(e.l, env) IN
         IF l.st # "ok" THEN l
         ELSE IF l.v.t = "u" THEN Err(l.log)          \* a function that returned nothing
         ELSE IF e.op \in {"and", "or"} /\ ~IsBool(l.v) THEN Err(l.log)
         ELSE IF e.op = "and" /\ ~l.v.b /\ ~Bug.eagerAnd THEN l   \* left decides: right not evaluated
         ELSE IF e.op = "or" /\ l.v.b THEN l
         ELSE LET r == Eval(e.r, Eff(env, l.log)) IN     \* the right operand sees what the left one wrote
              IF r.st # "ok" THEN R(r.st, Unset, l.log \o r.log)
              ELSE IF r.v.t = "u" THEN Err(l.log \o r.log)
              ELSE BinOp(e.op, l.v, r.v, l.log \o r.log)
    [] e.k = "call" ->
         LET a == EvalArgs(e.args, 1, env, [vals |-> <<>>, log |-> <<>>]) IN
         IF a.st # "ok" THEN R(a.st, Unset, a.log)
         ELSE LET kind == FnKind(e.fn, env)
                  log2 == IF e.fn \in env.probes
                          THEN Append(a.log, [name |-> e.fn, args |-> a.vals]) ELSE a.log
              IN CallFn(kind, a.vals, Eff(env, a.log), log2)

\* a value is required (line interpolation, set, condition, argument): a
\* function that returns nothing used as a value is a script-level fault (C06)
\* (a number outside the window reaching anything but a built-in's parameter: no verdict)
EvalValue(e, env) == LET r == Eval(e, env) IN
                     IF r.st = "ok" /\ r.v.t = "u" THEN Err(r.log)
                     ELSE IF r.st = "ok" /\ IsSpecial(r.v) THEN Oos(r.log) ELSE r
=============================================================================
