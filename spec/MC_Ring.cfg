SPECIFICATION Spec
CONSTANTS
  MaxEnq = 40
  Bug = "none"
INVARIANT Refines
CHECK_DEADLOCK FALSE
