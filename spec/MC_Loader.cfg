SPECIFICATION Spec
CONSTANTS
  MaxReaders = 3
  PerReaderOnly = FALSE
  Bug_IgnoreSyntaxErrors = FALSE
  Bug_NoNodeCheck = FALSE
  Bug_MixedPanics = FALSE
INVARIANTS TypeOK NoPanic WithinAllowed StartsAtFirst Row
PROPERTY Terminates
CHECK_DEADLOCK TRUE
