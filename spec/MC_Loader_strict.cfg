SPECIFICATION Spec
CONSTANTS
  MaxReaders = 3
  PerReaderOnly = TRUE
  Bug_IgnoreSyntaxErrors = FALSE
  Bug_NoNodeCheck = FALSE
  Bug_MixedPanics = FALSE
INVARIANTS TypeOK NoPanic WithinAllowed StartsAtFirst
PROPERTY Terminates
CHECK_DEADLOCK TRUE
