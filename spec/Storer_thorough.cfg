SPECIFICATION Spec
CONSTANTS
  Names = {"x", "y"}
  MaxOps = 4
  KeepsOldType = FALSE
  EmitBeh = TRUE
INVARIANTS StorerOneType Emit
CHECK_DEADLOCK FALSE
