------------------------------- MODULE Storer -------------------------------
(* The variable storer (variable/in_memory_storer.go): three maps, one per     *)
(* type, against the abstract store it has to implement: ONE map from names to *)
(* typed values ("the storer never reports one name under two types", C03).    *)
(*                                                                            *)
(* Specified design: a setter removes the name from the maps of the other two  *)
(* types.  KeepsOldType = TRUE models setters that only write their own map.   *)
(*                                                                            *)
(* Observations, transcribed from the code:                                    *)
(*   GetValue(n)  looks the name up in numbers, then booleans, then strings    *)
(*   GetValues()  merges booleans, then numbers, then strings (later wins)     *)
(*   Contains(n)  any of the three maps                                        *)
EXTENDS Integers, Sequences, TLC, Json

CONSTANTS Names, MaxOps, KeepsOldType, EmitBeh

Absent == [t |-> "u"]
NumV(x)  == [t |-> "n", n |-> x, d |-> 1]
BoolV(x) == [t |-> "b", b |-> x]
StrV(x)  == [t |-> "s", s |-> x]
Vals == {NumV(1), NumV(2), BoolV(TRUE), BoolV(FALSE), StrV("a"), StrV("")}

VARIABLES m,                 \* abstract: name -> value or Absent
          nums, bools, strs, \* implementation maps: name -> value or Absent
          hist
vars == <<m, nums, bools, strs, hist>>

Empty == [n \in Names |-> Absent]
Init == m = Empty /\ nums = Empty /\ bools = Empty /\ strs = Empty /\ hist = <<>>

GetValue(n) == IF nums[n] # Absent THEN nums[n]
               ELSE IF bools[n] # Absent THEN bools[n] ELSE strs[n]
GetValues(n) == IF strs[n] # Absent THEN strs[n]
                ELSE IF nums[n] # Absent THEN nums[n] ELSE bools[n]
Contains(n) == nums[n] # Absent \/ bools[n] # Absent \/ strs[n] # Absent

Obs == [n \in Names |-> [get |-> GetValue(n), all |-> GetValues(n), has |-> Contains(n)]]

Clr(map, n) == IF KeepsOldType THEN map ELSE [map EXCEPT ![n] = Absent]

Set(n, v) ==
  /\ Len(hist) < MaxOps
  /\ m' = [m EXCEPT ![n] = v]
  /\ nums'  = IF v.t = "n" THEN [nums EXCEPT ![n] = v] ELSE Clr(nums, n)
  /\ bools' = IF v.t = "b" THEN [bools EXCEPT ![n] = v] ELSE Clr(bools, n)
  /\ strs'  = IF v.t = "s" THEN [strs EXCEPT ![n] = v] ELSE Clr(strs, n)
  /\ hist' = Append(hist, [op |-> "set", name |-> n, val |-> v])

Clear ==
  /\ Len(hist) < MaxOps
  /\ m' = Empty /\ nums' = Empty /\ bools' = Empty /\ strs' = Empty
  /\ hist' = Append(hist, [op |-> "clear", name |-> "", val |-> Absent])

Next == (\E n \in Names, v \in Vals : Set(n, v)) \/ Clear
Spec == Init /\ [][Next]_vars

\* every observation agrees with the abstract one-map store
StorerOneType ==
  \A n \in Names : /\ GetValue(n) = m[n]
                   /\ GetValues(n) = m[n]
                   /\ Contains(n) = (m[n] # Absent)

\* expected observations (of the ABSTRACT store) after the history, for replay
Expected == [n \in Names |-> [get |-> m[n], all |-> m[n], has |-> (m[n] # Absent)]]
Emit == (EmitBeh /\ Len(hist) = MaxOps) =>
          PrintT(<<"BEH", ToJson([hist |-> hist, exp |-> Expected])>>)
=============================================================================
