----------------------------- MODULE LoaderTrace -----------------------------
(* Code -> spec for the load protocol (property C05).                         *)
(*                                                                            *)
(* trace.ndjson: one `load` event per call of ysgo.NewDialogueRunner made by  *)
(* the harness:                                                               *)
(*   [id, kind,                                                               *)
(*    readers : << [errs, mixed, nodes, consumed, opanic, blank], ... >> facts *)
(*              of the independent ANTLR oracle for every reader on its own,  *)
(*    whole   : the same facts for the concatenation of all readers,          *)
(*    blank   : the concatenation is empty or white space only,               *)
(*    seedclass : "empty" | "valid" | "invalid",                              *)
(*    outcome : "runner" | "error" | "panic" | "timeout",                     *)
(*    startok : (runner) its current node is the first node of reader 1]      *)
(* One TLC state per event; events are independent.  The verdict is module    *)
(* Loader's Allowed(readers, whole, seedclass); the spec never blocks, every  *)
(* rejected event is appended to `bad` with the class of the failure.         *)
EXTENDS Integers, Sequences, TLC, Json

CONSTANT PerReaderOnly

L == INSTANCE Loader WITH Bug_IgnoreSyntaxErrors <- FALSE, Bug_NoNodeCheck <- FALSE,
                          Bug_MixedPanics <- FALSE,
                          rs <- <<>>, whole <- 0, seed <- "", pc <- "", i <- 0, acc <- <<>>,
                          outcome <- "", start <- 0

Trace == ndJsonDeserialize("trace.ndjson")

VARIABLES l,      \* next event
          bad,    \* rejected events (capped)
          nbad,   \* number of rejected events
          cnt     \* events per region of the property: <<must-error, must-runner, open>>
vars == <<l, bad, nbad, cnt>>

Init == l = 1 /\ bad = <<>> /\ nbad = 0 /\ cnt = <<0, 0, 0>>

Inv(r) == L!Class(r) = "invalid" /\ ~r.blank
FirstInvalid(rs) == CHOOSE j \in DOMAIN rs : Inv(rs[j]) /\ \A k \in DOMAIN rs : (k < j) => ~Inv(rs[k])

\* why the property calls this input invalid / valid / leaves it open
Why(e) ==
  IF L!MustError(e.readers, e.whole)
  THEN IF e.blank \/ e.readers = <<>> THEN "empty"
       ELSE IF \E j \in DOMAIN e.readers : Inv(e.readers[j]) THEN L!Reason(e.readers[FirstInvalid(e.readers)])
       ELSE "empty"   \* per-reader-only reading: a blank reader next to others
  ELSE IF L!MustRunner(e.readers, e.whole, e.seedclass) THEN "valid"
  ELSE "open"

Judge(e) ==
  LET allowed == L!Allowed(e.readers, e.whole, e.seedclass) IN
  IF e.outcome \in {"panic", "timeout"} THEN e.outcome
  ELSE IF e.outcome \notin {"runner", "error"} THEN "unknown-outcome"
  ELSE IF e.outcome \notin allowed THEN (IF e.outcome = "runner" THEN "accepted" ELSE "rejected")
  ELSE IF e.outcome = "runner" /\ allowed = {"runner"} /\ ~e.startok THEN "wrong-start-node"
  ELSE "ok"

Region(e) == IF L!MustError(e.readers, e.whole) THEN 1
             ELSE IF L!MustRunner(e.readers, e.whole, e.seedclass) THEN 2 ELSE 3

Step ==
  /\ l <= Len(Trace)
  /\ LET e == Trace[l]  v == Judge(e)  r == Region(e) IN
     /\ l' = l + 1
     /\ cnt' = [cnt EXCEPT ![r] = @ + 1]
     /\ nbad' = nbad + (IF v = "ok" THEN 0 ELSE 1)
     /\ bad' = IF v # "ok" /\ Len(bad) < 2000
               THEN Append(bad, [id |-> e.id, what |-> v, why |-> Why(e), got |-> e.outcome,
                                 allowed |-> L!Allowed(e.readers, e.whole, e.seedclass)])
               ELSE bad

Spec == Init /\ [][Step]_vars

Done == (l = Len(Trace) + 1) =>
          PrintT(<<"RESULT", ToJson([bad |-> bad, nbad |-> nbad, events |-> l - 1,
                                     mustError |-> cnt[1], mustRunner |-> cnt[2], open |-> cnt[3]])>>)
=============================================================================
