----------------------------- MODULE YarnValues -----------------------------
(* Values of the Yarn language as the specifications see them.                 *)
(*                                                                            *)
(*   number  [t |-> "n", n |-> numerator, d |-> denominator]  exact rational, *)
(*           normalised (d > 0, gcd(n, d) = 1).  TLC has neither reals nor     *)
(*           64-bit integers, so the specifications work in the WINDOW of     *)
(*           numbers that IEEE-754 doubles represent exactly and on which      *)
(*           double arithmetic equals rational arithmetic: d a power of two    *)
(*           <= MaxDen and |n| <= MaxNum.  A result outside the window makes   *)
(*           the evaluation "out of scope" (OOS): the model gives no verdict   *)
(*           (generators stay inside the window; an OOS case is counted and    *)
(*           skipped, never reported).                                         *)
(*   boolean [t |-> "b", b |-> BOOLEAN]                                        *)
(*   string  [t |-> "s", s |-> STRING]        (ASCII in everything TLC sees)   *)
(*   Unset   [t |-> "u"]                      (no value: unknown variable,     *)
(*                                             function returning nothing)     *)
EXTENDS Integers, Sequences, TLC

MaxNum == 32768      \* 2^15
MaxDen == 256        \* 2^8

Num(n, d) == [t |-> "n", n |-> n, d |-> d]
IntV(n)    == Num(n, 1)
Bool(b)   == [t |-> "b", b |-> b]
Str(s)    == [t |-> "s", s |-> s]
Unset     == [t |-> "u"]

IsNum(v)  == v.t = "n"
IsBool(v) == v.t = "b"
IsStr(v)  == v.t = "s"

Abs(x) == IF x < 0 THEN -x ELSE x

RECURSIVE Gcd(_, _)
Gcd(a, b) == IF b = 0 THEN a ELSE Gcd(b, a % b)

IsPow2(d) == d \in {1, 2, 4, 8, 16, 32, 64, 128, 256}

\* normalise n/d (d # 0); result [ok, v]: ok = FALSE means outside the window
Norm(n, d) ==
  LET sg == IF d < 0 THEN -1 ELSE 1
      g  == Gcd(Abs(n), Abs(d))
      nn == (sg * n) \div g      \* exact division
      dd == Abs(d) \div g
  IN IF IsPow2(dd) /\ Abs(nn) <= MaxNum
     THEN [ok |-> TRUE, v |-> Num(nn, dd)]
     ELSE [ok |-> FALSE, v |-> Unset]

\* All operands are inside the window, so every product below is < 2^31.
RAdd(a, b) == Norm(a.n * b.d + b.n * a.d, a.d * b.d)
RSub(a, b) == Norm(a.n * b.d - b.n * a.d, a.d * b.d)
RMul(a, b) == \* reduce crosswise first so that products stay small
  LET g1 == Gcd(Abs(a.n), b.d)  g2 == Gcd(Abs(b.n), a.d)
      n1 == a.n \div g1  d2 == b.d \div g1
      n2 == b.n \div g2  d1 == a.d \div g2
  IN IF Abs(n1) * Abs(n2) > MaxNum * 8 \/ d1 * d2 > MaxDen * 8
     THEN [ok |-> FALSE, v |-> Unset]
     ELSE Norm(n1 * n2, d1 * d2)
RDiv(a, b) == \* b # 0
  RMul(a, Num(IF b.n < 0 THEN -b.d ELSE b.d, Abs(b.n)))
RLt(a, b) == a.n * b.d < b.n * a.d
RLe(a, b) == a.n * b.d <= b.n * a.d
RNeg(a)   == Num(-a.n, a.d)

\* truncation toward zero of n/d (\div floors)
Trunc(n, d) == IF n >= 0 THEN n \div d ELSE -((-n) \div d)

\* floating remainder: a - b * trunc(a / b), sign of a   (b # 0)
RMod(a, b) ==
  LET sgb == IF b.n < 0 THEN -1 ELSE 1
      q   == Trunc(a.n * b.d * sgb, a.d * Abs(b.n))
      qb  == RMul(IntV(q), b)
  IN IF Abs(q) > MaxNum \/ ~qb.ok THEN [ok |-> FALSE, v |-> Unset] ELSE RSub(a, qb.v)

IsIntegral(v) == v.d = 1

\* the rounding built-ins on exact rationals (d > 0; \div floors)
RFloorI(a) == a.n \div a.d
RCeilI(a)  == -((-a.n) \div a.d)
RTruncI(a) == Trunc(a.n, a.d)
\* math.Round: nearest integer, halves away from zero
RRoundI(a) == IF a.n >= 0 THEN (2 * a.n + a.d) \div (2 * a.d)
              ELSE -((2 * (-a.n) + a.d) \div (2 * a.d))

\* ----------------------------------------------------------------- display
\* decimal digits of r/d (0 <= r < d, d a power of two): terminates in <= 8 steps
RECURSIVE FracDigits(_, _)
FracDigits(r, d) == IF r = 0 THEN ""
                    ELSE ToString((r * 10) \div d) \o FracDigits((r * 10) % d, d)

\* the display form of property C04: integral numbers without a decimal point,
\* other numbers in shortest round-trip decimal (exact for dyadic fractions in
\* the window), booleans True/False, strings verbatim
Display(v) ==
  CASE v.t = "n" ->
         IF v.d = 1 THEN ToString(v.n)
         ELSE LET a == Abs(v.n) IN
              (IF v.n < 0 THEN "-" ELSE "") \o ToString(a \div v.d) \o "." \o FracDigits(a % v.d, v.d)
    [] v.t = "b" -> IF v.b THEN "True" ELSE "False"
    [] v.t = "s" -> v.s
    [] OTHER -> ""

\* ------------------------------------------------------------------ strings
IsSpaceCh(c) == c = " " \/ c = "\t"
RECURSIVE TrimLeft(_)
TrimLeft(s) == IF Len(s) > 0 /\ IsSpaceCh(SubSeq(s, 1, 1)) THEN TrimLeft(SubSeq(s, 2, Len(s))) ELSE s
RECURSIVE TrimRight(_)
TrimRight(s) == IF Len(s) > 0 /\ IsSpaceCh(SubSeq(s, Len(s), Len(s)))
                THEN TrimRight(SubSeq(s, 1, Len(s) - 1)) ELSE s
Trim(s) == TrimRight(TrimLeft(s))
=============================================================================
