-------------------------- MODULE MarkupHistoryTrace --------------------------
(* Code -> spec for property C14: the result of parsing a line's markup is a  *)
(* function of that line alone.                                               *)
(*                                                                            *)
(* trace.ndjson: batches, each a header [ev |-> "header", b, nlines |-> N]    *)
(* (line ids are local to a batch: 1..N) followed by one event per call       *)
(*   [ev |-> "parse", h, p |-> "fresh"|"reused"|"runner", line |-> id in 1..N,*)
(*    outcome, got |-> [ok, text, attrs |-> <<[name, pos, len, src, props,    *)
(*    tfa]...>>]]                                                             *)
(* "fresh": a new LineParser per call; "reused": one parser value for the     *)
(* whole history h; "runner": the line as shown by a dialogue runner that has *)
(* shown other lines before.  The specification keeps, per line, the result   *)
(* first observed on a fresh parser (memo) and requires EVERY later result    *)
(* for that line - outcome, text, every attribute with position, length,      *)
(* source position, properties and TextForAttribute - to equal it.            *)
EXTENDS Integers, Sequences, FiniteSets, TLC, Json

Trace == ndJsonDeserialize("trace.ndjson")
VARIABLES l, memo, bad, nchk
vars == <<l, memo, bad, nchk>>

Init == l = 1 /\ memo = <<>> /\ bad = <<>> /\ nchk = 0

ToSet(s) == {s[i] : i \in DOMAIN s}
Count(s, x) == Cardinality({i \in DOMAIN s : s[i] = x})
SameBag(a, b) == Len(a) = Len(b) /\ \A i \in DOMAIN a : Count(a, a[i]) = Count(b, a[i])

Attr(a) == [name |-> a.name, pos |-> a.pos, len |-> a.len, src |-> a.src, props |-> ToSet(a.props), tfa |-> a.tfa]
Res(e) == [outcome |-> e.outcome, text |-> e.got.text, attrs |-> [i \in DOMAIN e.got.attrs |-> Attr(e.got.attrs[i])]]
Same(r1, r2) == r1.outcome = r2.outcome /\ r1.text = r2.text /\ SameBag(r1.attrs, r2.attrs)

Step ==
  /\ l <= Len(Trace)
  /\ l' = l + 1
  /\ IF Trace[l].ev = "header"
     THEN memo' = [i \in 1..Trace[l].nlines |-> <<>>] /\ UNCHANGED <<bad, nchk>>
     ELSE
     LET e == Trace[l]  r == Res(e) IN
     IF memo[e.line] = <<>>
     THEN \* first sight of this line: must be on a fresh parser (the recorder's order)
          /\ memo' = [memo EXCEPT ![e.line] = <<r, l>>]
          /\ nchk' = nchk
          /\ bad' = IF e.p = "fresh" THEN bad ELSE Append(bad, [line |-> l, id |-> e.line, h |-> e.h, p |-> e.p, ref |-> 0])
     ELSE /\ UNCHANGED memo
          /\ nchk' = nchk + 1
          /\ bad' = IF Same(r, memo[e.line][1]) \/ Len(bad) >= 60 THEN bad
                    ELSE Append(bad, [line |-> l, id |-> e.line, h |-> e.h, p |-> e.p, ref |-> memo[e.line][2]])

Spec == Init /\ [][Step]_vars

Done == (l = Len(Trace) + 1) =>
          PrintT(<<"RESULT", ToJson([bad |-> bad, checked |-> nchk, lines |-> l - 1])>>)
Accepted == TLCGet("stats").diameter - 1 = Len(Trace)
=============================================================================
