SPECIFICATION Spec
CONSTANTS
  PerReaderOnly = TRUE
INVARIANT Done
CHECK_DEADLOCK FALSE
