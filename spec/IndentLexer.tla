---------------------------- MODULE IndentLexer ----------------------------
(* The indentation layer of internal/parser/indent_aware_lexer.go.            *)
(*                                                                            *)
(* The ANTLR lexer produces one NEWLINE token per line break; its text also   *)
(* contains the spaces/tabs that follow the break, i.e. the indentation of    *)
(* the NEXT line.  handleNewLineToken compares that width with a stack of     *)
(* open indentation levels and synthesises INDENT / DEDENT tokens;            *)
(* handleEndOfFileToken closes every open level and then emits EOF.           *)
(*                                                                            *)
(* A line is abstracted to [w, k]: w = width (spaces + 8 * tabs), k = kind of *)
(* the line that FOLLOWS the break: "content", "blank" (nothing or only       *)
(* whitespace before the next break / end of input) or "comment" (only a      *)
(* // comment).  Specified design (property C08): blank and comment-only      *)
(* lines never open or close a level.  BlankCounts = TRUE models the other    *)
(* behaviour (every NEWLINE is compared with the stack), used to show that    *)
(* the layout property is not vacuous.                                        *)
EXTENDS Integers, Sequences

Last(s) == s[Len(s)]
Top(stk) == IF stk = <<>> THEN 0 ELSE Last(stk)

\* elements of the (strictly increasing) stack that stay open at width w
RECURSIVE KeepUpTo(_, _)
KeepUpTo(stk, w) == IF stk = <<>> \/ Last(stk) <= w THEN stk
                    ELSE KeepUpTo(SubSeq(stk, 1, Len(stk) - 1), w)

Rep(tok, n) == [i \in 1..n |-> tok]

\* effect of one NEWLINE token: new stack + synthetic tokens emitted after it
NewlineStep(stk, w, k, blankCounts) ==
  IF k # "content" /\ ~blankCounts THEN [stk |-> stk, toks |-> <<>>]
  ELSE IF w > Top(stk) THEN [stk |-> Append(stk, w), toks |-> <<"IN">>]
  ELSE IF w < Top(stk)
       THEN LET kept == KeepUpTo(stk, w)
            IN [stk |-> kept, toks |-> Rep("DE", Len(stk) - Len(kept))]
       ELSE [stk |-> stk, toks |-> <<>>]

\* effect of the end of input: synthetic tokens emitted before the single EOF
EofStep(stk) == [stk |-> <<>>, toks |-> Rep("DE", Len(stk))]

StrictlyIncreasing(stk) == \A i \in 1..(Len(stk) - 1) : stk[i] < stk[i + 1]
=============================================================================
