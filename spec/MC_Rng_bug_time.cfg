SPECIFICATION Spec
CONSTANTS
  Runners <- MCRunners
  SeedOf <- MCSeedOf
  ScriptLen = 2
  MaxClock = 2
  Bug_SharedSource = FALSE
  Bug_TimeSeed = TRUE
INVARIANT SameSeedSameRun
PROPERTY NonInterference
CHECK_DEADLOCK FALSE
