SPECIFICATION Spec
CONSTANTS
  PTcall = {"MyInt", "int8", "float32", "MyBool", "string", "uint", "struct"}
  PT3 = {}
  MaxP = 2
  MaxA = 3
  Emit = TRUE
  Bug_NoNilCheck = FALSE
  Bug_ConvertByKind = FALSE
  Bug_NoTooManyCheck = FALSE
  AcceptU = FALSE
INVARIANTS AcceptedIsTotal TableTotal EmitRow
CHECK_DEADLOCK FALSE
