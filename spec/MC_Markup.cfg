SPECIFICATION Spec
CONSTANTS
  MaxLen = 4
  Alpha = "q"
  EmitBeh = TRUE
  Bug_BytePositions = FALSE
  Bug_NoTrimAdjust = FALSE
  Bug_CloseAllClosesLast = FALSE
  Bug_NoSwallow = FALSE
  Bug_NoResetSourcePosition = FALSE
  PairLast = FALSE
INVARIANTS ArithmeticEqualsProvenance TextIsItemsWithoutMarkers RangesInsideText SortedStable RegionNeverFails PairingOnlyMattersWhenNested Emit
CHECK_DEADLOCK FALSE
